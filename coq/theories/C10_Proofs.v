(* C10 — proofs.  Part A: maps and strings; Part B: HostWithoutPort; Part C: no capture (frame
   property of every controller step, in every state); Part D: the name-ownership invariant over
   all legal histories and its consequences. *)
From KG Require Import Prelude C10_Model C10_Spec.
From Coq Require Import ZifyBool ZifyNat ZifyN.
Open Scope string_scope.
Open Scope Z_scope.

(* ================================================================== Part A: basics *)

Lemma lower_ascii_idem a : lower_ascii (lower_ascii a) = lower_ascii a.
Proof.
  destruct a as [b0 b1 b2 b3 b4 b5 b6 b7];
  destruct b0, b1, b2, b3, b4, b5, b6, b7; reflexivity.
Qed.

Lemma to_lower_idem s : to_lower (to_lower s) = to_lower s.
Proof. induction s as [|a r IH]; simpl; [reflexivity|]. now rewrite lower_ascii_idem, IH. Qed.

Definition lowered (s : string) : Prop := to_lower s = s.
Lemma lowered_to_lower s : lowered (to_lower s).
Proof. apply to_lower_idem. Qed.

Lemma lowered_cons a s : lowered (String a s) <-> lower_ascii a = a /\ lowered s.
Proof.
  unfold lowered; simpl; split.
  - intros H; inversion H as [[H1 H2]]. now rewrite H1, H2.
  - intros [H1 H2]. now rewrite H1, H2.
Qed.

Lemma smem_In x l : smem x l = true <-> In x l.
Proof. apply str_mem_In. Qed.

Lemma smem_false x l : smem x l = false <-> ~ In x l.
Proof.
  rewrite <- smem_In. split; intros H.
  - intros H2; congruence.
  - destruct (smem x l); [exfalso; apply H; reflexivity|reflexivity].
Qed.

Lemma seqb_refl s : String.eqb s s = true.
Proof. apply String.eqb_refl. Qed.

Lemma list_eqb_str a b : list_eqb String.eqb a b = true <-> a = b.
Proof. apply list_eqb_eq. intros x y. apply String.eqb_eq. Qed.

(* --- the manager map *)
Lemma m_get_del_eq k m : m_get k (m_del k m) = None.
Proof.
  induction m as [|[k' v] r IH]; simpl; [reflexivity|].
  destruct (String.eqb_spec k k') as [->|Hne]; simpl; [exact IH|].
  destruct (String.eqb_spec k k'); [congruence|exact IH].
Qed.

Lemma m_get_del_neq k k' m : k' <> k -> m_get k' (m_del k m) = m_get k' m.
Proof.
  intros Hne. induction m as [|[k0 v] r IH]; simpl; [reflexivity|].
  destruct (String.eqb_spec k k0) as [->|Hne0]; simpl.
  - destruct (String.eqb_spec k' k0); [congruence|exact IH].
  - destruct (String.eqb_spec k' k0); [reflexivity|exact IH].
Qed.

Lemma m_get_set_eq k v m : m_get k (m_set k v m) = Some v.
Proof. unfold m_set; simpl. now rewrite seqb_refl. Qed.

Lemma m_get_set_neq k k' v m : k' <> k -> m_get k' (m_set k v m) = m_get k' m.
Proof.
  intros Hne. unfold m_set; simpl.
  destruct (String.eqb_spec k' k); [congruence|]. now apply m_get_del_neq.
Qed.

(* --- set_nth *)
Lemma nth_error_set_nth_eq {A} (l : list A) n v x :
  nth_error l n = Some x -> nth_error (set_nth n v l) n = Some v.
Proof.
  revert n; induction l as [|y r IH]; intros [|n] H; simpl in *; try discriminate; [reflexivity|].
  now apply IH.
Qed.

Lemma nth_error_set_nth_neq {A} (l : list A) n m v :
  n <> m -> nth_error (set_nth n v l) m = nth_error l m.
Proof.
  revert n m; induction l as [|y r IH]; intros [|n] [|m] H; simpl; try reflexivity; try congruence.
  apply IH. congruence.
Qed.

Lemma set_nth_length {A} (l : list A) n v : List.length (set_nth n v l) = List.length l.
Proof. revert n; induction l as [|y r IH]; intros [|n]; simpl; auto. Qed.

Lemma nth_error_set_nth_None {A} (l : list A) n v :
  nth_error l n = None -> set_nth n v l = l.
Proof.
  revert n; induction l as [|y r IH]; intros [|n] H; simpl in *; try reflexivity; try discriminate.
  now rewrite IH.
Qed.

(* ================================================================== Part B: HostWithoutPort *)

Definition nospecial (s : string) : Prop :=
  has_char colon s = false /\ has_char lbrack s = false /\ has_char rbrack s = false.

Lemma lower_ascii_special a c :
  (c = colon \/ c = lbrack \/ c = rbrack) ->
  Ascii.eqb (lower_ascii a) c = Ascii.eqb a c.
Proof.
  intros [H|[H|H]]; subst c;
  destruct a as [b0 b1 b2 b3 b4 b5 b6 b7];
  destruct b0, b1, b2, b3, b4, b5, b6, b7; reflexivity.
Qed.

Lemma has_char_lower c s :
  (c = colon \/ c = lbrack \/ c = rbrack) -> has_char c (to_lower s) = has_char c s.
Proof.
  intros Hc. induction s as [|a r IH]; simpl; [reflexivity|].
  now rewrite (lower_ascii_special a c Hc), IH.
Qed.

Lemma nospecial_lower s : nospecial s -> nospecial (to_lower s).
Proof.
  unfold nospecial. rewrite !has_char_lower by tauto. tauto.
Qed.

Lemma to_lower_app a b : to_lower (a ++ b) = to_lower a ++ to_lower b.
Proof. induction a as [|x r IH]; simpl; [reflexivity|]. now rewrite IH. Qed.

Lemma has_char_app c a b : has_char c (a ++ b) = (has_char c a || has_char c b)%bool.
Proof.
  induction a as [|x r IH]; simpl; [reflexivity|].
  destruct (Ascii.eqb x c); [reflexivity|exact IH].
Qed.

Lemma split_last_colon_none s : has_char colon s = false -> split_last_colon s = None.
Proof.
  induction s as [|a r IH]; simpl; [reflexivity|].
  destruct (Ascii.eqb a colon) eqn:E; [discriminate|]. intros H. now rewrite (IH H).
Qed.

Lemma split_last_colon_app s p :
  has_char colon p = false -> split_last_colon (s ++ String colon p) = Some (s, p).
Proof.
  intros Hp. induction s as [|a r IH]; simpl.
  - now rewrite (split_last_colon_none p Hp).
  - now rewrite IH.
Qed.

Lemma has_char_cons_false c a s : has_char c (String a s) = false -> Ascii.eqb a c = false /\ has_char c s = false.
Proof. simpl. destruct (Ascii.eqb a c); [discriminate|tauto]. Qed.

(* a host name without ':' '[' ']' followed by ":port" : the port is cut off *)
Lemma split_host_port_plain s p :
  s <> EmptyString -> nospecial s -> nospecial p ->
  split_host_port (s ++ String colon p) = Some s.
Proof.
  intros Hne (Hs1 & Hs2 & Hs3) (Hp1 & Hp2 & Hp3).
  unfold split_host_port. rewrite (split_last_colon_app s p Hp1).
  destruct s as [|a r]; [congruence|]. simpl append.
  destruct (has_char_cons_false _ _ _ Hs2) as [Ha _]. rewrite Ha.
  rewrite Hs1.
  change (String a (r ++ String colon p)) with (String a r ++ String colon p).
  rewrite !has_char_app. rewrite Hs2, Hs3. simpl.
  now rewrite Hp2, Hp3.
Qed.

Lemma split_host_port_noport s : has_char colon s = false -> split_host_port s = None.
Proof. intros H. unfold split_host_port. now rewrite (split_last_colon_none s H). Qed.

Lemma hwp_with_port s p :
  s <> EmptyString -> nospecial s -> nospecial p ->
  host_without_port (s ++ String colon p) = to_lower s.
Proof.
  intros Hne Hs Hp. unfold host_without_port.
  rewrite to_lower_app. simpl to_lower.
  assert (lower_ascii colon = colon) as -> by reflexivity.
  rewrite split_host_port_plain; auto using nospecial_lower.
  destruct s; simpl; congruence.
Qed.

Lemma hwp_without_port s : nospecial s -> host_without_port s = to_lower s.
Proof.
  intros (Hs & _). unfold host_without_port.
  rewrite split_host_port_noport; [reflexivity|]. now rewrite has_char_lower by tauto.
Qed.

(* the result of HostWithoutPort is lower-case *)
Lemma split_last_colon_lowered s h p :
  split_last_colon s = Some (h, p) -> lowered s -> lowered h /\ lowered p.
Proof.
  revert h p; induction s as [|a r IH]; intros h p; simpl; [discriminate|].
  intros H Hl. apply lowered_cons in Hl as [Ha Hr].
  destruct (split_last_colon r) as [[h0 p0]|] eqn:E.
  - inversion H; subst. destruct (IH _ _ eq_refl Hr) as [H1 H2]. split; [apply lowered_cons; tauto|exact H2].
  - destruct (Ascii.eqb a colon); [|discriminate]. inversion H; subst. split; [reflexivity|exact Hr].
Qed.

Lemma split_first_rbrack_lowered s h t :
  split_first_rbrack s = Some (h, t) -> lowered s -> lowered h /\ lowered t.
Proof.
  revert h t; induction s as [|a r IH]; intros h t; simpl; [discriminate|].
  intros H Hl. apply lowered_cons in Hl as [Ha Hr].
  destruct (Ascii.eqb a rbrack).
  - inversion H; subst. split; [reflexivity|exact Hr].
  - destruct (split_first_rbrack r) as [[h0 t0]|] eqn:E; [|discriminate].
    inversion H; subst. destruct (IH _ _ eq_refl Hr) as [H1 H2]. split; [apply lowered_cons; tauto|exact H2].
Qed.

Lemma split_host_port_lowered s h : split_host_port s = Some h -> lowered s -> lowered h.
Proof.
  unfold split_host_port. intros H Hl.
  destruct (split_last_colon s) as [[before port]|] eqn:E; [|discriminate].
  destruct (split_last_colon_lowered _ _ _ E Hl) as [Hb Hp].
  destruct s as [|a rest]; [discriminate|].
  apply lowered_cons in Hl as [Ha Hrest].
  destruct (Ascii.eqb a lbrack).
  - destruct (split_first_rbrack rest) as [[host after]|] eqn:E2; [|discriminate].
    destruct (split_first_rbrack_lowered _ _ _ E2 Hrest) as [Hh _].
    destruct after as [|b p']; [discriminate|].
    destruct (Ascii.eqb b colon && String.eqb p' port)%bool; [|discriminate].
    destruct (has_char lbrack host || has_char lbrack (String b p') || has_char rbrack (String b p'))%bool;
      [discriminate|]. now inversion H; subst.
  - destruct (has_char colon before); [discriminate|].
    destruct (has_char lbrack (String a rest) || has_char rbrack (String a rest))%bool; [discriminate|].
    now inversion H; subst.
Qed.

Lemma hwp_lowered h : lowered (host_without_port h).
Proof.
  unfold host_without_port.
  destruct (split_host_port (to_lower h)) as [x|] eqn:E.
  - eapply split_host_port_lowered; [exact E|apply lowered_to_lower].
  - apply lowered_to_lower.
Qed.

(* ================================================================== Part C: no capture *)
(* [other g cn k]: what key k resolves to, if that is a ClusterInfo of a cluster OTHER than cn.
   Every controller step for cluster cn leaves [other _ cn] unchanged, in every state. *)

Definition other (g : gw) (cn k : string) : option (nat * info) :=
  match get_id g k with
  | Some id =>
      match nth_error (g_infos g) id with
      | Some i => if String.eqb (i_cluster i) cn then None else Some (id, i)
      | None => None
      end
  | None => None
  end.

Definition frame (cn : string) (g g' : gw) : Prop := forall k, other g' cn k = other g cn k.

Lemma frame_refl cn g : frame cn g g.
Proof. intros k; reflexivity. Qed.

Lemma frame_trans cn g1 g2 g3 : frame cn g1 g2 -> frame cn g2 g3 -> frame cn g1 g3.
Proof. intros H1 H2 k. now rewrite H2, H1. Qed.

Lemma owned_other g cn k : owned_by_other g cn k = false <-> other g cn k = None.
Proof.
  unfold owned_by_other, other, get.
  destruct (get_id g k) as [id|]; [|tauto].
  destruct (nth_error (g_infos g) id) as [i|]; [|tauto].
  destruct (String.eqb (i_cluster i) cn); simpl; split; intros H; congruence.
Qed.

Lemma get_cluster_other g cn k c :
  get g k = Some c -> i_cluster c = cn -> other g cn k = None.
Proof.
  unfold get, other. destruct (get_id g k) as [id|]; [|discriminate].
  intros -> <-. now rewrite seqb_refl.
Qed.

Lemma frame_add_key cn g k0 id i :
  other g cn k0 = None -> nth_error (g_infos g) id = Some i -> i_cluster i = cn ->
  frame cn g (add_key g k0 id).
Proof.
  intros Ho Hn Hc k. unfold other, get_id, add_key; cbn [g_mgr g_infos].
  destruct (String.eqb_spec (to_lower k) (to_lower k0)) as [E|Hne].
  - rewrite E, m_get_set_eq, Hn, Hc, seqb_refl.
    unfold other, get_id in Ho. now rewrite Ho.
  - now rewrite m_get_set_neq.
Qed.

Lemma frame_del_key cn g k0 : other g cn k0 = None -> frame cn g (del_key g k0).
Proof.
  intros Ho k. unfold other, get_id, del_key; cbn [g_mgr g_infos].
  destruct (String.eqb_spec (to_lower k) (to_lower k0)) as [E|Hne].
  - rewrite E, m_get_del_eq. unfold other, get_id in Ho. now rewrite Ho.
  - now rewrite m_get_del_neq.
Qed.

Lemma frame_upd_info cn g id i i' :
  nth_error (g_infos g) id = Some i -> i_cluster i = cn -> i_cluster i' = cn ->
  frame cn g (upd_info g id i').
Proof.
  intros Hn Hc Hc' k. unfold other, get_id, upd_info; cbn [g_mgr g_infos].
  destruct (m_get (to_lower k) (g_mgr g)) as [id'|]; [|reflexivity].
  destruct (Nat.eq_dec id id') as [<-|Hne].
  - rewrite (nth_error_set_nth_eq _ _ _ _ Hn), Hn, Hc, Hc'. now rewrite seqb_refl.
  - now rewrite nth_error_set_nth_neq.
Qed.

Lemma frame_append cn g i :
  i_cluster i = cn -> frame cn g {| g_infos := (g_infos g ++ [i])%list; g_mgr := g_mgr g |}.
Proof.
  intros Hc k. unfold other, get_id; cbn [g_mgr g_infos].
  destruct (m_get (to_lower k) (g_mgr g)) as [id|]; [|reflexivity].
  destruct (Nat.lt_ge_cases id (List.length (g_infos g))) as [Hlt|Hge].
  - now rewrite nth_error_app1.
  - rewrite nth_error_app2 by exact Hge.
    assert (nth_error (g_infos g) id = None) as -> by now apply nth_error_None.
    destruct (id - List.length (g_infos g))%nat as [|m]; simpl.
    + now rewrite Hc, seqb_refl.
    + now destruct m.
Qed.

Lemma stop_info_cluster i : i_cluster (stop_info i) = i_cluster i.
Proof. reflexivity. Qed.

Lemma frame_del_key_stop cn g k0 : other g cn k0 = None -> frame cn g (del_key_stop g k0).
Proof.
  intros Ho. unfold del_key_stop.
  destruct (get_id g k0) as [id|] eqn:Eid; [|apply frame_refl].
  destruct (nth_error (g_infos g) id) as [i|] eqn:Ei; [|now apply frame_del_key].
  assert (Hc : i_cluster i = cn).
  { unfold other in Ho. rewrite Eid, Ei in Ho.
    destruct (String.eqb_spec (i_cluster i) cn); [assumption|discriminate]. }
  pose proof (frame_upd_info cn g id i (stop_info i) Ei Hc Hc) as F1.
  eapply frame_trans; [exact F1|]. apply frame_del_key. now rewrite F1.
Qed.

(* ClusterInfo.Sync never changes the cluster name / stop flag / client flag *)
Lemma info_sync_cluster i o : i_cluster (snd (info_sync i o)) = i_cluster i.
Proof.
  unfold info_sync.
  destruct (negb (String.eqb (i_cluster i) (lowname o))); [reflexivity|].
  destruct (gates_of (o_gates o)) as [gs|]; [|reflexivity].
  unfold ss_sync. cbn [i_cluster with_gates_fc].
  destruct (ss_ca _ o) as [pool|]; [|reflexivity].
  destruct (ss_certs _ o) as [certs|]; [|reflexivity].
  destruct (eps_sync _ o _) as [ok eps]. destruct ok; reflexivity.
Qed.

Lemma create_info_cluster o i : create_info o = Some i -> i_cluster i = lowname o.
Proof.
  unfold create_info. intros H.
  pose proof (info_sync_cluster (empty_info (lowname o) (client_bad o)) o) as Hc.
  destruct (info_sync _ o) as [[|] i0]; [|discriminate].
  inversion H; subst. exact Hc.
Qed.

(* the loops of AddOrUpdateForServerNames / DeleteForServerNames do not touch the ClusterInfos
   (except the stop flag) *)
Lemma fold_del_infos cn new old g :
  g_infos (fold_left (del_old cn new) old g) = g_infos g.
Proof.
  revert g; induction old as [|k r IH]; intros g; simpl; [reflexivity|].
  rewrite IH. unfold del_old. destruct (smem k new); [reflexivity|].
  destruct (get g k) as [c|]; [|reflexivity].
  destruct (String.eqb (i_cluster c) cn); reflexivity.
Qed.

Lemma fold_add_infos id old new g :
  g_infos (fold_left (add_new id old) new g) = g_infos g.
Proof.
  revert g; induction new as [|k r IH]; intros g; simpl; [reflexivity|].
  rewrite IH. unfold add_new. destruct (smem k old); reflexivity.
Qed.

Lemma frame_del_old cn new g k : frame cn g (del_old cn new g k).
Proof.
  unfold del_old. destruct (smem k new); [apply frame_refl|].
  destruct (get g k) as [c|] eqn:E; [|apply frame_refl].
  destruct (String.eqb_spec (i_cluster c) cn) as [Hc|]; [|apply frame_refl].
  apply frame_del_key. eapply get_cluster_other; eauto.
Qed.

Lemma frame_fold_del cn new old g : frame cn g (fold_left (del_old cn new) old g).
Proof.
  revert g; induction old as [|k r IH]; intros g; simpl; [apply frame_refl|].
  eapply frame_trans; [apply frame_del_old|apply IH].
Qed.

Lemma frame_fold_add cn id i old new g :
  nth_error (g_infos g) id = Some i -> i_cluster i = cn ->
  (forall k, In k new -> other g cn k = None) ->
  frame cn g (fold_left (add_new id old) new g).
Proof.
  revert g; induction new as [|k r IH]; intros g Hn Hc Hall; simpl; [apply frame_refl|].
  assert (F : frame cn g (add_new id old g k)).
  { unfold add_new. destruct (smem k old); [apply frame_refl|].
    eapply frame_add_key; eauto. apply Hall; now left. }
  eapply frame_trans; [exact F|]. apply IH.
  - unfold add_new. destruct (smem k old); exact Hn.
  - exact Hc.
  - intros k' Hk'. rewrite F. apply Hall; now right.
Qed.

Lemma check_conflict_false g cn old new :
  check_conflict g cn old new = false -> old <> new ->
  forall k, In k new -> other g cn k = None.
Proof.
  unfold check_conflict. intros H Hne k Hk.
  destruct (list_eqb String.eqb old new) eqn:E; [apply list_eqb_str in E; congruence|].
  apply Bool.orb_false_iff in H as [H1 _].
  apply owned_other. rewrite <- Bool.not_true_iff_false. intros Ht.
  assert (existsb (owned_by_other g cn) new = true) by (apply existsb_exists; eauto). congruence.
Qed.

Lemma frame_add_or_update g old id i g' :
  nth_error (g_infos g) id = Some i ->
  add_or_update g old id = Some g' -> frame (i_cluster i) g g'.
Proof.
  intros Hn. unfold add_or_update. rewrite Hn.
  destruct (list_eqb String.eqb old (load_names i)) eqn:E.
  { intros H; inversion H; subst. apply frame_refl. }
  destruct (check_conflict g (i_cluster i) old (load_names i)) eqn:Ec; [discriminate|].
  intros H; injection H as <-.
  change (frame (i_cluster i) g
            (fold_left (add_new id old) (load_names i) (fold_left (del_old (i_cluster i) (load_names i)) old g))).
  assert (Hne : old <> load_names i).
  { intros Heq. apply list_eqb_str in Heq. congruence. }
  pose proof (check_conflict_false _ _ _ _ Ec Hne) as Hall.
  pose proof (frame_fold_del (i_cluster i) (load_names i) old g) as F1.
  eapply frame_trans; [exact F1|].
  eapply frame_fold_add with (i := i).
  - now rewrite fold_del_infos.
  - reflexivity.
  - intros k Hk. rewrite F1. now apply Hall.
Qed.

Lemma frame_delete_for_server_names g cn : frame cn g (delete_for_server_names g cn).
Proof.
  unfold delete_for_server_names. destruct (get g cn) as [i|]; [|apply frame_refl].
  generalize (load_names i) as l. intros l. revert g.
  induction l as [|k r IH]; intros g; simpl; [apply frame_refl|].
  eapply frame_trans; [|apply IH]. unfold del_stop_own.
  destruct (get g k) as [c|] eqn:E; [|apply frame_refl].
  destruct (String.eqb_spec (i_cluster c) cn) as [Hc|]; [|apply frame_refl].
  apply frame_del_key_stop. eapply get_cluster_other; eauto.
Qed.

(* after the controller's own conflict check, the ClusterInfo stored under the object's name is
   that cluster's *)
Lemma conflict_upstream_cluster g o i :
  conflict_upstream g o = false -> get g (lowname o) = Some i -> i_cluster i = lowname o.
Proof.
  unfold conflict_upstream. intros H Hg. rewrite Hg in H.
  unfold check_conflict in H.
  destruct (list_eqb String.eqb (load_names i) (allnames o)) eqn:E.
  - apply list_eqb_str in E. unfold load_names, allnames in E. now inversion E.
  - apply Bool.orb_false_iff in H as [H1 _]. unfold allnames in H1. simpl in H1.
    apply Bool.orb_false_iff in H1 as [H1 _]. unfold owned_by_other in H1. rewrite Hg in H1.
    destruct (String.eqb_spec (i_cluster i) (lowname o)); [assumption|discriminate].
Qed.

Lemma get_get_id g k i : get g k = Some i -> exists id, get_id g k = Some id /\ nth_error (g_infos g) id = Some i.
Proof. unfold get. destruct (get_id g k) as [id|]; [|discriminate]. eauto. Qed.

Lemma frame_sync_obj g o : frame (lowname o) g (fst (sync_obj g o)).
Proof.
  unfold sync_obj.
  destruct (conflict_upstream g o) eqn:Ec; [apply frame_refl|].
  destruct (get_id g (lowname o)) as [id|] eqn:Eid.
  - destruct (get g (lowname o)) as [i|] eqn:Eg.
    + pose proof (conflict_upstream_cluster _ _ _ Ec Eg) as Hc.
      assert (Hn : nth_error (g_infos g) id = Some i).
      { unfold get in Eg. now rewrite Eid in Eg. }
      pose proof (info_sync_cluster i o) as Hc'.
      destruct (info_sync i o) as [ok i'] eqn:Es. simpl in Hc'.
      assert (F1 : frame (lowname o) g (upd_info g id i')).
      { eapply frame_upd_info; eauto. congruence. }
      destruct ok; simpl; [|exact F1].
      destruct (add_or_update (upd_info g id i') (load_names i) id) as [g2|] eqn:Ea; simpl; [|exact F1].
      eapply frame_trans; [exact F1|].
      assert (Hn' : nth_error (g_infos (upd_info g id i')) id = Some i').
      { simpl. eapply nth_error_set_nth_eq; eauto. }
      pose proof (frame_add_or_update _ _ _ _ _ Hn' Ea) as F2.
      now rewrite Hc', Hc in F2.
    + unfold get in Eg. rewrite Eid in Eg.
      (* dangling key: treated as a missing ClusterInfo *)
      destruct (create_info o) as [i|] eqn:Ecr; simpl.
      * pose proof (create_info_cluster _ _ Ecr) as Hc.
        set (g1 := {| g_infos := (g_infos g ++ [i])%list; g_mgr := g_mgr g |}).
        assert (F1 : frame (lowname o) g g1) by now apply frame_append.
        assert (Hn : nth_error (g_infos g1) (List.length (g_infos g)) = Some i).
        { simpl. rewrite nth_error_app2 by lia. now rewrite Nat.sub_diag. }
        destruct (add_or_update g1 [] (List.length (g_infos g))) as [g2|] eqn:Ea; simpl.
        -- eapply frame_trans; [exact F1|]. pose proof (frame_add_or_update _ _ _ _ _ Hn Ea) as F2.
           now rewrite Hc in F2.
        -- eapply frame_trans; [exact F1|]. eapply frame_trans; [|apply frame_delete_for_server_names].
           eapply frame_upd_info; eauto.
      * apply frame_delete_for_server_names.
  - destruct (create_info o) as [i|] eqn:Ecr; simpl.
    + pose proof (create_info_cluster _ _ Ecr) as Hc.
      set (g1 := {| g_infos := (g_infos g ++ [i])%list; g_mgr := g_mgr g |}).
      assert (F1 : frame (lowname o) g g1) by now apply frame_append.
      assert (Hn : nth_error (g_infos g1) (List.length (g_infos g)) = Some i).
      { simpl. rewrite nth_error_app2 by lia. now rewrite Nat.sub_diag. }
      destruct (add_or_update g1 [] (List.length (g_infos g))) as [g2|] eqn:Ea; simpl.
      * eapply frame_trans; [exact F1|]. pose proof (frame_add_or_update _ _ _ _ _ Hn Ea) as F2.
        now rewrite Hc in F2.
      * eapply frame_trans; [exact F1|]. eapply frame_trans; [|apply frame_delete_for_server_names].
        eapply frame_upd_info; eauto.
    + apply frame_delete_for_server_names.
Qed.

Lemma api_find_name n api o : api_find n api = Some o -> o_name o = n.
Proof.
  induction api as [|x r IH]; simpl; [discriminate|].
  destruct (String.eqb_spec n (o_name x)) as [E|]; [|exact IH].
  intros H; inversion H; subst. now symmetry.
Qed.

Lemma api_find_In n api o : api_find n api = Some o -> In o api.
Proof.
  induction api as [|x r IH]; simpl; [discriminate|].
  destruct (String.eqb n (o_name x)); [|intros H; right; now apply IH].
  intros H; inversion H; now left.
Qed.

Lemma frame_deliver api g n : frame (to_lower n) g (fst (deliver api g n)).
Proof.
  unfold deliver. destruct (api_find n api) as [o|] eqn:E; simpl.
  - pose proof (api_find_name _ _ _ E) as Hn. pose proof (frame_sync_obj g o) as F.
    unfold lowname in F. now rewrite Hn in F.
  - apply frame_delete_for_server_names.
Qed.

(* an event for cluster n never changes what a host served by ANOTHER cluster resolves to
   (same ClusterInfo, same contents) - in every state, for every lister content *)
Lemma no_capture api g n host i :
  resolve g host = Some i -> i_cluster i <> to_lower n ->
  resolve (fst (deliver api g n)) host = Some i.
Proof.
  unfold resolve. intros Hr Hne.
  pose proof (frame_deliver api g n (host_without_port host)) as F.
  destruct (get_get_id _ _ _ Hr) as (id & Hid & Hnth).
  assert (Ho : other g (to_lower n) (host_without_port host) = Some (id, i)).
  { unfold other. rewrite Hid, Hnth. destruct (String.eqb_spec (i_cluster i) (to_lower n)); [contradiction|reflexivity]. }
  rewrite Ho in F. unfold other in F. unfold get.
  destruct (get_id _ _) as [id'|]; [|discriminate].
  destruct (nth_error _ id') as [i'|]; [|discriminate].
  destruct (String.eqb (i_cluster i') (to_lower n)); [discriminate|]. now inversion F.
Qed.

(* ================================================================== Part D.1: ClusterInfo.Sync is canonical *)
(* Whatever the previous (well-formed) state, a successful Sync leaves every section in the state
   determined by the object alone.  This is the heart of C11 and gives C10 its TLS clause. *)

Definition fc_canon (spec : list schema) (n : string) : option fkind :=
  fold_left (fun acc s => if String.eqb n (s_name s) then Some (norm_kind (s_kind s)) else acc) spec None.
Definition eps_canon (o : obj) (e : Z) : option bool :=
  if zmem e (map fst (o_eps o)) then Some (is_disabled o e) else None.
Definition pair_ids (k c : Z) : Z :=
  if (negb (k =? 0) && negb (c =? 0) && (k =? c))%bool then c else 0.
Definition gates_canon (o : obj) : list bool :=
  match gates_of (o_gates o) with Some g => g | None => default_gates end.

Record wf (i : info) : Prop := {
  wf_fc : forall n, fm_get n (i_fcmap i) = fc_canon (i_fcspec i) n;
  wf_certs : i_certs i = pair_ids (i_key i) (i_cert i);
  wf_pool : i_capool i = i_ca i
}.

Record canon (i : info) (o : obj) : Prop := {
  cn_gates : i_gates i = gates_canon o;
  cn_fcspec : i_fcspec i = o_fc o;
  cn_fc : forall n, fm_get n (i_fcmap i) = fc_canon (o_fc o) n;
  cn_sn : i_sn i = o_sn o;
  cn_key : i_key i = o_key o;
  cn_cert : i_cert i = o_cert o;
  cn_ca : i_ca i = o_ca o;
  cn_certs : i_certs i = pair_ids (o_key o) (o_cert o);
  cn_pool : i_capool i = o_ca o;
  cn_eps : forall e, em_get e (i_eps i) = eps_canon o e;
  cn_pol : i_pol i = o_pol o;
  cn_log : i_log i = o_log o
}.

Lemma canon_wf i o : canon i o -> wf i.
Proof.
  intros C. constructor.
  - intros n. rewrite (cn_fc _ _ C), (cn_fcspec _ _ C). reflexivity.
  - now rewrite (cn_certs _ _ C), (cn_key _ _ C), (cn_cert _ _ C).
  - now rewrite (cn_pool _ _ C), (cn_ca _ _ C).
Qed.

Lemma wf_empty cn b : wf (empty_info cn b).
Proof. constructor; reflexivity. Qed.

(* --- flow control *)
Lemma fkind_eqb_eq a b : fkind_eqb a b = true <-> a = b.
Proof.
  destruct a, b; simpl; split; intros H; try discriminate; try reflexivity.
  - apply Z.eqb_eq in H. now subst.
  - inversion H. apply Z.eqb_refl.
  - apply Bool.andb_true_iff in H as [H1 H2]. apply Z.eqb_eq in H1, H2. now subst.
  - inversion H. now rewrite !Z.eqb_refl.
Qed.

Lemma schema_eqb_eq a b : schema_eqb a b = true <-> a = b.
Proof.
  unfold schema_eqb. rewrite Bool.andb_true_iff, String.eqb_eq, fkind_eqb_eq.
  destruct a, b; simpl; split; [intros [-> ->]; reflexivity|intros H; inversion H; tauto].
Qed.

Lemma fm_get_set n k v m : fm_get n (fm_set k v m) = if String.eqb n k then Some v else fm_get n m.
Proof.
  unfold fm_set; simpl. destruct (String.eqb_spec n k) as [->|Hne]; [reflexivity|].
  unfold fm_del. induction m as [|[k0 v0] r IH]; simpl; [reflexivity|].
  destruct (String.eqb_spec k k0) as [->|Hne0]; simpl.
  - destruct (String.eqb_spec n k0); [congruence|exact IH].
  - destruct (String.eqb_spec n k0); [reflexivity|exact IH].
Qed.

Lemma fm_get_del n k m : fm_get n (fm_del k m) = if String.eqb n k then None else fm_get n m.
Proof.
  unfold fm_del. induction m as [|[k0 v0] r IH]; simpl; [now destruct (String.eqb n k)|].
  destruct (String.eqb_spec k k0) as [->|Hne0]; simpl.
  - rewrite IH. destruct (String.eqb_spec n k0); reflexivity.
  - rewrite IH. destruct (String.eqb_spec n k0) as [->|]; [|reflexivity].
    destruct (String.eqb_spec k0 k); [congruence|reflexivity].
Qed.

Definition fc_step (n : string) (acc : option fkind) (s : schema) : option fkind :=
  if String.eqb n (s_name s) then Some (norm_kind (s_kind s)) else acc.

Lemma fc_fold_set n new m :
  fm_get n (fold_left (fun m s => fm_set (s_name s) (norm_kind (s_kind s)) m) new m)
  = fold_left (fc_step n) new (fm_get n m).
Proof.
  revert m; induction new as [|s r IH]; intros m; simpl; [reflexivity|].
  rewrite IH, fm_get_set. reflexivity.
Qed.

Lemma fc_fold_notin n l acc : ~ In n (map s_name l) -> fold_left (fc_step n) l acc = acc.
Proof.
  revert acc; induction l as [|s r IH]; intros acc H; simpl; [reflexivity|].
  simpl in H. unfold fc_step at 2. destruct (String.eqb_spec n (s_name s)) as [E|Hne].
  - exfalso; apply H; left; now symmetry.
  - apply IH. tauto.
Qed.

Lemma fc_fold_in n l a b : In n (map s_name l) -> fold_left (fc_step n) l a = fold_left (fc_step n) l b.
Proof.
  revert a b; induction l as [|s r IH]; intros a b H; simpl; [contradiction|].
  unfold fc_step at 2 4. destruct (String.eqb_spec n (s_name s)) as [E|Hne]; [reflexivity|].
  apply IH. simpl in H. destruct H as [H|H]; [congruence|exact H].
Qed.

Lemma fc_fold_del n names l m :
  fm_get n (fold_left (fun m k => if smem k names then m else fm_del k m) l m)
  = if (smem n l && negb (smem n names))%bool then None else fm_get n m.
Proof.
  revert m; induction l as [|k r IH]; intros m; simpl; [reflexivity|].
  rewrite IH. destruct (String.eqb_spec n k) as [->|Hne].
  - simpl. destruct (smem k names) eqn:E; simpl.
    + now rewrite Bool.andb_false_r.
    + rewrite Bool.andb_true_r, fm_get_del, seqb_refl. now destruct (smem k r).
  - destruct (smem k names) eqn:E; [reflexivity|].
    rewrite fm_get_del. destruct (String.eqb_spec n k); [congruence|reflexivity].
Qed.

Lemma fc_canon_fold spec n : fc_canon spec n = fold_left (fc_step n) spec None.
Proof. reflexivity. Qed.

Lemma fc_sync_canon old new m :
  (forall n, fm_get n m = fc_canon old n) ->
  forall n, fm_get n (fc_sync old new m) = fc_canon new n.
Proof.
  intros Hm n. unfold fc_sync.
  destruct (list_eqb schema_eqb old new) eqn:E.
  - apply (list_eqb_eq schema_eqb schema_eqb_eq) in E. subst. apply Hm.
  - rewrite fc_fold_del, fc_fold_set, Hm, !fc_canon_fold.
    destruct (smem n (map s_name new)) eqn:En.
    + rewrite Bool.andb_false_r. apply fc_fold_in. now apply smem_In.
    + apply smem_false in En. rewrite (fc_fold_notin n new _ En), (fc_fold_notin n new None En).
      rewrite Bool.andb_true_r. destruct (smem n (map s_name old)) eqn:Eo; [reflexivity|].
      apply smem_false in Eo. apply fc_fold_notin. exact Eo.
Qed.

(* --- endpoints *)
Lemma em_get_set e k v m : em_get e (em_set k v m) = if e =? k then Some v else em_get e m.
Proof.
  unfold em_set; simpl. destruct (Z.eqb_spec e k) as [->|Hne]; [reflexivity|].
  unfold em_del. induction m as [|[k0 v0] r IH]; simpl; [reflexivity|].
  destruct (Z.eqb_spec k k0) as [->|Hne0]; simpl.
  - destruct (Z.eqb_spec e k0); [congruence|exact IH].
  - destruct (Z.eqb_spec e k0); [reflexivity|exact IH].
Qed.

Lemma em_get_filter e wanted m :
  em_get e (filter (fun p => zmem (fst p) wanted) m) = if zmem e wanted then em_get e m else None.
Proof.
  induction m as [|[k0 v0] r IH]; simpl; [now destruct (zmem e wanted)|].
  destruct (zmem k0 wanted) eqn:Ek; simpl.
  - destruct (Z.eqb_spec e k0) as [->|Hne]; [now rewrite Ek|exact IH].
  - destruct (Z.eqb_spec e k0) as [->|Hne]; [|exact IH]. rewrite Ek in IH |- *. exact IH.
Qed.

Lemma eps_add_ok o wanted m :
  (forall e, In e wanted -> 0 <= e) ->
  exists m', eps_add false o wanted m = (true, m') /\
             forall e, em_get e m' = if zmem e wanted then Some (is_disabled o e) else em_get e m.
Proof.
  revert m; induction wanted as [|e0 r IH]; intros m Hpos; simpl.
  - exists m. split; [reflexivity|]. intros e; reflexivity.
  - assert (Hc : ep_creatable false e0 = true).
    { unfold ep_creatable. simpl. apply Z.leb_le. apply Hpos; now left. }
    assert (Hr : forall e, In e r -> 0 <= e) by (intros e He; apply Hpos; now right).
    destruct (IH (em_set e0 (is_disabled o e0) m) Hr) as (m' & Hm' & Hget).
    exists m'. split.
    + destruct (em_get e0 m); [exact Hm'|]. now rewrite Hc.
    + intros e. rewrite Hget, em_get_set. unfold zmem; simpl.
      destruct (Z.eqb_spec e e0) as [->|Hne]; simpl.
      * now destruct (existsb (Z.eqb e0) r).
      * reflexivity.
Qed.

Lemma eps_add_bad o wanted : wanted <> [] -> eps_add true o wanted [] = (false, []).
Proof. destruct wanted as [|e r]; [congruence|]. intros _. reflexivity. Qed.

(* --- what field validation guarantees *)
Lemma field_valid_parts o :
  field_valid o = true ->
  lowered (o_name o) /\ o_eps o <> [] /\ (forall e, In e (map fst (o_eps o)) -> 0 <= e) /\
  forallb gate_known (o_gates o) = true /\
  (if (negb (o_key o =? 0) && negb (o_cert o =? 0))%bool then o_key o =? o_cert o else true) = true /\
  0 <= o_ca o /\ client_bad o = false.
Proof.
  unfold field_valid. rewrite !Bool.andb_true_iff.
  intros ((((((((((H1 & H2) & H3) & H4) & H5) & H6) & _) & _) & _) & _) & H11).
  repeat split.
  - now apply String.eqb_eq.
  - destruct (o_eps o); [discriminate|congruence].
  - intros e He. apply in_map_iff in He as (p & <- & Hp).
    rewrite forallb_forall in H3. apply Z.leb_le. now apply H3.
  - exact H4.
  - exact H5.
  - now apply Z.leb_le.
  - unfold client_bad. now rewrite H11.
Qed.

Lemma valid_client o : field_valid o = true -> client_bad o = false.
Proof. intros H. now destruct (field_valid_parts o H) as (_ & _ & _ & _ & _ & _ & H7). Qed.

(* a successful Sync is canonical *)
Lemma info_sync_ok i o :
  field_valid o = true -> wf i -> i_badclient i = false -> i_cluster i = lowname o ->
  exists i', info_sync i o = (true, i') /\ canon i' o /\ i_cluster i' = i_cluster i
             /\ i_stopped i' = i_stopped i /\ i_badclient i' = false.
Proof.
  intros Hv W Hb Hc.
  destruct (field_valid_parts o Hv) as (_ & Hne & Hpos & Hg & Hkc & Hca & _).
  unfold info_sync. rewrite Hc, seqb_refl. simpl negb. cbv iota.
  unfold gates_of. rewrite Hg.
  set (gs := fold_left _ (o_gates o) default_gates).
  set (i1 := with_gates_fc i gs (o_fc o) (fc_sync (i_fcspec i) (o_fc o) (i_fcmap i))).
  (* secure serving *)
  assert (Hss : exists pool certs, ss_ca i1 o = Some pool /\ ss_certs i1 o = Some certs
                 /\ pool = o_ca o /\ certs = pair_ids (o_key o) (o_cert o)).
  { unfold ss_ca, ss_certs. cbn [i1 with_gates_fc i_ca i_capool i_key i_cert i_certs].
    rewrite (wf_pool _ W), (wf_certs _ W).
    exists (o_ca o), (pair_ids (o_key o) (o_cert o)). repeat split.
    - destruct (Z.eqb_spec (i_ca i) (o_ca o)) as [->|_]; [reflexivity|].
      destruct (Z.eqb_spec (o_ca o) 0) as [->|_]; [reflexivity|].
      destruct (Z.ltb_spec (o_ca o) 0); [lia|reflexivity].
    - unfold pair_ids.
      destruct (Z.eqb_spec (i_key i) (o_key o)) as [->|_];
      destruct (Z.eqb_spec (i_cert i) (o_cert o)) as [->|_]; simpl; try reflexivity;
      destruct (Z.eqb_spec (o_key o) 0) as [->|_];
      destruct (Z.eqb_spec (o_cert o) 0) as [->|_]; simpl in *; try reflexivity;
      try (rewrite Hkc; reflexivity). }
  destruct Hss as (pool & certs & E1 & E2 & -> & ->).
  unfold ss_sync. rewrite E1, E2.
  set (i2 := with_ss i1 (o_sn o) (o_key o) (o_cert o) (o_ca o) (pair_ids (o_key o) (o_cert o)) (o_ca o)).
  assert (Hb2 : i_badclient i2 = false) by exact Hb.
  rewrite Hb2. unfold eps_sync.
  destruct (eps_add_ok o (map fst (o_eps o)) (filter (fun p => zmem (fst p) (map fst (o_eps o))) (i_eps i2)) Hpos)
    as (m' & Em & Hget).
  rewrite Em. eexists. split; [reflexivity|].
  split; [|split; [exact Hc|split; [reflexivity|exact Hb]]].
  constructor; cbn; try reflexivity.
  - unfold gates_canon, gates_of. now rewrite Hg.
  - apply fc_sync_canon. apply (wf_fc _ W).
  - intros e. rewrite Hget, em_get_filter. unfold eps_canon.
    now destruct (zmem e (map fst (o_eps o))).
Qed.

(* creation: succeeds and is canonical for a usable client config, fails for a refused one *)
Lemma create_info_ok o :
  field_valid o = true -> client_bad o = false ->
  exists i, create_info o = Some i /\ canon i o /\ i_cluster i = lowname o /\ i_stopped i = false /\ i_badclient i = false.
Proof.
  intros Hv Hb. unfold create_info.
  destruct (info_sync_ok (empty_info (lowname o) (client_bad o)) o Hv (wf_empty _ _)) as (i' & E & C & Hc & Hs & Hb').
  - simpl. exact Hb.
  - reflexivity.
  - rewrite E. exists i'. simpl in Hc, Hs.
    split; [reflexivity|]. split; [exact C|]. split; [exact Hc|]. split; [exact Hs|exact Hb'].
Qed.

Lemma create_info_bad o : field_valid o = true -> client_bad o = true -> create_info o = None.
Proof.
  intros Hv Hb.
  destruct (field_valid_parts o Hv) as (_ & Hne & Hpos & Hg & Hkc & Hca & _).
  unfold create_info, info_sync. cbn [empty_info i_cluster]. rewrite seqb_refl. simpl negb. cbv iota.
  unfold gates_of. rewrite Hg.
  set (gs := fold_left _ (o_gates o) default_gates).
  set (i1 := with_gates_fc _ gs (o_fc o) _).
  assert (Hs1 : exists pool, ss_ca i1 o = Some pool).
  { unfold ss_ca.
    destruct (i_ca i1 =? o_ca o); [eexists; reflexivity|].
    destruct (o_ca o =? 0); [eexists; reflexivity|].
    destruct (Z.ltb_spec (o_ca o) 0); [lia|eexists; reflexivity]. }
  assert (Hs2 : exists certs, ss_certs i1 o = Some certs).
  { unfold ss_certs.
    destruct ((i_key i1 =? o_key o) && (i_cert i1 =? o_cert o))%bool; [eexists; reflexivity|].
    destruct ((o_key o =? 0) && (o_cert o =? 0))%bool; [eexists; reflexivity|].
    destruct (negb (o_key o =? 0) && negb (o_cert o =? 0))%bool; [|eexists; reflexivity].
    rewrite Hkc. eexists; reflexivity. }
  destruct Hs1 as (pool & E1). destruct Hs2 as (certs & E2).
  unfold ss_sync. rewrite E1, E2.
  cbn [with_ss i_badclient i_eps i1 with_gates_fc empty_info]. rewrite Hb.
  unfold eps_sync. simpl filter.
  rewrite eps_add_bad; [reflexivity|].
  destruct (o_eps o); [congruence|discriminate].
Qed.

(* ================================================================== Part D.2: pointwise effect of the controller loops *)

Lemma get_id_lowered g k : lowered k -> get_id g k = m_get k (g_mgr g).
Proof. unfold get_id, lowered. now intros ->. Qed.

Lemma get_id_add_key g k0 id k :
  lowered k0 -> lowered k ->
  get_id (add_key g k0 id) k = if String.eqb k k0 then Some id else get_id g k.
Proof.
  intros H0 Hk. unfold get_id, add_key; cbn [g_mgr]. rewrite H0, Hk.
  destruct (String.eqb_spec k k0) as [->|Hne]; [apply m_get_set_eq|now apply m_get_set_neq].
Qed.

Lemma get_id_del_key g k0 k :
  lowered k0 -> lowered k ->
  get_id (del_key g k0) k = if String.eqb k k0 then None else get_id g k.
Proof.
  intros H0 Hk. unfold get_id, del_key; cbn [g_mgr]. rewrite H0, Hk.
  destruct (String.eqb_spec k k0) as [->|Hne]; [apply m_get_del_eq|now apply m_get_del_neq].
Qed.

Lemma get_id_fold_add id old new g k :
  (forall k0, In k0 new -> lowered k0) -> lowered k ->
  get_id (fold_left (add_new id old) new g) k
  = if (smem k new && negb (smem k old))%bool then Some id else get_id g k.
Proof.
  revert g; induction new as [|k0 r IH]; intros g Hl Hk; simpl; [reflexivity|].
  rewrite IH by (auto; intros; apply Hl; now right).
  assert (H0 : lowered k0) by (apply Hl; now left).
  unfold add_new.
  destruct (String.eqb_spec k k0) as [->|Hne].
  - destruct (smem k0 old) eqn:Eo; simpl.
    + now rewrite !Bool.andb_false_r.
    + rewrite !Bool.andb_true_r, get_id_add_key, seqb_refl by assumption. now destruct (smem k0 r).
  - destruct (smem k0 old) eqn:Eo; [reflexivity|].
    rewrite get_id_add_key by assumption. destruct (String.eqb_spec k k0); [congruence|reflexivity].
Qed.

(* [owned g cn k] (C10_Model): key k currently resolves to a ClusterInfo of cluster cn *)

Lemma get_del_key g k0 k :
  lowered k0 -> lowered k -> get (del_key g k0) k = if String.eqb k k0 then None else get g k.
Proof.
  intros H0 Hk. unfold get. rewrite get_id_del_key by assumption.
  destruct (String.eqb k k0); reflexivity.
Qed.

Lemma del_old_cases cn new g k0 :
  (del_old cn new g k0 = g /\ (smem k0 new = true \/ owned g cn k0 = false))
  \/ (smem k0 new = false /\ owned g cn k0 = true /\ del_old cn new g k0 = del_key g k0).
Proof.
  unfold del_old, owned. destruct (smem k0 new); [left; split; [reflexivity|now left]|].
  destruct (get g k0) as [c|]; [|left; split; [reflexivity|now right]].
  destruct (String.eqb (i_cluster c) cn); [right; auto|left; split; [reflexivity|now right]].
Qed.

Lemma owned_del_key g cn k0 k :
  lowered k0 -> lowered k -> owned (del_key g k0) cn k = if String.eqb k k0 then false else owned g cn k.
Proof.
  intros H0 Hk. unfold owned. rewrite get_del_key by assumption. now destruct (String.eqb k k0).
Qed.

Lemma get_id_fold_del cn new old g k :
  (forall k0, In k0 old -> lowered k0) -> lowered k ->
  get_id (fold_left (del_old cn new) old g) k
  = if (smem k old && negb (smem k new) && owned g cn k)%bool then None else get_id g k.
Proof.
  revert g; induction old as [|k0 r IH]; intros g Hl Hk; simpl; [reflexivity|].
  rewrite IH by (auto; intros; apply Hl; now right).
  assert (H0 : lowered k0) by (apply Hl; now left).
  destruct (del_old_cases cn new g k0) as [[-> Hc]|(En & Eo & ->)].
  - destruct (String.eqb_spec k k0) as [->|Hne]; [|reflexivity].
    destruct Hc as [Hc|Hc]; rewrite Hc; simpl.
    + now rewrite !Bool.andb_false_r.
    + now rewrite !Bool.andb_false_r.
  - rewrite owned_del_key, get_id_del_key by assumption.
    destruct (String.eqb_spec k k0) as [->|Hne].
    + rewrite En, Eo. simpl. now rewrite !Bool.andb_false_r.
    + reflexivity.
Qed.

(* ================================================================== Part D.3: one controller step on its own cluster *)

Definition key_of (g : gw) (k : string) (id : nat) (i : info) : Prop :=
  lowered k /\ get_id g k = Some id /\ nth_error (g_infos g) id = Some i.
Definition no_keys (g : gw) (cn : string) : Prop :=
  forall k id i, key_of g k id i -> i_cluster i <> cn.
Definition no_dangling (g : gw) : Prop :=
  forall k id, get_id g k = Some id -> exists i, nth_error (g_infos g) id = Some i.

(* cluster cn is held by exactly one live, well-formed ClusterInfo, reachable under exactly its own names *)
Definition slice (g : gw) (cn : string) (id : nat) (i : info) : Prop :=
  nth_error (g_infos g) id = Some i /\ i_cluster i = cn /\ i_stopped i = false /\ i_badclient i = false /\ wf i
  /\ (forall k, In k (load_names i) -> get_id g k = Some id)
  /\ (forall k id' i', key_of g k id' i' -> i_cluster i' = cn -> In k (load_names i)).
Definition cl_pre (g : gw) (cn : string) : Prop := no_keys g cn \/ exists id i, slice g cn id i.
Definition good (g : gw) (o : obj) : Prop := exists id i, slice g (lowname o) id i /\ canon i o.

Lemma slice_intro g cn id i :
  nth_error (g_infos g) id = Some i -> i_cluster i = cn -> i_stopped i = false -> i_badclient i = false -> wf i ->
  (forall k, In k (load_names i) -> get_id g k = Some id) ->
  (forall k id' i', key_of g k id' i' -> i_cluster i' = cn -> In k (load_names i)) ->
  slice g cn id i.
Proof. unfold slice. tauto. Qed.

Lemma lowname_lowered o : lowered (lowname o).
Proof. apply lowered_to_lower. Qed.

Lemma load_names_lowered i k : lowered (i_cluster i) -> In k (load_names i) -> lowered k.
Proof.
  intros Hc [<-|H]; [exact Hc|]. apply in_map_iff in H as (x & <- & _). apply lowered_to_lower.
Qed.

Lemma allnames_lowered o k : In k (allnames o) -> lowered k.
Proof.
  intros [<-|H]; [apply lowname_lowered|]. apply in_map_iff in H as (x & <- & _). apply lowered_to_lower.
Qed.

Lemma canon_names i o : i_cluster i = lowname o -> canon i o -> load_names i = allnames o.
Proof. intros Hc C. unfold load_names, allnames. now rewrite Hc, (cn_sn _ _ C). Qed.

Lemma get_id_tolower g k : get_id g (to_lower k) = get_id g k.
Proof. unfold get_id. now rewrite to_lower_idem. Qed.

Lemma other_None_cluster g cn k i : other g cn k = None -> get g k = Some i -> i_cluster i = cn.
Proof.
  unfold other, get. destruct (get_id g k) as [id|]; [|discriminate].
  intros H E. rewrite E in H. destruct (String.eqb_spec (i_cluster i) cn); [assumption|discriminate].
Qed.

Lemma existsb_false {A} (f : A -> bool) l : (forall x, In x l -> f x = false) -> existsb f l = false.
Proof.
  intros H. induction l as [|x r IH]; simpl; [reflexivity|].
  rewrite H by now left. apply IH. intros y Hy. apply H. now right.
Qed.

(* the slice found under the cluster's own name *)
Lemma slice_of_get g cn i0 :
  lowered cn -> cl_pre g cn -> get g cn = Some i0 -> i_cluster i0 = cn ->
  exists id, slice g cn id i0 /\ get_id g cn = Some id.
Proof.
  intros Hl Hpre Hg Hc.
  destruct (get_get_id _ _ _ Hg) as (id0 & Hid0 & Hn0).
  destruct Hpre as [Hno|(id & i & S)].
  - exfalso. eapply Hno; [|exact Hc]. split; [exact Hl|split; eassumption].
  - destruct S as (Hn & Hci & Hs & Hb & W & Hk & Hx).
    assert (Hin : In cn (load_names i)) by (left; exact Hci).
    pose proof (Hk _ Hin) as E. rewrite Hid0 in E. inversion E; subst id0.
    rewrite Hn in Hn0. inversion Hn0; subst i0.
    exists id. split; [unfold slice; repeat (split; [assumption|]); assumption|exact Hid0].
Qed.

Lemma no_conflict g o :
  cl_pre g (lowname o) ->
  (forall k, In k (allnames o) -> other g (lowname o) k = None) ->
  conflict_upstream g o = false.
Proof.
  intros Hpre Hother. unfold conflict_upstream, check_conflict.
  destruct (list_eqb String.eqb _ (allnames o)); [reflexivity|].
  apply Bool.orb_false_iff. split.
  - apply existsb_false. intros k Hk. apply owned_other. now apply Hother.
  - destruct (get g (lowname o)) as [i0|] eqn:Eg; [|reflexivity].
    assert (Hc : i_cluster i0 = lowname o).
    { eapply other_None_cluster; [|exact Eg]. apply Hother. now left. }
    destruct (slice_of_get _ _ _ (lowname_lowered o) Hpre Eg Hc) as (id & S & Hid).
    destruct S as (Hn & _ & _ & _ & _ & Hk & _).
    apply existsb_false. intros k Hk'. apply Bool.andb_false_iff. right.
    unfold owned_by_other, get. rewrite (Hk _ Hk'), Hn, Hc. now rewrite seqb_refl.
Qed.

Lemma get_id_upd_info g id i k : get_id (upd_info g id i) k = get_id g k.
Proof. reflexivity. Qed.

Lemma no_dangling_lowered g :
  (forall k id, lowered k -> get_id g k = Some id -> exists i, nth_error (g_infos g) id = Some i) -> no_dangling g.
Proof.
  intros H k id E. apply (H (to_lower k)); [apply lowered_to_lower|]. now rewrite get_id_tolower.
Qed.

(* --- update of an existing ClusterInfo *)
Lemma sync_update g o id i :
  field_valid o = true -> no_dangling g ->
  slice g (lowname o) id i ->
  (forall k, In k (allnames o) -> other g (lowname o) k = None) ->
  exists i', info_sync i o = (true, i') /\
  exists g2, add_or_update (upd_info g id i') (load_names i) id = Some g2 /\
             no_dangling g2 /\ slice g2 (lowname o) id i' /\ canon i' o.
Proof.
  intros Hv Hnd S Hother.
  destruct S as (Hn & Hc & Hs & Hb & W & Hk & Hx).
  destruct (info_sync_ok i o Hv W Hb Hc) as (i' & Es & C & Hc' & Hs' & Hb').
  exists i'. split; [exact Es|].
  set (cn := lowname o) in *.
  set (g1 := upd_info g id i').
  assert (Hn1 : nth_error (g_infos g1) id = Some i') by (eapply nth_error_set_nth_eq; eauto).
  assert (Hn1' : forall id', id' <> id -> nth_error (g_infos g1) id' = nth_error (g_infos g) id').
  { intros id' Hne. unfold g1; simpl. apply nth_error_set_nth_neq. congruence. }
  assert (Hgid1 : forall k, get_id g1 k = get_id g k) by reflexivity.
  assert (Hcn' : i_cluster i' = cn) by congruence.
  assert (Hnew : load_names i' = allnames o) by (apply canon_names; assumption).
  assert (Hlc : lowered cn) by apply lowname_lowered.
  assert (Hlold : forall k, In k (load_names i) -> lowered k).
  { intros k. apply load_names_lowered. now rewrite Hc. }
  assert (Hlnew : forall k, In k (load_names i') -> lowered k).
  { intros k. apply load_names_lowered. now rewrite Hcn'. }
  assert (F1 : frame cn g g1) by (eapply frame_upd_info; eauto).
  (* every key of cluster cn in g1 is one of the old names *)
  assert (Hx1 : forall k id' i'', key_of g1 k id' i'' -> i_cluster i'' = cn -> In k (load_names i)).
  { intros k id' i'' (Hlk & Hgk & Hnk) Hck.
    destruct (Nat.eq_dec id' id) as [->|Hne].
    - apply (Hx k id i); [repeat split; assumption|exact Hc].
    - apply (Hx k id' i''); [|exact Hck]. repeat split; try assumption. now rewrite <- Hn1'. }
  assert (Hnd1 : no_dangling g1).
  { intros k id' E. destruct (Hnd k id' E) as (x & Hxn).
    destruct (Nat.eq_dec id' id) as [->|Hne]; [eauto|]. exists x. now rewrite Hn1'. }
  unfold add_or_update. rewrite Hn1.
  destruct (list_eqb String.eqb (load_names i) (load_names i')) eqn:El.
  - (* names unchanged *)
    apply list_eqb_str in El. exists g1. split; [reflexivity|]. split; [exact Hnd1|]. split; [|exact C].
    apply slice_intro; try assumption; try congruence.
    + now apply canon_wf with o.
    + intros k Hk'. rewrite <- El in Hk'. now apply Hk.
    + intros k id' i'' K Hck. rewrite <- El. eapply Hx1; eauto.
  - assert (Hne : load_names i <> load_names i').
    { intros E. apply list_eqb_str in E. congruence. }
    assert (Ecf : check_conflict g1 (i_cluster i') (load_names i) (load_names i') = false).
    { unfold check_conflict. rewrite El. apply Bool.orb_false_iff. split.
      - apply existsb_false. intros k Hk'. apply owned_other. rewrite Hcn', F1. apply Hother. now rewrite <- Hnew.
      - apply existsb_false. intros k Hk'. apply Bool.andb_false_iff. right.
        unfold owned_by_other, get. rewrite Hgid1, (Hk _ Hk'), Hn1. now rewrite seqb_refl. }
    rewrite Ecf.
    pose (gd := fold_left (del_old (i_cluster i') (load_names i')) (load_names i) g1).
    pose (g2 := fold_left (add_new id (load_names i)) (load_names i') gd).
    exists g2. split; [reflexivity|].
    assert (Hinf : g_infos g2 = g_infos g1).
    { unfold g2, gd. now rewrite fold_add_infos, fold_del_infos. }
    assert (Hget : forall k, lowered k ->
              get_id g2 k = if (smem k (load_names i') && negb (smem k (load_names i)))%bool then Some id
                            else if (smem k (load_names i) && negb (smem k (load_names i')) && owned g1 (i_cluster i') k)%bool
                                 then None else get_id g k).
    { intros k Hlk. unfold g2, gd. rewrite get_id_fold_add, get_id_fold_del by auto. reflexivity. }
    assert (Hown : forall k, In k (load_names i) -> owned g1 (i_cluster i') k = true).
    { intros k Hk'. unfold owned, get. rewrite Hgid1, (Hk _ Hk'), Hn1. apply seqb_refl. }
    split; [|split; [|exact C]].
    + (* no dangling *)
      apply no_dangling_lowered. intros k id' Hlk E. rewrite Hget in E by exact Hlk. rewrite Hinf.
      destruct (smem k (load_names i') && negb (smem k (load_names i)))%bool.
      * inversion E; subst. eauto.
      * destruct (smem k (load_names i) && negb (smem k (load_names i')) && owned g1 (i_cluster i') k)%bool;
          [discriminate|]. now apply (Hnd1 k).
    + apply slice_intro; try assumption; try congruence.
      * now apply canon_wf with o.
      * intros k Hk'. rewrite Hget by auto.
        assert (smem k (load_names i') = true) as -> by now apply smem_In.
        destruct (smem k (load_names i)) eqn:Eo; cbn [andb negb]; [|reflexivity].
        apply Hk. now apply smem_In.
      * intros k id' i'' (Hlk & Hgk & Hnk) Hck.
        destruct (smem k (load_names i')) eqn:En; [now apply smem_In|exfalso].
        rewrite Hget in Hgk by exact Hlk. rewrite En in Hgk. cbn [andb negb] in Hgk.
        rewrite Hinf in Hnk.
        destruct (smem k (load_names i)) eqn:Eo; cbn [andb negb] in Hgk.
        -- rewrite Hown in Hgk by now apply smem_In. discriminate.
        -- apply smem_false in Eo. apply Eo. apply (Hx1 k id' i''); [|exact Hck].
           repeat split; assumption.
Qed.

(* --- creation of a ClusterInfo *)
Lemma sync_create g o i' :
  no_dangling g -> no_keys g (lowname o) ->
  (forall k, In k (allnames o) -> other g (lowname o) k = None) ->
  canon i' o -> i_cluster i' = lowname o -> i_stopped i' = false -> i_badclient i' = false ->
  let g1 := {| g_infos := (g_infos g ++ [i'])%list; g_mgr := g_mgr g |} in
  exists g2, add_or_update g1 [] (List.length (g_infos g)) = Some g2 /\
             no_dangling g2 /\ slice g2 (lowname o) (List.length (g_infos g)) i'.
Proof.
  intros Hnd Hno Hother C Hc Hs Hb g1.
  set (cn := lowname o) in *. set (id := List.length (g_infos g)).
  assert (Hn1 : nth_error (g_infos g1) id = Some i').
  { unfold g1, id; simpl. rewrite nth_error_app2 by lia. now rewrite Nat.sub_diag. }
  assert (Hn1' : forall id' x, nth_error (g_infos g) id' = Some x -> nth_error (g_infos g1) id' = Some x).
  { intros id' x Hx. unfold g1; simpl. rewrite nth_error_app1; [exact Hx|]. apply nth_error_Some. congruence. }
  assert (Hgid1 : forall k, get_id g1 k = get_id g k) by reflexivity.
  assert (Hnew : load_names i' = allnames o) by (apply canon_names; assumption).
  assert (Hlnew : forall k, In k (load_names i') -> lowered k).
  { intros k. apply load_names_lowered. rewrite Hc. apply lowname_lowered. }
  assert (F1 : frame cn g g1) by now apply frame_append.
  unfold add_or_update. rewrite Hn1.
  assert (El : list_eqb String.eqb [] (load_names i') = false) by reflexivity.
  rewrite El.
  assert (Ecf : check_conflict g1 (i_cluster i') [] (load_names i') = false).
  { unfold check_conflict. rewrite El. apply Bool.orb_false_iff. split; [|reflexivity].
    apply existsb_false. intros k Hk'. apply owned_other. rewrite Hc, F1. apply Hother. now rewrite <- Hnew. }
  rewrite Ecf.
  pose (g2 := fold_left (add_new id []) (load_names i') (fold_left (del_old (i_cluster i') (load_names i')) [] g1)).
  exists g2. split; [reflexivity|].
  assert (Hinf : g_infos g2 = g_infos g1).
  { unfold g2. now rewrite fold_add_infos. }
  assert (Hget : forall k, lowered k ->
            get_id g2 k = if smem k (load_names i') then Some id else get_id g k).
  { intros k Hlk. unfold g2. rewrite get_id_fold_add by auto. simpl fold_left.
    cbn [smem str_mem negb]. now rewrite Bool.andb_true_r. }
  split.
  - apply no_dangling_lowered. intros k id' Hlk E. rewrite Hget in E by exact Hlk. rewrite Hinf.
    destruct (smem k (load_names i')).
    + inversion E; subst. eauto.
    + destruct (Hnd k id' E) as (x & Hx). eauto.
  - apply slice_intro; try assumption.
    + now rewrite Hinf.
    + now apply canon_wf with o.
    + intros k Hk'. rewrite Hget by auto. now apply smem_In in Hk' as ->.
    + intros k id' i'' (Hlk & Hgk & Hnk) Hck.
      destruct (smem k (load_names i')) eqn:En; [now apply smem_In|exfalso].
      rewrite Hget, En in Hgk by exact Hlk. rewrite Hinf in Hnk.
      destruct (Hnd k id' Hgk) as (x & Hx). rewrite (Hn1' _ _ Hx) in Hnk. inversion Hnk; subst x.
      apply (Hno k id' i''); [repeat split; assumption|exact Hck].
Qed.

Lemma delete_for_server_names_absent g cn : get g cn = None -> delete_for_server_names g cn = g.
Proof. unfold delete_for_server_names. now intros ->. Qed.

(* --- syncUpstreamCluster on the cluster's own slice *)
Lemma sync_own g o :
  field_valid o = true -> no_dangling g -> cl_pre g (lowname o) ->
  (forall k, In k (allnames o) -> other g (lowname o) k = None) ->
  no_dangling (fst (sync_obj g o)) /\
  (good (fst (sync_obj g o)) o \/ (client_bad o = true /\ no_keys (fst (sync_obj g o)) (lowname o))) /\
  (client_bad o = false -> good (fst (sync_obj g o)) o /\ snd (sync_obj g o) = ROk).
Proof.
  intros Hv Hnd Hpre Hother.
  pose proof (no_conflict g o Hpre Hother) as Enc.
  unfold sync_obj. rewrite Enc.
  destruct (get_id g (lowname o)) as [id|] eqn:Eid.
  - destruct (Hnd _ _ Eid) as (i & Hn).
    assert (Eg : get g (lowname o) = Some i) by (unfold get; now rewrite Eid).
    rewrite Eg.
    assert (Hc : i_cluster i = lowname o).
    { eapply other_None_cluster; [|exact Eg]. apply Hother. now left. }
    destruct (slice_of_get _ _ _ (lowname_lowered o) Hpre Eg Hc) as (id2 & S & Hid2).
    rewrite Eid in Hid2. inversion Hid2; subst id2.
    destruct (sync_update g o id i Hv Hnd S Hother) as (i' & Es & g2 & Ea & Hnd2 & S2 & C).
    rewrite Es. cbn [negb]. cbv iota. rewrite Ea. cbn [fst snd].
    assert (G : good g2 o) by (exists id, i'; split; assumption).
    split; [exact Hnd2|]. split; [now left|]. intros _. split; [exact G|reflexivity].
  - assert (Eg : get g (lowname o) = None) by (unfold get; now rewrite Eid).
    assert (Hno : no_keys g (lowname o)).
    { destruct Hpre as [Hno|(id & i & S)]; [exact Hno|exfalso].
      destruct S as (_ & Hci & _ & _ & _ & Hk & _).
      assert (Hin : In (lowname o) (load_names i)) by (left; exact Hci).
      rewrite (Hk _ Hin) in Eid. discriminate. }
    destruct (client_bad o) eqn:Eb.
    + rewrite (create_info_bad o Hv Eb). cbn [fst snd].
      rewrite (delete_for_server_names_absent _ _ Eg).
      split; [exact Hnd|]. split; [right; split; [reflexivity|exact Hno]|]. discriminate.
    + destruct (create_info_ok o Hv Eb) as (i' & Ec & C & Hc & Hs & Hb).
      rewrite Ec.
      destruct (sync_create g o i' Hnd Hno Hother C Hc Hs Hb) as (g2 & Ea & Hnd2 & S2).
      rewrite Ea. cbn [fst snd].
      assert (G : good g2 o) by (eexists _, i'; split; eassumption).
      split; [exact Hnd2|]. split; [now left|]. intros _. split; [exact G|reflexivity].
Qed.

(* --- DeleteForServerNames on the cluster's own slice *)
Definition cl_of (g : gw) (id : nat) : option string := option_map i_cluster (nth_error (g_infos g) id).

Lemma cl_of_upd_stop g id0 i0 id :
  nth_error (g_infos g) id0 = Some i0 -> cl_of (upd_info g id0 (stop_info i0)) id = cl_of g id.
Proof.
  intros Hn. unfold cl_of, upd_info; cbn [g_infos].
  destruct (Nat.eq_dec id0 id) as [<-|Hne].
  - rewrite (nth_error_set_nth_eq _ _ _ _ Hn), Hn. reflexivity.
  - now rewrite nth_error_set_nth_neq.
Qed.

Lemma owned_cl_of g cn k :
  owned g cn k = match get_id g k with
                 | Some id => match cl_of g id with Some c => String.eqb c cn | None => false end
                 | None => false
                 end.
Proof.
  unfold owned, get, cl_of. destruct (get_id g k) as [id|]; [|reflexivity].
  now destruct (nth_error (g_infos g) id).
Qed.

Lemma del_key_stop_spec g k0 :
  lowered k0 ->
  (forall id, cl_of (del_key_stop g k0) id = cl_of g id) /\
  (forall k, lowered k -> get_id (del_key_stop g k0) k
                          = if String.eqb k k0 then (if get_id g k0 then None else get_id g k0) else get_id g k).
Proof.
  intros H0. unfold del_key_stop.
  destruct (get_id g k0) as [id0|] eqn:E0.
  - destruct (nth_error (g_infos g) id0) as [i0|] eqn:En.
    + split.
      * intros id. unfold cl_of at 1. cbn [del_key g_infos]. now apply (cl_of_upd_stop g id0 i0 id).
      * intros k Hk. rewrite get_id_del_key by assumption. now destruct (String.eqb k k0).
    + split; [reflexivity|]. intros k Hk. rewrite get_id_del_key by assumption. now destruct (String.eqb k k0).
  - split; [reflexivity|]. intros k Hk. destruct (String.eqb_spec k k0) as [->|]; [exact E0|reflexivity].
Qed.

Lemma fold_stop_spec cn l g :
  (forall k0, In k0 l -> lowered k0) ->
  (forall id, cl_of (fold_left (del_stop_own cn) l g) id = cl_of g id) /\
  (forall k, lowered k -> get_id (fold_left (del_stop_own cn) l g) k
                          = if (smem k l && owned g cn k)%bool then None else get_id g k).
Proof.
  revert g; induction l as [|k0 r IH]; intros g Hl; simpl.
  - split; [reflexivity|]. intros; reflexivity.
  - assert (H0 : lowered k0) by (apply Hl; now left).
    destruct (IH (del_stop_own cn g k0)) as [IHc IHg]; [intros; apply Hl; now right|].
    assert (Hcase : (del_stop_own cn g k0 = g /\ owned g cn k0 = false)
                    \/ (del_stop_own cn g k0 = del_key_stop g k0 /\ owned g cn k0 = true)).
    { unfold del_stop_own, owned. destruct (get g k0) as [c|]; [|now left].
      destruct (String.eqb (i_cluster c) cn); [now right|now left]. }
    destruct Hcase as [[E Eo]|[E Eo]]; rewrite E in IHc, IHg |- *.
    + split; [exact IHc|]. intros k Hk. rewrite IHg by exact Hk.
      destruct (String.eqb_spec k k0) as [->|]; [|reflexivity]. rewrite Eo. now rewrite !Bool.andb_false_r.
    + destruct (del_key_stop_spec g k0 H0) as [Sc Sg].
      split; [intros id; now rewrite IHc, Sc|].
      intros k Hk. rewrite IHg by exact Hk. rewrite (owned_cl_of (del_key_stop g k0)), Sg by exact Hk.
      destruct (String.eqb_spec k k0) as [->|Hne].
      * rewrite Eo. cbn [andb]. rewrite owned_cl_of in Eo.
        destruct (get_id g k0) as [id0|]; [|discriminate]. now rewrite Bool.andb_false_r.
      * rewrite (owned_cl_of g cn k). destruct (get_id g k) as [id'|]; [|reflexivity]. now rewrite Sc.
Qed.

Lemma del_stop_own_nokeys g cn k : no_keys g cn -> del_stop_own cn g k = g.
Proof.
  intros Hno. unfold del_stop_own. destruct (get g k) as [c|] eqn:E; [|reflexivity].
  destruct (String.eqb_spec (i_cluster c) cn) as [Hc|]; [exfalso|reflexivity].
  destruct (get_get_id _ _ _ E) as (id & Hid & Hn).
  apply (Hno (to_lower k) id c); [|exact Hc].
  split; [apply lowered_to_lower|split; [now rewrite get_id_tolower|exact Hn]].
Qed.

Lemma delete_own g cn :
  lowered cn -> no_dangling g -> cl_pre g cn ->
  no_dangling (delete_for_server_names g cn) /\ no_keys (delete_for_server_names g cn) cn.
Proof.
  intros Hl Hnd Hpre. unfold delete_for_server_names.
  destruct (get g cn) as [i0|] eqn:Eg.
  - destruct (String.eqb_spec (i_cluster i0) cn) as [Hc|Hne].
    + destruct (slice_of_get _ _ _ Hl Hpre Eg Hc) as (id & S & Hid).
      destruct S as (Hn & _ & _ & _ & _ & Hk & Hx).
      assert (Hll : forall k0, In k0 (load_names i0) -> lowered k0).
      { intros k0. apply load_names_lowered. now rewrite Hc. }
      destruct (fold_stop_spec cn (load_names i0) g Hll) as [Sc Sg].
      set (g' := fold_left (del_stop_own cn) (load_names i0) g) in *.
      split.
      * apply no_dangling_lowered. intros k id' Hlk E. rewrite Sg in E by exact Hlk.
        destruct (smem k (load_names i0) && owned g cn k)%bool; [discriminate|].
        destruct (Hnd _ _ E) as (x & Hxn). pose proof (Sc id') as Hcl. unfold cl_of in Hcl.
        rewrite Hxn in Hcl. destruct (nth_error (g_infos g') id'); [eauto|discriminate].
      * intros k id' i'' (Hlk & Hgk & Hnk) Hck.
        rewrite Sg in Hgk by exact Hlk.
        destruct (smem k (load_names i0) && owned g cn k)%bool eqn:Eb; [discriminate|].
        pose proof (Sc id') as Hcl. unfold cl_of in Hcl. rewrite Hnk in Hcl. simpl in Hcl.
        destruct (nth_error (g_infos g) id') as [x|] eqn:Ex; [|discriminate].
        simpl in Hcl. inversion Hcl as [Hcx].
        assert (Hin : In k (load_names i0)).
        { apply (Hx k id' x); [repeat split; assumption|congruence]. }
        apply smem_In in Hin. rewrite Hin in Eb. simpl in Eb.
        unfold owned, get in Eb. rewrite Hgk, Ex in Eb.
        rewrite <- Hcx, Hck, seqb_refl in Eb. discriminate.
    + assert (Hno : no_keys g cn).
      { destruct Hpre as [Hno|(id & i & S)]; [exact Hno|exfalso].
        destruct S as (Hn & Hci & _ & _ & _ & Hk & _).
        assert (Hin : In cn (load_names i)) by (left; exact Hci).
        unfold get in Eg. rewrite (Hk _ Hin), Hn in Eg. inversion Eg; subst. contradiction. }
      assert (E : fold_left (del_stop_own cn) (load_names i0) g = g).
      { generalize (load_names i0). intros l. induction l as [|k r IH]; simpl; [reflexivity|].
        now rewrite (del_stop_own_nokeys g cn k Hno). }
      rewrite E. split; assumption.
  - split; [exact Hnd|].
    destruct Hpre as [Hno|(id & i & S)]; [exact Hno|exfalso].
    destruct S as (Hn & Hci & _ & _ & _ & Hk & _).
    assert (Hin : In cn (load_names i)) by (left; exact Hci).
    unfold get in Eg. rewrite (Hk _ Hin), Hn in Eg. discriminate.
Qed.

(* ================================================================== Part D.4: the invariant over legal histories *)

Definition find_cl (cn : string) (api : list obj) : option obj :=
  find (fun o => String.eqb (lowname o) cn) api.

Record api_ok (api : list obj) : Prop := {
  ao_valid : forall o, In o api -> field_valid o = true;
  ao_nodup : NoDup (map o_name api);
  ao_disj : forall o1 o2 k, In o1 api -> In o2 api -> In k (allnames o1) -> In k (allnames o2) -> o1 = o2
}.

Definition cl_state (g : gw) (cn : string) (x : option obj) : Prop :=
  match x with
  | Some o => good g o \/ (client_bad o = true /\ no_keys g cn)
  | None => no_keys g cn
  end.

Record Inv (w : world) : Prop := {
  inv_api : api_ok (w_api w);
  inv_nd : no_dangling (w_gw w);
  inv_cl : forall cn, cl_state (w_gw w) cn (find_cl cn (w_api w));
  inv_log : forall n, In (Some n) (w_log w) -> lowered n
}.

Lemma find_cl_Some cn api o : find_cl cn api = Some o -> In o api /\ lowname o = cn.
Proof.
  unfold find_cl. intros H. apply find_some in H as [H1 H2]. split; [exact H1|now apply String.eqb_eq].
Qed.

Lemma valid_name_lowered api o : api_ok api -> In o api -> lowname o = o_name o.
Proof.
  intros A Ho. destruct (field_valid_parts o (ao_valid _ A o Ho)) as (Hl & _). exact Hl.
Qed.

Lemma find_cl_of_In api o : api_ok api -> In o api -> find_cl (lowname o) api = Some o.
Proof.
  intros A Ho. unfold find_cl.
  destruct (find (fun o0 => String.eqb (lowname o0) (lowname o)) api) as [o'|] eqn:E.
  - apply find_some in E as [H1 H2]. apply String.eqb_eq in H2. f_equal.
    apply (ao_disj _ A o' o (lowname o)); auto; [rewrite <- H2|]; now left.
  - exfalso. pose proof (find_none _ _ E o Ho) as H. simpl in H. now rewrite seqb_refl in H.
Qed.

Lemma cl_state_pre g cn x :
  (forall o, x = Some o -> lowname o = cn) -> cl_state g cn x -> cl_pre g cn.
Proof.
  intros Hx H. destruct x as [o|]; simpl in H; [|now left].
  destruct H as [(id & i & S & _)|[_ Hno]]; [|now left].
  right. exists id, i. now rewrite <- (Hx o eq_refl).
Qed.

(* --- frame => the state of every other cluster is carried over *)
Lemma other_Some g cn k id i :
  other g cn k = Some (id, i) <->
  get_id g k = Some id /\ nth_error (g_infos g) id = Some i /\ i_cluster i <> cn.
Proof.
  unfold other. destruct (get_id g k) as [id'|]; [|split; [discriminate|intros [H _]; discriminate]].
  destruct (nth_error (g_infos g) id') as [i'|] eqn:En.
  - destruct (String.eqb_spec (i_cluster i') cn) as [Hc|Hc]; split.
    + discriminate.
    + intros (H1 & H2 & H3). inversion H1; subst. rewrite En in H2. inversion H2; subst. contradiction.
    + intros H; inversion H; subst. auto.
    + intros (H1 & H2 & H3). inversion H1; subst. rewrite En in H2. now inversion H2.
  - split; [discriminate|]. intros (H1 & H2 & _). inversion H1; subst. congruence.
Qed.

Lemma frame_key_of cn0 g g' k id i :
  frame cn0 g g' -> i_cluster i <> cn0 -> (key_of g' k id i <-> key_of g k id i).
Proof.
  intros F Hc. unfold key_of. split; intros (Hl & Hg & Hn); split; try exact Hl.
  - assert (O : other g' cn0 k = Some (id, i)) by (apply other_Some; auto).
    rewrite F in O. apply other_Some in O. tauto.
  - assert (O : other g cn0 k = Some (id, i)) by (apply other_Some; auto).
    rewrite <- F in O. apply other_Some in O. tauto.
Qed.

Lemma frame_no_keys cn0 g g' cn : frame cn0 g g' -> cn <> cn0 -> no_keys g cn -> no_keys g' cn.
Proof.
  intros F Hne Hno k id i K Hc. apply (Hno k id i); [|exact Hc].
  apply (frame_key_of cn0 g g' k id i F); [congruence|exact K].
Qed.

Lemma frame_slice cn0 g g' cn id i :
  frame cn0 g g' -> cn <> cn0 -> lowered cn -> slice g cn id i -> slice g' cn id i.
Proof.
  intros F Hne Hl (Hn & Hc & Hs & Hb & W & Hk & Hx).
  assert (Hci : i_cluster i <> cn0) by congruence.
  assert (Hkey : forall k, In k (load_names i) -> key_of g' k id i).
  { intros k Hin. apply (frame_key_of cn0 g g' k id i F Hci).
    split; [|split; [now apply Hk|exact Hn]]. eapply load_names_lowered; [|exact Hin]. now rewrite Hc. }
  apply slice_intro; try assumption.
  - assert (Hin : In (i_cluster i) (load_names i)) by now left.
    destruct (Hkey _ Hin) as (_ & _ & H). exact H.
  - intros k Hin. now destruct (Hkey k Hin) as (_ & H & _).
  - intros k id' i' K Hc'. apply (Hx k id' i'); [|exact Hc'].
    apply (frame_key_of cn0 g g' k id' i' F); [congruence|exact K].
Qed.

Lemma frame_cl_state cn0 g g' cn x :
  frame cn0 g g' -> cn <> cn0 -> (forall o, x = Some o -> lowname o = cn) ->
  cl_state g cn x -> cl_state g' cn x.
Proof.
  intros F Hne Hx H. destruct x as [o|]; simpl in *.
  - pose proof (Hx o eq_refl) as Ho.
    destruct H as [(id & i & S & C)|[Hb Hno]].
    + left. exists id, i. split; [|exact C]. rewrite Ho in *.
      eapply frame_slice; eauto. rewrite <- Ho. apply lowname_lowered.
    + right. split; [exact Hb|]. eapply frame_no_keys; eauto.
  - eapply frame_no_keys; eauto.
Qed.

(* --- no name of o is held by another cluster *)
Lemma others_free api g o :
  (forall cn, cl_state g cn (find_cl cn api)) ->
  (forall o' k, In o' api -> lowname o' <> lowname o -> In k (allnames o) -> In k (allnames o') -> False) ->
  forall k, In k (allnames o) -> other g (lowname o) k = None.
Proof.
  intros Hcl Hdisj k Hk.
  destruct (other g (lowname o) k) as [[id i]|] eqn:E; [exfalso|reflexivity].
  apply other_Some in E as (Hg & Hn & Hc).
  assert (K : key_of g k id i) by (split; [now apply allnames_lowered in Hk|split; assumption]).
  pose proof (Hcl (i_cluster i)) as S.
  destruct (find_cl (i_cluster i) api) as [o'|] eqn:Ef; simpl in S.
  - apply find_cl_Some in Ef as [Ho' Hl'].
    destruct S as [(id' & i' & S' & C')|[_ Hno]]; [|now apply (Hno k id i K)].
    destruct S' as (_ & Hc' & _ & _ & _ & _ & Hx).
    assert (Hin : In k (load_names i')) by (apply (Hx k id i K); now symmetry).
    rewrite (canon_names _ _ Hc' C') in Hin.
    apply (Hdisj o' k Ho'); [congruence|exact Hk|exact Hin].
  - now apply (S k id i K).
Qed.

(* --- the API store *)
Lemma api_find_upsert o api : api_find (o_name o) (api_upsert o api) = Some o.
Proof.
  induction api as [|x r IH]; simpl; [now rewrite seqb_refl|].
  destruct (String.eqb_spec (o_name o) (o_name x)) as [E|Hne]; simpl.
  - now rewrite seqb_refl.
  - destruct (String.eqb_spec (o_name o) (o_name x)); [congruence|exact IH].
Qed.

Lemma In_upsert o api x :
  NoDup (map o_name api) -> In x (api_upsert o api) -> x = o \/ (In x api /\ o_name x <> o_name o).
Proof.
  induction api as [|y r IH]; simpl; intros Hnd; [intros [<-|[]]; now left|].
  inversion Hnd as [|? ? Hy Hr]; subst.
  destruct (String.eqb_spec (o_name o) (o_name y)) as [E|Hne]; simpl.
  - intros [<-|H]; [now left|]. right. split; [now right|].
    intros E2. apply Hy. rewrite <- E, <- E2. now apply in_map.
  - intros [<-|H]; [right; split; [now left|congruence]|].
    destruct (IH Hr H) as [->|[H1 H2]]; [now left|right; split; [now right|exact H2]].
Qed.

Lemma upsert_In_self o api : In o (api_upsert o api).
Proof.
  induction api as [|y r IH]; simpl; [now left|].
  destruct (String.eqb (o_name o) (o_name y)); [now left|now right].
Qed.

Lemma upsert_In_other o api x : In x api -> o_name x <> o_name o -> In x (api_upsert o api).
Proof.
  induction api as [|y r IH]; simpl; [tauto|].
  intros [E|H] Hne.
  - subst y. destruct (String.eqb_spec (o_name o) (o_name x)); [congruence|now left].
  - destruct (String.eqb (o_name o) (o_name y)); right; [exact H|now apply IH].
Qed.

Lemma upsert_names o api : forall n, In n (map o_name (api_upsert o api)) -> n = o_name o \/ In n (map o_name api).
Proof.
  induction api as [|y r IH]; simpl; intros n.
  - intros [<-|[]]; now left.
  - destruct (String.eqb_spec (o_name o) (o_name y)) as [E|Hne]; simpl.
    + intros [<-|H]; [now left|right; now right].
    + intros [<-|H]; [right; now left|]. destruct (IH n H); [now left|right; now right].
Qed.

Lemma upsert_nodup o api : NoDup (map o_name api) -> NoDup (map o_name (api_upsert o api)).
Proof.
  induction api as [|y r IH]; simpl; intros Hnd; [constructor; [tauto|constructor]|].
  inversion Hnd as [|? ? Hy Hr]; subst.
  destruct (String.eqb_spec (o_name o) (o_name y)) as [E|Hne]; simpl.
  - constructor; [now rewrite E|exact Hr].
  - constructor; [|now apply IH].
    intros H. destruct (upsert_names o r _ H) as [E|H2]; [congruence|contradiction].
Qed.

Lemma In_remove n api x : In x (api_remove n api) <-> In x api /\ o_name x <> n.
Proof.
  unfold api_remove. rewrite filter_In. split; intros [H1 H2]; split; auto.
  - intros E. subst. now rewrite seqb_refl in H2.
  - destruct (String.eqb_spec n (o_name x)); [congruence|reflexivity].
Qed.

Lemma api_find_remove n api : api_find n (api_remove n api) = None.
Proof.
  induction api as [|y r IH]; simpl; [reflexivity|].
  destruct (String.eqb_spec n (o_name y)) as [E|Hne]; simpl; [exact IH|].
  destruct (String.eqb_spec n (o_name y)); [congruence|exact IH].
Qed.

Lemma remove_nodup n api : NoDup (map o_name api) -> NoDup (map o_name (api_remove n api)).
Proof.
  induction api as [|y r IH]; simpl; intros Hnd; [constructor|].
  inversion Hnd as [|? ? Hy Hr]; subst.
  destruct (negb (String.eqb n (o_name y))); simpl; [|now apply IH].
  constructor; [|now apply IH].
  intros H. apply in_map_iff in H as (x & Hx & Hin). apply In_remove in Hin as [Hin _].
  apply Hy. rewrite <- Hx. now apply in_map.
Qed.

Lemma api_find_None n api : api_find n api = None -> forall o, In o api -> o_name o <> n.
Proof.
  induction api as [|y r IH]; simpl; [tauto|].
  destruct (String.eqb_spec n (o_name y)) as [E|Hne]; [discriminate|].
  intros H o [<-|Ho]; [congruence|now apply IH].
Qed.

(* --- admission keeps the stored objects pairwise name-disjoint *)
Lemma name_ok_disj api o o' k :
  name_ok api o = true -> In o' api -> lowname o' <> lowname o ->
  In k (allnames o) -> In k (allnames o') -> False.
Proof.
  unfold name_ok. rewrite forallb_forall. intros H Ho' Hne Hk Hk'.
  specialize (H o' Ho'). destruct (String.eqb_spec (lowname o') (lowname o)); [contradiction|].
  rewrite forallb_forall in H.
  assert (Hs : exists s, In s (o_name o' :: o_sn o') /\ k = to_lower s).
  { destruct Hk' as [<-|Hk']; [exists (o_name o'); split; [now left|reflexivity]|].
    apply in_map_iff in Hk' as (s & <- & Hs). exists s; split; [now right|reflexivity]. }
  destruct Hs as (s & Hs & ->). specialize (H s Hs).
  apply Bool.andb_true_iff in H as [H1 H2].
  destruct Hk as [Hk|Hk].
  - unfold lowname in Hk at 1. rewrite <- Hk in H1. unfold lowname in H1. rewrite to_lower_idem in H1.
    rewrite seqb_refl in H1. discriminate.
  - apply in_map_iff in Hk as (sn & Hsn & Hin). rewrite forallb_forall in H2.
    specialize (H2 sn Hin). rewrite Hsn, seqb_refl in H2. discriminate.
Qed.

Lemma api_ok_upsert api o :
  api_ok api -> admission_ok api o = true -> api_ok (api_upsert o api).
Proof.
  intros A Ha. unfold admission_ok in Ha. apply Bool.andb_true_iff in Ha as [Hv Hn].
  constructor.
  - intros x Hx. destruct (In_upsert o api x (ao_nodup _ A) Hx) as [->|[H _]]; [exact Hv|now apply (ao_valid _ A)].
  - apply upsert_nodup, (ao_nodup _ A).
  - intros o1 o2 k H1 H2 K1 K2.
    destruct (In_upsert o api o1 (ao_nodup _ A) H1) as [->|[I1 N1]];
    destruct (In_upsert o api o2 (ao_nodup _ A) H2) as [->|[I2 N2]].
    + reflexivity.
    + exfalso. apply (name_ok_disj api o o2 k Hn I2); auto.
      rewrite (valid_name_lowered api o2 A I2). destruct (field_valid_parts o Hv) as (Hl & _).
      unfold lowname. rewrite Hl. exact N2.
    + exfalso. apply (name_ok_disj api o o1 k Hn I1); auto.
      rewrite (valid_name_lowered api o1 A I1). destruct (field_valid_parts o Hv) as (Hl & _).
      unfold lowname. rewrite Hl. exact N1.
    + now apply (ao_disj _ A o1 o2 k).
Qed.

Lemma api_ok_remove api n : api_ok api -> api_ok (api_remove n api).
Proof.
  intros A. constructor.
  - intros x Hx. apply In_remove in Hx as [Hx _]. now apply (ao_valid _ A).
  - apply remove_nodup, (ao_nodup _ A).
  - intros o1 o2 k H1 H2. apply In_remove in H1 as [H1 _]. apply In_remove in H2 as [H2 _].
    now apply (ao_disj _ A).
Qed.

(* find_cl after a change of the object named n (names of stored objects are lower-case) *)
Lemma find_cl_other api api' n cn :
  cn <> to_lower n ->
  (forall x, lowname x <> to_lower n -> (In x api' <-> In x api)) ->
  api_ok api -> api_ok api' ->
  find_cl cn api' = find_cl cn api.
Proof.
  intros Hne Hiff A A'.
  destruct (find_cl cn api) as [x|] eqn:E.
  - apply find_cl_Some in E as [Hx Hl]. rewrite <- Hl. apply find_cl_of_In; [exact A'|].
    apply Hiff; [congruence|exact Hx].
  - destruct (find_cl cn api') as [y|] eqn:E'; [exfalso|reflexivity].
    apply find_cl_Some in E' as [Hy Hl].
    assert (Hy2 : In y api) by (apply Hiff; [congruence|exact Hy]).
    rewrite <- Hl in E. now rewrite (find_cl_of_In api y A Hy2) in E.
Qed.

(* --- one delivery preserves the invariant *)
Lemma deliver_sync_inv api api' g o lg :
  api_ok api -> api_ok api' -> no_dangling g ->
  (forall cn, cl_state g cn (find_cl cn api)) ->
  In o api' ->
  (forall x, lowname x <> lowname o -> (In x api' <-> In x api)) ->
  (forall o' k, In o' api -> lowname o' <> lowname o -> In k (allnames o) -> In k (allnames o') -> False) ->
  (forall n, In (Some n) lg -> lowered n) ->
  Inv {| w_api := api'; w_gw := fst (sync_obj g o); w_log := lg |}
  /\ (client_bad o = false -> snd (sync_obj g o) = ROk).
Proof.
  intros A A' Hnd Hcl Ho Hiff Hdisj Hlg.
  assert (Hv : field_valid o = true) by now apply (ao_valid _ A').
  assert (Hpre : cl_pre g (lowname o)).
  { eapply cl_state_pre; [|apply Hcl]. intros x Hx. now apply find_cl_Some in Hx as [_ Hx]. }
  pose proof (others_free api g o Hcl Hdisj) as Hother.
  destruct (sync_own g o Hv Hnd Hpre Hother) as (Hnd' & Hst & Hok).
  split; [|intros Hb; now destruct (Hok Hb)].
  constructor; cbn [w_api w_gw w_log]; auto.
  intros cn. destruct (String.eqb_spec cn (lowname o)) as [->|Hne].
  - rewrite (find_cl_of_In api' o A' Ho). exact Hst.
  - assert (Hname : lowname o = to_lower (o_name o)) by reflexivity.
    rewrite (find_cl_other api api' (o_name o) cn); auto.
    eapply frame_cl_state; [apply frame_sync_obj|exact Hne| |apply Hcl].
    intros x Hx. now apply find_cl_Some in Hx as [_ Hx].
Qed.

Lemma deliver_delete_inv api api' g n lg :
  api_ok api -> api_ok api' -> no_dangling g -> lowered n ->
  (forall cn, cl_state g cn (find_cl cn api)) ->
  (forall x, In x api' -> o_name x <> n) ->
  (forall x, lowname x <> n -> (In x api' <-> In x api)) ->
  (forall m, In (Some m) lg -> lowered m) ->
  Inv {| w_api := api'; w_gw := delete_for_server_names g n; w_log := lg |}.
Proof.
  intros A A' Hnd Hl Hcl Hnot Hiff Hlg.
  assert (Hpre : cl_pre g n).
  { eapply cl_state_pre; [|apply Hcl]. intros x Hx. now apply find_cl_Some in Hx as [_ Hx]. }
  destruct (delete_own g n Hl Hnd Hpre) as [Hnd' Hno].
  constructor; cbn [w_api w_gw w_log]; auto.
  intros cn. destruct (String.eqb_spec cn n) as [->|Hne].
  - destruct (find_cl n api') as [x|] eqn:E; simpl; [exfalso|exact Hno].
    apply find_cl_Some in E as [Hx Hlx]. apply (Hnot x Hx).
    now rewrite <- (valid_name_lowered api' x A' Hx).
  - rewrite (find_cl_other api api' n cn); auto; try (now rewrite Hl).
    eapply frame_cl_state; [apply frame_delete_for_server_names|exact Hne| |apply Hcl].
    intros x Hx. now apply find_cl_Some in Hx as [_ Hx].
Qed.

Definition legal (p : op) : Prop := match p with OApply f _ => f = false | _ => True end.

Lemma log_app (lg : list (option string)) x :
  (forall n, In (Some n) lg -> lowered n) -> (forall n, x = Some n -> lowered n) ->
  forall n, In (Some n) (lg ++ [x])%list -> lowered n.
Proof.
  intros H Hx n Hin. apply in_app_or in Hin as [Hin|[Hin|[]]]; [now apply H|now apply Hx].
Qed.

Lemma step_inv w p : Inv w -> legal p -> Inv (fst (step w p)).
Proof.
  intros I Hleg. destruct I as [A Hnd Hcl Hlg]. destruct p as [force o|n|k]; simpl in *.
  - subst force. rewrite Bool.orb_false_r.
    destruct (admission_ok (w_api w) o) eqn:Ea; cbn [fst].
    + assert (A' : api_ok (api_upsert o (w_api w))) by now apply api_ok_upsert.
      unfold deliver. rewrite api_find_upsert.
      unfold admission_ok in Ea. apply Bool.andb_true_iff in Ea as [Hv Hn].
      destruct (field_valid_parts o Hv) as (Hlo & _).
      destruct (sync_obj (w_gw w) o) as [g' r] eqn:Es. cbn [fst].
      change g' with (fst (g', r)). rewrite <- Es.
      apply (deliver_sync_inv (w_api w) (api_upsert o (w_api w)) (w_gw w) o); auto.
      * apply upsert_In_self.
      * intros x Hx. split.
        -- intros H. destruct (In_upsert o _ x (ao_nodup _ A) H) as [->|[H1 _]]; [contradiction|exact H1].
        -- intros H. apply upsert_In_other; [exact H|].
           intros E. apply Hx. unfold lowname. now rewrite E.
      * intros o' k Ho' Hne. now apply (name_ok_disj (w_api w) o o' k Hn Ho').
      * apply log_app; [exact Hlg|]. intros m Hm. inversion Hm; subst. exact Hlo.
    + constructor; cbn; auto. apply log_app; [exact Hlg|discriminate].
  - destruct (api_find n (w_api w)) as [on|] eqn:Ef; cbn [fst].
    + pose proof (api_find_name _ _ _ Ef) as Hn. pose proof (api_find_In _ _ _ Ef) as Hin.
      assert (Hl : lowered n).
      { rewrite <- Hn. destruct (field_valid_parts on (ao_valid _ A on Hin)) as (H & _). exact H. }
      unfold deliver. rewrite api_find_remove. cbn [fst]. rewrite Hl.
      apply (deliver_delete_inv (w_api w)); auto.
      * now apply api_ok_remove.
      * intros x Hx. now apply In_remove in Hx as [_ Hx].
      * intros x Hx. rewrite In_remove. split; [tauto|]. intros H. split; [exact H|].
        intros E. apply Hx. now rewrite (valid_name_lowered _ x A H).
      * apply log_app; [exact Hlg|]. intros m Hm. inversion Hm; subst. exact Hl.
    + constructor; cbn; auto. apply log_app; [exact Hlg|discriminate].
  - destruct (nth_error (w_log w) k) as [[n|]|] eqn:Ek; cbn [fst].
    + assert (Hl : lowered n) by (apply Hlg; eapply nth_error_In; eauto).
      assert (Hlg' : forall m, In (Some m) (w_log w ++ [Some n])%list -> lowered m).
      { apply log_app; [exact Hlg|]. intros m Hm. inversion Hm; subst. exact Hl. }
      unfold deliver. destruct (api_find n (w_api w)) as [o|] eqn:Ef.
      * pose proof (api_find_In _ _ _ Ef) as Hin.
        destruct (sync_obj (w_gw w) o) as [g' r] eqn:Es. cbn [fst].
        change g' with (fst (g', r)). rewrite <- Es.
        apply (deliver_sync_inv (w_api w) (w_api w) (w_gw w) o); auto.
        -- intros x _. tauto.
        -- intros o' k' Ho' Hne K1 K2. apply Hne. f_equal. now apply (ao_disj _ A o' o k').
      * cbn [fst]. rewrite Hl.
        apply (deliver_delete_inv (w_api w)); auto.
        -- now apply api_find_None.
        -- intros x _. tauto.
    + constructor; cbn; auto. apply log_app; [exact Hlg|discriminate].
    + constructor; cbn; auto. apply log_app; [exact Hlg|discriminate].
Qed.

Lemma inv_empty : Inv empty_world.
Proof.
  constructor; simpl.
  - constructor; simpl; [tauto|constructor|tauto].
  - intros k id H. discriminate.
  - intros cn k id i (_ & H & _). discriminate.
  - tauto.
Qed.

Lemma run_app w a b : run w (a ++ b) = run (run w a) b.
Proof. unfold run. apply fold_left_app. Qed.

Lemma run_inv ops : Forall legal ops -> Inv (run empty_world ops).
Proof.
  intros H. induction ops as [|p r IH] using rev_ind; [apply inv_empty|].
  apply Forall_app in H as [Hr Hp]. inversion Hp; subst.
  rewrite run_app. simpl. apply step_inv; auto.
Qed.

(* ================================================================== Part D.5: consequences *)

Lemma owner_of api o k : api_ok api -> In o api -> In k (allnames o) -> owner api k = Some o.
Proof.
  intros A Ho Hk. unfold owner.
  destruct (find (fun o0 => smem k (allnames o0)) api) as [o'|] eqn:E.
  - apply find_some in E as [H1 H2]. apply smem_In in H2. f_equal. now apply (ao_disj _ A o' o k).
  - exfalso. pose proof (find_none _ _ E o Ho) as H. cbv beta in H. apply smem_false in H. contradiction.
Qed.

Lemma owner_In api k o : owner api k = Some o -> In o api /\ In k (allnames o).
Proof. unfold owner. intros H. apply find_some in H as [H1 H2]. split; [exact H1|now apply smem_In]. Qed.

(* what the gateway holds for a stored object whose client config is usable *)
Lemma inv_good w o : Inv w -> In o (w_api w) -> good (w_gw w) o.
Proof.
  intros I Ho. pose proof (valid_client o (ao_valid _ (inv_api _ I) o Ho)) as Hb.
  pose proof (inv_cl _ I (lowname o)) as S.
  rewrite (find_cl_of_In _ o (inv_api _ I) Ho) in S. simpl in S.
  destruct S as [G|[Hb' _]]; [exact G|congruence].
Qed.

(* a key that resolves belongs to a stored object *)
Lemma inv_key_sound w k i :
  Inv w -> lowered k -> get (w_gw w) k = Some i ->
  exists o, In o (w_api w) /\ i_cluster i = lowname o /\ In k (allnames o) /\ canon i o
            /\ i_stopped i = false.
Proof.
  intros I Hl Hg. destruct (get_get_id _ _ _ Hg) as (id & Hid & Hn).
  assert (K : key_of (w_gw w) k id i) by (repeat split; assumption).
  pose proof (inv_cl _ I (i_cluster i)) as S.
  destruct (find_cl (i_cluster i) (w_api w)) as [o|] eqn:Ef; simpl in S.
  - apply find_cl_Some in Ef as [Ho Hlo].
    destruct S as [(id' & i' & S' & C')|[_ Hno]]; [|exfalso; now apply (Hno k id i K)].
    destruct S' as (Hn' & Hc' & Hs' & _ & _ & Hk' & Hx).
    assert (Hin : In k (load_names i')) by (apply (Hx k id i K); now symmetry).
    pose proof (Hk' _ Hin) as E. rewrite Hid in E. inversion E; subst id'.
    rewrite Hn in Hn'. inversion Hn'; subst i'.
    exists o. rewrite (canon_names _ _ Hc' C') in Hin. auto.
  - exfalso. now apply (S k id i K).
Qed.

Lemma inv_key_complete w o k :
  Inv w -> In o (w_api w) -> In k (allnames o) ->
  exists i, get (w_gw w) k = Some i /\ i_cluster i = lowname o /\ canon i o /\ i_stopped i = false.
Proof.
  intros I Ho Hk. destruct (inv_good w o I Ho) as (id & i & S & C).
  destruct S as (Hn & Hc & Hs & _ & _ & Hkeys & _).
  exists i. unfold get. rewrite (Hkeys k), Hn; [auto|]. now rewrite (canon_names _ _ Hc C).
Qed.

(* C10_resolves_iff *)
Lemma resolves_iff ops :
  Forall legal ops ->
  let w := run empty_world ops in
  (forall o host, In o (w_api w) ->
     (resolve_cluster (w_gw w) host = Some (lowname o) <-> In (host_without_port host) (allnames o)))
  /\ (forall host c, resolve_cluster (w_gw w) host = Some c ->
        exists o, In o (w_api w) /\ c = lowname o /\ In (host_without_port host) (allnames o)).
Proof.
  intros Hleg w. pose proof (run_inv ops Hleg) as I. fold w in I. split.
  - intros o host Ho. unfold resolve_cluster, resolve. split.
    + intros H. destruct (get (w_gw w) (host_without_port host)) as [i|] eqn:Eg; [|discriminate].
      simpl in H. inversion H as [Hc].
      destruct (inv_key_sound w _ i I (hwp_lowered host) Eg) as (o' & Ho' & Hc' & Hin & _).
      assert (o' = o); [|now subst].
      apply (ao_disj _ (inv_api _ I) o' o (lowname o)); auto; [rewrite <- Hc, Hc'|]; now left.
    + intros Hin. destruct (inv_key_complete w o _ I Ho Hin) as (i & Eg & Hc & _).
      rewrite Eg. simpl. now rewrite Hc.
  - intros host c H. unfold resolve_cluster, resolve in H.
    destruct (get (w_gw w) (host_without_port host)) as [i|] eqn:Eg; [|discriminate].
    simpl in H. inversion H; subst c.
    destruct (inv_key_sound w _ i I (hwp_lowered host) Eg) as (o & Ho & Hc & Hin & _).
    exists o. auto.
Qed.

(* C10_at_most_one *)
Lemma at_most_one ops :
  Forall legal ops ->
  let w := run empty_world ops in
  forall o1 o2 host, In o1 (w_api w) -> In o2 (w_api w) ->
    In (host_without_port host) (allnames o1) -> In (host_without_port host) (allnames o2) -> o1 = o2.
Proof.
  intros Hleg w o1 o2 host H1 H2 K1 K2.
  pose proof (run_inv ops Hleg) as I. fold w in I.
  now apply (ao_disj _ (inv_api _ I) o1 o2 (host_without_port host)).
Qed.

(* C10_deleted_stop_resolving *)
Lemma deleted_stop ops n :
  Forall legal ops -> lowered n ->
  let w := run empty_world (ops ++ [ODelete n]) in
  forall host, resolve_cluster (w_gw w) host <> Some n.
Proof.
  intros Hleg Hl w host H.
  assert (Hleg' : Forall legal (ops ++ [ODelete n])).
  { apply Forall_app. split; [exact Hleg|]. constructor; [exact I|constructor]. }
  destruct (resolves_iff _ Hleg') as [_ Hs]. fold w in Hs.
  destruct (Hs host n H) as (o & Ho & Hn & _).
  pose proof (run_inv _ Hleg') as I. fold w in I.
  rewrite (valid_name_lowered _ o (inv_api _ I) Ho) in Hn.
  (* the object named n is not stored any more *)
  unfold w in Ho. rewrite run_app in Ho. simpl in Ho.
  set (w0 := run empty_world ops) in *.
  destruct (api_find n (w_api w0)) as [x|] eqn:Ef; cbn [fst w_api] in Ho.
  - unfold deliver in Ho. rewrite api_find_remove in Ho. cbn [w_api] in Ho.
    apply In_remove in Ho as [_ Ho]. congruence.
  - apply (api_find_None _ _ Ef o Ho). congruence.
Qed.

(* C10_tls_of_owner: the handshake for SNI name sni and the verification options for a host are those
   of the stored object that owns the name (Spec's tls_of / verify_of), or the gateway's own when
   nobody owns it *)
Lemma canon_pair i o : canon i o -> i_certs i = pair_of o.
Proof. intros C. rewrite (cn_certs _ _ C). reflexivity. Qed.

Lemma tls_of_owner ops :
  Forall legal ops ->
  let w := run empty_world ops in
  (forall sni, tls_for (w_gw w) sni = tls_of (w_api w) (sni_key sni))
  /\ (forall host, verify_for (w_gw w) host = verify_of (w_api w) (req_key host)).
Proof.
  intros Hleg w. pose proof (run_inv ops Hleg) as I. fold w in I.
  assert (Hget : forall k, lowered k ->
            match owner (w_api w) k with
            | Some o => exists i, get (w_gw w) k = Some i /\ canon i o
            | None => get (w_gw w) k = None
            end).
  { intros k Hl. destruct (owner (w_api w) k) as [o|] eqn:Eo.
    - apply owner_In in Eo as [Ho Hin].
      destruct (inv_key_complete w o k I Ho Hin) as (i & Eg & _ & C & _). eauto.
    - destruct (get (w_gw w) k) as [i|] eqn:Eg; [exfalso|reflexivity].
      destruct (inv_key_sound w k i I Hl Eg) as (o & Ho & _ & Hin & _).
      now rewrite (owner_of _ o k (inv_api _ I) Ho Hin) in Eo. }
  split.
  - intros sni. unfold tls_for, tls_of, sni_key in *.
    assert (Eg : get (w_gw w) sni = get (w_gw w) (to_lower sni)).
    { unfold get. now rewrite get_id_tolower. }
    rewrite Eg. specialize (Hget (to_lower sni) (lowered_to_lower sni)).
    destruct (owner (w_api w) (to_lower sni)) as [o|].
    + destruct Hget as (i & -> & C). now rewrite (canon_pair _ _ C), (cn_pool _ _ C).
    + now rewrite Hget.
  - intros host. unfold verify_for, verify_of, req_key in *.
    specialize (Hget (host_without_port host) (hwp_lowered host)).
    destruct (owner (w_api w) (host_without_port host)) as [o|].
    + destruct Hget as (i & -> & C). now rewrite (cn_pool _ _ C).
    + now rewrite Hget.
Qed.

(* C10_host_normalisation *)
Lemma host_normalisation g s s' p :
  s <> EmptyString -> nospecial s -> nospecial s' -> nospecial p -> to_lower s = to_lower s' ->
  resolve g (s ++ String colon p) = resolve g s'.
Proof.
  intros Hne Hs Hs' Hp E. unfold resolve.
  now rewrite hwp_with_port, hwp_without_port, E by assumption.
Qed.

(* C10_request_ignores_sni *)
Lemma request_ignores_sni ops :
  Forall legal ops ->
  let w := run empty_world ops in
  (forall host sni, resolve_request (w_gw w) host sni = resolve (w_gw w) host
                    /\ request_code (w_gw w) host sni = filter_code (w_gw w) host)
  /\ (forall o host sni, In o (w_api w) ->
        (option_map i_cluster (resolve_request (w_gw w) host sni) = Some (lowname o)
         <-> In (host_without_port host) (allnames o))).
Proof.
  intros Hleg w. split; [intros; split; reflexivity|].
  intros o host sni Ho. destruct (resolves_iff ops Hleg) as [H _]. exact (H o host Ho).
Qed.

(* ================================================================== Part E: between two manager mutations *)
(* Every state a concurrent request can observe while one event is being applied shows, for every key,
   either what the key resolved to before the event or what it resolves to after it. *)

Definition rc (g : gw) (k : string) : option string :=
  match get_id g k with Some id => cl_of g id | None => None end.

Lemma resolve_cluster_rc g host : resolve_cluster g host = rc g (host_without_port host).
Proof.
  unfold resolve_cluster, resolve, get, rc, cl_of. now destruct (get_id g (host_without_port host)).
Qed.

Lemma trace_fold_prefix {A} (step : gw -> A -> gw) hit l g gm :
  In gm (trace_fold step hit l g) -> exists l1 l2, l = (l1 ++ l2)%list /\ gm = fold_left step l1 g.
Proof.
  revert g; induction l as [|x r IH]; intros g H; simpl in H; [contradiction|].
  apply in_app_or in H as [H|H].
  - destruct (hit g x); [|contradiction]. destruct H as [<-|[]]. exists [x], r. split; reflexivity.
  - destruct (IH _ H) as (l1 & l2 & -> & ->). exists (x :: l1), l2. split; reflexivity.
Qed.

Lemma smem_app_l k l1 l2 : smem k l1 = true -> smem k (l1 ++ l2) = true.
Proof. rewrite !smem_In. intros H. apply in_or_app. now left. Qed.

Lemma add_or_update_None_trace g old id : add_or_update g old id = None -> add_or_update_trace g old id = [].
Proof.
  unfold add_or_update, add_or_update_trace. destruct (nth_error (g_infos g) id) as [i|]; [|reflexivity].
  destruct (list_eqb String.eqb old (load_names i)); [discriminate|].
  destruct (check_conflict g (i_cluster i) old (load_names i)); [reflexivity|discriminate].
Qed.

Lemma aou_between g old id i g2 gm :
  nth_error (g_infos g) id = Some i ->
  (forall k, In k old -> lowered k) -> (forall k, In k (load_names i) -> lowered k) ->
  add_or_update g old id = Some g2 -> In gm (add_or_update_trace g old id) ->
  g_infos gm = g_infos g /\ g_infos g2 = g_infos g /\
  forall k, lowered k -> get_id gm k = get_id g k \/ get_id gm k = get_id g2 k.
Proof.
  intros Hn Hlo Hln. unfold add_or_update, add_or_update_trace. rewrite Hn.
  destruct (list_eqb String.eqb old (load_names i)); [intros _ []|].
  destruct (check_conflict g (i_cluster i) old (load_names i)); [intros _ []|].
  set (cn := i_cluster i). set (new := load_names i) in *.
  intros E Hin.
  assert (Eg2 : g2 = fold_left (add_new id old) new (fold_left (del_old cn new) old g)).
  { injection E. intros <-. reflexivity. }
  clear E. subst g2.
  assert (Hg2 : forall k, lowered k ->
            get_id (fold_left (add_new id old) new (fold_left (del_old cn new) old g)) k
            = if (smem k new && negb (smem k old))%bool then Some id
              else if (smem k old && negb (smem k new) && owned g cn k)%bool then None else get_id g k).
  { intros k Hk. now rewrite get_id_fold_add, get_id_fold_del by auto. }
  apply in_app_or in Hin as [Hin|Hin]; apply trace_fold_prefix in Hin as (l1 & l2 & El & ->).
  - assert (Hl1 : forall k, In k l1 -> lowered k).
    { intros k Hk. apply Hlo. rewrite El. apply in_or_app. now left. }
    split; [apply fold_del_infos|]. split; [now rewrite fold_add_infos, fold_del_infos|].
    intros k Hk. rewrite Hg2 by exact Hk. rewrite get_id_fold_del by auto.
    destruct (smem k l1) eqn:E1; cbn [andb]; [|now left].
    assert (Eo : smem k old = true) by (rewrite El; now apply smem_app_l).
    rewrite Eo. destruct (smem k new); cbn [andb negb]; [now left|].
    destruct (owned g cn k); [now right|now left].
  - assert (Hl1 : forall k, In k l1 -> lowered k).
    { intros k Hk. apply Hln. fold new. rewrite El. apply in_or_app. now left. }
    split; [now rewrite fold_add_infos, fold_del_infos|]. split; [now rewrite fold_add_infos, fold_del_infos|].
    intros k Hk. rewrite Hg2 by exact Hk. rewrite get_id_fold_add, get_id_fold_del by auto.
    destruct (smem k l1) eqn:E1; cbn [andb].
    + assert (En : smem k new = true) by (rewrite El; now apply smem_app_l).
      rewrite En. destruct (smem k old); cbn [andb negb]; [|now right].
      now left.
    + destruct (smem k new) eqn:En; destruct (smem k old) eqn:Eo; cbn [andb negb]; try (now right); now left.
Qed.

Lemma stop_between cn l g gm :
  (forall k, In k l -> lowered k) -> In gm (trace_fold (del_stop_own cn) (hit_stop cn) l g) ->
  (forall id, cl_of gm id = cl_of g id) /\
  (forall id, cl_of (fold_left (del_stop_own cn) l g) id = cl_of g id) /\
  forall k, lowered k -> get_id gm k = get_id g k \/ get_id gm k = get_id (fold_left (del_stop_own cn) l g) k.
Proof.
  intros Hl Hin. apply trace_fold_prefix in Hin as (l1 & l2 & El & ->).
  assert (Hl1 : forall k, In k l1 -> lowered k).
  { intros k Hk. apply Hl. rewrite El. apply in_or_app. now left. }
  destruct (fold_stop_spec cn l1 g Hl1) as [C1 G1]. destruct (fold_stop_spec cn l g Hl) as [C G].
  split; [exact C1|]. split; [exact C|].
  intros k Hk. rewrite G1, G by exact Hk.
  destruct (smem k l1) eqn:E1; cbn [andb]; [|now left].
  assert (E : smem k l = true) by (rewrite El; now apply smem_app_l). rewrite E. cbn [andb].
  destruct (owned g cn k); [now right|now left].
Qed.

Lemma rc_of_infos g1 g2 k : get_id g1 k = get_id g2 k -> (forall id, cl_of g1 id = cl_of g2 id) -> rc g1 k = rc g2 k.
Proof. intros E C. unfold rc. rewrite E. destruct (get_id g2 k); [apply C|reflexivity]. Qed.

Lemma cl_of_infos_eq g1 g2 : g_infos g1 = g_infos g2 -> forall id, cl_of g1 id = cl_of g2 id.
Proof. intros E id. unfold cl_of. now rewrite E. Qed.

Lemma delete_between g cn gm :
  (forall i0, get g cn = Some i0 -> lowered (i_cluster i0)) ->
  In gm (delete_trace g cn) ->
  forall k, lowered k -> rc gm k = rc g k \/ rc gm k = rc (delete_for_server_names g cn) k.
Proof.
  unfold delete_trace, delete_for_server_names. intros Hlow Hin k Hk.
  destruct (get g cn) as [i0|]; [|contradiction].
  assert (Hl : forall k0, In k0 (load_names i0) -> lowered k0).
  { intros k0. apply load_names_lowered. now apply Hlow. }
  destruct (stop_between cn _ g gm Hl Hin) as (C1 & C & G).
  destruct (G k Hk) as [E|E]; [left|right]; apply rc_of_infos; auto.
  intros id. now rewrite C1, C.
Qed.

Lemma cl_of_upd_same g id i i' id' :
  nth_error (g_infos g) id = Some i -> i_cluster i' = i_cluster i -> cl_of (upd_info g id i') id' = cl_of g id'.
Proof.
  intros Hn Hc. unfold cl_of, upd_info; cbn [g_infos].
  destruct (Nat.eq_dec id id') as [<-|Hne].
  - rewrite (nth_error_set_nth_eq _ _ _ _ Hn), Hn. simpl. now rewrite Hc.
  - now rewrite nth_error_set_nth_neq.
Qed.

Lemma get_None_delete_trace g cn : get g cn = None -> delete_trace g cn = [].
Proof. unfold delete_trace. now intros ->. Qed.

Lemma sync_between g o gm :
  no_dangling g -> In gm (sync_trace g o) ->
  forall k, lowered k -> rc gm k = rc g k \/ rc gm k = rc (fst (sync_obj g o)) k.
Proof.
  intros Hnd Hin k Hk. unfold sync_trace in Hin. unfold sync_obj.
  destruct (conflict_upstream g o) eqn:Ec; [contradiction|].
  assert (Hlc : lowered (lowname o)) by apply lowname_lowered.
  destruct (get_id g (lowname o)) as [id|] eqn:Eid.
  - destruct (Hnd _ _ Eid) as (i & Hn).
    assert (Eg : get g (lowname o) = Some i) by (unfold get; now rewrite Eid).
    rewrite Eg in Hin |- *.
    pose proof (conflict_upstream_cluster _ _ _ Ec Eg) as Hc.
    pose proof (info_sync_cluster i o) as Hc'.
    destruct (info_sync i o) as [ok i'] eqn:Es. simpl in Hc'.
    destruct ok; cbn [negb] in Hin |- *; [|contradiction].
    set (g1 := upd_info g id i') in *.
    assert (Hn1 : nth_error (g_infos g1) id = Some i') by (eapply nth_error_set_nth_eq; eauto).
    assert (C1 : forall id', cl_of g1 id' = cl_of g id') by (intros; eapply cl_of_upd_same; eauto).
    destruct (add_or_update g1 (load_names i) id) as [g2|] eqn:Ea; cbn [fst].
    + assert (Hlo : forall k0, In k0 (load_names i) -> lowered k0).
      { intros k0. apply load_names_lowered. now rewrite Hc. }
      assert (Hln : forall k0, In k0 (load_names i') -> lowered k0).
      { intros k0. apply load_names_lowered. now rewrite Hc', Hc. }
      destruct (aou_between g1 _ id i' g2 gm Hn1 Hlo Hln Ea Hin) as (I1 & I2 & G).
      destruct (G k Hk) as [E|E]; [left|right].
      * rewrite <- (rc_of_infos g1 g k eq_refl C1). apply rc_of_infos; [exact E|now apply cl_of_infos_eq].
      * apply rc_of_infos; [exact E|]. apply cl_of_infos_eq. now rewrite I1, I2.
    + rewrite (add_or_update_None_trace _ _ _ Ea) in Hin. contradiction.
  - assert (Eg : get g (lowname o) = None) by (unfold get; now rewrite Eid).
    destruct (create_info o) as [i'|] eqn:Ecr.
    + pose proof (create_info_cluster _ _ Ecr) as Hc.
      set (g1 := {| g_infos := (g_infos g ++ [i'])%list; g_mgr := g_mgr g |}) in *.
      set (id := List.length (g_infos g)) in *.
      assert (Hn1 : nth_error (g_infos g1) id = Some i').
      { unfold g1, id; simpl. rewrite nth_error_app2 by lia. now rewrite Nat.sub_diag. }
      destruct (add_or_update g1 [] id) as [g2|] eqn:Ea; cbn [fst].
      * assert (Hln : forall k0, In k0 (load_names i') -> lowered k0).
        { intros k0. apply load_names_lowered. now rewrite Hc. }
        destruct (aou_between g1 [] id i' g2 gm Hn1 (fun _ F => match F with end) Hln Ea Hin) as (I1 & I2 & G).
        destruct (G k Hk) as [E|E]; [left|right].
        -- unfold rc. rewrite E. change (get_id g1 k) with (get_id g k).
           destruct (get_id g k) as [x|] eqn:Ex; [|reflexivity].
           destruct (Hnd _ _ Ex) as (ix & Hx). unfold cl_of. rewrite I1. unfold g1; simpl.
           rewrite nth_error_app1; [reflexivity|]. apply nth_error_Some. congruence.
        -- apply rc_of_infos; [exact E|]. apply cl_of_infos_eq. now rewrite I1, I2.
      * exfalso. rewrite get_None_delete_trace in Hin; [contradiction|].
        unfold get. change (get_id (upd_info g1 id (stop_info i')) (lowname o)) with (get_id g (lowname o)).
        now rewrite Eid.
    + rewrite (get_None_delete_trace _ _ Eg) in Hin. contradiction.
Qed.

Lemma deliver_between api g n gm :
  no_dangling g -> (forall i0, get g (to_lower n) = Some i0 -> lowered (i_cluster i0)) ->
  In gm (deliver_trace api g n) ->
  forall k, lowered k -> rc gm k = rc g k \/ rc gm k = rc (fst (deliver api g n)) k.
Proof.
  intros Hnd Hlow Hin k Hk. unfold deliver_trace in Hin. unfold deliver.
  destruct (api_find n api) as [o|]; cbn [fst].
  - now apply sync_between.
  - now apply delete_between.
Qed.

(* C10_retained_names_never_drop *)
Lemma retained_names_never_drop ops p :
  Forall legal ops -> legal p ->
  let w := run empty_world ops in
  forall gm, In gm (step_trace w p) ->
  forall host,
    (resolve_cluster gm host = resolve_cluster (w_gw w) host
     \/ resolve_cluster gm host = resolve_cluster (w_gw (fst (step w p))) host)
    /\ (forall c, resolve_cluster (w_gw w) host = Some c ->
                  resolve_cluster (w_gw (fst (step w p))) host = Some c ->
                  resolve_cluster gm host = Some c).
Proof.
  intros Hleg Hp w gm Hin host.
  pose proof (run_inv ops Hleg) as I. fold w in I.
  assert (Hlow : forall n i0, get (w_gw w) (to_lower n) = Some i0 -> lowered (i_cluster i0)).
  { intros n i0 Hg. destruct (inv_key_sound w _ i0 I (lowered_to_lower n) Hg) as (o & _ & -> & _).
    apply lowname_lowered. }
  assert (H : resolve_cluster gm host = resolve_cluster (w_gw w) host
              \/ resolve_cluster gm host = resolve_cluster (w_gw (fst (step w p))) host).
  { rewrite !resolve_cluster_rc.
    destruct p as [force o|n|k]; simpl in Hin |- *.
    - simpl in Hp. subst force. rewrite Bool.orb_false_r in Hin |- *.
      destruct (admission_ok (w_api w) o); [|contradiction].
      destruct (deliver (api_upsert o (w_api w)) (w_gw w) (o_name o)) as [g' r] eqn:Ed. cbn [fst w_gw].
      change g' with (fst (g', r)). rewrite <- Ed.
      apply deliver_between; [apply (inv_nd _ I)|apply Hlow|exact Hin|apply hwp_lowered].
    - destruct (api_find n (w_api w)); [|contradiction].
      destruct (deliver (api_remove n (w_api w)) (w_gw w) n) as [g' r] eqn:Ed. cbn [fst w_gw].
      change g' with (fst (g', r)). rewrite <- Ed.
      apply deliver_between; [apply (inv_nd _ I)|apply Hlow|exact Hin|apply hwp_lowered].
    - destruct (nth_error (w_log w) k) as [[n|]|]; try contradiction.
      destruct (deliver (w_api w) (w_gw w) n) as [g' r] eqn:Ed. cbn [fst w_gw].
      change g' with (fst (g', r)). rewrite <- Ed.
      apply deliver_between; [apply (inv_nd _ I)|apply Hlow|exact Hin|apply hwp_lowered]. }
  split; [exact H|]. intros c H1 H2. destruct H as [->| ->]; assumption.
Qed.
