(* C17 — case format of the correspondence run and its evaluator. *)
From KG Require Import Prelude C01_Model C01_Check C17_Model C17_Spec.
Open Scope string_scope.
Open Scope bool_scope.

Inductive case :=
| CNorm (rs : list rule) (reqs : list attrs) (o : obs)
| CBroken.

Definition agree (rs : list rule) (reqs : list attrs) (o : obs) : bool :=
  let ns := map normalize_rule rs in
  rules_eqb (o_norm o) ns
  && rules_eqb (o_norm2 o) (map normalize_rule ns)
  && rules_eqb (o_admit o) ns
  && rules_eqb (o_admit2 o) (map normalize_rule ns)
  && list_eqb (list_eqb Bool.eqb) (o_before o) (map (fun r => map (fun a => rule_matches a r) reqs) rs)
  && list_eqb (list_eqb Bool.eqb) (o_after o) (map (fun r => map (fun a => rule_matches a r) reqs) ns)
  && list_eqb (opt_eqb Nat.eqb) (o_first_before o) (map (fun a => match_policies a (policies_of rs)) reqs)
  && list_eqb (opt_eqb Nat.eqb) (o_first_after o) (map (fun a => match_policies a (policies_of ns)) reqs).

(* clause layout: agree, same_matching, idempotent *)
Definition eval (c : case) : list bool :=
  match c with
  | CNorm rs reqs o => [agree rs reqs o; same_matching_ok o; idempotent_ok o]
  | CBroken => [false; false; false]
  end.
