(* C16 — case format of the correspondence run and its evaluator. *)
From KG Require Import Prelude C16_Model C16_Spec.
Open Scope Z_scope.

Record case := { cf : facts; co : obs;
                 craw_gate : option string (* raw value of the feature-gate annotation; None = the object has no annotations *) }.

Definition err_code (e : errclass) : Z * Z * Z :=
  match e with
  | EMeta => (1, 0, 0)
  | EServersRequired => (2, 0, 0) | EEpScheme i => (3, i, 0) | EEpURL i => (4, i, 0) | EMixedSchemes => (5, 0, 0)
  | ECcQps => (6, 0, 0) | ECcBurst => (7, 0, 0) | ECcDiv => (8, 0, 0) | ECcBurstLtQps => (9, 0, 0) | ECcCAReq => (10, 0, 0)
  | ECcInsecureCA => (11, 0, 0) | ECcAuthReq => (12, 0, 0) | ECcKeyReq => (13, 0, 0) | ECcCertReq => (14, 0, 0) | ECcTokenReq => (15, 0, 0)
  | ECcCertInvalid => (16, 0, 0) | ECcKeyInvalid => (17, 0, 0) | ECcCAInvalid => (18, 0, 0)
  | ESsCertInvalid => (19, 0, 0) | ESsKeyInvalid => (20, 0, 0) | ESsCAInvalid => (21, 0, 0)
  | ESchemaNameReq i => (22, i, 0) | ESchemaDup i => (23, i, 0) | ESchemaStrategy i => (24, i, 0)
  | EFcMriForbidden i => (25, i, 0) | EFcMriNeg i => (26, i, 0) | EFcGmriNeg i => (27, i, 0) | EFcMriReq i => (28, i, 0)
  | EFcGmriLtMri i => (29, i, 0) | EFcTbForbidden i => (30, i, 0) | EFcTbQps i => (31, i, 0) | EFcTbBurst i => (32, i, 0)
  | EFcGtbQps i => (33, i, 0) | EFcTbReq i => (34, i, 0) | EFcGtbQpsLt i => (35, i, 0) | EFcGtbBurstLt i => (36, i, 0)
  | EFcNone i => (37, i, 0)
  | ELogging => (38, 0, 0)
  | EPoliciesReq => (39, 0, 0) | EPolStrategy j => (40, j, 0) | EPolSubset j k => (41, j, k) | EPolSchema j => (42, j, 0)
  | EPolRules j => (43, j, 0) | EPolLogMode j => (44, j, 0)
  | EGate => (45, 0, 0)
  end.
Definition err_eqb (a b : errclass) : bool :=
  let '(a1, a2, a3) := err_code a in let '(b1, b2, b3) := err_code b in
  ((a1 =? b1) && (a2 =? b2) && (a3 =? b3))%bool.
Definition vres_eqb (a b : vres) : bool :=
  match a, b with
  | VPanic, VPanic => true
  | VErrs x, VErrs y => list_eqb err_eqb x y
  | _, _ => false
  end.

(* admission outcome of a validation result *)
Definition admit_of (r : vres) : ares :=
  match r with VPanic => Panic | VErrs [] => Ok | VErrs _ => Err end.

Definition agree_validation (f : facts) (o : obs) (pick : bool) : bool :=
  (vres_eqb (validate_object code_fix pick f) (o_validate o)
   && ares_eqb (admit_of (validate pick f)) (o_admit o))%bool.

(* clause layout: agree, total, sound, rejects *)
Definition eval (c : case) : list bool :=
  let f := cf c in let o := co c in
  ((agree_validation f o false || agree_validation f o true)
   && Bool.eqb (o_admit_gate o) (match f_gate f, o_validate o with GBad, VErrs _ => true | _, _ => false end)
   && ares_eqb (apply_gateway f) (o_create o)
   && ares_eqb (apply_controller f) (o_ctrl o)
   && ares_eqb (apply_limiter f) (o_lim o)
   (* the parser predicate of the model and the real featuregate.Set (ORACLE f_gate) agree on this raw value *)
   && gatefact_eqb (gate_of_raw (craw_gate c)) (f_gate f)
   && opt_eqb (list_eqb (fun a b : bool * Z * bool =>
                 (Bool.eqb (fst (fst a)) (fst (fst b)) && Z.eqb (snd (fst a)) (snd (fst b)) && Bool.eqb (snd a) (snd b))%bool))
              (policy_views f) (o_pols o)
   && oracle_laws f)%bool
  :: clauses f o.

(* ---------- extension: one object, or a pair (object 1, object 2 of the same name), plus the remote rounds ---------- *)
Record xcase := {
  x1 : case;
  x2 : option (case * delta * upd_obs);
  xlower : bool;                  (* ORACLE strings.ToLower(name) == name *)
  xrounds : list round_res;       (* observed *)
}.

Definition rres_eqb (a b : rres) : bool :=
  match a, b with RSkip, RSkip | ROk, ROk | RErr, RErr | RPanic, RPanic => true | _, _ => false end.
Definition round_eqb (a b : round_res) : bool :=
  (rres_eqb (rr_sync a) (rr_sync b) && rres_eqb (rr_count a) (rr_count b)
   && rres_eqb (rr_alloc a) (rr_alloc b) && rres_eqb (rr_load a) (rr_load b))%bool.
Definition opt_ares_eqb (a b : option ares) : bool := opt_eqb ares_eqb a b.

Definition versions (x : xcase) : list (list schema) :=
  f_schemas (cf (x1 x)) :: match x2 x with Some (c2, _, _) => [f_schemas (cf c2)] | None => [] end.

(* clause layout: agree, total, sound, rejects, sound_update, sound_remote *)
Definition eval_x (x : xcase) : list bool :=
  let e1 := eval (x1 x) in
  let e2 := match x2 x with Some (c2, _, _) => eval c2 | None => [true; true; true; true] end in
  let both i := (nth i e1 false && nth i e2 false)%bool in
  let f1 := cf (x1 x) in
  let agree_upd := match x2 x with
                   | Some (c2, d, u) =>
                       (opt_ares_eqb (apply_update_info f1 (cf c2) d) (u_info u)
                        && ares_eqb (apply_update_ctrl f1 (cf c2) d) (u_ctrl u)
                        && ares_eqb (apply_limiter_update f1 (cf c2)) (u_lim u))%bool
                   | None => true end in
  let admits := o_admit (co (x1 x)) :: match x2 x with Some (c2, _, _) => [o_admit (co c2)] | None => [] end in
  [ (both 0%nat && agree_upd
     && list_eqb round_eqb (remote_rounds all_fixes (xlower x) (versions x)) (xrounds x)
     && (if f_name_ok f1 then xlower x else true))%bool;      (* law: a DNS-subdomain name is lower case *)
    both 1%nat; both 2%nat; both 3%nat;
    match x2 x with Some (c2, _, u) => sound_update_ok (co (x1 x)) (co c2) u | None => true end;
    sound_remote_ok admits (xrounds x) ].
