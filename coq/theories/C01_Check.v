(* C01 — case format of the correspondence run and its evaluator. *)
From KG Require Import Prelude C01_Model C01_Spec.
Open Scope string_scope.
Open Scope bool_scope.

(* vocabulary of the generated cases: the case files refer to these constants by name, which keeps
   them small (parsing string literals dominates the evaluation time otherwise); lib/props/c01.py and c17.py
   read this table from this file *)
Definition w0 : string := "get".
Definition w1 : string := "list".
Definition w2 : string := "watch".
Definition w3 : string := "*".
Definition w4 : string := "-get".
Definition w5 : string := "-list".
Definition w6 : string := "delete".
Definition w7 : string := "apps".
Definition w8 : string := "-apps".
Definition w9 : string := "batch".
Definition w10 : string := "-".
Definition w11 : string := "pods".
Definition w12 : string := "pods/status".
Definition w13 : string := "*/status".
Definition w14 : string := "-pods".
Definition w15 : string := "-deployments".
Definition w16 : string := "deployments/*".
Definition w17 : string := "deployments".
Definition w18 : string := "-*/status".
Definition w19 : string := "-pods/status".
Definition w20 : string := "*/scale".
Definition w21 : string := "services".
Definition w22 : string := "nginx".
Definition w23 : string := "-nginx".
Definition w24 : string := "web".
Definition w25 : string := "-web".
Definition w26 : string := "alice".
Definition w27 : string := "-alice".
Definition w28 : string := "system:*".
Definition w29 : string := "-system:*".
Definition w30 : string := "u*".
Definition w31 : string := "-u*".
Definition w32 : string := "system:serviceaccount:kube-system:default".
Definition w33 : string := "u".
Definition w34 : string := "-bob".
Definition w35 : string := "system:serviceaccount:*".
Definition w36 : string := "-system:serviceaccount:ns1:sa1".
Definition w37 : string := "bob".
Definition w38 : string := "u1".
Definition w39 : string := "system:admin".
Definition w40 : string := "system:serviceaccount:ns1:sa1".
Definition w41 : string := "g1".
Definition w42 : string := "-g1".
Definition w43 : string := "system:masters".
Definition w44 : string := "-system:masters".
Definition w45 : string := "-g2".
Definition w46 : string := "g2".
Definition w47 : string := "system:authenticated".
Definition w48 : string := "/healthz".
Definition w49 : string := "/healthz/*".
Definition w50 : string := "/api*".
Definition w51 : string := "-/healthz".
Definition w52 : string := "/".
Definition w53 : string := "/readyz*".
Definition w54 : string := "-/api*".
Definition w55 : string := "/healthz/etcd".
Definition w56 : string := "/api".
Definition w57 : string := "/apis/apps".
Definition w58 : string := "/readyz".
Definition w59 : string := "https://10.0.0.1:6443".
Definition w60 : string := "https://10.0.0.2:6443".
Definition w61 : string := "https://10.0.0.3:6443".
Definition w62 : string := "https://10.0.0.4:6443".
Definition w63 : string := "fc-a".
Definition w64 : string := "fc-b".
Definition w65 : string := "fc-c".
Definition w66 : string := "system-default".
Definition w67 : string := "status".
Definition w68 : string := "scale".
Definition w69 : string := "nodes".
Definition w70 : string := "kube-system".
Definition w71 : string := "default".
Definition w72 : string := "ns1".
Definition w73 : string := "sa1".
Definition w74 : string := "x".
Definition w75 : string := "https://10.0.0.9:6443".
Definition w76 : string := "post".

Inductive case :=
| CRoute (a : attrs) (ps : list policy) (eps : list string) (o : obs)
| COverlap (a : attrs) (old new : list policy) (eps : list string) (k : nat) (o : ov_obs)
| CBroken.                                  (* the harness panicked / gave no usable observation *)

(* what the model predicts for one ClusterInfo *)
Definition to_ma (r : option (string * list string)) : ma_obs :=
  match r with
  | None => mkMA true false "" []
  | Some (f, ups) => mkMA false true f ups
  end.
Definition model_ma (a : attrs) (ps : list policy) (eps : list string) : ma_obs :=
  to_ma (match_attributes a ps eps).

Definition agree (a : attrs) (ps : list policy) (eps : list string) (o : obs) : bool :=
  opt_nat_eqb (o_idx o) (match_policies a ps)
  && ma_eqb (o_fresh o) (model_ma a ps eps)
  && ma_eqb (o_aged o) (model_ma a ps eps)
  && match route a ps, o_idx o with
     | Forward i, Some j => Nat.eqb i j
     | Reject, None => true
     | _, _ => false
     end.

(* k = 0: the harness runs Sync(new) right before the call; k >= 1: the k-th attribute getter
   called by the matcher runs Sync(new) (all getters are called after the list was loaded; the
   model's interruption points are per policy read, and C01_overlapping_sync_old_or_new shows the
   answer does not depend on which point >= 1 it is) *)
Definition agree_overlap (a : attrs) (old new : list policy) (eps : list string) (k : nat) (o : ov_obs) : bool :=
  ma_eqb (ov_during o) (to_ma (overlapped_match a old new eps k))
  && ma_eqb (ov_after o) (model_ma a (if ov_fired o then new else old) eps)
  && match k with O => ov_fired o | _ => true end.

(* clause layout: agree, first_match, reject_iff_none, chosen_policy, age_independent, atomic_list *)
Definition eval (c : case) : list bool :=
  match c with
  | CRoute a ps eps o =>
      [ agree a ps eps o;
        first_ok a ps o;
        reject_ok a ps (o_fresh o) && reject_ok a ps (o_aged o);
        chosen_ok a ps eps (o_fresh o) && chosen_ok a ps eps (o_aged o);
        age_ok o;
        true ]
  | COverlap a old new eps k o =>
      [ agree_overlap a old new eps k o; true; true; true; true; atomic_list_ok a old new eps o ]
  | CBroken => [false; false; false; false; false; false]
  end.
