(* C03 — proofs: invariants over all micro-step histories (all schedules), pick soundness /
   completeness, contacted = picked, no traffic / no probe for disabled endpoints. *)
From KG Require Import Prelude C03_Model.
From Coq Require Import ZifyBool ZifyNat.
Open Scope Z_scope.

(* ---------- generic list lemmas ---------- *)
Lemma Forall_upd_nth {A} (P : A -> Prop) (f : A -> A) : forall l n,
  Forall P l -> (forall x, nth_error l n = Some x -> P x -> P (f x)) -> Forall P (upd_nth n f l).
Proof.
  induction l as [|x l IH]; intros n HF Hf; simpl.
  - destruct n; constructor.
  - inversion HF as [|? ? Hx Hl]; subst. destruct n as [|n]; simpl.
    + constructor; [apply Hf; [reflexivity|exact Hx]|exact Hl].
    + constructor; [exact Hx|]. apply IH; [exact Hl|]. intros y Hy. apply Hf. exact Hy.
Qed.

Lemma In_upd_nth {A} (f : A -> A) : forall l n y,
  In y (upd_nth n f l) -> In y l \/ exists x, nth_error l n = Some x /\ y = f x.
Proof.
  induction l as [|x l IH]; intros n y Hin; simpl in *.
  - destruct n; destruct Hin.
  - destruct n as [|n]; simpl in Hin.
    + destruct Hin as [<-|Hin]; [right; exists x; split; reflexivity|left; right; exact Hin].
    + destruct Hin as [<-|Hin]; [left; left; reflexivity|].
      destruct (IH n y Hin) as [H|[z [Hz ->]]]; [left; right; exact H|right; exists z; split; [exact Hz|reflexivity]].
Qed.

Lemma nth_error_In' {A} (l : list A) n x : nth_error l n = Some x -> In x l.
Proof. apply nth_error_In. Qed.

(* ---------- the invariant ---------- *)
Definition spec_enabled (s : st) (id : Z) : bool :=
  cexists s && wanted (servers s) id && negb (dis_in (servers s) id).

Definition inc_ok (sv : list (Z * bool)) (i : inc) : Prop :=
  (live i = true -> wanted sv (iid i) = true /\ disabled i = dis_in sv (iid i))
  /\ (forall g, In g (gens i) -> gdone g = false -> live i = true /\ disabled i = false /\ hascancel i = true)
  /\ (hascancel i = false -> forall g, In g (gens i) -> gdone g = true).

(* the endpoint belongs to the ClusterInfo object the manager holds now *)
Definition cur (s : st) (i : inc) : bool := cexists s && (icl i =? cgen s).

Definition inc_inv (s : st) (i : inc) : Prop :=
  icl i <= cgen s
  /\ (cur s i = true -> inc_ok (servers s) i)
  /\ (cur s i = false -> forall g, In g (gens i) -> gdone g = true).

Definition inv (s : st) : Prop := Forall (inc_inv s) (incs s).

Lemma inv_init : inv init.
Proof. constructor. Qed.

(* steps of one goroutine do not touch what the invariant talks about *)
Definition keeps (f : inc -> gen -> inc * gen * list event) : Prop :=
  forall i g i' g' ev, f i g = (i', g', ev) ->
    iid i' = iid i /\ live i' = live i /\ disabled i' = disabled i /\ hascancel i' = hascancel i
    /\ gens i' = gens i /\ gdone g' = gdone g /\ icl i' = icl i.

Lemma inc_ok_on_gen sv f i g i' g' ev gi :
  keeps f -> inc_ok sv i -> nth_error (gens i) gi = Some g -> f i g = (i', g', ev) ->
  inc_ok sv (set_gens i' (upd_nth gi (fun _ => g') (gens i'))).
Proof.
  intros Hk [H1 [H2 H3]] Hg Hf. destruct (Hk _ _ _ _ _ Hf) as [Eid [Elive [Edis [Ehc [Egens [Egd _]]]]]].
  unfold inc_ok; simpl. rewrite Eid, Elive, Edis, Ehc, Egens.
  split; [exact H1|]. split.
  - intros x Hx Hxd. destruct (In_upd_nth _ _ _ _ Hx) as [Hin|[y [Hy ->]]].
    + exact (H2 x Hin Hxd).
    + rewrite Hg in Hy; inversion Hy; subst y. apply (H2 g); [eapply nth_error_In; exact Hg|congruence].
  - intros Hhc x Hx. destruct (In_upd_nth _ _ _ _ Hx) as [Hin|[y [Hy ->]]].
    + exact (H3 Hhc x Hin).
    + rewrite Hg in Hy; inversion Hy; subst y. rewrite Egd. apply (H3 Hhc g). eapply nth_error_In; exact Hg.
Qed.

Lemma on_gen_frame k gi f s :
  servers (fst (on_gen k gi f s)) = servers s /\ cgen (fst (on_gen k gi f s)) = cgen s
  /\ cexists (fst (on_gen k gi f s)) = cexists s.
Proof.
  unfold on_gen. destruct (nth_error (incs s) k) as [i|]; [|repeat split].
  destruct (nth_error (gens i) gi) as [g|]; [|repeat split].
  destruct (f i g) as [[i' g'] ev]. repeat split.
Qed.

Lemma inc_inv_frame s s' i :
  servers s' = servers s -> cgen s' = cgen s -> cexists s' = cexists s -> inc_inv s i -> inc_inv s' i.
Proof. unfold inc_inv, cur. intros -> -> ->. tauto. Qed.

Lemma inv_on_gen k gi f s : keeps f -> inv s -> inv (fst (on_gen k gi f s)).
Proof.
  intros Hk Hinv. destruct (on_gen_frame k gi f s) as [F1 [F2 F3]].
  assert (Hgoal : Forall (inc_inv s) (incs (fst (on_gen k gi f s)))).
  { unfold on_gen.
    destruct (nth_error (incs s) k) as [i|] eqn:Ei; [|exact Hinv].
    destruct (nth_error (gens i) gi) as [g|] eqn:Eg; [|exact Hinv].
    destruct (f i g) as [[i' g'] ev] eqn:Ef. simpl.
    apply Forall_upd_nth; [exact Hinv|]. intros x Hx [Hle [Hc Hn]]. rewrite Ei in Hx; inversion Hx; subst x.
    destruct (Hk _ _ _ _ _ Ef) as [Eid [Elive [Edis [Ehc [Egens [Egd Ecl]]]]]].
    unfold inc_inv, cur in *; simpl. rewrite Ecl. split; [exact Hle|]. split.
    - intros Hcur. eapply inc_ok_on_gen; eauto.
    - intros Hcur x Hx'. rewrite Egens in Hx'. destruct (In_upd_nth _ _ _ _ Hx') as [Hin|[y [Hy ->]]].
      + exact (Hn Hcur x Hin).
      + rewrite Eg in Hy; inversion Hy; subst y. rewrite Egd. apply (Hn Hcur g). eapply nth_error_In; exact Eg. }
  unfold inv. eapply Forall_impl; [|exact Hgoal]. intros i Hi. eapply inc_inv_frame; eauto.
Qed.

Lemma keeps_timer : keeps (fun i g => (i, timer_fire g, [])).
Proof.
  intros i g i' g' ev H. inversion H; subst. repeat split; try reflexivity.
  unfold timer_fire. destruct (tp g); reflexivity.
Qed.

Lemma keeps_ticker b : keeps (fun i g => (ticker_step b i g, [])).
Proof.
  intros i g i' g' ev H. unfold ticker_step in H.
  destruct (tp g); [destruct (tpend g), (gdone g) eqn:Ed; try destruct b|destruct (chanfull i)|];
    inversion H; subst; simpl; repeat split; try reflexivity; try (symmetry; exact Ed); try exact Ed.
Qed.

Lemma keeps_worker rc b seq : keeps (worker_step rc b seq).
Proof.
  intros i g i' g' ev H. unfold worker_step, worker_take in H.
  destruct (wp g); [|inversion H; subst; repeat split; reflexivity|inversion H; subst; repeat split; reflexivity].
  destruct (chanfull i), (gdone g) eqn:Ed; try destruct b; try destruct rc; simpl in H;
    try destruct (disabled i) eqn:Edis; inversion H; subst; simpl; repeat split; try reflexivity;
    try (symmetry; exact Ed); try exact Ed; try exact Edis.
Qed.

Lemma keeps_probe r : keeps (fun i g => (probe_done r i g, [])).
Proof.
  intros i g i' g' ev H. unfold probe_done in H.
  destruct (wp g); try (inversion H; subst; repeat split; reflexivity).
  destruct r; inversion H; subst; simpl; repeat split; reflexivity.
Qed.

(* ---------- sync ---------- *)
Definition mid_ok (sv : list (Z * bool)) (i : inc) : Prop :=
  (live i = true -> wanted sv (iid i) = true)
  /\ (forall g, In g (gens i) -> gdone g = false -> live i = true /\ disabled i = false /\ hascancel i = true)
  /\ (hascancel i = false -> forall g, In g (gens i) -> gdone g = true).

Lemma cancel_all_done l g : In g (cancel_all l) -> gdone g = true.
Proof. unfold cancel_all. rewrite in_map_iff. intros [x [<- _]]. reflexivity. Qed.

Lemma sync_delete_mid c sv0 sv i : icl i = c -> inc_ok sv0 i -> mid_ok sv (sync_delete c sv i).
Proof.
  intros Hc [H1 [H2 H3]]. unfold sync_delete. rewrite Hc, Z.eqb_refl. simpl.
  destruct (live i) eqn:El; simpl.
  - destruct (wanted sv (iid i)) eqn:Ew; simpl.
    + unfold mid_ok. rewrite El. split; [intros _; exact Ew|]. split; [exact H2|exact H3].
    + unfold mid_ok; simpl. split; [discriminate|]. split.
      * intros g Hg Hd. rewrite (cancel_all_done _ _ Hg) in Hd. discriminate.
      * intros _ g Hg. exact (cancel_all_done _ _ Hg).
  - unfold mid_ok. rewrite El. split; [discriminate|]. split; [exact H2|exact H3].
Qed.

Lemma sync_delete_icl c sv i : icl (sync_delete c sv i) = icl i.
Proof. unfold sync_delete. destruct ((icl i =? c) && live i && negb (wanted sv (iid i))); reflexivity. Qed.

Lemma ensure_icl i : icl (ensure i) = icl i.
Proof. unfold ensure. destruct (disabled i && hascancel i); simpl; match goal with |- context [if ?c then _ else _] => destruct c end; reflexivity. Qed.

Lemma sync_update_icl c sv i : icl (sync_update c sv i) = icl i.
Proof. unfold sync_update. destruct ((icl i =? c) && live i); [rewrite ensure_icl; reflexivity|reflexivity]. Qed.

Lemma sync_other c sv i : icl i <> c -> sync_update c sv (sync_delete c sv i) = i.
Proof.
  intros H. assert (E : icl i =? c = false) by lia. unfold sync_delete. rewrite E. simpl.
  unfold sync_update. rewrite E. reflexivity.
Qed.

Lemma ensure_ok sv i :
  live i = true -> wanted sv (iid i) = true -> disabled i = dis_in sv (iid i) ->
  (forall g, In g (gens i) -> gdone g = false -> hascancel i = true) ->
  (hascancel i = false -> forall g, In g (gens i) -> gdone g = true) ->
  inc_ok sv (ensure i).
Proof.
  intros El Ew Ed H2 H3. unfold ensure.
  destruct (disabled i) eqn:Edis, (hascancel i) eqn:Ehc; simpl; rewrite ?Edis, ?Ehc; simpl.
  - unfold inc_ok; simpl. split; [intros _; split; [exact Ew|exact Ed]|]. split.
    + intros g Hg Hd. rewrite (cancel_all_done _ _ Hg) in Hd. discriminate.
    + intros _ g Hg. exact (cancel_all_done _ _ Hg).
  - unfold inc_ok. rewrite ?El, ?Edis, ?Ehc. split; [intros _; split; [exact Ew|exact Ed]|]. split.
    + intros g Hg Hd. rewrite (H3 eq_refl g Hg) in Hd. discriminate.
    + intros _. exact (H3 eq_refl).
  - unfold inc_ok. rewrite ?El, ?Edis, ?Ehc. split; [intros _; split; [exact Ew|exact Ed]|]. split.
    + intros g Hg Hd. repeat split; reflexivity.
    + discriminate.
  - unfold inc_ok; simpl. rewrite ?El, ?Edis. split; [intros _; split; [exact Ew|exact Ed]|]. split.
    + intros g Hg Hd. repeat split; reflexivity.
    + discriminate.
Qed.

Lemma sync_update_ok c sv i : icl i = c -> mid_ok sv i -> inc_ok sv (sync_update c sv i).
Proof.
  intros Hc [H1 [H2 H3]]. unfold sync_update. rewrite Hc, Z.eqb_refl. simpl. destruct (live i) eqn:El.
  - apply ensure_ok; simpl; try reflexivity; try exact El.
    + exact (H1 eq_refl).
    + intros g Hg Hd. exact (proj2 (proj2 (H2 g Hg Hd))).
    + exact H3.
  - unfold inc_ok. rewrite El. split; [discriminate|]. split; [|exact H3].
    intros g Hg Hd. destruct (H2 g Hg Hd) as [C _]. discriminate.
Qed.

Lemma wanted_in sv id : In id (map fst sv) -> wanted sv id = true.
Proof.
  intros H. unfold wanted. apply existsb_exists. apply in_map_iff in H. destruct H as [p [<- Hp]].
  exists p. split; [exact Hp|apply Z.eqb_refl].
Qed.

Lemma new_inc_ok c sv id : wanted sv id = true -> inc_ok sv (new_inc c id (dis_in sv id)) /\ icl (new_inc c id (dis_in sv id)) = c.
Proof.
  intros Hw. unfold new_inc. split; [|rewrite ensure_icl; reflexivity].
  apply ensure_ok; simpl; try reflexivity; try exact Hw.
  - intros g [].
  - intros _ g [].
Qed.

Lemma sync_add_ok (P : inc -> Prop) c sv : forall todo l,
  (forall id, In id todo -> wanted sv id = true) ->
  (forall i, inc_ok sv i -> icl i = c -> P i) ->
  Forall P l -> Forall P (sync_add c sv todo l).
Proof.
  induction todo as [|id r IH]; intros l Hw HP Hl; simpl; [exact Hl|].
  destruct (has_live l c id).
  - apply IH; [intros x Hx; apply Hw; right; exact Hx|exact HP|exact Hl].
  - apply IH; [intros x Hx; apply Hw; right; exact Hx|exact HP|].
    apply Forall_app. split; [exact Hl|]. constructor; [|constructor].
    destruct (new_inc_ok c sv id (Hw id (or_introl eq_refl))) as [H1 H2]. apply HP; assumption.
Qed.

Lemma inv_sync sv subs s : inv s -> inv (do_sync sv subs s).
Proof.
  intros Hinv. unfold inv, do_sync.
  set (c := if cexists s then cgen s else cgen s + 1).
  cbn [incs]. apply sync_add_ok; [intros id Hid; apply wanted_in; exact Hid| |].
  - intros i Hok Hc. unfold inc_inv, cur; simpl. rewrite Hc, Z.eqb_refl. split; [lia|]. split; [intros _; exact Hok|discriminate].
  - rewrite Forall_map. rewrite Forall_map.
    eapply Forall_impl; [|exact Hinv]. intros i [Hle [Hc Hn]].
    unfold inc_inv, cur in *; simpl. rewrite sync_update_icl, sync_delete_icl.
    destruct (icl i =? c) eqn:E.
    + (* an endpoint of the object being synced: only possible when the cluster exists *)
      assert (Hex : cexists s = true /\ icl i = cgen s).
      { subst c. destruct (cexists s); [split; [reflexivity|lia]|lia]. }
      destruct Hex as [Hex Hg]. assert (Hic : icl i = c) by lia.
      split; [lia|]. split; [|discriminate].
      intros _. apply sync_update_ok; [rewrite sync_delete_icl; exact Hic|].
      eapply sync_delete_mid; [exact Hic|]. apply Hc. rewrite Hex, Hg, Z.eqb_refl. reflexivity.
    + rewrite (sync_other c sv i) by lia. split; [subst c; destruct (cexists s); lia|]. split; [discriminate|].
      intros _. apply Hn. destruct (cexists s) eqn:Ex; [|reflexivity].
      subst c. simpl. assert (icl i =? cgen s = false) by lia. rewrite H. reflexivity.
Qed.

Lemma inv_delete s : inv s -> inv (do_delete s).
Proof.
  intros Hinv. unfold do_delete. destruct (cexists s) eqn:Ex; [|exact Hinv].
  unfold inv; cbn [incs]. rewrite Forall_map. eapply Forall_impl; [|exact Hinv].
  intros i [Hle [Hc Hn]]. unfold inc_inv, cur in *; simpl.
  destruct (icl i =? cgen s) eqn:E; simpl.
  - split; [exact Hle|]. split; [discriminate|]. intros _ g Hg. exact (cancel_all_done _ _ Hg).
  - split; [exact Hle|]. split; [discriminate|]. intros _. apply Hn. rewrite ?Ex, ?E. reflexivity.
Qed.

Lemma inv_micro rc s m : inv s -> inv (fst (micro rc s m)).
Proof.
  intros Hinv. destruct m; simpl.
  - apply inv_sync; exact Hinv.
  - apply inv_on_gen; [apply keeps_timer|exact Hinv].
  - apply inv_on_gen; [apply keeps_ticker|exact Hinv].
  - pose proof (inv_on_gen k gi (worker_step rc b (nextseq s)) s (keeps_worker rc b (nextseq s)) Hinv) as H.
    destruct (on_gen k gi (worker_step rc b (nextseq s)) s) as [s' ev]. simpl in *.
    unfold inv in *; simpl. eapply Forall_impl; [|exact H]. intros i Hi. eapply inc_inv_frame; [| | |exact Hi]; reflexivity.
  - apply inv_on_gen; [apply keeps_probe|exact Hinv].
  - unfold inv; simpl. rewrite Forall_map. eapply Forall_impl; [|exact Hinv].
    intros i Hi. destruct (live i && (iid i =? id) && (icl i =? cgen s) && cexists s); [|eapply inc_inv_frame; [| | |exact Hi]; reflexivity].
    destruct Hi as [Hle [Hc Hn]]. unfold inc_inv, cur in *; simpl. tauto.
  - destruct (cexists s) eqn:Ex; simpl; [|exact Hinv]. destruct (upstreams_of s p); simpl;
      (unfold inv; simpl; eapply Forall_impl; [|exact Hinv]; intros i Hi; eapply inc_inv_frame; [| | |exact Hi];
       simpl; try reflexivity; symmetry; exact Ex).
  - destruct (zlook slot (pickers s)) as [[c ups]|]; [|exact Hinv]. destruct (pop s c ups choice); exact Hinv.
  - destruct (cexists s); simpl; [|exact Hinv].
    destruct (upstreams_of s p) as [ups|]; [|exact Hinv]. destruct (pop s (cgen s) ups choice); exact Hinv.
  - apply inv_delete; exact Hinv.
  - destruct (cexists s) eqn:Ex; simpl; [|exact Hinv].
    unfold inv; simpl. eapply Forall_impl; [|exact Hinv]. intros i Hi. eapply inc_inv_frame; [| | |exact Hi];
      simpl; try reflexivity; symmetry; exact Ex.
  - destruct (zlook slot (handles s)) as [c|]; [|exact Hinv]. destruct (pop s c (live_ids (incs s) c) choice); exact Hinv.
Qed.

Lemma inv_run rc : forall ms s, inv s -> inv (run_micro rc s ms).
Proof.
  induction ms as [|m r IH]; intros s H; simpl; [exact H|]. apply IH. apply inv_micro. exact H.
Qed.

Lemma inv_reach rc ms : inv (run_micro rc init ms).
Proof. apply inv_run. exact inv_init. Qed.

(* ---------- picking ---------- *)
Lemma find_live_spec l c id i : find_live l c id = Some i -> In i l /\ live i = true /\ iid i = id /\ icl i = c.
Proof.
  unfold find_live. intros H. destruct (find_some _ _ H) as [Hin Hb].
  apply andb_prop in Hb. destruct Hb as [Hb Hc]. apply andb_prop in Hb. destruct Hb as [Hl He].
  repeat split; try assumption; lia.
Qed.

Lemma ready_of_In s c ups id : In id (ready_of s c ups) ->
  In id ups /\ cexists s = true /\ c = cgen s
  /\ exists i, find_live (incs s) c id = Some i /\ disabled i = false /\ healthy i = true.
Proof.
  unfold ready_of. rewrite filter_In. intros [Hin Hb]. split; [exact Hin|].
  destruct (find_live (incs s) c id) as [i|]; [|discriminate].
  apply andb_prop in Hb. destruct Hb as [Hs Hr]. unfold stopped in Hs.
  destruct (cexists s) eqn:Ex; [|discriminate]. simpl in Hs.
  destruct (c =? cgen s) eqn:Ec; [|discriminate].
  split; [reflexivity|]. split; [lia|]. exists i. split; [reflexivity|].
  unfold is_ready in Hr. apply andb_prop in Hr. destruct Hr as [Hd Hh].
  split; [destruct (disabled i); [discriminate|reflexivity]|exact Hh].
Qed.

Lemma pop_In s c ups choice id : pop s c ups choice = Some id -> In id (ready_of s c ups).
Proof.
  unfold pop. destruct (ready_of s c ups) as [|x r] eqn:E; [discriminate|]. intros H. eapply nth_error_In. exact H.
Qed.

Lemma pop_none s c ups choice : pop s c ups choice = None <-> ready_of s c ups = [].
Proof.
  unfold pop. destruct (ready_of s c ups) as [|x r] eqn:E; [tauto|]. split; [|discriminate].
  intros H. exfalso. apply nth_error_None in H.
  pose proof (Nat.mod_upper_bound choice (List.length (x :: r))) as Hb. simpl in *. lia.
Qed.

(* an endpoint of a stopped ClusterInfo is never ready, whatever its frozen flags *)
Lemma ready_of_stopped s c ups : stopped s c = true -> ready_of s c ups = [].
Proof.
  intros H. unfold ready_of. induction ups as [|x r IH]; simpl; [reflexivity|].
  destruct (find_live (incs s) c x) as [i|]; [|exact IH].
  replace (negb (stopped s c) && is_ready i) with false by (rewrite H; reflexivity). exact IH.
Qed.

Lemma live_enabled s id i :
  inv s -> cexists s = true -> find_live (incs s) (cgen s) id = Some i -> disabled i = false ->
  wanted (servers s) id = true /\ dis_in (servers s) id = false.
Proof.
  intros Hinv Hex Hf Hd. destruct (find_live_spec _ _ _ _ Hf) as [Hin [Hl [<- Hc]]].
  unfold inv in Hinv. rewrite Forall_forall in Hinv. destruct (Hinv i Hin) as [_ [H1 _]].
  assert (Hcur : cur s i = true) by (unfold cur; rewrite Hex, Hc, Z.eqb_refl; reflexivity).
  destruct (H1 Hcur) as [Hok _]. destruct (Hok Hl) as [Hw He]. split; [exact Hw|congruence].
Qed.

Definition subset_given (s : st) (p : Z) (id : Z) : Prop :=
  forall sub, 0 <= p -> nth_error (subsets s) (Z.to_nat p) = Some sub -> sub <> [] -> In id sub.

Lemma upstreams_subset s p ups id : upstreams_of s p = Some ups -> In id ups -> subset_given s p id.
Proof.
  unfold upstreams_of, subset_given. intros H Hin sub Hp Hn Hne.
  destruct (p <? 0) eqn:Elt; [lia|]. rewrite Hn in H. destruct sub as [|x r]; [congruence|].
  inversion H; subst. exact Hin.
Qed.

(* whatever Pop returns for a picker of ClusterInfo object c, in a reachable state: the cluster exists,
   c is the object the manager holds, the endpoint is in the server list of the last sync, enabled, healthy *)
Lemma pop_ready_sound rc ms c ups choice id :
  let s := run_micro rc init ms in
  pop s c ups choice = Some id ->
  In id ups /\ cexists s = true /\ c = cgen s
  /\ wanted (servers s) id = true /\ dis_in (servers s) id = false
  /\ exists i, find_live (incs s) (cgen s) id = Some i /\ disabled i = false /\ healthy i = true.
Proof.
  intros s Hp. destruct (ready_of_In _ _ _ _ (pop_In _ _ _ _ _ Hp)) as [Hin [Hex [Hc [i [Hf [Hd Hh]]]]]].
  subst c. destruct (live_enabled s id i (inv_reach rc ms) Hex Hf Hd) as [Hw Hdi].
  repeat split; try assumption. exists i. tauto.
Qed.

Lemma request_sound rc ms p choice id :
  let s := run_micro rc init ms in
  In (EContact id) (snd (micro rc s (MRequest p choice))) ->
  cexists s = true /\ wanted (servers s) id = true /\ dis_in (servers s) id = false /\ subset_given s p id
  /\ exists i, find_live (incs s) (cgen s) id = Some i /\ disabled i = false /\ healthy i = true.
Proof.
  intros s H. simpl in H. destruct (cexists s) eqn:Ex; simpl in H; [|intuition discriminate].
  destruct (upstreams_of s p) as [ups|] eqn:Eu; [|simpl in H; intuition discriminate].
  destruct (pop s (cgen s) ups choice) as [x|] eqn:Ep; simpl in H.
  - destruct H as [H|[H|[]]]; [discriminate|]. inversion H; subst x.
    destruct (pop_ready_sound rc ms _ _ _ _ Ep) as [Hin [_ [_ [Hw [Hdi Hi]]]]].
    split; [reflexivity|]. split; [exact Hw|]. split; [exact Hdi|]. split; [eapply upstreams_subset; eauto|exact Hi].
  - destruct H as [H|[H|[]]]; discriminate.
Qed.

Lemma pop_sound rc ms slot choice id :
  let s := run_micro rc init ms in
  In (EPick id) (snd (micro rc s (MPop slot choice))) ->
  exists c ups, zlook slot (pickers s) = Some (c, ups) /\ In id ups
  /\ cexists s = true /\ c = cgen s
  /\ wanted (servers s) id = true /\ dis_in (servers s) id = false
  /\ exists i, find_live (incs s) (cgen s) id = Some i /\ disabled i = false /\ healthy i = true.
Proof.
  intros s H. simpl in H. destruct (zlook slot (pickers s)) as [[c ups]|] eqn:Ez; [|destruct H].
  destruct (pop s c ups choice) as [x|] eqn:Ep; simpl in H; [|destruct H as [H|[]]; discriminate].
  destruct H as [H|[]]. inversion H; subst x.
  destruct (pop_ready_sound rc ms _ _ _ _ Ep) as [Hin [Hex [Hc [Hw [Hdi Hi]]]]].
  exists c, ups. repeat split; assumption.
Qed.

Lemma pickone_sound rc ms slot choice id :
  let s := run_micro rc init ms in
  In (EPick id) (snd (micro rc s (MPickOne slot choice))) ->
  exists c, zlook slot (handles s) = Some c /\ cexists s = true /\ c = cgen s
  /\ wanted (servers s) id = true /\ dis_in (servers s) id = false
  /\ exists i, find_live (incs s) (cgen s) id = Some i /\ disabled i = false /\ healthy i = true.
Proof.
  intros s H. simpl in H. destruct (zlook slot (handles s)) as [c|] eqn:Ez; [|destruct H].
  destruct (pop s c (live_ids (incs s) c) choice) as [x|] eqn:Ep; simpl in H; [|destruct H as [H|[]]; discriminate].
  destruct H as [H|[]]. inversion H; subst x.
  destruct (pop_ready_sound rc ms _ _ _ _ Ep) as [Hin [Hex [Hc [Hw [Hdi Hi]]]]].
  exists c. repeat split; assumption.
Qed.

Lemma zlook_zrem_same {A} k (l : list (Z * A)) : zlook k (zrem k l) = None.
Proof.
  induction l as [|[k' v] r IH]; simpl; [reflexivity|].
  destruct (k =? k') eqn:E; [exact IH|]. simpl. rewrite E. exact IH.
Qed.

(* MatchAttributes on an existing cluster captures the ClusterInfo object and the policy's subset, or all
   its current endpoints when the subset is empty *)
Lemma match_captures rc s p slot :
  cexists s = true ->
  zlook slot (pickers (fst (micro rc s (MMatch p slot)))) = option_map (fun ups => (cgen s, ups)) (upstreams_of s p).
Proof.
  intros Hex. simpl. rewrite Hex. simpl. destruct (upstreams_of s p) as [ups|]; simpl.
  - rewrite Z.eqb_refl. reflexivity.
  - apply zlook_zrem_same.
Qed.

Lemma pick_sound rc ms :
  let s := run_micro rc init ms in
  (forall p choice id, In (EContact id) (snd (micro rc s (MRequest p choice))) ->
     cexists s = true /\ wanted (servers s) id = true /\ dis_in (servers s) id = false /\ subset_given s p id
     /\ exists i, find_live (incs s) (cgen s) id = Some i /\ disabled i = false /\ healthy i = true)
  /\ (forall slot choice id, In (EPick id) (snd (micro rc s (MPop slot choice))) ->
     exists c ups, zlook slot (pickers s) = Some (c, ups) /\ In id ups
     /\ cexists s = true /\ c = cgen s
     /\ wanted (servers s) id = true /\ dis_in (servers s) id = false
     /\ exists i, find_live (incs s) (cgen s) id = Some i /\ disabled i = false /\ healthy i = true)
  /\ (forall p slot, cexists s = true ->
        zlook slot (pickers (fst (micro rc s (MMatch p slot)))) = option_map (fun ups => (cgen s, ups)) (upstreams_of s p))
  /\ (forall p ups id, upstreams_of s p = Some ups -> In id ups -> subset_given s p id).
Proof.
  intros s. split; [intros; eapply request_sound; eauto|]. split; [intros; eapply pop_sound; eauto|].
  split; [intros; apply match_captures; assumption|intros; eapply upstreams_subset; eauto].
Qed.

(* no ready endpoint among the upstreams -> error / 503 and nothing contacted *)
Lemma ready_of_nil s c ups :
  (forall id i, In id ups -> find_live (incs s) c id = Some i -> negb (stopped s c) && is_ready i = false) ->
  ready_of s c ups = [].
Proof.
  intros H. unfold ready_of. induction ups as [|x r IH]; simpl; [reflexivity|].
  destruct (find_live (incs s) c x) as [i|] eqn:E.
  - rewrite (H x i (or_introl eq_refl) E). apply IH. intros id j Hin. apply H. right; exact Hin.
  - apply IH. intros id j Hin. apply H. right; exact Hin.
Qed.

Lemma pick_complete rc s :
  (forall p choice ups, cexists s = true -> upstreams_of s p = Some ups ->
     (forall id i, In id ups -> find_live (incs s) (cgen s) id = Some i -> is_ready i = false) ->
     micro rc s (MRequest p choice) = (s, [ENone; E503]))
  /\ (forall slot choice c ups, zlook slot (pickers s) = Some (c, ups) ->
     (forall id i, In id ups -> find_live (incs s) c id = Some i -> negb (stopped s c) && is_ready i = false) ->
     micro rc s (MPop slot choice) = (s, [ENone])).
Proof.
  split.
  - intros p choice ups Hex Hu Hn. simpl. rewrite Hex, Hu. simpl.
    destruct (pop s (cgen s) ups choice) as [x|] eqn:Ep; [|reflexivity].
    apply pop_In in Ep. rewrite ready_of_nil in Ep; [destruct Ep|].
    intros id i Hin Hf. rewrite (Hn id i Hin Hf). apply andb_false_r.
  - intros slot choice c ups Hz Hn. simpl. rewrite Hz.
    destruct (pop s c ups choice) as [x|] eqn:Ep; [|reflexivity].
    apply pop_In in Ep. rewrite (ready_of_nil _ _ _ Hn) in Ep. destruct Ep.
Qed.

(* stale handles: a picker or a ClusterInfo taken from a cluster object that has been stopped since
   (the cluster was deleted, possibly re-created as a new object) never yields an endpoint, and a request
   for a cluster that does not exist is answered 503 *)
Lemma stale_handle rc s :
  (forall slot choice c ups, zlook slot (pickers s) = Some (c, ups) -> stopped s c = true ->
     micro rc s (MPop slot choice) = (s, [ENone]))
  /\ (forall slot choice c, zlook slot (handles s) = Some c -> stopped s c = true ->
     micro rc s (MPickOne slot choice) = (s, [ENone]))
  /\ (forall p choice, cexists s = false -> micro rc s (MRequest p choice) = (s, [E503])).
Proof.
  split; [|split].
  - intros slot choice c ups Hz Hs. simpl. rewrite Hz. unfold pop. rewrite (ready_of_stopped _ _ _ Hs). reflexivity.
  - intros slot choice c Hz Hs. simpl. rewrite Hz. unfold pop. rewrite (ready_of_stopped _ _ _ Hs). reflexivity.
  - intros p choice Hex. simpl. rewrite Hex. reflexivity.
Qed.

Lemma on_gen_events k gi f s e :
  In e (snd (on_gen k gi f s)) -> exists i g i' g' ev, gen_at s k gi = Some (i, g) /\ f i g = (i', g', ev) /\ In e ev.
Proof.
  unfold on_gen, gen_at. destruct (nth_error (incs s) k) as [i|]; [|intros []].
  destruct (nth_error (gens i) gi) as [g|]; [|intros []].
  destruct (f i g) as [[i' g'] ev] eqn:Ef. simpl. intros H. exists i, g, i', g', ev. tauto.
Qed.

Lemma worker_events rc b seq i g i' g' ev e :
  worker_step rc b seq i g = (i', g', ev) -> In e ev -> e = EProbe (iid i).
Proof.
  unfold worker_step, worker_take. intros Hf Hin.
  destruct (wp g); [|inversion Hf; subst; destruct Hin|inversion Hf; subst; destruct Hin].
  destruct (chanfull i), (gdone g); try destruct b; try destruct rc; simpl in Hf; try destruct (disabled i);
    inversion Hf; subst; simpl in Hin; intuition.
Qed.

(* the only step that contacts an upstream is the dispatcher's, and it contacts the endpoint Pop returned *)
Lemma contacted_is_picked rc s m id :
  In (EContact id) (snd (micro rc s m)) ->
  exists p choice, m = MRequest p choice /\ snd (micro rc s m) = [EPick id; EContact id].
Proof.
  destruct m; simpl; try (intros []).
  - intros H. destruct (on_gen_events _ _ _ _ _ H) as [i [g [i' [g' [ev [_ [Hf Hin]]]]]]]. inversion Hf; subst. destruct Hin.
  - intros H. destruct (on_gen_events _ _ _ _ _ H) as [i [g [i' [g' [ev [_ [Hf Hin]]]]]]]. inversion Hf; subst. destruct Hin.
  - destruct (on_gen k gi (worker_step rc b (nextseq s)) s) as [s' ev] eqn:E. simpl. intros H.
    assert (H' : In (EContact id) (snd (on_gen k gi (worker_step rc b (nextseq s)) s))) by (rewrite E; exact H).
    destruct (on_gen_events _ _ _ _ _ H') as [i [g [i' [g' [ev' [_ [Hf Hin]]]]]]].
    pose proof (worker_events _ _ _ _ _ _ _ _ _ Hf Hin). discriminate.
  - intros H. destruct (on_gen_events _ _ _ _ _ H) as [i [g [i' [g' [ev [_ [Hf Hin]]]]]]]. inversion Hf; subst. destruct Hin.
  - destruct (cexists s); simpl; [|intuition discriminate]. destruct (upstreams_of s p); simpl; intuition discriminate.
  - destruct (zlook slot (pickers s)) as [[c ups]|]; [|intros []].
    destruct (pop s c ups choice); simpl; intuition discriminate.
  - destruct (cexists s); simpl; [|intuition discriminate].
    destruct (upstreams_of s p) as [ups|]; [|simpl; intuition discriminate].
    destruct (pop s (cgen s) ups choice) as [x|]; simpl; [|intuition discriminate].
    intros [H|[H|[]]]; [discriminate|]. inversion H; subst. exists p, choice. split; reflexivity.
  - destruct (cexists s); simpl; intuition discriminate.
  - destruct (zlook slot (handles s)) as [c|]; [|intros []].
    destruct (pop s c (live_ids (incs s) c) choice); simpl; intuition discriminate.
Qed.

(* over all histories and schedules: whatever is contacted is enabled in the spec in force of a cluster that exists *)
Lemma disabled_no_traffic rc ms m id :
  let s := run_micro rc init ms in
  In (EContact id) (snd (micro rc s m)) -> spec_enabled s id = true.
Proof.
  intros s H. destruct (contacted_is_picked rc s m id H) as [p [choice [-> _]]].
  destruct (request_sound rc ms p choice id H) as [Hex [Hw [Hd _]]].
  unfold spec_enabled. subst s. cbv zeta in Hex, Hw, Hd. rewrite Hex, Hw, Hd. reflexivity.
Qed.

(* over all histories and schedules, stale handles included: every endpoint that Pop / PickOne / the
   dispatcher returns at some moment is, at that moment, in the server list of a cluster that exists, and
   enabled there *)
Lemma routes_only_current rc ms m id :
  let s := run_micro rc init ms in
  In (EPick id) (snd (micro rc s m)) -> spec_enabled s id = true.
Proof.
  intros s H. unfold spec_enabled.
  destruct m; simpl in H; try (destruct H; fail).
  - destruct (on_gen_events _ _ _ _ _ H) as [i [g [i' [g' [ev [_ [Hf Hin]]]]]]]. inversion Hf; subst. destruct Hin.
  - destruct (on_gen_events _ _ _ _ _ H) as [i [g [i' [g' [ev [_ [Hf Hin]]]]]]]. inversion Hf; subst. destruct Hin.
  - destruct (on_gen k gi (worker_step rc b (nextseq s)) s) as [s' ev] eqn:E. simpl in H.
    assert (H' : In (EPick id) (snd (on_gen k gi (worker_step rc b (nextseq s)) s))) by (rewrite E; exact H).
    destruct (on_gen_events _ _ _ _ _ H') as [i [g [i' [g' [ev' [_ [Hf Hin]]]]]]].
    pose proof (worker_events _ _ _ _ _ _ _ _ _ Hf Hin). discriminate.
  - destruct (on_gen_events _ _ _ _ _ H) as [i [g [i' [g' [ev [_ [Hf Hin]]]]]]]. inversion Hf; subst. destruct Hin.
  - destruct (cexists s); simpl in H; [|intuition discriminate]. destruct (upstreams_of s p); simpl in H; intuition discriminate.
  - assert (H' : In (EPick id) (snd (micro rc s (MPop slot choice)))) by exact H.
    destruct (pop_sound rc ms slot choice id H') as [c [ups [_ [_ [Hex [_ [Hw [Hd _]]]]]]]].
    subst s. cbv zeta in *. rewrite Hex, Hw, Hd. reflexivity.
  - destruct (cexists s) eqn:Ex; simpl in H; [|intuition discriminate].
    destruct (upstreams_of s p) as [ups|]; [|simpl in H; intuition discriminate].
    destruct (pop s (cgen s) ups choice) as [x|] eqn:Ep; simpl in H; [|intuition discriminate].
    destruct H as [H|[H|[]]]; [|discriminate]. inversion H; subst x.
    destruct (pop_ready_sound rc ms _ _ _ _ Ep) as [_ [Hex [_ [Hw [Hd _]]]]].
    subst s. cbv zeta in *. rewrite ?Hex. rewrite Hw, Hd. reflexivity.
  - destruct (cexists s); simpl in H; intuition discriminate.
  - assert (H' : In (EPick id) (snd (micro rc s (MPickOne slot choice)))) by exact H.
    destruct (pickone_sound rc ms slot choice id H') as [c [_ [Hex [_ [Hw [Hd _]]]]]].
    subst s. cbv zeta in *. rewrite Hex, Hw, Hd. reflexivity.
Qed.

(* ---------- probes ---------- *)
(* an uncancelled probe context exists only for an endpoint that the spec in force lists as enabled *)
Lemma live_context_enabled rc ms k gi i g :
  let s := run_micro rc init ms in
  gen_at s k gi = Some (i, g) -> gdone g = false -> spec_enabled s (iid i) = true /\ disabled i = false.
Proof.
  intros s Hg Hd. unfold gen_at in Hg.
  destruct (nth_error (incs s) k) as [i0|] eqn:Ei; [|discriminate].
  destruct (nth_error (gens i0) gi) as [g0|] eqn:Eg; [|discriminate]. inversion Hg; subst i0 g0.
  pose proof (inv_reach rc ms) as Hinv. fold s in Hinv. unfold inv in Hinv. rewrite Forall_forall in Hinv.
  destruct (Hinv i (nth_error_In _ _ Ei)) as [_ [Hc Hn]].
  destruct (cur s i) eqn:Ecur.
  - destruct (Hc eq_refl) as [H1 [H2 _]].
    destruct (H2 g (nth_error_In _ _ Eg) Hd) as [Hl [Hdis _]]. destruct (H1 Hl) as [Hw He].
    unfold cur in Ecur. apply andb_prop in Ecur. destruct Ecur as [Hex _].
    unfold spec_enabled. rewrite Hex, Hw. rewrite <- He, Hdis. split; reflexivity.
  - rewrite (Hn eq_refl g (nth_error_In _ _ Eg)) in Hd. discriminate.
Qed.

(* every probe of an endpoint that is not enabled comes from a cancelled goroutine whose select, with
   both the trigger and ctx.Done() ready, took the trigger — and only in the code before the fix *)
Lemma probe_cause rc ms m id :
  let s := run_micro rc init ms in
  In (EProbe id) (snd (micro rc s m)) ->
  spec_enabled s id = true
  \/ (rc = false /\ exists k gi i g, m = MWorker k gi true /\ gen_at s k gi = Some (i, g)
                                     /\ iid i = id /\ gdone g = true /\ chanfull i = true).
Proof.
  intros s H. destruct m; simpl in H; try (destruct H; fail).
  - destruct (on_gen_events _ _ _ _ _ H) as [i [g [i' [g' [ev [_ [Hf Hin]]]]]]]. inversion Hf; subst. destruct Hin.
  - destruct (on_gen_events _ _ _ _ _ H) as [i [g [i' [g' [ev [_ [Hf Hin]]]]]]]. inversion Hf; subst. destruct Hin.
  - destruct (on_gen k gi (worker_step rc b (nextseq s)) s) as [s' ev] eqn:E. simpl in H.
    assert (H' : In (EProbe id) (snd (on_gen k gi (worker_step rc b (nextseq s)) s))) by (rewrite E; exact H).
    destruct (on_gen_events _ _ _ _ _ H') as [i [g [i' [g' [ev' [Hg [Hf Hin]]]]]]].
    unfold worker_step, worker_take in Hf.
    destruct (wp g); [|inversion Hf; subst; destruct Hin|inversion Hf; subst; destruct Hin].
    destruct (chanfull i) eqn:Ec, (gdone g) eqn:Ed.
    + destruct b; [|inversion Hf; subst; destruct Hin].
      destruct rc; simpl in Hf; [inversion Hf; subst; destruct Hin|].
      inversion Hf; subst. destruct Hin as [Hin|[]]. inversion Hin; subst.
      right. split; [reflexivity|]. exists k, gi, i, g. tauto.
    + destruct (live_context_enabled rc ms k gi i g Hg Ed) as [Hen Hdis]. fold s in Hen.
      destruct rc; simpl in Hf; rewrite ?Hdis in Hf; inversion Hf; subst; destruct Hin as [Hin|[]];
        inversion Hin; subst; left; exact Hen.
    + inversion Hf; subst; destruct Hin.
    + inversion Hf; subst; destruct Hin.
  - destruct (on_gen_events _ _ _ _ _ H) as [i [g [i' [g' [ev [_ [Hf Hin]]]]]]]. inversion Hf; subst. destruct Hin.
  - destruct (cexists s); simpl in H; [|intuition discriminate]. destruct (upstreams_of s p); simpl in H; intuition discriminate.
  - destruct (zlook slot (pickers s)) as [[c ups]|]; [|destruct H].
    destruct (pop s c ups choice); simpl in H; intuition discriminate.
  - destruct (cexists s); simpl in H; [|intuition discriminate].
    destruct (upstreams_of s p) as [ups|]; [|simpl in H; intuition discriminate].
    destruct (pop s (cgen s) ups choice); simpl in H; intuition discriminate.
  - destruct (cexists s); simpl in H; intuition discriminate.
  - destruct (zlook slot (handles s)) as [c|]; [|destruct H].
    destruct (pop s c (live_ids (incs s) c) choice); simpl in H; intuition discriminate.
Qed.

Lemma disabled_no_new_probe rc ms :
  let s := run_micro rc init ms in
  (forall k gi i g, gen_at s k gi = Some (i, g) -> gdone g = false -> spec_enabled s (iid i) = true)
  /\ (forall m id, In (EProbe id) (snd (micro rc s m)) ->
        spec_enabled s id = true
        \/ (rc = false /\ exists k gi i g, m = MWorker k gi true /\ gen_at s k gi = Some (i, g)
                                           /\ iid i = id /\ gdone g = true /\ chanfull i = true)).
Proof.
  intros s. split.
  - intros k gi i g Hg Hd. exact (proj1 (live_context_enabled rc ms k gi i g Hg Hd)).
  - intros m id. apply probe_cause.
Qed.

Lemma disabled_no_probe_at_all ms m id :
  let s := run_micro true init ms in
  In (EProbe id) (snd (micro true s m)) -> spec_enabled s id = true.
Proof.
  intros s H. destruct (probe_cause true ms m id H) as [Hen|[C _]]; [exact Hen|discriminate].
Qed.

(* ---------- the harness-level ops are schedules of micro steps ---------- *)
Lemma run_events_app rc : forall a b s acc,
  run_events rc s (a ++ b) acc = let '(s1, e1) := run_events rc s a acc in run_events rc s1 b e1.
Proof.
  induction a as [|m r IH]; intros b s acc; simpl; [reflexivity|].
  destruct (micro rc s m) as [s' e]. apply IH.
Qed.

Lemma visit_sched rc : forall pos bits s acc,
  exists ms, fst (visit rc pos bits s acc) = run_events rc s ms acc.
Proof.
  induction pos as [|[[k gi] w] r IH]; intros bits s acc.
  - exists []. reflexivity.
  - cbn [visit].
    match goal with |- context [let '(_, _) := ?X in _] => destruct X as [b bits1] end.
    destruct (micro rc s (if w then MWorker k gi b else MTicker k gi b)) as [s1 e1] eqn:E1.
    destruct (IH bits1 s1 (acc ++ e1)) as [ms Hms].
    exists ((if w then MWorker k gi b else MTicker k gi b) :: ms). rewrite Hms.
    cbn [run_events]. rewrite E1. reflexivity.
Qed.

Lemma settle_sched rc : forall fuel ord bits s acc,
  exists ms, settle rc fuel ord bits s acc = run_events rc s ms acc.
Proof.
  induction fuel as [|f IH]; intros ord bits s acc; simpl.
  - exists []. reflexivity.
  - destruct (quiet s); [exists []; reflexivity|].
    destruct (visit_sched rc (reorder ord (goroutines s)) bits s acc) as [ms1 H1].
    destruct (visit rc (reorder ord (goroutines s)) bits s acc) as [[s' acc'] bits'] eqn:Ev. simpl in H1.
    destruct (IH ord bits' s' acc') as [ms2 H2].
    exists (ms1 ++ ms2). rewrite run_events_app. rewrite <- H1. exact H2.
Qed.

Lemma macro_sched rc s o choice ord bits : exists ms, macro rc s o choice ord bits = run_events rc s ms [].
Proof.
  unfold macro. destruct (run_events rc s (action s o choice) []) as [s1 e1] eqn:E1.
  destruct (settle_sched rc (settle_fuel s1) ord bits s1 e1) as [ms2 H2].
  exists (action s o choice ++ ms2). rewrite run_events_app, E1. exact H2.
Qed.

Lemma run_events_state rc : forall ms s acc, fst (run_events rc s ms acc) = run_micro rc s ms.
Proof.
  induction ms as [|m r IH]; intros s acc; simpl; [reflexivity|].
  destruct (micro rc s m) as [s' e] eqn:E. simpl. apply IH.
Qed.
