(* C10 — case format of the correspondence run and its evaluator. *)
From KG Require Import Prelude C10_Model C10_Spec.
Open Scope string_scope.
Open Scope Z_scope.

(* a burst: several objects stored and enqueued at once under the real Run(); observed: the largest number of
   sync handler executions in progress at the same time, the objects in the order their executions started, the
   results, and the host probes afterwards *)
Record burst := {
  b_objs : list obj;
  b_maxc : Z;
  b_res : list Z;
  b_handled : Z;
  b_final : list host_obs
}.

Record case := {
  c_hosts : list (string * string);          (* probe host, SNI name derived from it *)
  c_xps : list (string * string);            (* cross probes: Host header, SNI of the connection it arrives on *)
  c_mid : bool;                              (* the hosts were also probed after every manager mutation *)
  c_steps : list (op * step_obs);            (* ops with what the real gateway did *)
  c_burst : option burst                     (* Some: the case is a burst instead of a history *)
}.

Definition res_code (r : option res) : Z :=
  match r with None => 0 | Some ROk => 1 | Some RRequeue => 2 end.

(* what the model predicts a client sees for one host *)
Definition model_host (g : gw) (hs : string * string) : host_obs :=
  let r := resolve g (fst hs) in
  let t := tls_for g (snd hs) in
  let v := verify_for g (fst hs) in
  {| h_c := match r with Some i => i_cluster i | None => "" end;
     h_stopped := match r with Some i => i_stopped i | None => false end;
     h_code := filter_code g (fst hs);
     h_tc := match get g (snd hs) with Some i => i_cluster i | None => "" end;
     h_cert := fst (fst t); h_ca := snd (fst t); h_reqcert := snd t;
     h_vok := fst v; h_vca := snd v |}.

Definition host_obs_eqb (a b : host_obs) : bool :=
  (String.eqb (h_c a) (h_c b) && Bool.eqb (h_stopped a) (h_stopped b) && (h_code a =? h_code b)
   && String.eqb (h_tc a) (h_tc b) && (h_cert a =? h_cert b) && (h_ca a =? h_ca b)
   && Bool.eqb (h_reqcert a) (h_reqcert b) && Bool.eqb (h_vok a) (h_vok b) && (h_vca a =? h_vca b))%bool.

Definition model_x (g : gw) (hs : string * string) : string * Z :=
  (match resolve_request g (fst hs) (snd hs) with Some i => i_cluster i | None => "" end,
   request_code g (fst hs) (snd hs)).
Definition x_eqb (a b : string * Z) : bool := (String.eqb (fst a) (fst b) && (snd a =? snd b))%bool.

Fixpoint agree_steps (hosts xps : list (string * string)) (mid : bool) (w : world) (l : list (op * step_obs)) : bool :=
  match l with
  | [] => true
  | (p, b) :: r =>
      let (w', out) := step w p in
      (Bool.eqb (so_valid out) (match p with OApply _ _ => t_valid b | _ => false end)
       && (match p with OApply _ o => Bool.eqb (field_valid o) (t_fvalid b) | _ => true end)
       && Bool.eqb (so_delivered out) (t_delivered b)
       && (res_code (so_res out) =? t_res b)
       && forall2b host_obs_eqb (map (model_host (w_gw w')) hosts) (t_hosts b)
       && forall2b x_eqb (map (model_x (w_gw w')) xps) (t_x b)
       && (if mid then forall2b (forall2b host_obs_eqb)
                                (map (fun gm => map (model_host gm) hosts) (step_trace w p)) (t_mid b)
           else true)
       && agree_steps hosts xps mid w' r)%bool
  end.

(* clause layout: agree, resolves_iff, same_tenant, no_capture, deleted_stop, tls_of_owner, host_norm, alive,
   request_by_host, mid_update, serial_delivery *)
Definition agree_burst (hosts : list (string * string)) (b : burst) : bool :=
  let (g, rs) := burst_run (b_objs b) (b_objs b) empty_gw in
  ((b_maxc b =? 1) && (b_handled b =? Z.of_nat (List.length (b_objs b)))
   && list_eqb Z.eqb (map (fun r => res_code (Some r)) rs) (b_res b)
   && forall2b host_obs_eqb (map (model_host g) hosts) (b_final b))%bool.

(* burst: the property's clause on the final state is judged when the stored objects are field-valid, pairwise
   name-disjoint and every handler execution returned ok *)
Definition burst_final_ok (hosts : list (string * string)) (b : burst) : bool :=
  if (forallb field_valid (b_objs b) && api_disjoint (b_objs b) && forallb (Z.eqb 1) (b_res b)
      && (b_handled b =? Z.of_nat (List.length (b_objs b))))%bool
  then forallb (fun x => (resolves_ok (b_objs b) (fst x) (snd x) && tls_ok (b_objs b) (fst x) (snd x))%bool)
               (combine hosts (b_final b))
  else true.

(* serial_delivery: the model, the theorems and the other clauses all speak about events processed one at a time;
   this is the observation that ties that assumption to the code *)
Definition serial_ok (b : burst) : bool := b_maxc b <=? 1.

Definition eval (c : case) : list bool :=
  match c_burst c with
  | None =>
      (agree_steps (c_hosts c) (c_xps c) (c_mid c) empty_world (c_steps c)
       :: hist_ok (c_hosts c) (c_xps c) (sinit (List.length (c_hosts c))) (c_steps c) ++ [true])%list
  | Some b =>
      [agree_burst (c_hosts c) b; burst_final_ok (c_hosts c) b; true; true; true; true; true; true; true; true;
       serial_ok b]
  end.
