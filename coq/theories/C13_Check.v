(* C13 — case format of the correspondence run and its evaluator. *)
From KG Require Import Prelude C13_Model C13_Spec.
Open Scope Z_scope.

Inductive case :=
| CHash (name : string) (n : Z) (srv gw : option Z)         (* observed GetShardID / ShardIDFor *)
| CHist (id : string) (n : Z) (tr : list (op * obs))        (* ops with what the real limiter did *)
| CGw (tr : list (gwop * gwres)).                           (* announcements served to the real clientSets, servers addressed *)

Definition agree_hist (id : string) (n : Z) (tr : list (op * obs)) : bool :=
  forall2b (fun (m : res * list (Z * store)) (b : obs) =>
              (res_eqb (fst m) (ores b) && snap_eqb (snd m) (snap b))%bool)
           (run (init id n) (map fst tr)) (map snd tr).

Definition agree_gw (tr : list (gwop * gwres)) : bool :=
  forall2b gwres_eqb (gw_run gw_init (map fst tr)) (map snd tr).

(* clause layout: agree, range, both_sides, guard, serve, names, drop, own_shard, addressed *)
Definition eval (c : case) : list bool :=
  match c with
  | CHash name n srv gw =>
      [ (opt_eqb Z.eqb (shard_id name n) srv && opt_eqb Z.eqb (gw_shard_id name n) gw)%bool;
        range_ok n srv; both_sides_ok srv gw; true; true; true; true; true; true ]
  | CHist id n tr =>
      agree_hist id n tr :: true :: true :: hist_ok n [] tr ++ [true]
  | CGw tr =>
      [ agree_gw tr; true; true; true; true; true; true; true; gw_hist_ok 0 [] tr ]
  end.
