(* C16 — the property as an executable checker over the object (its facts) and what the real code was
   observed to do with it.  Never looks at the implementation model's functions. *)
From KG Require Import Prelude C16_Model.
Open Scope Z_scope.

Record obs := {
  o_validate : vres;        (* ValidateUpstreamCluster: VPanic, or the classified error list *)
  o_admit : ares;           (* admission plugin Validate: Ok = admitted, Err = rejected, Panic *)
  o_admit_gate : bool;      (* the plugin reported the feature-gate annotation *)
  o_create : ares;          (* clusters.CreateClusterInfo *)
  o_ctrl : ares;            (* UpstreamClusterController.syncUpstreamCluster on a fresh controller *)
  o_lim : ares;             (* rateLimiter.UpstreamConditionHandler *)
  o_pols : option (list (bool * Z * bool));   (* on the created ClusterInfo, per dispatch policy: a request for it finds it,
                                                 number of its upstreams that are known endpoints, flow control is the default *)
}.

Definition ares_eqb (a b : ares) : bool :=
  match a, b with Ok, Ok | Err, Err | Panic, Panic => true | _, _ => false end.

(* (1) validation terminates with a list of field errors and never panics *)
Definition total_ok (o : obs) : bool :=
  match o_validate o with VPanic => false | VErrs _ => negb (ares_eqb (o_admit o) Panic) end.

(* (2) every admitted object is applied by the gateway and by the limiter without error or panic, and what was
   applied is usable: every dispatch policy can be reached, its upstream subset resolves to at least one endpoint the
   ClusterInfo knows, and a flow-control schema it names is in force (not the system default) *)
Definition policy_usable (p : policy) (v : bool * Z * bool) : bool :=
  let '(matched, known, fc_default) := v in
  (matched && (1 <=? known) && ((p_schema p =? 0) || negb fc_default))%bool.
Definition sound_ok (f : facts) (o : obs) : bool :=
  if ares_eqb (o_admit o) Ok
  then (ares_eqb (o_create o) Ok && ares_eqb (o_ctrl o) Ok && ares_eqb (o_lim o) Ok
        && match o_pols o with Some l => forall2b policy_usable (f_policies f) l | None => false end)%bool
  else true.

(* (3) objects that would break the data plane are rejected.  The classes named by the property: *)
Definition b2z (b : bool) : Z := if b then 1 else 0.
Definition bad_endpoint (e : endpoint) : bool :=           (* unparseable endpoint URL *)
  match ep_prefix e with PNone => true | _ => negb (ep_parses e) || negb (ep_host e) end.
Definition mixed_schemes (l : list endpoint) : bool := has_http l && has_https l.
Definition unusable_pem (f : facts) : bool :=              (* unusable key / certificate / CA data *)
  (cc_key (f_cc f) && cc_cert (f_cc f) && negb (cc_pair_ok (f_cc f)))
  || (cc_ca (f_cc f) && negb (cc_ca_ok (f_cc f)))
  || (ss_key (f_ss f) && ss_cert (f_ss f) && negb (ss_pair_ok (f_ss f)))
  || (ss_ca (f_ss f) && negb (ss_ca_ok (f_ss f))).
Definition unknown_reference (f : facts) (p : policy) : bool :=   (* unknown endpoint / schema *)
  existsb (fun u => negb (zmem u (map ep_id (f_servers f)))) (p_subset p)
  || (negb (p_schema p =? 0) && negb (zmem (p_schema p) (map s_name (f_schemas f)))).
Definition has {A} (o : option A) : bool := match o with Some _ => true | None => false end.
Definition bad_flowcontrol (s : schema) : bool :=
  let n := b2z (s_exempt s) + b2z (has (s_mri s)) + b2z (has (s_tb s)) in
  (n >? 1)                                                              (* contradictory: more than one kind *)
  || (n =? 0)                                                           (* incomplete: no kind *)
  || (has (s_gmri s) && negb (has (s_mri s)))                           (* incomplete: global without local *)
  || (has (s_gtb s) && negb (has (s_tb s)))
  || match s_mri s with Some m => m <? 0 | None => false end            (* out of range *)
  || match s_gmri s with Some g => g <? 0 | None => false end
  || match s_tb s with Some t => (fst t <=? 0) || (snd t <? fst t) | None => false end
  || match s_gtb s with Some g => fst g <=? 0 | None => false end
  || match s_mri s, s_gmri s with Some m, Some g => g <? m | _, _ => false end    (* contradictory limits *)
  || match s_tb s, s_gtb s with Some t, Some g => (fst g <? fst t) || (snd g <? snd t) | _, _ => false end.
Definition breaking (f : facts) : bool :=
  existsb bad_endpoint (f_servers f) || mixed_schemes (f_servers f) || unusable_pem f
  || existsb (unknown_reference f) (f_policies f) || existsb bad_flowcontrol (f_schemas f).

Definition rejects_ok (f : facts) (o : obs) : bool :=
  if breaking f
  then (negb (ares_eqb (o_admit o) Ok) && match o_validate o with VErrs [] => false | _ => true end)%bool
  else true.

Definition clauses (f : facts) (o : obs) : list bool := [total_ok o; sound_ok f o; rejects_ok f o].

(* ---------- extension: updates and the remote rate limiter ---------- *)
Record upd_obs := {
  u_info : option ares;     (* ClusterInfo.Sync(object 2) on the ClusterInfo created from object 1; None = none was created *)
  u_ctrl : ares;            (* second syncUpstreamCluster of the same controller *)
  u_lim : ares;             (* second UpstreamConditionHandler *)
}.

(* (4) a validated object can also be applied ON TOP OF a validated object *)
Definition sound_update_ok (o1 o2 : obs) (u : upd_obs) : bool :=
  if (ares_eqb (o_admit o1) Ok && ares_eqb (o_admit o2) Ok)%bool
  then (match u_info u with Some Ok => true | _ => false end && ares_eqb (u_ctrl u) Ok && ares_eqb (u_lim u) Ok)%bool
  else true.

Definition rres_ok (r : rres) : bool := match r with ROk => true | _ => false end.
Definition round_ok (r : round_res) : bool :=
  (rres_ok (rr_sync r) && rres_ok (rr_count r) && rres_ok (rr_alloc r) && rres_ok (rr_load r))%bool.
(* (5) with the remote rate limiter, every reconcile step for a sequence of validated versions (first gateway on
   all of them, a second replica on the last one) works without error or panic, on the gateway and on the limiter *)
Definition sound_remote_ok (admits : list ares) (rs : list round_res) : bool :=
  if forallb (fun a => ares_eqb a Ok) admits then forallb round_ok rs else true.
