(* C09 — the UNREPAIRED trees:
     part A  fx = fy = false: /repo at 8b83864, before build/fixes/C09_clamp.diff (now applied as
             95d346a, 4ffdf03, 82b2250);
     part B  fx = true, fy = false: /repo at 25f0df4, before build/fixes/C09_reclamp_on_schema_update.diff
             (now applied as 9fe3fd1, 6549ff0);
     part C  fx = fy = true, fz = false: /repo at 025fad4, before 06780c0 (schema type change).
   The same model with the repairs switched off, and the refutation, by a concrete witness each,
   of the clauses of C09 that are false of it.  Every witness is in the corpus of the check
   (lib/props/c09.py) and was replayed on the real code through harness/c09
   (VERIF_C09_MODEL=unrepaired compares this model with the unrepaired code). *)
From KG Require Import Prelude C09_Model C09_Spec C09_Proofs.
Open Scope Z_scope.

Definition ustep := step false false false.
Definition urun (st : static) (str0 : strategy) := run false false false st (init (cfg st) str0).
Definition uobserve := observe false.
Definition utrace (st : static) (str0 : strategy) := trace false false false st (init (cfg st) str0).

Definition mi_5_20 (s : strategy) : static * strategy :=
  ({| cfg := {| ck := KMI; l1 := 5; l2 := 0; g1 := 20; g2 := 0 |}; md := MRemote; cs := CSOk |}, s).
Definition tb_5_10_100_10 (s : strategy) : static * strategy :=
  ({| cfg := {| ck := KTB; l1 := 5; l2 := 10; g1 := 100; g2 := 10 |}; md := MRemote; cs := CSOk |}, s).
Definition enforced (p : static * strategy) (ops : list ev) : option lim :=
  o_lim (uobserve (fst p) (urun (fst p) (snd p) ops)).
Definition bound_after (p : static * strategy) (ops : list ev) : bool :=
  bound_ok (cfg (fst p)) (uobserve (fst p) (urun (fst p) (snd p) ops)).
Definition qmi (m : Z) : ev := EQuota {| idet := DMI m; istr := SAlloc |}.
Definition qtb (q b : Z) : ev := EQuota {| idet := DTB q b; istr := SAlloc |}.

(* the statement that is refuted: "for every valid schema and history the enforced limiter is bounded" *)
Definition size_le_global_statement : Prop :=
  forall st str0 ops, valid_cfg (cfg st) ->
    bound_ok (cfg st) (uobserve st (urun st str0 ops)) = true.

Ltac witness p ops :=
  intros H; specialize (H (fst p) (snd p) ops);
  assert (V : valid_cfg (cfg (fst p))) by (unfold valid_cfg, two31; simpl; lia);
  specialize (H V); vm_compute in H; discriminate.

(* 1. the first answer builds the limiter from the raw value through uint32(int32): -1 -> 4 294 967 295 *)
Example C09_negative_first_answer :
  enforced (mi_5_20 SAlloc) [EHb true; qmi (-1)] = Some (LMI 4294967295).
Proof. vm_compute. reflexivity. Qed.
Theorem C09_size_le_global_refuted : ~ size_le_global_statement.
Proof. witness (mi_5_20 SAlloc) [EHb true; qmi (-1)]. Qed.

(* 2. the first answer (and every re-creation after a type or strategy change) is not clamped: 50 > 20 *)
Example C09_first_answer_above_global :
  enforced (mi_5_20 SAlloc) [EHb true; qmi 50] = Some (LMI 50)
  /\ enforced (mi_5_20 SAlloc) [EHb true; qmi 7; qtb 7 9; qmi 30] = Some (LMI 30)
  /\ enforced (mi_5_20 SAlloc) [EHb true; qmi 7; qmi 50] = Some (LMI 20).      (* only the resize path clamps *)
Proof. vm_compute. repeat split; reflexivity. Qed.
Theorem C09_creation_path_refuted : ~ size_le_global_statement.
Proof. witness (mi_5_20 SAlloc) [EHb true; qmi 50]. Qed.

(* 3. an answer of another type replaces the limiter: a max-in-flight schema enforced by a token bucket,
      an answer without detail by the exempt (infinite) limiter *)
Example C09_wrong_type_answer :
  enforced (mi_5_20 SAlloc) [EHb true; qtb 7 9] = Some (LTB 7 9)
  /\ enforced (mi_5_20 SAlloc) [EHb true; EQuota {| idet := DNone; istr := SAlloc |}] = Some LInf.
Proof. vm_compute. split; reflexivity. Qed.
Theorem C09_wrong_type_refuted : ~ size_le_global_statement.
Proof. witness (mi_5_20 SAlloc) [EHb true; EQuota {| idet := DNone; istr := SAlloc |}]. Qed.

(* 4. global count, !Accept: the raw Limit is used, above the global limit or negative *)
Example C09_reject_limit_unclamped :
  enforced (mi_5_20 SCount) [EHb true; ECfgSync; ECount (ROk false 100) 1] = Some (LMI 100)
  /\ enforced (mi_5_20 SCount) [EHb true; ECfgSync; ECount (ROk false (-1)) 1] = Some (LMI 4294967295).
Proof. vm_compute. split; reflexivity. Qed.
Theorem C09_reject_refuted : ~ size_le_global_statement.
Proof. witness (mi_5_20 SCount) [EHb true; ECfgSync; ECount (ROk false 100) 1]. Qed.

(* 5. global count, error reply: max(observed, local) is not bounded by the global limit
      (the meter counts the requests admitted by the local and by the remote limiter together) *)
Example C09_error_meter_above_global :
  enforced (mi_5_20 SCount) [EHb true; ECfgSync; ECount (RErr 33 0) 1] = Some (LMI 33).
Proof. vm_compute. reflexivity. Qed.
Theorem C09_error_refuted : ~ size_le_global_statement.
Proof. witness (mi_5_20 SCount) [EHb true; ECfgSync; ECount (RErr 33 0) 1]. Qed.

(* 6. global limit 0 (valid): the burst reserve of the count wrapper is at least 1 *)
Definition mi_0_0 : static * strategy :=
  ({| cfg := {| ck := KMI; l1 := 0; l2 := 0; g1 := 0; g2 := 0 |}; md := MRemote; cs := CSOk |}, SCount).
Example C09_global_zero_reserve : enforced mi_0_0 [EHb true; ECfgSync] = Some (LMI 1).
Proof. vm_compute. reflexivity. Qed.
Theorem C09_reserve_refuted : ~ size_le_global_statement.
Proof. witness mi_0_0 [EHb true; ECfgSync]. Qed.

(* 7. token bucket: burst is never clamped (creation and resize), negative values wrap *)
Example C09_burst_unclamped :
  enforced (tb_5_10_100_10 SAlloc) [EHb true; qtb 7 900; qtb 8 901] = Some (LTB 8 901)
  /\ enforced (tb_5_10_100_10 SAlloc) [EHb true; qtb (-8) (-1)] = Some (LTB 4294967288 4294967295).
Proof. vm_compute. split; reflexivity. Qed.
Theorem C09_burst_refuted : ~ size_le_global_statement.
Proof. witness (tb_5_10_100_10 SAlloc) [EHb true; qtb 7 900; qtb 8 901]. Qed.

(* 8. token bucket, global count: error -> burst := observed rate; recovery -> burst := qps (m.burst = qps) *)
Example C09_tb_count_burst :
  enforced (tb_5_10_100_10 SCount) [EHb true; ECfgSync; ECount (RErr 0 50) 1] = Some (LTB 50 50)
  /\ enforced (tb_5_10_100_10 SCount) [EHb true; ECfgSync; ECount (RErr 0 50) 1; ECount (ROk true 3) 2] = Some (LTB 100 100)
  /\ enforced (tb_5_10_100_10 SCount) [EHb true; ECfgSync; ECount (RErr 0 5000) 1] = Some (LTB 5000 5000).
Proof. vm_compute. repeat split; reflexivity. Qed.
Theorem C09_tb_count_refuted : ~ size_le_global_statement.
Proof. witness (tb_5_10_100_10 SCount) [EHb true; ECfgSync; ECount (RErr 0 50) 1; ECount (ROk true 3) 2]. Qed.

(* 9. between EnableRemoteFlowControl and the first Sync the remote wrapper has no limiter, Load returns
      it all the same and the request dereferences nil *)
Example C09_nil_limiter_window :
  o_sel (uobserve (fst (mi_5_20 SAlloc)) (urun (fst (mi_5_20 SAlloc)) SAlloc [EHb true; EEnable])) = SelPanic.
Proof. vm_compute. reflexivity. Qed.
Theorem C09_fallback_refuted :
  ~ (forall st str0 ops, valid_cfg (cfg st) ->
       let s := urun st str0 ops in
       has_inner s = false -> o_sel (uobserve st s) = SelLocal).
Proof.
  intros H. specialize (H (fst (mi_5_20 SAlloc)) SAlloc [EHb true; EEnable]).
  assert (V : valid_cfg (cfg (fst (mi_5_20 SAlloc)))) by (unfold valid_cfg, two31; simpl; lia).
  specialize (H V eq_refl). vm_compute in H. discriminate.
Qed.

(* 10. answers of another type also crash the reconcile goroutine (nil dereference) *)
Example C09_reconcile_crash :
  crashed (urun (fst (mi_5_20 SAlloc)) SAlloc [qtb 7 9; qtb 8 9]) = true                                (* GlobalTokenBucket is nil *)
  /\ crashed (urun (fst (mi_5_20 SAlloc)) SAlloc [EQuota {| idet := DNone; istr := SCount |}]) = true.   (* limitItem.TokenBucket is nil *)
Proof. vm_compute. split; reflexivity. Qed.

(* the executable specification on the unrepaired model's own trace: clauses bound and nopanic fail *)
Theorem C09_history_refuted :
  ~ (forall st str0 ops, valid_cfg (cfg st) ->
       case_ok st str0 (uobserve st (init (cfg st) str0)) (utrace st str0 ops) = all_true).
Proof.
  intros H. specialize (H (fst (mi_5_20 SAlloc)) SAlloc [EHb true; qmi (-1)]).
  assert (V : valid_cfg (cfg (fst (mi_5_20 SAlloc)))) by (unfold valid_cfg, two31; simpl; lia).
  specialize (H V). vm_compute in H. discriminate.
Qed.

(* ================= part B: with C09_clamp.diff, without the reclamp on schema update ================= *)
(* localWrapper.Sync resizes the local limiter but leaves the quota in force alone: after the operator
   lowers the global limit below it, the remote limiter keeps admitting the old quota until the next
   answer of the limiter server arrives (reconcile period 2 s, longer while the server is failing);
   a global-count wrapper that is unavailable keeps its fallback even across the next config sync. *)
Definition nrun (st : static) (str0 : strategy) := run true false false st (init (cfg st) str0).
Definition nenforced (p : static * strategy) (ops : list ev) : option lim :=
  o_lim (observe true (fst p) (nrun (fst p) (snd p) ops)).

Definition window_statement : Prop :=
  forall st str0 ops, valid_cfg (cfg st) -> Forall ev_ok ops ->
    let s := nrun st str0 ops in bound_ok (scfg s) (observe true st s) = true.

Definition mi_2_10 (s : strategy) : static * strategy :=
  ({| cfg := {| ck := KMI; l1 := 2; l2 := 0; g1 := 10; g2 := 0 |}; md := MRemote; cs := CSOk |}, s).

(* 11. global-allocate: quota 8 of 10 in force, the global limit is lowered to 4: 8 > 4 are admitted *)
Example C09_stale_quota_after_lowering :
  nenforced (mi_2_10 SAlloc) [EHb true; qmi 8; ESchema KMI SAlloc 2 0 4 0] = Some (LMI 8)
  /\ nenforced (mi_2_10 SAlloc) [EHb true; qmi 8; ESchema KMI SAlloc 2 0 4 0; qmi 8] = Some (LMI 4).   (* the next answer repairs it *)
Proof. vm_compute. split; reflexivity. Qed.
Theorem C09_schema_update_window_refuted : ~ window_statement.
Proof.
  intros H. specialize (H (fst (mi_2_10 SAlloc)) SAlloc [EHb true; qmi 8; ESchema KMI SAlloc 2 0 4 0]).
  assert (V : valid_cfg (cfg (fst (mi_2_10 SAlloc)))) by (unfold valid_cfg, two31; simpl; lia).
  assert (E : Forall ev_ok [EHb true; qmi 8; ESchema KMI SAlloc 2 0 4 0])
    by (repeat constructor; unfold valid_cfg, two31; simpl; lia).
  specialize (H V E). vm_compute in H. discriminate.
Qed.

(* 12. global-count, server unavailable: the fallback 18 survives the lowering to 10 AND the following
       config syncs (Resize does not touch the limiter while unavailable) — until the server recovers *)
Example C09_unavailable_fallback_after_lowering :
  nenforced (mi_5_20 SCount) [EHb true; ECfgSync; ECount (RErr 18 0) 1; ESchema KMI SCount 2 0 10 0; ECfgSync; ECfgSync] = Some (LMI 18).
Proof. vm_compute. reflexivity. Qed.
Theorem C09_schema_update_unavailable_refuted : ~ window_statement.
Proof.
  intros H. specialize (H (fst (mi_5_20 SCount)) SCount [EHb true; ECfgSync; ECount (RErr 18 0) 1; ESchema KMI SCount 2 0 10 0; ECfgSync; ECfgSync]).
  assert (V : valid_cfg (cfg (fst (mi_5_20 SCount)))) by (unfold valid_cfg, two31; simpl; lia).
  assert (E : Forall ev_ok [EHb true; ECfgSync; ECount (RErr 18 0) 1; ESchema KMI SCount 2 0 10 0; ECfgSync; ECfgSync])
    by (repeat constructor; unfold valid_cfg, two31; simpl; lia).
  specialize (H V E). vm_compute in H. discriminate.
Qed.

(* 13. token bucket: burst 30 of 40 in force, global burst lowered to 10 *)
Example C09_stale_burst_after_lowering :
  o_lim (observe true {| cfg := {| ck := KTB; l1 := 1; l2 := 2; g1 := 1; g2 := 40 |}; md := MRemote; cs := CSOk |}
           (nrun {| cfg := {| ck := KTB; l1 := 1; l2 := 2; g1 := 1; g2 := 40 |}; md := MRemote; cs := CSOk |} SAlloc
                 [EHb true; qtb 1 30; ESchema KTB SAlloc 1 2 1 10])) = Some (LTB 1 30).
Proof. vm_compute. reflexivity. Qed.

(* ================= part C: without the repair of the schema type change (before 06780c0) ================= *)
(* localWrapper.Sync builds a new local limiter for the new type and returns: the remote wrapper keeps the
   limiter granted for the OLD type, Load keeps returning it, and answers of the old type (which the
   server goes on sending until it has seen the new schema) are rejected by sanitize, so nothing replaces it.
   A global-count wrapper of the old type dereferences the nil member of the new local config on the next
   error reply (also the counter's own timeout reply). *)
Definition trun (st : static) (str0 : strategy) := run true true false st (init (cfg st) str0).

Definition type_change_statement : Prop :=
  forall st str0 ops, valid_cfg (cfg st) -> Forall ev_ok ops ->
    let s := trun st str0 ops in
    present s = true -> bound_ok (scfg s) (observe true st s) = true /\ crashed s = false.

(* 14. max-in-flight quota 12 in force, the schema becomes a token bucket (global qps 3): a request still meets
       the max-in-flight limiter of size 12, also after the server repeats its answer *)
Example C09_old_type_limiter_survives :
  o_lim (observe true (fst (mi_5_20 SAlloc))
           (trun (fst (mi_5_20 SAlloc)) SAlloc [EHb true; qmi 12; ESchema KTB SAlloc 1 2 3 4; qmi 12; qmi 12]))
  = Some (LMI 12).
Proof. vm_compute. reflexivity. Qed.
Theorem C09_type_change_refuted : ~ type_change_statement.
Proof.
  intros H. specialize (H (fst (mi_5_20 SAlloc)) SAlloc [EHb true; qmi 12; ESchema KTB SAlloc 1 2 3 4; qmi 12]).
  assert (V : valid_cfg (cfg (fst (mi_5_20 SAlloc)))) by (unfold valid_cfg, two31; simpl; lia).
  assert (E : Forall ev_ok [EHb true; qmi 12; ESchema KTB SAlloc 1 2 3 4; qmi 12])
    by (repeat constructor; unfold valid_cfg, two31; simpl; lia).
  specialize (H V E eq_refl). vm_compute in H. destruct H as [H _]. discriminate.
Qed.

(* 15. global count: type change, then an error reply -> nil dereference in SetLimit *)
Theorem C09_type_change_crash_refuted : ~ type_change_statement.
Proof.
  intros H. specialize (H (fst (mi_5_20 SCount)) SCount [EHb true; ECfgSync; ESchema KTB SCount 1 2 3 4; ECount (RErr 9 0) 1]).
  assert (V : valid_cfg (cfg (fst (mi_5_20 SCount)))) by (unfold valid_cfg, two31; simpl; lia).
  assert (E : Forall ev_ok [EHb true; ECfgSync; ESchema KTB SCount 1 2 3 4; ECount (RErr 9 0) 1])
    by (repeat constructor; unfold valid_cfg, two31; simpl; lia).
  specialize (H V E eq_refl). vm_compute in H. destruct H as [_ H]. discriminate.
Qed.
