(* C17 — specification over observations: what the real normalisation returned for the rules of an
   UpstreamCluster, and what the real matcher answered for a set of requests before and after. *)
From KG Require Import Prelude C01_Model.
Open Scope string_scope.
Open Scope bool_scope.

Definition strs_eqb (a b : list string) : bool := list_eqb String.eqb a b.
Definition sa_eqb (a b : sa_ref) : bool :=
  String.eqb (sa_ns a) (sa_ns b) && String.eqb (sa_name a) (sa_name b).
Definition rule_eqb (a b : rule) : bool :=
  strs_eqb (r_verbs a) (r_verbs b) && strs_eqb (r_groups a) (r_groups b)
  && strs_eqb (r_resources a) (r_resources b) && strs_eqb (r_names a) (r_names b)
  && strs_eqb (r_users a) (r_users b) && list_eqb sa_eqb (r_sas a) (r_sas b)
  && strs_eqb (r_ugroups a) (r_ugroups b) && strs_eqb (r_urls a) (r_urls b).
Definition rules_eqb (a b : list rule) : bool := list_eqb rule_eqb a b.

(* the submitted object has one dispatch policy per rule, in order *)
Record obs := mkObs {
  o_norm : list rule;                   (* normalizeRules(rule_i) *)
  o_norm2 : list rule;                  (* normalizeRules(normalizeRules(rule_i)) *)
  o_admit : list rule;                  (* rule_i as left in the object by the plugin's Admit() *)
  o_admit2 : list rule;                 (* ... after admitting the admitted object once more *)
  o_before : list (list bool);          (* clusters.RuleMatches(request_j, submitted rule_i) *)
  o_after : list (list bool);           (* clusters.RuleMatches(request_j, admitted rule_i) *)
  o_first_before : list (option nat);   (* clusters.MatchPolicies(request_j, submitted policies) *)
  o_first_after : list (option nat);    (* clusters.MatchPolicies(request_j, admitted policies) *)
}.

(* (1) the stored rule matches a request iff the submitted rule does; routing is unchanged *)
Definition same_matching_ok (o : obs) : bool :=
  list_eqb (list_eqb Bool.eqb) (o_before o) (o_after o)
  && list_eqb (opt_eqb Nat.eqb) (o_first_before o) (o_first_after o).

(* (2) normalising an already normalised rule changes nothing *)
Definition idempotent_ok (o : obs) : bool :=
  rules_eqb (o_norm2 o) (o_norm o) && rules_eqb (o_admit2 o) (o_admit o).
