(* C08 — model of the server side of the global-count strategy.

   pkg/ratelimiter/store/flowcontrol/maxinflight.go   globalMaxInflight: SetState / Resize / DebugInfo
   pkg/ratelimiter/store/flowcontrol/tokenbucket.go   globalTokenBucket: TryAcquireN = rate.Limiter.AllowN(now, n)
   pkg/ratelimiter/limiter/ratelimter.go              DoAcquire: negative asks refused; token bucket tries
                                                      n, n/2, n/4, n/8; max-inflight -> SetState; result mapping

   SetState runs entirely under the write lock of the object (since commit 60492d4) and reads [max]
   exactly once, at its decision point; Resize is one atomic store of [max].  Every interleaving of
   SetState / Resize calls is therefore a sequence of these atomic operations, which is what
   [gstep] models.  int32 arithmetic is written with its wrap-around. *)
From KG Require Import Prelude C06_Model.
Open Scope Z_scope.

(* ---------- globalMaxInflight ---------- *)
Record inst := { icount : Z; ireq : Z }.                  (* instanceState{count int32, requestId int64} *)
Record mif := { mmax : Z; mcount : Z; minsts : list (string * inst) }.

Definition mif_new (max : Z) : mif := {| mmax := max; mcount := 0; minsts := [] |}.

Fixpoint lookup (k : string) (l : list (string * inst)) : option inst :=
  match l with
  | [] => None
  | (k', v) :: r => if String.eqb k k' then Some v else lookup k r
  end.
Fixpoint remove (k : string) (l : list (string * inst)) : list (string * inst) :=
  match l with
  | [] => []
  | (k', v) :: r => if String.eqb k k' then remove k r else (k', v) :: remove k r
  end.
Definition upsert (k : string) (v : inst) (l : list (string * inst)) : list (string * inst) :=
  (k, v) :: remove k l.

(* result of SetState: (accept, latest, err = RequestIDTooOld) *)
Record sres := { s_accept : bool; s_latest : Z; s_err : bool }.

(* f.add(n): count += n (int32), returns count - max (int32) *)
Definition add32 (count n max : Z) : Z * Z :=
  let c := wrap32 (count + n) in (c, wrap32 (c - max)).

Definition set_state (m : mif) (instance : string) (rid cur : Z) : mif * sres :=
  let st := lookup instance (minsts m) in
  if cur <? 0 then
    match st with
    | Some s =>
        let '(c, _) := add32 (mcount m) (wrap32 (- icount s)) (mmax m) in
        ({| mmax := mmax m; mcount := c; minsts := remove instance (minsts m) |},
         {| s_accept := false; s_latest := -1; s_err := false |})
    | None => (m, {| s_accept := false; s_latest := -1; s_err := false |})
    end
  else
    (* "else if !ok || state == nil": an empty state is created and stored *)
    let s := match st with Some s => s | None => {| icount := 0; ireq := 0 |} end in
    let insts1 := match st with Some _ => minsts m | None => upsert instance s (minsts m) end in
    if ((rid >? 0) && (rid <=? ireq s))%bool then
      ({| mmax := mmax m; mcount := mcount m; minsts := insts1 |},
       {| s_accept := false; s_latest := cur; s_err := true |})
    else
      let rid' := if rid >? 0 then rid else ireq s in
      let old := icount s in
      let delta := wrap32 (cur - old) in
      let '(c1, overflowed) := add32 (mcount m) delta (mmax m) in
      if ((overflowed >? 0) && (delta >? 0))%bool then
        (* only an increase is rolled back; the request id stays recorded *)
        let '(c2, _) := add32 c1 (wrap32 (- delta)) (mmax m) in
        ({| mmax := mmax m; mcount := c2;
            minsts := upsert instance {| icount := wrap32 (cur - delta); ireq := rid' |} (minsts m) |},
         {| s_accept := false; s_latest := old; s_err := false |})
      else
        let m' := {| mmax := mmax m; mcount := c1;
                     minsts := upsert instance {| icount := cur; ireq := rid' |} (minsts m) |} in
        if ((overflowed >=? 0) && (cur >? 0))%bool
        then (m', {| s_accept := false; s_latest := cur; s_err := false |})
        else (m', {| s_accept := true; s_latest := cur; s_err := false |}).

(* Resize(n, _): atomic store of max; returns whether it changed *)
Definition mif_resize (m : mif) (n : Z) : mif * bool :=
  if mmax m =? n then (m, false)
  else ({| mmax := n; mcount := mcount m; minsts := minsts m |}, true).

Inductive gop :=
| GSet (instance : string) (rid cur : Z)     (* a report (cur >= 0) or the removal of the instance (cur < 0) *)
| GResize (n : Z).

(* what a step answers: SetState's triple, or Resize's bool (in s_accept) *)
Definition gstep (m : mif) (o : gop) : mif * sres :=
  match o with
  | GSet i rid cur => set_state m i rid cur
  | GResize n => let '(m', b) := mif_resize m n in (m', {| s_accept := b; s_latest := 0; s_err := false |})
  end.

Fixpoint grun (m : mif) (ops : list gop) : list (sres * mif) :=
  match ops with
  | [] => []
  | o :: r => let '(m', a) := gstep m o in (a, m') :: grun m' r
  end.
Fixpoint grun_state (m : mif) (ops : list gop) : mif :=
  match ops with [] => m | o :: r => grun_state (fst (gstep m o)) r end.

(* DebugInfo(): total = sum of the per-instance counts (int32 accumulator) *)
Definition inst_total (m : mif) : Z := sumZ (map (fun p => icount (snd p)) (minsts m)).

(* ---------- globalTokenBucket + DoAcquire ---------- *)
(* the calls AllowN(now, tok), AllowN(now, tok/2), ... made by DoAcquire for one token-bucket request
   (at most [fuel] = 4 tries, stop at the first success or when the halved amount reaches 0) *)
Fixpoint halving (fuel : nat) (c : cfg) (s : st) (now tok : Z) : list (Z * Z) :=
  match fuel with
  | O => []
  | S f =>
      let '(s', ok) := allow_n c s now tok in
      (now, tok) :: (if ok then []
                     else let tok' := Z.quot tok 2 in
                          if tok' <=? 0 then [] else halving f c s' now tok')
  end.

(* RateLimitAcquireResult of one request: accept, limit, error? *)
Record ares := { a_accept : bool; a_limit : Z; a_err : bool }.

Definition acquire_tb (c : cfg) (s : st) (now n : Z) : st * ares :=
  if n <? 0 then (s, {| a_accept := false; a_limit := 0; a_err := true |})   (* "tokens cannot be negative" *)
  else
    let calls := halving 4 c s now n in
    let evs := trace c s calls in
    (run_state c s calls,
     {| a_accept := existsb eok evs;
        a_limit := sumZ (map (fun e => if eok e then easked e else 0) evs);
        a_err := false |}).

(* DoAcquire on a max-inflight flow control *)
Definition acquire_mif (m : mif) (instance : string) (rid n : Z) : mif * ares :=
  if n <? 0 then (m, {| a_accept := false; a_limit := 0; a_err := true |})
  else
    let '(m', r) := set_state m instance rid n in
    (m', if s_err r then {| a_accept := false; a_limit := 0; a_err := true |}
         else if s_accept r then {| a_accept := true; a_limit := n; a_err := false |}
         else {| a_accept := false; a_limit := s_latest r; a_err := false |}).
