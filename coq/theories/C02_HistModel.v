(* C02 — histories: which cluster's authorizer decides an impersonation when clusters are created,
   deleted and re-created while requests arrive.

   [world]: bookkeeping of the INPUTS of a history (which cluster incarnations are live, which server
   names they own, the scripted SubjectAccessReview policy of each incarnation, the virtual time); it is
   shared by the specification.
   [hstate]: the world plus the state of pkg/gateway/authorization/webhook/subjectaccessreview.go
   MultiClusterSubjectAccessReviewAuthorizer (as repaired by 95b80b4): one LRU-expire cache per
   (HOST, cluster object serving that host now), created by the first Authorize for that pair, dropped by a
   goroutine when that cluster is stopped; entries keyed by the SubjectAccessReview spec (here: requestor, user to impersonate),
   valid while now <= expiry; allowed answers live attl, denied answers dttl, errors are answered
   "deny" and not cached.  (The goroutine is modelled as running at the deletion; the harness waits
   for it.) *)
From KG Require Import Prelude C02_Model.
Open Scope Z_scope.
Open Scope string_scope.
Open Scope list_scope.

Inductive answer := AAllow | ADeny | AError.
Definition answer_eqb (a b : answer) : bool :=
  match a, b with AAllow, AAllow | ADeny, ADeny | AError, AError => true | _, _ => false end.

Definition question := (string * string)%type.          (* requestor, user to impersonate *)
Definition q_eqb (a b : question) : bool := (String.eqb (fst a) (fst b) && String.eqb (snd a) (snd b))%bool.
Definition policy := list (question * answer).           (* the upstream's RBAC for "impersonate users"; no rule = deny *)
Definition answer_of (p : policy) (q : question) : answer :=
  fold_left (fun acc r => if q_eqb (fst r) q then snd r else acc) p ADeny.

Inductive hop :=
| HCreate (c : string) (aliases : list string) (p : policy)   (* UpstreamCluster c created: a new incarnation *)
| HDelete (c : string)                                        (* deleted: DeleteWithStop on all its server names *)
| HPolicy (c : string) (p : policy)                           (* the live cluster's RBAC changes *)
| HMove (alias from to : string)                              (* a server name moves between two LIVE clusters *)
| HAdvance (dt : Z)
| HReq (host requestor imp : string).                         (* request via Host [host]; imp = "" : no impersonation *)

(* ---- association lists (first match) *)
Fixpoint aget {A} (k : string) (l : list (string * A)) : option A :=
  match l with
  | [] => None
  | (x, v) :: r => if String.eqb x k then Some v else aget k r
  end.
Definition adel {A} (k : string) (l : list (string * A)) : list (string * A) :=
  filter (fun kv => negb (String.eqb (fst kv) k)) l.
Definition aset {A} (k : string) (v : A) (l : list (string * A)) : list (string * A) := (k, v) :: adel k l.

Record world := mkWorld {
  w_now : Z;
  w_next : Z;                                   (* incarnations created so far *)
  w_live : list (string * (Z * policy));        (* cluster name -> (incarnation, policy) *)
  w_keys : list (string * string);              (* server name -> cluster name *)
}.
Definition world0 : world := mkWorld 0 0 [] [].

Definition owner (w : world) (host : string) : option (Z * policy) :=
  match aget host (w_keys w) with
  | Some c => aget c (w_live w)
  | None => None
  end.

Definition add_alias (c : string) (keys : list (string * string)) (a : string) : list (string * string) :=
  match aget a keys with Some _ => keys | None => (a, c) :: keys end.

(* the world after an op, and whether the op was applicable *)
Definition wstep (w : world) (o : hop) : world * bool :=
  match o with
  | HCreate c al p =>
      match aget c (w_live w), aget c (w_keys w) with
      | None, None =>
          let id := w_next w + 1 in
          (mkWorld (w_now w) id ((c, (id, p)) :: w_live w) (fold_left (add_alias c) al ((c, c) :: w_keys w)), true)
      | _, _ => (w, false)
      end
  | HDelete c =>
      match aget c (w_live w) with
      | Some _ => (mkWorld (w_now w) (w_next w) (adel c (w_live w))
                           (filter (fun kv => negb (String.eqb (snd kv) c)) (w_keys w)), true)
      | None => (w, false)
      end
  | HPolicy c p =>
      match aget c (w_live w) with
      | Some (id, _) => (mkWorld (w_now w) (w_next w)
                                 (map (fun kv => if String.eqb (fst kv) c then (fst kv, (fst (snd kv), p)) else kv) (w_live w))
                                 (w_keys w), true)
      | None => (w, false)
      end
  | HMove a from to =>
      match aget a (w_keys w), aget to (w_live w) with
      | Some c, Some _ =>
          if (String.eqb c from && negb (String.eqb a from) && negb (String.eqb to from))%bool
          then (mkWorld (w_now w) (w_next w) (w_live w)
                        (map (fun kv => if String.eqb (fst kv) a then (a, to) else kv) (w_keys w)), true)
          else (w, false)
      | _, _ => (w, false)
      end
  | HAdvance dt => (mkWorld (w_now w + dt) (w_next w) (w_live w) (w_keys w), true)
  | HReq _ _ _ => (w, true)
  end.

(* ---- observations *)
Record hobs := mkHObs {
  h_done : bool;                                   (* bookkeeping ops: applicable *)
  h_status : Z;                                    (* requests: status received by the client (0 otherwise) *)
  h_fwd : list (Z * list string);                  (* incarnation that received the request, its Impersonate-User values *)
  h_sar : list (Z * question * answer);            (* SubjectAccessReviews answered during the op: by whom, what *)
}.

(* ---- the authorizer's caches *)
Definition entries := list (question * (bool * Z)).          (* question -> (allowed, expiry) *)
Fixpoint eget (q : question) (e : entries) : option (bool * Z) :=
  match e with
  | [] => None
  | (x, v) :: r => if q_eqb x q then Some v else eget q r
  end.
Definition edel (q : question) (e : entries) : entries := filter (fun kv => negb (q_eqb (fst kv) q)) e.
Definition eset (q : question) (v : bool * Z) (e : entries) : entries := (q, v) :: edel q e.

Definition ckey := (string * Z)%type.                          (* host, incarnation serving it *)
Definition ckey_eqb (a b : ckey) : bool := (String.eqb (fst a) (fst b) && Z.eqb (snd a) (snd b))%bool.
Fixpoint cget (k : ckey) (l : list (ckey * entries)) : option entries :=
  match l with
  | [] => None
  | (x, v) :: r => if ckey_eqb x k then Some v else cget k r
  end.
Definition cset (k : ckey) (v : entries) (l : list (ckey * entries)) : list (ckey * entries) :=
  (k, v) :: filter (fun kv => negb (ckey_eqb (fst kv) k)) l.

Record hstate := mkHState {
  s_world : world;
  s_caches : list (ckey * entries);
}.
Definition hstate0 : hstate := mkHState world0 [].

Definition do_request (attl dttl : Z) (s : hstate) (host requestor imp : string) : hstate * hobs :=
  let w := s_world s in
  match owner w host with
  | None => (s, mkHObs true 503 [] [])                                   (* WithUpstreamInfo: not proxied *)
  | Some (id, p) =>
      if String.eqb imp EmptyString then (s, mkHObs true 200 [(id, [requestor])] [])
      else
        let q := (requestor, imp) in
        let e := match cget (host, id) (s_caches s) with Some e => e | None => [] end in
        let hit := match eget q e with
                   | Some (allowed, exp) => if Z.leb (w_now w) exp then Some allowed else None
                   | None => None
                   end in
        match hit with
        | Some allowed =>
            (mkHState w (cset (host, id) e (s_caches s)),
             if allowed then mkHObs true 200 [(id, [imp])] [] else mkHObs true 403 [] [])
        | None =>
            let a := answer_of p q in
            let e' := match a with
                      | AAllow => eset q (true, w_now w + attl) e
                      | ADeny => eset q (false, w_now w + dttl) e
                      | AError => edel q e
                      end in
            (mkHState w (cset (host, id) e' (s_caches s)),
             match a with
             | AAllow => mkHObs true 200 [(id, [imp])] [(id, q, a)]
             | _ => mkHObs true 403 [] [(id, q, a)]
             end)
        end
  end.

Definition hstep (attl dttl : Z) (s : hstate) (o : hop) : hstate * hobs :=
  match o with
  | HReq host requestor imp => do_request attl dttl s host requestor imp
  | HDelete c =>
      let (w', done) := wstep (s_world s) o in
      let caches' := match aget c (w_live (s_world s)) with
                     | Some (id, _) => filter (fun kc => negb (Z.eqb (snd (fst kc)) id)) (s_caches s)
                     | None => s_caches s
                     end in
      (mkHState w' caches', mkHObs done 0 [] [])
  | _ => let (w', done) := wstep (s_world s) o in (mkHState w' (s_caches s), mkHObs done 0 [] [])
  end.

Fixpoint hrun (attl dttl : Z) (s : hstate) (ops : list hop) : list hobs :=
  match ops with
  | [] => []
  | o :: r => let (s', b) := hstep attl dttl s o in b :: hrun attl dttl s' r
  end.
