(* C16 — property theorems (statements only; proofs live in C16_Proofs.v). *)
From KG Require Import Prelude C16_Model C16_Spec C16_Check C16_Proofs.
Open Scope Z_scope.

(* validating any object (any facts, with or without the insecure+CA check, whichever scheme Go's map
   iteration picks for mixed-scheme objects) yields a list of field errors, never a nil dereference *)
Theorem C16_total : forall fixd pick f, validate_gen fixd pick f <> VPanic.
Proof. exact validate_total. Qed.
Print Assumptions C16_total.

(* every object that admission validation accepts is applied by the gateway (CreateClusterInfo and the
   controller's sync) and by the limiter (UpstreamConditionHandler) without error or panic.
   [oracle_laws]: the two library laws relating the oracle inputs (an http(s):// endpoint that parses has that
   scheme; one that also has a host is accepted by client-go) — checked on every case of the correspondence *)
Theorem C16_sound : forall pick f,
  oracle_laws f = true -> validate pick f = VErrs [] ->
  apply_gateway f = Ok /\ apply_controller f = Ok /\ apply_limiter f = Ok.
Proof. exact sound. Qed.
Print Assumptions C16_sound.

(* ... and what was applied is usable: a request for any dispatch policy finds it, the policy's upstream subset
   resolves (by exact endpoint string, as the data plane looks it up) to at least one endpoint of the ClusterInfo,
   and a flow-control schema the policy names is in force instead of the system default *)
Theorem C16_sound_usable : forall pick f,
  oracle_laws f = true -> validate pick f = VErrs [] ->
  exists l, policy_views f = Some l /\ forall2b policy_usable (f_policies f) l = true.
Proof. exact sound_usable. Qed.
Print Assumptions C16_sound_usable.

(* every object with one of the breaking features named by the property is rejected *)
Theorem C16_rejects : forall fixd pick f, breaking f = true -> validate_gen fixd pick f <> VErrs [].
Proof. exact rejects. Qed.
Print Assumptions C16_rejects.

(* ... one statement per class (about ValidateUpstreamCluster proper, i.e. before the plugin's gate check) *)
Theorem C16_rejects_unparseable_url : forall fixd pick f,
  existsb bad_endpoint (f_servers f) = true -> validate_object fixd pick f <> VErrs [].
Proof. exact rejects_unparseable_url. Qed.
Print Assumptions C16_rejects_unparseable_url.

Theorem C16_rejects_mixed_schemes : forall fixd pick f,
  mixed_schemes (f_servers f) = true -> validate_object fixd pick f <> VErrs [].
Proof. exact rejects_mixed_schemes. Qed.
Print Assumptions C16_rejects_mixed_schemes.

Theorem C16_rejects_unusable_pem : forall fixd pick f,
  unusable_pem f = true -> validate_object fixd pick f <> VErrs [].
Proof. exact rejects_unusable_pem. Qed.
Print Assumptions C16_rejects_unusable_pem.

Theorem C16_rejects_unknown_reference : forall fixd pick f,
  existsb (unknown_reference f) (f_policies f) = true -> validate_object fixd pick f <> VErrs [].
Proof. exact rejects_unknown_reference. Qed.
Print Assumptions C16_rejects_unknown_reference.

(* more than one / no / incomplete / negative / contradictory flow-control members *)
Theorem C16_rejects_bad_flowcontrol : forall fixd pick f,
  existsb bad_flowcontrol (f_schemas f) = true -> validate_object fixd pick f <> VErrs [].
Proof. exact rejects_bad_flowcontrol. Qed.
Print Assumptions C16_rejects_bad_flowcontrol.

(* the executable specification of C16_Spec.v holds of the model on every object *)
Theorem C16_model_meets_spec : forall pick f,
  oracle_laws f = true -> clauses f (model_obs pick f) = [true; true; true].
Proof. exact model_meets_spec. Qed.
Print Assumptions C16_model_meets_spec.

(* without the insecure+caData check (the tree before 4d69cfc) soundness is false: an https object with
   insecure = true and a valid caData is accepted, and client-go's TLSConfigFor refuses it *)
Theorem C16_sound_refuted_without_insecure_ca_check :
  exists f, oracle_laws f = true /\ (forall pick, validate_gen false pick f = VErrs []) /\ apply_gateway f = Err.
Proof. exact sound_refuted_without_insecure_ca_check. Qed.
Print Assumptions C16_sound_refuted_without_insecure_ca_check.

(* non-vacuity *)
(* an accepted object exists (so C16_sound is not vacuous), with a global flow-control schema, a key pair
   and secure serving with only a key *)
Definition nv_ep (i : Z) : endpoint :=
  {| ep_id := i; ep_prefix := PHttps; ep_parses := true; ep_scheme_https := true; ep_host := true; ep_client_ok := true |}.
Definition nv_object : facts :=
  {| f_name_ok := true; f_gate := GOk; f_servers := [nv_ep 1; nv_ep 2];
     f_cc := {| cc_insecure := false; cc_token := false; cc_key := true; cc_cert := true; cc_ca := true;
                cc_pair_ok := true; cc_ca_ok := true; cc_qps := 5; cc_burst := 10; cc_div := 100 |};
     f_ss := {| ss_key := true; ss_cert := false; ss_ca := false; ss_pair_ok := false; ss_ca_ok := false |};
     f_schemas := [{| s_name := 1; s_strategy := 3; s_exempt := false; s_mri := Some 10; s_tb := None; s_gmri := Some 100; s_gtb := None |};
                   {| s_name := 2; s_strategy := 2; s_exempt := false; s_mri := None; s_tb := Some (5, 10); s_gmri := None; s_gtb := Some (50, 100) |}];
     f_logging_ok := true;
     f_policies := [{| p_strategy_ok := true; p_subset := [2]; p_schema := 2; p_rules := true; p_logmode_ok := true |}] |}.
Example C16_sound_nonvacuous :
  oracle_laws nv_object = true /\ validate true nv_object = VErrs [] /\ validate false nv_object = VErrs []
  /\ apply_gateway nv_object = Ok.
Proof. vm_compute. repeat split; reflexivity. Qed.

(* the two objects of the property's motivation: only globalMaxRequestsInflight{max:-1} is answered with a list
   (a list of errors, no panic) while the data plane WOULD panic on it; an unparseable endpoint is rejected *)
Definition nv_only_global : facts :=
  {| f_name_ok := true; f_gate := GAbsent; f_servers := f_servers nv_object; f_cc := f_cc nv_object; f_ss := f_ss nv_object;
     f_schemas := [{| s_name := 1; s_strategy := 1; s_exempt := false; s_mri := None; s_tb := None; s_gmri := Some (-1); s_gtb := None |}];
     f_logging_ok := true; f_policies := f_policies nv_object |}.
Example C16_total_nonvacuous :
  validate true nv_only_global = VErrs [EFcGmriNeg 0; EFcMriReq 0; EFcNone 0; EPolSchema 0]
  /\ apply_gateway nv_only_global = Panic /\ breaking nv_only_global = true.
Proof. vm_compute. repeat split; reflexivity. Qed.

(* ---------- extension: updates of an existing cluster, and the remote rate limiter ---------- *)

(* an object that passes validation can be applied ON TOP OF any object that passed validation (same name), through
   the controller's sync and ClusterInfo.Sync, and on the limiter — whatever the relation between their PEM data *)
Theorem C16_sound_update : forall p1 p2 f1 f2 d,
  oracle_laws f1 = true -> oracle_laws f2 = true ->
  validate p1 f1 = VErrs [] -> validate p2 f2 = VErrs [] ->
  apply_gateway_update f1 f2 d = Ok /\ apply_update_ctrl f1 f2 d = Ok
  /\ apply_update_info f1 f2 d = Some Ok /\ apply_limiter_update f1 f2 = Ok.
Proof. exact sound_update. Qed.
Print Assumptions C16_sound_update.

(* with the remote rate limiter: for ANY sequence of validated versions of an object (lower-case name), every
   reconcile step (Sync, global-count pass, allocate round trip through the limiter server, Load) of the first
   gateway on each version and of a second replica on the last version is Ok — no panic on either side, no refusal *)
Theorem C16_sound_remote : forall fs,
  Forall (fun f => exists pick, validate pick f = VErrs []) fs ->
  Forall (fun r => round_ok r = true) (remote_rounds all_fixes true (map f_schemas fs)).
Proof. exact sound_remote. Qed.
Print Assumptions C16_sound_remote.

(* each repair is needed: pairs of validated flow-control specs on which the unrepaired behaviour fails *)
Theorem C16_remote_refuted_without_stale_remote_fix :
  Forall spec_ok wit_type_change
  /\ some_round_fails {| fx_stale_remote := false; fx_stale_status := true; fx_no_limiter := true |} wit_type_change = true.
Proof. exact remote_refuted_without_stale_remote_fix. Qed.
Print Assumptions C16_remote_refuted_without_stale_remote_fix.

Theorem C16_remote_refuted_without_stale_status_fix :
  Forall spec_ok wit_type_change
  /\ existsb (fun r => match rr_alloc r with RPanic => true | _ => false end)
       (remote_rounds {| fx_stale_remote := true; fx_stale_status := false; fx_no_limiter := true |} true wit_type_change) = true.
Proof. exact remote_refuted_without_stale_status_fix. Qed.
Print Assumptions C16_remote_refuted_without_stale_status_fix.

Theorem C16_remote_refuted_without_no_limiter_fix :
  Forall spec_ok wit_no_limiter
  /\ some_round_fails {| fx_stale_remote := true; fx_stale_status := true; fx_no_limiter := false |} wit_no_limiter = true.
Proof. exact remote_refuted_without_no_limiter_fix. Qed.
Print Assumptions C16_remote_refuted_without_no_limiter_fix.

(* non-vacuity: two accepted objects whose flow control changes type under a global strategy, three rounds all Ok *)
Definition nv_object2 : facts :=
  {| f_name_ok := true; f_gate := GAbsent; f_servers := [nv_ep 2; nv_ep 3]; f_cc := f_cc nv_object;
     f_ss := {| ss_key := true; ss_cert := true; ss_ca := true; ss_pair_ok := true; ss_ca_ok := true |};
     f_schemas := [{| s_name := 1; s_strategy := 2; s_exempt := false; s_mri := None; s_tb := Some (5, 10); s_gmri := None; s_gtb := Some (50, 100) |};
                   {| s_name := 2; s_strategy := 3; s_exempt := false; s_mri := Some 1; s_tb := None; s_gmri := None; s_gtb := None |}];
     f_logging_ok := true;
     f_policies := [{| p_strategy_ok := true; p_subset := [3]; p_schema := 1; p_rules := true; p_logmode_ok := true |}] |}.
Example C16_sound_update_nonvacuous :
  validate true nv_object = VErrs [] /\ validate true nv_object2 = VErrs []
  /\ oracle_laws nv_object2 = true
  /\ apply_gateway_update nv_object nv_object2 {| d_ss_key_same := true; d_ss_cert_same := false; d_ss_ca_same := false |} = Ok
  /\ List.length (remote_rounds all_fixes true [f_schemas nv_object; f_schemas nv_object2]) = 3%nat.
Proof. vm_compute. repeat split; reflexivity. Qed.

(* ---------- extension: the feature-gate annotation as a raw string ---------- *)
(* for EVERY raw value of proxy.kubegateway.io/feature-gates (white space, separators, empties, unknown gates, bad
   booleans, duplicates ...): if an object carrying it passes the whole admission decision, the gateway's own parse of
   the same raw value succeeds and the object is applied.  [gate_of_raw] ties the object's fact to the raw value through
   the parser predicate [gate_accepts] (component-base featuregate.Set), which the correspondence run compares with
   the real parser on every case. *)
Theorem C16_featuregate_annotation_sound : forall raw pick f,
  f_gate f = gate_of_raw raw -> oracle_laws f = true -> validate pick f = VErrs [] ->
  admit_gate raw = true /\ sync_gate raw = true /\ apply_gateway f = Ok.
Proof. exact featuregate_annotation_sound. Qed.
Print Assumptions C16_featuregate_annotation_sound.

Theorem C16_featuregate_annotation_rejected : forall raw fixd pick f,
  f_gate f = gate_of_raw raw -> sync_gate raw = false -> validate_gen fixd pick f <> VErrs [].
Proof. exact featuregate_annotation_rejected. Qed.
Print Assumptions C16_featuregate_annotation_rejected.

(* non-vacuity: values the parser accepts / refuses; a blank value and a trailing ", " are refused (seed C16-g:
   admission trimmed them), and an accepted object carrying " Tracing = true,,AllAlpha=0" is applied *)
Example C16_featuregate_nonvacuous :
  map gate_accepts [" Tracing = true,,AllAlpha=0"; "DenyAllRequests=false,"; "Tracing=T"]%string = [true; true; true]
  /\ map gate_accepts [" "; "Tracing=true, "; "Tracing=true,
"; "Tracing"; "Tracing=yes"; "Nope=true"; "=true"]%string = [false; false; false; false; false; false; false]
  /\ (let f := nv_object in
      f_gate f = gate_of_raw (Some " Tracing = true,,AllAlpha=0"%string) /\ validate true f = VErrs [] /\ apply_gateway f = Ok)
  /\ sync_gate (Some " "%string) = false /\ admit_gate (Some ""%string) = true /\ admit_gate None = true.
Proof. vm_compute. repeat split; reflexivity. Qed.
