(* C07 — model of pkg/ratelimiter/limiter/allocation.go (calculateNextQuota, as
   repaired by e2e333a) and of the server-side bookkeeping around it in
   ratelimter.go (UpdateRateLimitConditionStatus / calculateUpstreamCondition /
   updateUpstreamStateCondition / condition clean-up).  float64-exact: every
   float operation below is the IEEE-754 binary64 operation of C07_Float.v.
   Executable definitions only. *)
From Coq Require Import ZArith Bool.
From Flocq Require Import Core IEEE754.BinarySingleNaN.
From KG Require Import Prelude C07_Float.
Open Scope Z_scope.

Inductive ftype := TMax | TBucket.       (* type of the upstream's limit item *)
Definition ftype_eqb (a b : ftype) : bool :=
  match a, b with TMax, TMax | TBucket, TBucket => true | _, _ => false end.

(* the numeric inputs of one calculateNextQuota call *)
Record inputs := {
  i_typ : ftype;
  i_count : bool;        (* flowControlConfig.Strategy == GlobalCountLimit *)
  i_total : Z;           (* upstreamTotal: Max / QPS *)
  i_gburst : Z;          (* upstreamTotal.TokenBucket.Burst (0 for TMax) *)
  i_allocated : Z;       (* upstreamUsed: recorded sum of quotas *)
  i_uplevel : Z;         (* upstreamUsed.RequestLevel *)
  i_current : Z;         (* flowControlConfig: quota the instance says it holds *)
  i_used : Z;            (* flowControlStatus: Max / QPS in use *)
  i_level : Z;           (* flowControlStatus.RequestLevel *)
  i_clients : Z          (* len(clients), a Go int *)
}.

(* ---- the heuristic part: allocation.go lines 40-151, result = the float [next]
   before the clamps (the divisor expectedAllocatePercent is never 0: it is replaced by 1) ---- *)
Definition heuristic (i : inputs) : f64 :=
  let cur := ofZ (i_current i) in
  let usedf := ofZ (i_used i) in
  let tot := ofZ (i_total i) in
  let alloc := ofZ (i_allocated i) in
  let remaining := fsub tot alloc in
  let clientsf := ofZ (i_clients i) in
  let up := i_uplevel i in
  let level :=
    if (fle usedf cur && (i_level i >? 100))%bool
    then toInt32 (fdiv (fmul usedf c100) cur) else i_level i in
  let allocPct := fmul (fdiv alloc tot) c100 in
  let expectTotal := add32 (quot32 (mul32 up 95) 100) 5 in
  let minPct0 := toInt32 (fsub c70 (fdiv tot c100)) in
  let minPct := if minPct0 <? 60 then 60 else minPct0 in
  let eap0 := add32 (quot32 (mul32 up (sub32 100 minPct)) 100) minPct in
  let eap := if eap0 =? 0 then 1 else eap0 in
  let target0 := quot32 (mul32 expectTotal 100) eap in
  let target1 := add32 target0 (toInt32 (fsqrt (fdiv (fmul usedf c100) tot))) in
  let target := if target1 >? 100 then 100 else target1 in
  let reducing := if target >? 50 then sub32 target 5 else target in
  let increasing := if target >? 50 then target else add32 target 5 in
    if feq cur fzero then
      (if i_clients i <=? 10 then fmul remaining c0_05 else fdiv remaining clientsf)
    else if level =? 0 then
      let upper := fround (fdiv (fmul tot c0_7) clientsf) in
      if flt allocPct (fsub (ofZ eap) c5) then
        let n := fadd cur (fmul remaining c0_3) in
        if fgt n upper then upper else n
      else if (fge allocPct (ofZ eap) || fgt cur upper)%bool then
        let reduce0 := fmul cur c0_2 in
        let minReduce := fdiv tot c50 in
        let reduce1 := if (fgt reduce0 fzero && flt reduce0 minReduce)%bool then minReduce else reduce0 in
        let reduce2 := if (fgt reduce1 fzero && flt reduce1 fone)%bool then fone else reduce1 in
        fsub cur reduce2
      else cur
    else if level <? reducing then
      let reduce0 := fmul cur c0_2 in
      let maxReduce := fsub cur usedf in
      let reduce1 := if fgt reduce0 maxReduce then maxReduce else reduce0 in
      let reduce2 := if (fgt reduce1 fzero && flt reduce1 fone)%bool then fone else reduce1 in
      fsub cur reduce2
    else if level >=? increasing then
      let delta0 := fmul cur c0_3 in
      let delta := if level >? 100 then fmul delta0 c2 else delta0 in
      if flt delta remaining then fadd cur delta else fadd cur remaining
    else cur.

(* ---- the clamps: allocation.go lines 147-166 ---- *)
Definition clamp_tail (n1 : f64) (current total allocated : Z) : f64 :=
  let cur := ofZ current in
  let tot := ofZ total in
  let remaining := fsub tot (ofZ allocated) in
  let available := fmax remaining fzero in
  let n2 := if (fgt n1 cur && fgt (fsub n1 cur) available)%bool then fadd cur available else n1 in
  let n3 := fceil n2 in
  let n4 := if fgt n3 tot then tot else n3 in
  if fge n4 fone then n4 else fone.

Definition finalize (next : f64) (current total allocated : Z) : f64 :=
  let minq := fmul (ofZ total) c0_002 in
  let n1 := if flt next minq then minq else next in
  clamp_tail n1 current total allocated.

Definition quota_of (nf : f64) : Z := toInt32 nf.

(* burst = ceil(next/total*Burst), capped at the global burst (NaN-safe) *)
Definition burst_of (nf : f64) (total gburst : Z) : Z :=
  let gb := ofZ gburst in
  let b := fceil (fmul (fdiv nf (ofZ total)) gb) in
  toInt32 (if fle b gb then b else gb).

(* result of the call: the (quota, burst) written into the answer; burst is 0 for TMax *)
Definition calc_with (next : f64) (i : inputs) : Z * Z :=
  let nf := finalize next (i_current i) (i_total i) (i_allocated i) in
  (quota_of nf, match i_typ i with TBucket => burst_of nf (i_total i) (i_gburst i) | TMax => 0 end).

Definition calc_next_quota (i : inputs) : Z * Z :=
  if i_count i then
    (i_total i, match i_typ i with TBucket => i_gburst i | TMax => 0 end)
  else calc_with (heuristic i) i.

(* ================= history layer: one schema of one upstream ================= *)
(* ratelimter.go: UpdateRateLimitConditionStatus replaces the instance's whole condition by the
   answered items, calculateUpstreamCondition then re-adds, per schema and per limit member
   (Max / QPS), the items of all stored conditions (saturating int32); calculateNextQuota reads
   the member of the schema's current item type. *)

Record sstate := {
  h_typ : ftype;                     (* current item type of the schema *)
  h_limit : Z;                       (* configured global limit (Max / QPS) *)
  h_burst : Z;                       (* configured global burst *)
  h_quotas : list (Z * (Z * Z));     (* instance id -> (quota, burst) recorded with the current type *)
  h_rec : Z;                         (* allocated sum of that member in the upstream state condition *)
  h_oquotas : list (Z * (Z * Z));    (* items recorded with the other item type (left from before a type change) *)
  h_orec : Z
}.

Inductive sop :=
| SRep (i : Z) (typed count : bool) (used level uplevel clients : Z)
    (* an honest report item: typed = it carries the schema's item type (else no limit member) *)
| SDrop (i : Z) (recompute : bool)   (* i's condition goes / is replaced by one without this schema *)
| SSet (t : ftype) (limit burst : Z).

Fixpoint lookup (i : Z) (l : list (Z * (Z * Z))) : option (Z * Z) :=
  match l with
  | [] => None
  | (j, v) :: r => if j =? i then Some v else lookup i r
  end.
Fixpoint remove_inst (i : Z) (l : list (Z * (Z * Z))) : list (Z * (Z * Z)) :=
  match l with
  | [] => []
  | (j, v) :: r => if j =? i then remove_inst i r else (j, v) :: remove_inst i r
  end.
Definition set_inst (i : Z) (v : Z * Z) (l : list (Z * (Z * Z))) := (i, v) :: remove_inst i l.
Definition quota_sum (l : list (Z * (Z * Z))) : Z := sumZ (map (fun e => fst (snd e)) l).

(* calculateUpstreamCondition adds the recorded quotas without wrapping around
   (addInt32Saturated); for non-negative quotas any summation order gives this *)
Definition sat32 (z : Z) : Z := Z.max (- two31) (Z.min z (two31 - 1)).

(* what an honest instance reports as its current quota: what it holds of the item type it reports *)
Definition current_of (s : sstate) (i : Z) (typed : bool) : Z :=
  if typed then match lookup i (h_quotas s) with Some (q, _) => q | None => 0 end else 0.

Definition report_inputs (s : sstate) (i : Z) (typed count : bool) (used level uplevel clients : Z) : inputs :=
  {| i_typ := h_typ s; i_count := count; i_total := h_limit s; i_gburst := h_burst s;
     i_allocated := h_rec s; i_uplevel := uplevel; i_current := current_of s i typed;
     i_used := used; i_level := level; i_clients := clients |}.

Definition sstep (s : sstate) (o : sop) : sstate * option (Z * Z) :=
  match o with
  | SRep i typed count used level uplevel clients =>
      let qb := calc_next_quota (report_inputs s i typed count used level uplevel clients) in
      let qs := set_inst i qb (h_quotas s) in
      let os := remove_inst i (h_oquotas s) in        (* the stored condition is replaced *)
      ({| h_typ := h_typ s; h_limit := h_limit s; h_burst := h_burst s;
          h_quotas := qs; h_rec := sat32 (quota_sum qs);
          h_oquotas := os; h_orec := sat32 (quota_sum os) |}, Some qb)
  | SDrop i rc =>
      let qs := remove_inst i (h_quotas s) in
      let os := remove_inst i (h_oquotas s) in
      ({| h_typ := h_typ s; h_limit := h_limit s; h_burst := h_burst s;
          h_quotas := qs; h_rec := if rc then sat32 (quota_sum qs) else h_rec s;   (* stale after a clean-up *)
          h_oquotas := os; h_orec := if rc then sat32 (quota_sum os) else h_orec s |}, None)
  | SSet t n b =>
      if ftype_eqb t (h_typ s)
      then ({| h_typ := t; h_limit := n; h_burst := b; h_quotas := h_quotas s; h_rec := h_rec s;
               h_oquotas := h_oquotas s; h_orec := h_orec s |}, None)
      else ({| h_typ := t; h_limit := n; h_burst := b; h_quotas := h_oquotas s; h_rec := h_orec s;
               h_oquotas := h_quotas s; h_orec := h_rec s |}, None)
  end.

Definition sinit (t : ftype) (limit burst : Z) : sstate :=
  {| h_typ := t; h_limit := limit; h_burst := burst; h_quotas := []; h_rec := 0; h_oquotas := []; h_orec := 0 |}.

(* ================= several schemas of one upstream ================= *)
Record mstate := {
  m_schemas : list (Z * sstate);     (* schema id -> state, in the order of the upstream's spec *)
  m_clients : list Z;                (* instances known to the client cache *)
  m_extra : Z                        (* further heart-beating clients without conditions *)
}.

Fixpoint zmem (i : Z) (l : list Z) : bool :=
  match l with [] => false | j :: r => if j =? i then true else zmem i r end.
Definition zadd (i : Z) (l : list Z) : list Z := if zmem i l then l else i :: l.
Fixpoint zremove (i : Z) (l : list Z) : list Z :=
  match l with [] => [] | j :: r => if j =? i then zremove i r else j :: zremove i r end.

(* an item of a report: schema, declared item type (None = no limit member), strategy, usage,
   request level, and the upstream request level the server has on record for the schema *)
Record mitem := { it_s : Z; it_typ : option ftype; it_count : bool; it_used : Z; it_level : Z; it_up : Z }.

Fixpoint find_schema (sid : Z) (l : list (Z * sstate)) : option sstate :=
  match l with [] => None | (k, s) :: r => if k =? sid then Some s else find_schema sid r end.
Fixpoint find_item (sid : Z) (l : list mitem) : option mitem :=
  match l with [] => None | it :: r => if it_s it =? sid then Some it else find_item sid r end.

(* "upstream flow control item type %s not equal to instance item type %s" *)
Definition item_mismatch (M : mstate) (it : mitem) : bool :=
  match it_typ it, find_schema (it_s it) (m_schemas M) with
  | Some t, Some s => negb (ftype_eqb t (h_typ s))
  | _, _ => false
  end.
Definition report_mismatch (M : mstate) (items : list mitem) : bool := existsb (item_mismatch M) items.

Definition n_clients (M : mstate) : Z := m_extra M + Z.of_nat (List.length (m_clients M)).
