(* C16 — proofs: validation is total; accepted objects are applied without error or panic; every class of
   breaking object named by the property is rejected.  All statements quantify over every object (facts). *)
From KG Require Import Prelude C16_Model C16_Spec C16_Check.
From Coq Require Import ZifyBool.
Open Scope Z_scope.

Lemma when_nil b e : when b e = [] <-> b = false.
Proof. destruct b; simpl; split; intros H; try reflexivity; discriminate. Qed.

Lemma app_nil3 {A} (a b : list A) : a ++ b = [] -> a = [] /\ b = [].
Proof. apply app_eq_nil. Qed.

(* ---------- totality ---------- *)
Lemma validate_config_total i s : exists l, validate_config i s = VErrs l.
Proof.
  unfold validate_config.
  destruct (s_exempt s), (s_mri s) as [m|], (s_tb s) as [[tq tb]|], (s_gmri s) as [g|], (s_gtb s) as [[gq gb]|];
    cbn; eexists; reflexivity.
Qed.

Lemma validate_schemas_total l : forall i names, exists e, fst (validate_schemas_from i names l) = VErrs e.
Proof.
  induction l as [|s r IH]; intros i names; simpl; [eexists; reflexivity|].
  destruct (validate_config_total i s) as [e He]. rewrite He.
  match goal with |- context [validate_schemas_from (i + 1) ?n r] => destruct (IH (i + 1) n) as [e' He'] end.
  rewrite He'. simpl. eexists; reflexivity.
Qed.

Lemma validate_object_total fixd pick f : exists l, validate_object fixd pick f = VErrs l.
Proof.
  unfold validate_object. destruct (validate_schemas_total (f_schemas f) 0 []) as [e He]. rewrite He. simpl.
  eexists; reflexivity.
Qed.

Lemma validate_total fixd pick f : validate_gen fixd pick f <> VPanic.
Proof.
  unfold validate_gen. destruct (validate_object_total fixd pick f) as [l Hl]. rewrite Hl. simpl. discriminate.
Qed.

(* ---------- what an empty error list says ---------- *)
Record accepted (fixd pick : bool) (f : facts) : Prop := {
  acc_name : f_name_ok f = true;
  acc_servers : validate_servers (f_servers f) = [];
  acc_cc : validate_clientcfg fixd (scheme_is_https pick (f_servers f)) (f_cc f) = [];
  acc_ss : validate_serving (f_ss f) = [];
  acc_fc : fst (validate_schemas_from 0 [] (f_schemas f)) = VErrs [];
  acc_logging : f_logging_ok f = true;
  acc_policies_ne : f_policies f <> [];
  acc_policies : validate_policies_from 0 (map ep_id (f_servers f)) (snd (validate_schemas_from 0 [] (f_schemas f))) (f_policies f) = [];
}.

Lemma validate_object_nil fixd pick f : validate_object fixd pick f = VErrs [] -> accepted fixd pick f.
Proof.
  unfold validate_object. destruct (validate_schemas_total (f_schemas f) 0 []) as [e He]. rewrite He. simpl.
  intros H. injection H as H.
  repeat match goal with
         | H : _ ++ _ = [] |- _ => apply app_nil3 in H; destruct H as [? ?]
         end.
  subst e.
  constructor; try assumption.
  - match goal with H : when _ EMeta = [] |- _ => apply when_nil in H; destruct (f_name_ok f); [reflexivity|discriminate] end.
  - match goal with H : when _ ELogging = [] |- _ => apply when_nil in H; destruct (f_logging_ok f); [reflexivity|discriminate] end.
  - match goal with H : when _ EPoliciesReq = [] |- _ => apply when_nil in H end.
    destruct (f_policies f); [discriminate|discriminate].
Qed.

Lemma validate_nil fixd pick f :
  validate_gen fixd pick f = VErrs [] -> accepted fixd pick f /\ f_gate f <> GBad.
Proof.
  unfold validate_gen. destruct (validate_object_total fixd pick f) as [l Hl]. rewrite Hl. simpl.
  intros H. injection H as H. apply app_nil3 in H. destruct H as [H1 H2]. subst l.
  split; [apply validate_object_nil; exact Hl|].
  apply when_nil in H2. destruct (f_gate f); [discriminate|discriminate|discriminate].
Qed.

(* servers *)
Definition good_endpoint (e : endpoint) : Prop :=
  ep_prefix e <> PNone /\ ep_parses e = true /\ ep_host e = true.

Lemma servers_from_nil l : forall i, validate_servers_from i l = [] -> Forall good_endpoint l.
Proof.
  induction l as [|e r IH]; intros i H; [constructor|].
  simpl in H. apply app_nil3 in H. destruct H as [H1 H2].
  constructor; [|eapply IH; exact H2].
  unfold good_endpoint. destruct (ep_prefix e); [discriminate| |];
    (apply when_nil in H1; destruct (ep_parses e), (ep_host e); try discriminate; repeat split; discriminate).
Qed.

Lemma servers_nil l :
  validate_servers l = [] -> l <> [] /\ Forall good_endpoint l /\ (has_http l && has_https l)%bool = false.
Proof.
  unfold validate_servers. intros H.
  apply app_nil3 in H. destruct H as [H1 H]. apply app_nil3 in H. destruct H as [H2 H3].
  split; [destruct l; [discriminate|discriminate]|].
  split; [eapply servers_from_nil; exact H2|]. apply when_nil in H3. exact H3.
Qed.

(* flow control *)
Lemma config_nil_touch i s : validate_config i s = VErrs [] -> touch_members (guess_type s) s = true.
Proof.
  unfold validate_config, touch_members, guess_type.
  destruct (s_exempt s), (s_mri s) as [m|], (s_tb s) as [[tq tb]|], (s_gmri s) as [g|], (s_gtb s) as [[gq gb]|];
    cbn; intros H; try reflexivity; exfalso; unfold when in H;
    repeat match type of H with
           | context [if ?b then _ else _] => destruct b; cbn in H
           end; discriminate H.
Qed.

Lemma schemas_nil_each l : forall i names,
  fst (validate_schemas_from i names l) = VErrs [] -> Forall (fun s => exists k, validate_config k s = VErrs []) l.
Proof.
  induction l as [|s r IH]; intros i names H; [constructor|].
  simpl in H.
  destruct (validate_config_total i s) as [e He]. rewrite He in H.
  match type of H with context [validate_schemas_from (i + 1) ?n r] =>
    destruct (validate_schemas_total r (i + 1) n) as [e' He']; pose proof (IH (i + 1) n) as IH' end.
  rewrite He' in H, IH'. simpl in H. injection H as H.
  apply app_nil3 in H. destruct H as [H1 H2]. apply app_nil3 in H1. destruct H1 as [_ H1].
  subst e e'. constructor; [exists i; exact He|apply IH'; reflexivity].
Qed.

Lemma local_sync_some c s : touch_members (guess_type s) s = true -> exists c', local_sync c s = Some c'.
Proof. intros H. unfold local_sync. destruct (schema_eqb s (fst c)); [eexists; reflexivity|]. rewrite H. eexists; reflexivity. Qed.

Lemma sync_some l : Forall (fun s => touch_members (guess_type s) s = true) l ->
  forall m, exists m', sync_flowcontrols m l = Some m'.
Proof.
  induction 1 as [|s r Hs _ IH]; intros m; simpl; [eexists; reflexivity|].
  match goal with |- context [local_sync ?c s] => destruct (local_sync_some c s Hs) as [c' Hc] end.
  rewrite Hc. apply IH.
Qed.

(* client config / serving *)
Lemma clientcfg_nil fixd https c : validate_clientcfg fixd https c = [] ->
  (cc_key c && cc_cert c && negb (cc_pair_ok c))%bool = false
  /\ (cc_ca c && negb (cc_ca_ok c))%bool = false
  /\ (https = true -> fixd = true -> (cc_insecure c && cc_ca c)%bool = false).
Proof.
  unfold validate_clientcfg. intros H.
  repeat match goal with
         | H : _ ++ _ = [] |- _ => apply app_nil3 in H; destruct H as [? ?]
         end.
  split; [destruct (cc_key c && cc_cert c && negb (cc_pair_ok c))%bool; [discriminate|reflexivity]|].
  split; [match goal with H : when (cc_ca c && negb (cc_ca_ok c)) _ = [] |- _ => apply when_nil in H; exact H end|].
  intros Hh Hf. subst https fixd.
  match goal with H : context [ECcInsecureCA] |- _ => cbn [negb] in H; 
    apply app_nil3 in H; destruct H as [_ H]; apply app_nil3 in H; destruct H as [H _];
    apply when_nil in H; exact H end.
Qed.

Lemma serving_nil s : validate_serving s = [] ->
  (ss_key s && ss_cert s && negb (ss_pair_ok s))%bool = false /\ (ss_ca s && negb (ss_ca_ok s))%bool = false.
Proof.
  unfold validate_serving. intros H. apply app_nil3 in H. destruct H as [H1 H2].
  split; [|apply when_nil in H2; exact H2].
  destruct (ss_key s), (ss_cert s), (ss_pair_ok s); try reflexivity; discriminate.
Qed.

(* ---------- soundness ---------- *)
Lemma has_https_in l e : In e l -> ep_prefix e = PHttps -> has_https l = true.
Proof. intros Hin Hp. unfold has_https. apply existsb_exists. exists e. rewrite Hp. tauto. Qed.

(* TLSConfigFor does not fail: if the rest config is an https one, validation looked at the https rules *)
Lemma tls_ok pick e0 r c :
  endpoint_laws e0 = true -> good_endpoint e0 ->
  (has_http (e0 :: r) && has_https (e0 :: r))%bool = false ->
  (scheme_is_https pick (e0 :: r) = true -> (cc_insecure c && cc_ca c)%bool = false) ->
  (cc_key c && cc_cert c && negb (cc_pair_ok c))%bool = false ->
  tls_config_err (ep_scheme_https e0) c = false.
Proof.
  intros Hl (Hp0 & Hparse0 & _) Hmix Hins Hcp.
  unfold tls_config_err. destruct (ep_scheme_https e0) eqn:Hsch; [|reflexivity]. simpl.
  assert (Hp : ep_prefix e0 = PHttps).
  { unfold endpoint_laws in Hl. rewrite Hparse0, Hsch in Hl. destruct (ep_prefix e0); [congruence|discriminate|reflexivity]. }
  assert (Hhs : has_https (e0 :: r) = true) by (eapply has_https_in; [left; reflexivity|exact Hp]).
  assert (Hsi : scheme_is_https pick (e0 :: r) = true).
  { unfold scheme_is_https. rewrite Hhs. rewrite Hhs, Bool.andb_true_r in Hmix. rewrite Hmix. reflexivity. }
  specialize (Hins Hsi). rewrite Bool.andb_comm in Hins. rewrite Hins, Hcp. reflexivity.
Qed.

Lemma clients_ok l b :
  b = false -> forallb endpoint_laws l = true -> Forall good_endpoint l ->
  existsb (fun e => b || negb (ep_client_ok e)) l = false.
Proof.
  intros -> Hlaws Hgood. apply Bool.not_true_is_false. intros Hex.
  apply existsb_exists in Hex. destruct Hex as (e & Hin & He). simpl in He.
  rewrite forallb_forall in Hlaws. specialize (Hlaws e Hin).
  rewrite Forall_forall in Hgood. destruct (Hgood e Hin) as (Hpe & Hpa & Hho).
  unfold endpoint_laws in Hlaws. rewrite Hpa, Hho in Hlaws. simpl in Hlaws.
  apply Bool.andb_true_iff in Hlaws. destruct Hlaws as [_ Hl2].
  destruct (ep_prefix e); [congruence| |]; rewrite Hl2 in He; discriminate.
Qed.

Lemma sound pick f :
  oracle_laws f = true -> validate pick f = VErrs [] ->
  apply_gateway f = Ok /\ apply_controller f = Ok /\ apply_limiter f = Ok.
Proof.
  intros Hlaws Hv. unfold validate in Hv. apply validate_nil in Hv. destruct Hv as [Hacc Hgate].
  destruct Hacc as [_ Hsrv Hcc Hss Hfc _ _ _].
  apply servers_nil in Hsrv. destruct Hsrv as (Hne & Hgood & Hmix).
  apply serving_nil in Hss. destruct Hss as [Hsp Hsc].
  apply (clientcfg_nil code_fix) in Hcc. destruct Hcc as (Hcp & _ & Hins).
  assert (Hfcs : exists m', sync_flowcontrols [] (f_schemas f) = Some m').
  { apply sync_some. eapply Forall_impl; [|eapply schemas_nil_each; exact Hfc].
    intros s [k Hk]. eapply config_nil_touch. exact Hk. }
  destruct Hfcs as [m' Hm'].
  assert (Hgw : apply_gateway f = Ok).
  { unfold apply_gateway, oracle_laws in *. rewrite Hm'.
    destruct (f_servers f) as [|e0 r]; [congruence|].
    pose proof (Forall_inv Hgood) as Hg0. destruct (Hg0) as (_ & Hparse0 & _). rewrite Hparse0.
    assert (Hl0 : endpoint_laws e0 = true) by (simpl in Hlaws; apply Bool.andb_true_iff in Hlaws; tauto).
    assert (Htls : tls_config_err (ep_scheme_https e0) (f_cc f) = false).
    { eapply tls_ok; try eassumption. intros Hsi. apply Hins; [exact Hsi|reflexivity]. }
    rewrite (clients_ok (e0 :: r) _ Htls Hlaws Hgood).
    rewrite Hsc, Hsp.
    destruct (f_gate f); [reflexivity|reflexivity|congruence]. }
  split; [exact Hgw|]. split; [exact Hgw|reflexivity].
Qed.

(* ---------- rejection of every class of breaking object ---------- *)
Lemma rejects_unparseable_url fixd pick f :
  existsb bad_endpoint (f_servers f) = true -> validate_object fixd pick f <> VErrs [].
Proof.
  intros Hb Hv. apply validate_object_nil in Hv. destruct Hv as [_ Hsrv _ _ _ _ _ _].
  apply servers_nil in Hsrv. destruct Hsrv as (_ & Hgood & _).
  apply existsb_exists in Hb. destruct Hb as (e & Hin & He).
  rewrite Forall_forall in Hgood. destruct (Hgood e Hin) as (Hp & Hpa & Hho).
  unfold bad_endpoint in He. rewrite Hpa, Hho in He. destruct (ep_prefix e); [congruence|discriminate|discriminate].
Qed.

Lemma rejects_mixed_schemes fixd pick f :
  mixed_schemes (f_servers f) = true -> validate_object fixd pick f <> VErrs [].
Proof.
  intros Hb Hv. apply validate_object_nil in Hv. destruct Hv as [_ Hsrv _ _ _ _ _ _].
  apply servers_nil in Hsrv. destruct Hsrv as (_ & _ & Hmix). unfold mixed_schemes in Hb. congruence.
Qed.

Lemma rejects_unusable_pem fixd pick f :
  unusable_pem f = true -> validate_object fixd pick f <> VErrs [].
Proof.
  intros Hb Hv. apply validate_object_nil in Hv. destruct Hv as [_ _ Hcc Hss _ _ _ _].
  apply clientcfg_nil in Hcc. destruct Hcc as (H1 & H2 & _).
  apply serving_nil in Hss. destruct Hss as (H3 & H4).
  unfold unusable_pem in Hb. rewrite H1, H2, H3, H4 in Hb. discriminate.
Qed.

Lemma subset_nil j ids sub : forall k, validate_subset j k ids sub = [] -> forallb (fun u => zmem u ids) sub = true.
Proof.
  induction sub as [|u r IH]; intros k H; [reflexivity|].
  simpl in H. apply app_nil3 in H. destruct H as [H1 H2]. apply when_nil in H1.
  simpl. rewrite (IH _ H2). destruct (zmem u ids); [reflexivity|discriminate].
Qed.

Definition policy_refs_ok (ids names : list Z) (p : policy) : Prop :=
  forallb (fun u => zmem u ids) (p_subset p) = true
  /\ (negb (p_schema p =? 0) && negb (zmem (p_schema p) names))%bool = false
  /\ p_rules p = true.

Lemma policies_nil ids names l : forall j,
  validate_policies_from j ids names l = [] -> Forall (policy_refs_ok ids names) l.
Proof.
  induction l as [|p r IH]; intros j H; [constructor|].
  simpl in H. apply app_nil3 in H. destruct H as [H1 H2].
  constructor; [|eapply IH; exact H2].
  unfold validate_policy in H1.
  repeat match goal with
         | H : _ ++ _ = [] |- _ => apply app_nil3 in H; destruct H as [? ?]
         end.
  split; [eapply subset_nil; eassumption|].
  split; [match goal with H : when _ (EPolSchema j) = [] |- _ => apply when_nil in H; exact H end|].
  match goal with H : when _ (EPolRules j) = [] |- _ => apply when_nil in H; destruct (p_rules p); [reflexivity|discriminate] end.
Qed.

Lemma zmem_cons x y l : zmem x (y :: l) = ((x =? y) || zmem x l)%bool.
Proof. reflexivity. Qed.

Lemma names_subset l : forall i names x,
  zmem x (snd (validate_schemas_from i names l)) = true -> zmem x names = true \/ zmem x (map s_name l) = true.
Proof.
  induction l as [|s r IH]; intros i names x H; [left; exact H|].
  simpl in H. apply IH in H. destruct H as [H|H].
  - destruct ((s_name s =? 0) || zmem (s_name s) names)%bool; [left; exact H|].
    rewrite zmem_cons in H. apply Bool.orb_true_iff in H. destruct H as [H|H]; [|left; exact H].
    right. simpl map. rewrite zmem_cons, H. reflexivity.
  - right. simpl map. rewrite zmem_cons, H. apply Bool.orb_true_r.
Qed.

Lemma rejects_unknown_reference fixd pick f :
  existsb (unknown_reference f) (f_policies f) = true -> validate_object fixd pick f <> VErrs [].
Proof.
  intros Hb Hv. apply validate_object_nil in Hv. destruct Hv as [_ _ _ _ _ _ _ Hpol].
  apply policies_nil in Hpol. apply existsb_exists in Hb. destruct Hb as (p & Hin & Hp).
  rewrite Forall_forall in Hpol. destruct (Hpol p Hin) as (Hsub & Hsch & _).
  unfold unknown_reference in Hp. apply Bool.orb_true_iff in Hp. destruct Hp as [Hp|Hp].
  - apply existsb_exists in Hp. destruct Hp as (u & Hu & Hn).
    rewrite forallb_forall in Hsub. rewrite (Hsub u Hu) in Hn. discriminate.
  - apply Bool.andb_true_iff in Hp. destruct Hp as [Hnz Hnot]. rewrite Hnz in Hsch. simpl in Hsch.
    apply Bool.negb_false_iff in Hsch. apply names_subset in Hsch. destruct Hsch as [Hs|Hs]; [discriminate|].
    rewrite Hs in Hnot. discriminate.
Qed.

Lemma config_nil_good i s : validate_config i s = VErrs [] -> bad_flowcontrol s = false.
Proof.
  unfold validate_config, bad_flowcontrol, has, b2z.
  destruct (s_exempt s), (s_mri s) as [m|], (s_tb s) as [[tq tb]|], (s_gmri s) as [g|], (s_gtb s) as [[gq gb]|];
    cbn; intros H; unfold when in H;
    repeat match type of H with
           | context [if ?b then _ else _] => let E := fresh "E" in destruct b eqn:E; cbn in H
           end; try discriminate H; rewrite ?Bool.orb_false_r; try reflexivity; try lia.
Qed.

Lemma rejects_bad_flowcontrol fixd pick f :
  existsb bad_flowcontrol (f_schemas f) = true -> validate_object fixd pick f <> VErrs [].
Proof.
  intros Hb Hv. apply validate_object_nil in Hv. destruct Hv as [_ _ _ _ Hfc _ _ _].
  apply schemas_nil_each in Hfc. apply existsb_exists in Hb. destruct Hb as (s & Hin & Hs).
  rewrite Forall_forall in Hfc. destruct (Hfc s Hin) as [k Hk]. apply config_nil_good in Hk. congruence.
Qed.

Lemma rejects_object fixd pick f : breaking f = true -> validate_object fixd pick f <> VErrs [].
Proof.
  unfold breaking. intros H.
  apply Bool.orb_true_iff in H; destruct H as [H|H]; [|apply rejects_bad_flowcontrol; exact H].
  apply Bool.orb_true_iff in H; destruct H as [H|H]; [|apply rejects_unknown_reference; exact H].
  apply Bool.orb_true_iff in H; destruct H as [H|H]; [|apply rejects_unusable_pem; exact H].
  apply Bool.orb_true_iff in H; destruct H as [H|H]; [|apply rejects_mixed_schemes; exact H].
  apply rejects_unparseable_url; exact H.
Qed.

Lemma object_to_admission fixd pick f : validate_object fixd pick f <> VErrs [] -> validate_gen fixd pick f <> VErrs [].
Proof.
  intros Hne Hv. apply validate_nil in Hv. destruct Hv as [Hacc _].
  unfold validate_gen in *. destruct (validate_object_total fixd pick f) as [l Hl].
  apply Hne. rewrite Hl. f_equal.
  (* an accepted object has an empty list: recompute it from the parts *)
  destruct Hacc as [Hn Hs Hc Hss Hfc Hlg Hpne Hpol].
  unfold validate_object in Hl. rewrite Hfc in Hl. simpl in Hl.
  rewrite Hn, Hs, Hc, Hss, Hlg, Hpol in Hl. simpl in Hl.
  destruct (f_policies f); [congruence|]. simpl in Hl. congruence.
Qed.

Lemma rejects fixd pick f : breaking f = true -> validate_gen fixd pick f <> VErrs [].
Proof. intros H. apply object_to_admission, rejects_object. exact H. Qed.

(* ---------- an accepted object is usable: every policy resolves ---------- *)
Lemma dedup_nonempty l : l <> [] -> dedup l <> [].
Proof.
  induction l as [|x r IH]; intros H; [congruence|]. simpl.
  destruct (zmem x r) eqn:Hm; [|discriminate].
  apply IH. destruct r; [discriminate|discriminate].
Qed.

Lemma filter_all_true {A} (f : A -> bool) l : forallb f l = true -> filter f l = l.
Proof.
  induction l as [|x r IH]; simpl; intros H; [reflexivity|].
  apply Bool.andb_true_iff in H. destruct H as [Hx Hr]. rewrite Hx, (IH Hr). reflexivity.
Qed.

Lemma accepted_usable fixd pick f :
  accepted fixd pick f -> forall2b policy_usable (f_policies f) (map (policy_view f) (f_policies f)) = true.
Proof.
  intros [_ Hsrv _ _ _ _ _ Hpol].
  apply servers_nil in Hsrv. destruct Hsrv as (Hne & _ & _).
  apply policies_nil in Hpol.
  induction Hpol as [|p r (Hsub & Hsch & Hrules) _ IH]; simpl; [reflexivity|].
  rewrite IH, Bool.andb_true_r. unfold policy_view, policy_usable. rewrite Hrules. simpl.
  assert (Hschema : ((p_schema p =? 0) || negb ((p_schema p =? 0) || negb (zmem (p_schema p) (map s_name (f_schemas f)))))%bool = true).
  { destruct (p_schema p =? 0) eqn:Hz; [reflexivity|]. simpl in *.
    apply Bool.negb_false_iff in Hsch. apply names_subset in Hsch. destruct Hsch as [Hs|Hs]; [discriminate|].
    rewrite Hs. reflexivity. }
  cbv zeta. rewrite Hschema, Bool.andb_true_r.
  destruct (p_subset p) as [|u sub] eqn:Hs.
  - assert (Hd : dedup (map ep_id (f_servers f)) <> []).
    { apply dedup_nonempty. destruct (f_servers f); [congruence|discriminate]. }
    destruct (dedup (map ep_id (f_servers f))) as [|d0 dr]; [congruence|]. simpl List.length.
    apply Z.leb_le. rewrite Nat2Z.inj_succ. pose proof (Nat2Z.is_nonneg (List.length dr)). lia.
  - simpl in Hsub. apply Bool.andb_true_iff in Hsub. destruct Hsub as [Hu _]. rewrite Hu.
    simpl List.length. apply Z.leb_le. rewrite Nat2Z.inj_succ.
    pose proof (Nat2Z.is_nonneg (List.length (filter (fun u0 : Z => zmem u0 (map ep_id (f_servers f))) sub))). lia.
Qed.

(* ---------- the executable specification holds of the model on every object ---------- *)
Definition model_obs (pick : bool) (f : facts) : obs :=
  {| o_validate := validate_object code_fix pick f;
     o_admit := admit_of (validate pick f);
     o_admit_gate := match f_gate f with GBad => true | _ => false end;
     o_create := apply_gateway f; o_ctrl := apply_controller f; o_lim := apply_limiter f;
     o_pols := policy_views f |}.

Lemma model_meets_spec pick f : oracle_laws f = true -> clauses f (model_obs pick f) = [true; true; true].
Proof.
  intros Hlaws. unfold clauses, total_ok, sound_ok, rejects_ok, model_obs; simpl.
  destruct (validate_object_total code_fix pick f) as [l Hl].
  pose proof (validate_total code_fix pick f) as Htot. fold (validate pick f) in Htot.
  rewrite Hl.
  assert (Hadm : ares_eqb (admit_of (validate pick f)) Panic = false).
  { destruct (validate pick f) as [|[|? ?]]; [congruence|reflexivity|reflexivity]. }
  rewrite Hadm. simpl. f_equal. f_equal.
  - destruct (validate pick f) as [|[|e r]] eqn:Hv; simpl; [reflexivity| |reflexivity].
    destruct (sound pick f Hlaws Hv) as (H1 & _ & _). unfold apply_controller, policy_views. rewrite H1. simpl.
    unfold validate in Hv. apply validate_nil in Hv. destruct Hv as [Hacc _].
    apply (accepted_usable _ _ _ Hacc).
  - f_equal. destruct (breaking f) eqn:Hb; [|reflexivity].
    pose proof (rejects code_fix pick f Hb) as Hr. fold (validate pick f) in Hr.
    pose proof (rejects_object code_fix pick f Hb) as Hro. rewrite Hl in Hro.
    destruct (validate pick f) as [|[|e r]]; [congruence|congruence|].
    destruct l; [congruence|reflexivity].
Qed.

(* ---------- without the insecure+caData check the soundness clause is false ---------- *)
Definition wit_ep : endpoint :=
  {| ep_id := 1; ep_prefix := PHttps; ep_parses := true; ep_scheme_https := true; ep_host := true; ep_client_ok := true |}.
Definition wit_insecure_ca : facts :=
  {| f_name_ok := true; f_gate := GAbsent; f_servers := [wit_ep];
     f_cc := {| cc_insecure := true; cc_token := true; cc_key := false; cc_cert := false; cc_ca := true;
                cc_pair_ok := false; cc_ca_ok := true; cc_qps := 0; cc_burst := 0; cc_div := 0 |};
     f_ss := {| ss_key := false; ss_cert := false; ss_ca := false; ss_pair_ok := false; ss_ca_ok := false |};
     f_schemas := [{| s_name := 1; s_strategy := 1; s_exempt := false; s_mri := Some 10; s_tb := None; s_gmri := None; s_gtb := None |}];
     f_logging_ok := true;
     f_policies := [{| p_strategy_ok := true; p_subset := []; p_schema := 1; p_rules := true; p_logmode_ok := true |}] |}.

Lemma sound_refuted_without_insecure_ca_check :
  exists f, oracle_laws f = true /\ (forall pick, validate_gen false pick f = VErrs []) /\ apply_gateway f = Err.
Proof. exists wit_insecure_ca. split; [reflexivity|]. split; [intros []; reflexivity|reflexivity]. Qed.

(* ====================================================================================================
   EXTENSION 1 — updates
   ==================================================================================================== *)
Lemma validated_parts pick f :
  oracle_laws f = true -> validate pick f = VErrs [] ->
  f_gate f <> GBad
  /\ Forall (fun s => touch_members (guess_type s) s = true) (f_schemas f)
  /\ (ss_ca (f_ss f) && negb (ss_ca_ok (f_ss f)))%bool = false
  /\ (ss_key (f_ss f) && ss_cert (f_ss f) && negb (ss_pair_ok (f_ss f)))%bool = false
  /\ tls_config_err (rest_https f) (f_cc f) = false
  /\ Forall (fun e => ep_client_ok e = true) (f_servers f).
Proof.
  intros Hlaws Hv. unfold validate in Hv. apply validate_nil in Hv. destruct Hv as [Hacc Hgate].
  destruct Hacc as [_ Hsrv Hcc Hss Hfc _ _ _].
  apply servers_nil in Hsrv. destruct Hsrv as (Hne & Hgood & Hmix).
  apply serving_nil in Hss. destruct Hss as [Hsp Hsc].
  apply (clientcfg_nil code_fix) in Hcc. destruct Hcc as (Hcp & _ & Hins).
  split; [exact Hgate|]. split.
  { eapply Forall_impl; [|eapply schemas_nil_each; exact Hfc]. intros s [k Hk]. eapply config_nil_touch. exact Hk. }
  split; [exact Hsc|]. split; [exact Hsp|].
  unfold oracle_laws in Hlaws. unfold rest_https.
  destruct (f_servers f) as [|e0 r]; [congruence|].
  split.
  - assert (Hl0 : endpoint_laws e0 = true) by (simpl in Hlaws; apply Bool.andb_true_iff in Hlaws; tauto).
    eapply tls_ok; try eassumption; [exact (Forall_inv Hgood)|]. intros Hsi. apply Hins; [exact Hsi|reflexivity].
  - rewrite Forall_forall. intros e Hin.
    rewrite forallb_forall in Hlaws. specialize (Hlaws e Hin).
    rewrite Forall_forall in Hgood. destruct (Hgood e Hin) as (Hpe & Hpa & Hho).
    unfold endpoint_laws in Hlaws. rewrite Hpa, Hho in Hlaws. simpl in Hlaws.
    apply Bool.andb_true_iff in Hlaws. destruct Hlaws as [_ Hl2].
    destruct (ep_prefix e); [congruence|exact Hl2|exact Hl2].
Qed.

Lemma sound_update p1 p2 f1 f2 d :
  oracle_laws f1 = true -> oracle_laws f2 = true ->
  validate p1 f1 = VErrs [] -> validate p2 f2 = VErrs [] ->
  apply_gateway_update f1 f2 d = Ok /\ apply_update_ctrl f1 f2 d = Ok
  /\ apply_update_info f1 f2 d = Some Ok /\ apply_limiter_update f1 f2 = Ok.
Proof.
  intros Hl1 Hl2 Hv1 Hv2.
  destruct (sound p1 f1 Hl1 Hv1) as (Hg1 & _ & _).
  destruct (validated_parts p1 f1 Hl1 Hv1) as (_ & Ht1 & _ & _ & Htls1 & _).
  destruct (validated_parts p2 f2 Hl2 Hv2) as (Hgate2 & Ht2 & Hsc2 & Hsp2 & _ & Hcl2).
  assert (Hu : apply_gateway_update f1 f2 d = Ok).
  { unfold apply_gateway_update.
    assert (Hfc : exists m, (if list_eqb schema_eqb (f_schemas f1) (f_schemas f2) then Some []
                             else match sync_flowcontrols [] (f_schemas f1) with
                                  | Some m1 => sync_flowcontrols m1 (f_schemas f2) | None => None end) = Some m).
    { destruct (list_eqb schema_eqb (f_schemas f1) (f_schemas f2)); [eexists; reflexivity|].
      destruct (sync_some (f_schemas f1) Ht1 []) as [m1 Hm1]. rewrite Hm1. apply sync_some. exact Ht2. }
    destruct Hfc as [m Hm]. rewrite Hm.
    replace (negb (d_ss_ca_same d) && ss_ca (f_ss f2) && negb (ss_ca_ok (f_ss f2)))%bool with false
      by (rewrite <- Bool.andb_assoc, Hsc2, Bool.andb_false_r; reflexivity).
    replace ((negb (d_ss_key_same d) || negb (d_ss_cert_same d)) && ss_key (f_ss f2) && ss_cert (f_ss f2) && negb (ss_pair_ok (f_ss f2)))%bool
      with false
      by (rewrite <- !Bool.andb_assoc; rewrite <- Bool.andb_assoc in Hsp2; rewrite Hsp2, Bool.andb_false_r; reflexivity).
    rewrite Htls1.
    replace (existsb _ (f_servers f2)) with false.
    2:{ symmetry. apply Bool.not_true_is_false. intros Hex. apply existsb_exists in Hex. destruct Hex as (e & Hin & He).
        rewrite Forall_forall in Hcl2. rewrite (Hcl2 e Hin) in He. simpl in He. rewrite Bool.andb_false_r in He. discriminate. }
    destruct (f_gate f2); [reflexivity|reflexivity|congruence]. }
  unfold apply_update_ctrl, apply_update_info. rewrite Hg1. simpl. rewrite Hu. repeat split; reflexivity.
Qed.

(* ====================================================================================================
   EXTENSION 2 — remote rate limiter rounds
   ==================================================================================================== *)
(* what validation guarantees about one schema, as far as the remote path is concerned *)
Definition sgood (s : schema) : Prop :=
  touch_members (guess_type s) s = true /\ (forall k, global_kind s = Some k -> kind_type k = guess_type s).

Lemma config_nil_sgood i s : validate_config i s = VErrs [] -> sgood s.
Proof.
  intros H. split; [eapply config_nil_touch; exact H|].
  revert H. unfold validate_config, global_kind, guess_type.
  destruct (s_exempt s), (s_mri s) as [m|], (s_tb s) as [[tq tb]|], (s_gmri s) as [g|], (s_gtb s) as [[gq gb]|];
    cbn; intros H k Hk; inversion Hk; subst; try reflexivity; exfalso; unfold when in H;
    repeat match type of H with
           | context [if ?b then _ else _] => destruct b; cbn in H
           end; discriminate H.
Qed.

Lemma validated_sgood pick f : validate pick f = VErrs [] -> Forall sgood (f_schemas f).
Proof.
  intros Hv. unfold validate in Hv. apply validate_nil in Hv. destruct Hv as [[_ _ _ _ Hfc _ _ _] _].
  eapply Forall_impl; [|eapply schemas_nil_each; exact Hfc]. intros s [k Hk]. eapply config_nil_sgood. exact Hk.
Qed.

(* invariant of one flow-control cache of the gateway *)
Definition cinv (c : gcache) : Prop :=
  match g_type c with
  | None => g_cfg c = zero_schema /\ g_remote c = RNone
  | Some t => t = guess_type (g_cfg c) /\ sgood (g_cfg c)
              /\ (forall k, g_remote c = RKind k -> global_kind (g_cfg c) = Some k)
  end.
Definition ginv (g : gateway) : Prop := Forall (fun p => cinv (snd p)) (gw_caches g).

Lemma fctype_eqb_eq a b : fctype_eqb a b = true -> a = b.
Proof. destruct a, b; simpl; intros H; try reflexivity; discriminate. Qed.
Lemma kind_type_inj a b : kind_type a = kind_type b -> a = b.
Proof. destruct a, b; simpl; intros H; try reflexivity; discriminate. Qed.
Lemma enable_has_kind s : enable_global s = true -> exists k, global_kind s = Some k.
Proof.
  unfold enable_global, global_kind. intros H. apply Bool.andb_true_iff in H. destruct H as [_ H].
  destruct (s_gmri s), (s_gtb s); simpl in *; try discriminate; eexists; reflexivity.
Qed.

Lemma cinv_fresh : cinv fresh_cache.
Proof. unfold cinv, fresh_cache; simpl. split; reflexivity. Qed.

Lemma glocal_sync_inv c s : cinv c -> sgood s -> exists c', glocal_sync all_fixes c s = Some c' /\ cinv c'.
Proof.
  intros Hc [Ht Hk]. unfold glocal_sync.
  destruct (schema_eqb s (g_cfg c)); [exists c; split; [reflexivity|exact Hc]|].
  rewrite Ht. simpl negb. cbv iota.
  destruct (g_type c) as [t|] eqn:Hty.
  - unfold cinv in Hc. rewrite Hty in Hc. destruct Hc as (Hteq & [_ Hkold] & Hrem).
    destruct (fctype_eqb t (guess_type s)) eqn:Hsame.
    + apply fctype_eqb_eq in Hsame. eexists; split; [reflexivity|].
      unfold cinv; simpl. split; [exact Hsame|]. split; [split; assumption|].
      intros k Hr. destruct (enable_global s) eqn:Hen; [|discriminate].
      destruct (enable_has_kind s Hen) as [k' Hk'].
      specialize (Hrem k Hr). apply Hkold in Hrem. apply Hk in Hk' as Hk''.
      assert (k' = k) by (apply kind_type_inj; congruence). subst k'. exact Hk'.
    + eexists; split; [reflexivity|]. unfold cinv; simpl. split; [reflexivity|]. split; [split; assumption|].
      intros k Hr; discriminate.
  - eexists; split; [reflexivity|]. unfold cinv; simpl. split; [reflexivity|]. split; [split; assumption|].
    intros k Hr; discriminate.
Qed.

Lemma alookup_in {A} (P : A -> Prop) n (m : list (Z * A)) c :
  Forall (fun p => P (snd p)) m -> alookup n m = Some c -> P c.
Proof.
  induction m as [|[k c0] r IH]; simpl; intros HF H; [discriminate|].
  inversion HF; subst. destruct (k =? n); [inversion H; subst; assumption|apply IH; assumption].
Qed.
Lemma astore_forall {A} (P : A -> Prop) n c (m : list (Z * A)) :
  Forall (fun p => P (snd p)) m -> P c -> Forall (fun p => P (snd p)) (astore n c m).
Proof.
  induction m as [|[k c0] r IH]; simpl; intros HF Hc; [constructor; [exact Hc|constructor]|].
  inversion HF; subst. destruct (k =? n); constructor; simpl; try assumption. apply IH; assumption.
Qed.

Lemma gsync_each_inv l : Forall sgood l -> forall m, Forall (fun p => cinv (snd p)) m ->
  exists m', gsync_each all_fixes m l = Some m' /\ Forall (fun p => cinv (snd p)) m'.
Proof.
  induction 1 as [|s r Hs _ IH]; intros m Hm; simpl; [exists m; split; [reflexivity|exact Hm]|].
  assert (Hc : cinv (match alookup (s_name s) m with Some c => c | None => fresh_cache end)).
  { destruct (alookup (s_name s) m) as [c|] eqn:Hl; [eapply (alookup_in cinv); eassumption|apply cinv_fresh]. }
  destruct (glocal_sync_inv _ s Hc Hs) as (c' & Hg & Hc'). rewrite Hg.
  apply IH. apply astore_forall; assumption.
Qed.

Lemma filter_forall {A} (P : A -> Prop) f (l : list A) : Forall P l -> Forall P (filter f l).
Proof. induction 1; simpl; [constructor|]. destruct (f x); [constructor; assumption|assumption]. Qed.

Lemma gsync_inv g l : ginv g -> Forall sgood l -> exists g', gsync all_fixes g l = Some g' /\ ginv g'.
Proof.
  intros Hg Hl. unfold gsync. destruct (list_eqb schema_eqb (gw_spec g) l); [exists g; split; [reflexivity|exact Hg]|].
  destruct (gsync_each_inv l Hl _ Hg) as (m' & Hm & Hi). rewrite Hm.
  eexists; split; [reflexivity|]. unfold ginv; simpl. apply filter_forall. exact Hi.
Qed.

Lemma zero_strategy : s_strategy zero_schema = 0.
Proof. reflexivity. Qed.

Lemma count_pass_inv g : ginv g -> ginv (count_pass g).
Proof.
  unfold ginv, count_pass; simpl. intros H. rewrite Forall_forall in *. intros p Hin.
  apply in_map_iff in Hin. destruct Hin as ([n c] & Hp & Hin). specialize (H _ Hin). simpl in *.
  destruct (s_strategy (g_cfg c) =? 3) eqn:Hs3; subst p; simpl; [|exact H].
  unfold cinv in *; simpl. destruct (g_type c) as [t|].
  - destruct H as (Ht & Hg & Hr). split; [exact Ht|]. split; [exact Hg|].
    intros k. destruct (global_kind (g_cfg c)) as [k0|] eqn:Hk0.
    + intros E; inversion E; reflexivity.
    + intros E. destruct (g_remote c); try discriminate. apply Hr in E. congruence.
  - destruct H as [Hz Hr]. rewrite Hz in Hs3. discriminate.
Qed.

Lemma sanitize_kind_sound c k :
  sanitize_kind (optk_eqb (item_kind all_fixes c) (Some DMri) || optk_eqb (global_kind (g_cfg c)) (Some DMri))
                (optk_eqb (item_kind all_fixes c) (Some DTb) || optk_eqb (global_kind (g_cfg c)) (Some DTb)) (g_cfg c) = Some k ->
  global_kind (g_cfg c) = Some k.
Proof.
  unfold sanitize_kind, global_kind.
  destruct (s_gmri (g_cfg c)) as [g|], (s_gtb (g_cfg c)) as [t|]; simpl;
    repeat rewrite ?Bool.orb_true_r, ?Bool.andb_true_r, ?Bool.andb_false_r; simpl; intros H; try (inversion H; reflexivity); try discriminate.
Qed.

Lemma alloc_pass_inv inst l g ls : ginv g ->
  exists g' ls', alloc_pass all_fixes inst true l g ls = (ROk, g', ls') /\ ginv g'.
Proof.
  intros Hg. unfold alloc_pass. cbv zeta. cbn [fx_no_limiter fx_stale_status all_fixes negb andb].
  assert (Hmis : existsb (fun p => match item_kind all_fixes (snd p) with
                                   | Some k => negb (optk_eqb (Some k) (global_kind (g_cfg (snd p))))
                                   | None => false end)
                         (filter (fun p => selected (snd p)) (gw_caches g)) = false).
  { apply Bool.not_true_is_false. intros Hex. apply existsb_exists in Hex. destruct Hex as ([n c] & Hin & He).
    apply filter_In in Hin. destruct Hin as [Hin Hsel]. unfold ginv in Hg. rewrite Forall_forall in Hg.
    specialize (Hg _ Hin). simpl in *. unfold item_kind in He. destruct (g_remote c) as [| |k] eqn:Hr; try discriminate.
    unfold cinv in Hg. destruct (g_type c) as [t|].
    - destruct Hg as (_ & _ & Hk). rewrite (Hk k Hr) in He. destruct k; discriminate.
    - destruct Hg as [_ Hn]. congruence. }
  rewrite Hmis. eexists; eexists; split; [reflexivity|].
  unfold ginv in *; simpl. rewrite Forall_forall in *. intros p Hin.
  apply in_map_iff in Hin. destruct Hin as ([n c] & Hp & Hin). specialize (Hg _ Hin). simpl in *.
  destruct (selected c) eqn:Hsel; subst p; simpl; [|exact Hg].
  unfold cinv in *; simpl. destruct (g_type c) as [t|].
  - destruct Hg as (Ht & Hgd & Hr). split; [exact Ht|]. split; [exact Hgd|].
    intros k. match goal with |- context [sanitize_kind ?a ?b ?s] => destruct (sanitize_kind a b s) as [k0|] eqn:Hsk end.
    + intros E; inversion E; subst. eapply sanitize_kind_sound. exact Hsk.
    + intros E. destruct (g_remote c) as [| |k1]; try discriminate. inversion E; subst. apply Hr. reflexivity.
  - destruct Hg as [Hz _]. unfold selected in Hsel. rewrite Hz in Hsel. discriminate.
Qed.

Lemma round_inv inst l g ls : ginv g -> Forall sgood l ->
  exists rr g' ls', round all_fixes inst true l (Some g) ls = (rr, Some g', ls') /\ round_ok rr = true /\ ginv g'.
Proof.
  intros Hg Hl. unfold round. destruct (gsync_inv g l Hg Hl) as (g1 & Hs & H1). rewrite Hs.
  destruct (alloc_pass_inv inst l (count_pass g1) ls (count_pass_inv _ H1)) as (g3 & ls' & Ha & H3). rewrite Ha.
  eexists; eexists; eexists; split; [reflexivity|]. split; [reflexivity|exact H3].
Qed.

Lemma ginv_fresh : ginv fresh_gateway.
Proof. constructor. Qed.

Lemma rounds_tail_ok vs : Forall (Forall sgood) vs -> forall g ls, ginv g ->
  Forall (fun r => round_ok r = true) (rounds_tail all_fixes true vs (Some g) ls).
Proof.
  induction 1 as [|l r Hl Hr IH]; intros g ls Hg; [constructor|].
  destruct r as [|l2 r2].
  - cbn [rounds_tail].
    destruct (round_inv 2 l fresh_gateway ls ginv_fresh Hl) as (rb & gb & ls1 & Hb & Hokb & _). rewrite Hb.
    destruct (round_inv 1 l g ls1 Hg Hl) as (ra & ga & ls2 & Ha & Hoka & _). rewrite Ha.
    constructor; [exact Hokb|constructor; [exact Hoka|constructor]].
  - change (rounds_tail all_fixes true (l :: l2 :: r2) (Some g) ls)
      with (let '(rr, g', ls') := round all_fixes 1 true l (Some g) ls in rr :: rounds_tail all_fixes true (l2 :: r2) g' ls').
    destruct (round_inv 1 l g ls Hg Hl) as (rr & g' & ls' & Hrd & Hok & Hg'). rewrite Hrd.
    constructor; [exact Hok|apply IH; exact Hg'].
Qed.

Lemma remote_rounds_ok vs : Forall (Forall sgood) vs ->
  Forall (fun r => round_ok r = true) (remote_rounds all_fixes true vs).
Proof.
  intros Hvs. unfold remote_rounds. destruct vs as [|l r]; [constructor|].
  inversion Hvs as [|? ? Hl Hr]; subst.
  destruct (round_inv 1 l fresh_gateway [] ginv_fresh Hl) as (rr & g' & ls' & Hrd & Hok & Hg'). rewrite Hrd.
  constructor; [exact Hok|apply rounds_tail_ok; assumption].
Qed.

Lemma sound_remote fs :
  Forall (fun f => exists pick, validate pick f = VErrs []) fs ->
  Forall (fun r => round_ok r = true) (remote_rounds all_fixes true (map f_schemas fs)).
Proof.
  intros H. apply remote_rounds_ok. induction H as [|f r [pick Hv] _ IH]; simpl; constructor; [|exact IH].
  eapply validated_sgood. exact Hv.
Qed.

(* ---------- each of the three repairs is needed (pairs of validated flow-control specs) ---------- *)
Definition sch (n st : Z) (mri : option Z) (tb : option (Z * Z)) (gmri : option Z) (gtb : option (Z * Z)) : schema :=
  {| s_name := n; s_strategy := st; s_exempt := false; s_mri := mri; s_tb := tb; s_gmri := gmri; s_gtb := gtb |}.
Definition spec_ok (l : list schema) : Prop := fst (validate_schemas_from 0 [] l) = VErrs [].
Definition some_round_fails (fx : fixes) (vs : list (list schema)) : bool :=
  existsb (fun r => negb (round_ok r)) (remote_rounds fx true vs).

(* globalAllocate max-inflight -> token bucket *)
Definition wit_type_change : list (list schema) :=
  [[sch 1 2 (Some 10) None (Some 100) None]; [sch 1 2 None (Some (5, 10)) None (Some (50, 100))]].
(* globalCount without a global member -> globalAllocate with one *)
Definition wit_no_limiter : list (list schema) :=
  [[sch 1 3 (Some 10) None None None]; [sch 1 2 (Some 10) None (Some 100) None]].

Lemma remote_refuted_without_stale_remote_fix :
  Forall spec_ok wit_type_change
  /\ some_round_fails {| fx_stale_remote := false; fx_stale_status := true; fx_no_limiter := true |} wit_type_change = true.
Proof. split; [constructor; [reflexivity|constructor; [reflexivity|constructor]]|reflexivity]. Qed.
(* the limiter-side repair: replica B's first round on the new version panics in the limiter server, because the
   condition gateway A stored for the previous version carries a status of the previous type *)
Lemma remote_refuted_without_stale_status_fix :
  Forall spec_ok wit_type_change
  /\ existsb (fun r => match rr_alloc r with RPanic => true | _ => false end)
       (remote_rounds {| fx_stale_remote := true; fx_stale_status := false; fx_no_limiter := true |} true wit_type_change) = true.
Proof. split; [constructor; [reflexivity|constructor; [reflexivity|constructor]]|reflexivity]. Qed.
Lemma remote_refuted_without_no_limiter_fix :
  Forall spec_ok wit_no_limiter
  /\ some_round_fails {| fx_stale_remote := true; fx_stale_status := true; fx_no_limiter := false |} wit_no_limiter = true.
Proof. split; [constructor; [reflexivity|constructor; [reflexivity|constructor]]|reflexivity]. Qed.

Lemma sound_usable pick f :
  oracle_laws f = true -> validate pick f = VErrs [] ->
  exists l, policy_views f = Some l /\ forall2b policy_usable (f_policies f) l = true.
Proof.
  intros Hlaws Hv. destruct (sound pick f Hlaws Hv) as (H1 & _ & _). unfold policy_views. rewrite H1.
  eexists; split; [reflexivity|].
  unfold validate in Hv. apply validate_nil in Hv. destruct Hv as [Hacc _]. apply (accepted_usable _ _ _ Hacc).
Qed.

(* ====================================================================================================
   EXTENSION 3 — the feature-gate annotation, as a raw string
   ==================================================================================================== *)
(* admission and the gateway's syncFeatureGate decide alike on every raw annotation value *)
Lemma admit_gate_sync_gate raw : admit_gate raw = sync_gate raw.
Proof. destruct raw as [[|a r]|]; reflexivity. Qed.

Lemma gate_fact_admit raw : admit_gate raw = negb (gatefact_eqb (gate_of_raw raw) GBad).
Proof. destruct raw as [[|a r]|]; simpl; try reflexivity. destruct (gate_accepts (String a r)); reflexivity. Qed.

(* for every raw annotation value: an object carrying it that is admitted is applied by the gateway, and in
   particular the gateway's own parse of the same raw value succeeds *)
Lemma featuregate_annotation_sound raw pick f :
  f_gate f = gate_of_raw raw -> oracle_laws f = true -> validate pick f = VErrs [] ->
  admit_gate raw = true /\ sync_gate raw = true /\ apply_gateway f = Ok.
Proof.
  intros Hraw Hlaws Hv.
  destruct (sound pick f Hlaws Hv) as (Hg & _ & _).
  unfold validate in Hv. apply validate_nil in Hv. destruct Hv as [_ Hgate].
  assert (Ha : admit_gate raw = true).
  { rewrite gate_fact_admit, <- Hraw. destruct (f_gate f); [reflexivity|reflexivity|congruence]. }
  split; [exact Ha|]. split; [rewrite <- admit_gate_sync_gate; exact Ha|exact Hg].
Qed.

(* conversely a raw value the gateway's parser refuses is refused by admission, whatever the rest of the object *)
Lemma featuregate_annotation_rejected raw fixd pick f :
  f_gate f = gate_of_raw raw -> sync_gate raw = false -> validate_gen fixd pick f <> VErrs [].
Proof.
  intros Hraw Hs Hv. apply validate_nil in Hv. destruct Hv as [_ Hgate].
  rewrite <- admit_gate_sync_gate, gate_fact_admit, <- Hraw in Hs. destruct (f_gate f); [discriminate|discriminate|congruence].
Qed.
