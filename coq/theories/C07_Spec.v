(* C07 — the property as an executable checker over observations only.

   Property text: under the global-allocate strategy
   (a) every quota answered is at least 1 and at most the global limit
       (a limit below 1 cannot hold the minimum quota: bound = max 1 limit);
   (b) whenever the quotas on record sum to at most the limit, answering a
       report leaves the recorded sum at most the limit, an instance held at the
       minimum quota of 1 aside;
   (c) when the sum exceeds the limit (e.g. the limit was lowered) no quota grows;
   (d) a token-bucket burst is scaled with the quota and never exceeds the
       global burst;
   and "every quota answered ... for every reported usage/request level": a report
   whose items have the item type of the upstream's schemas is answered.
   Everything below is integer arithmetic on what was sent and what was observed,
   per schema; quotas of a schema are those recorded with the schema's current item
   type (a quota of the other type is a different resource and is not counted). *)
From KG Require Import Prelude.
Open Scope Z_scope.

(* ---------- one answered report ---------- *)
Definition floor_ok (q : Z) : bool := 1 <=? q.
Definition cap_ok (limit q : Z) : bool := q <=? Z.max 1 limit.

(* [sum]/[sum'] = quotas on record before / after the answer *)
Definition step_safe_ok (limit sum sum' q : Z) : bool :=
  if sum <=? limit then (sum' <=? limit) || (q =? 1) else true.
Definition no_growth_ok (limit sum current q : Z) : bool :=
  if limit <? sum then q <=? Z.max 1 current else true.

(* burst of a token bucket (is_bucket): never above the global burst; under limit >= 1 and
   global burst >= 0 also not negative, and the full quota gets the full burst *)
Definition burst_ok (is_bucket : bool) (limit gburst q b : Z) : bool :=
  if is_bucket then
    (b <=? gburst) &&
    (if (1 <=? limit) && (0 <=? gburst)
     then (0 <=? b) && (if q =? limit then b =? gburst else true)
     else true)
  else b =? 0.

(* the global-count strategy hands the global values through *)
Definition count_ok (is_bucket : bool) (limit gburst q b : Z) : bool :=
  (q =? limit) && (b =? (if is_bucket then gburst else 0)).

(* scaling: under the same limit (>= 1) and global burst (>= 0) a larger quota never gets a smaller burst *)
Definition mono_pair (a b : Z * Z * Z * Z) : bool :=
  match a, b with
  | (l1, g1, q1, b1), (l2, g2, q2, b2) =>
      if (1 <=? l1) && (0 <=? g1) && (l1 =? l2) && (g1 =? g2) && (q1 <=? q2) then b1 <=? b2 else true
  end.
Definition burst_mono_ok (answers : list (Z * Z * Z * Z)) : bool :=
  forallb (fun a => forallb (mono_pair a) answers) answers.

(* ---------- quotas on record ---------- *)
Definition rec_sum (l : list (Z * (Z * Z))) : Z := sumZ (map (fun e => fst (snd e)) l).
(* the sum "an instance held at the minimum quota of 1 aside" *)
Definition above1 (q : Z) : Z := if q <=? 1 then 0 else q.
Definition rec_sum1 (l : list (Z * (Z * Z))) : Z := sumZ (map (fun e => above1 (fst (snd e))) l).

(* ---------- histories of one schema ---------- *)
(* what a report of some instance means for the schema *)
Inductive rentry :=
| EReport (i : Z) (typed count : bool) (used level uplevel clients : Z)
    (* an item for the schema; typed = it carries the schema's item type (else no limit member);
       count = global-count strategy; uplevel = upstream request level on record; clients = live clients *)
| EDrop (i : Z).     (* the report has no item for the schema: the instance's quota goes off the record *)

(* a batch of honest reports issued concurrently (a singleton = a sequential report),
   a change of the schema (limit, burst, possibly the item type), the removal of an instance *)
Inductive bop :=
| BReports (rs : list rentry)
| BSet (bucket : bool) (limit burst : Z)
| BRemove (i : Z)
| BOverlap (report_first : bool) (r : rentry) (bucket : bool) (limit burst : Z).
    (* a report overlapping a change of the schema: the report was under way (it had looked the
       upstream state up, or was waiting for the per-upstream lock) when the change was handled.
       [report_first] is the order the lock served them in; it is not observable and the spec
       does not look at it. *)

(* what was observed *)
Record sobs := {
  o_cur : list Z;                    (* the current quota each item of the batch carried *)
  o_ans : list (option (Z * Z));     (* the (quota, burst) answered to each; None = no answer *)
  o_quotas : list (Z * (Z * Z));     (* (quota, burst) on record per instance afterwards, current item type *)
  o_oquotas : list (Z * (Z * Z));    (* ... recorded with the other item type *)
  o_rec : Z;                         (* the allocated sum the server shows afterwards, current item type *)
  o_orec : Z                         (* ... other item type *)
}.

(* the count flags of the items of a batch, in order *)
Definition item_counts (rs : list rentry) : list bool :=
  flat_map (fun r => match r with EReport _ _ c _ _ _ _ => [c] | EDrop _ => [] end) rs.

(* answers of the batch with the given strategy flag *)
Fixpoint answers_with (flag : bool) (cs : list bool) (ans : list (option (Z * Z))) : list (Z * Z) :=
  match cs, ans with
  | c :: cs', Some qb :: ans' => if Bool.eqb c flag then qb :: answers_with flag cs' ans' else answers_with flag cs' ans'
  | _ :: cs', None :: ans' => answers_with flag cs' ans'
  | _, _ => []
  end.

Definition all_answered (cs : list bool) (ans : list (option (Z * Z))) : bool :=
  (List.length cs =? List.length ans)%nat && forallb (fun a => match a with Some _ => true | None => false end) ans.

Definition all8 : list bool := [true; true; true; true; true; true; true; true].

Definition and_rows (a b : list bool) : list bool :=
  map (fun p => andb (fst p) (snd p)) (combine a b).

(* clause vector of a batch of reports: answered, floor, cap, step_safe, no_growth, burst, over_commit, count *)
Definition report_row (is_bucket : bool) (limit gburst : Z) (before : list (Z * (Z * Z)))
           (rs : list rentry) (cur : list Z) (ans : list (option (Z * Z))) (after : list (Z * (Z * Z))) : list bool :=
  let cs := item_counts rs in
  let alloc := answers_with false cs ans in
  let cnt := answers_with true cs ans in
  [ all_answered cs ans;
    forallb (fun qb => floor_ok (fst qb)) alloc;
    forallb (fun qb => cap_ok limit (fst qb)) alloc;
    match rs, ans with
    | [EReport _ _ false _ _ _ _], [Some (q, _)] => step_safe_ok limit (rec_sum before) (rec_sum after) q
    | _, _ => true
    end;
    match rs, ans, cur with
    | [EReport _ _ false _ _ _ _], [Some (q, _)], [c] => no_growth_ok limit (rec_sum before) c q
    | _, _, _ => true
    end;
    forallb (fun qb => burst_ok is_bucket limit gburst (fst qb) (snd qb)) alloc;
    match cnt with
    | [] => rec_sum1 after <=? Z.max limit (rec_sum1 before)
    | _ => true                     (* count-strategy answers are not quotas *)
    end;
    forallb (fun qb => count_ok is_bucket limit gburst (fst qb) (snd qb)) cnt ].

(* a change of the schema / a removal: only the over_commit clause speaks *)
Definition quiet_row (limit : Z) (before after : list (Z * (Z * Z))) : list bool :=
  [true; true; true; true; true; true; rec_sum1 after <=? Z.max limit (rec_sum1 before); true].

Definition step_ok (is_bucket : bool) (limit gburst : Z) (before obefore : list (Z * (Z * Z)))
           (o : bop) (b : sobs) : list bool :=
  let after := o_quotas b in
  match o with
  | BReports rs => report_row is_bucket limit gburst before rs (o_cur b) (o_ans b) after
  | BSet bk n g =>
      (* a change of the item type brings the quotas recorded with that type back into the sum *)
      quiet_row n (if Bool.eqb bk is_bucket then before else obefore) after
  | BRemove _ => quiet_row limit before after
  | BOverlap _ r bk n g =>
      let same := Bool.eqb bk is_bucket in
      (* either the report was served first: it obeys the old configuration, then the change ... *)
      let mid := if same then o_quotas b else o_oquotas b in      (* the record of the old type after the report *)
      let rowA := and_rows (report_row is_bucket limit gburst before [r] (o_cur b) (o_ans b) mid)
                           (quiet_row n (if same then mid else obefore) after) in
      (* ... or the change was served first and the report obeys the new configuration *)
      let before' := if same then before else obefore in
      let rowB := report_row bk n g before' [r] (o_cur b) (o_ans b) after in
      if forallb (fun x => x) rowA || forallb (fun x => x) rowB then all8 else rowB
  end.

Definition cfg_after (is_bucket : bool) (limit gburst : Z) (o : bop) : bool * Z * Z :=
  match o with BSet bk n g => (bk, n, g) | BOverlap _ _ bk n g => (bk, n, g) | _ => (is_bucket, limit, gburst) end.

(* fold over the trace; also collects (limit, gburst, quota, burst) of every allocate answer of a token bucket *)
Fixpoint hist_rows (is_bucket : bool) (limit gburst : Z) (before obefore : list (Z * (Z * Z)))
         (tr : list (bop * sobs)) : list bool * list (Z * Z * Z * Z) :=
  match tr with
  | [] => (all8, [])
  | (o, b) :: r =>
      let row := step_ok is_bucket limit gburst before obefore o b in
      let ans := match o with
                 | BReports rs =>
                     if is_bucket
                     then map (fun qb => (limit, gburst, fst qb, snd qb)) (answers_with false (item_counts rs) (o_ans b))
                     else []
                 | _ => []
                 end in
      let '(bk', l', g') := cfg_after is_bucket limit gburst o in
      let (rows, answers) := hist_rows bk' l' g' (o_quotas b) (o_oquotas b) r in
      (and_rows row rows, ans ++ answers)
  end.

(* clauses: answered, floor, cap, step_safe, no_growth, burst, over_commit, count, burst_mono *)
Definition hist_ok (is_bucket : bool) (limit gburst : Z) (before obefore : list (Z * (Z * Z)))
           (tr : list (bop * sobs)) : list bool :=
  let (rows, answers) := hist_rows is_bucket limit gburst before obefore tr in
  rows ++ [burst_mono_ok answers].
