(* C07 — the property as an executable checker over observations only.

   Property text: under the global-allocate strategy
   (a) every quota answered is at least 1 and at most the global limit
       (a limit below 1 cannot hold the minimum quota: bound = max 1 limit);
   (b) whenever the quotas on record sum to at most the limit, answering a
       report leaves the recorded sum at most the limit, an instance held at the
       minimum quota of 1 aside;
   (c) when the sum exceeds the limit (e.g. the limit was lowered) no quota grows;
   (d) a token-bucket burst is scaled with the quota and never exceeds the
       global burst.
   Everything below is integer arithmetic on what was sent and what was observed. *)
From KG Require Import Prelude.
Open Scope Z_scope.

(* ---------- one answered report ---------- *)
Definition floor_ok (q : Z) : bool := 1 <=? q.
Definition cap_ok (limit q : Z) : bool := q <=? Z.max 1 limit.

(* [sum]/[sum'] = quotas on record before / after the answer *)
Definition step_safe_ok (limit sum sum' q : Z) : bool :=
  if sum <=? limit then (sum' <=? limit) || (q =? 1) else true.
Definition no_growth_ok (limit sum current q : Z) : bool :=
  if limit <? sum then q <=? Z.max 1 current else true.

(* burst of a token bucket (is_bucket): never above the global burst; under limit >= 1 and
   global burst >= 0 also not negative, and the full quota gets the full burst *)
Definition burst_ok (is_bucket : bool) (limit gburst q b : Z) : bool :=
  if is_bucket then
    (b <=? gburst) &&
    (if (1 <=? limit) && (0 <=? gburst)
     then (0 <=? b) && (if q =? limit then b =? gburst else true)
     else true)
  else b =? 0.

(* scaling: under the same limit (>= 1) and global burst (>= 0) a larger quota never gets a smaller burst *)
Definition mono_pair (a b : Z * Z * Z * Z) : bool :=
  match a, b with
  | (l1, g1, q1, b1), (l2, g2, q2, b2) =>
      if (1 <=? l1) && (0 <=? g1) && (l1 =? l2) && (g1 =? g2) && (q1 <=? q2) then b1 <=? b2 else true
  end.
Definition burst_mono_ok (answers : list (Z * Z * Z * Z)) : bool :=
  forallb (fun a => forallb (mono_pair a) answers) answers.

(* ---------- quotas on record ---------- *)
Definition rec_sum (l : list (Z * (Z * Z))) : Z := sumZ (map (fun e => fst (snd e)) l).
(* the sum "an instance held at the minimum quota of 1 aside" *)
Definition above1 (q : Z) : Z := if q <=? 1 then 0 else q.
Definition rec_sum1 (l : list (Z * (Z * Z))) : Z := sumZ (map (fun e => above1 (fst (snd e))) l).

(* ---------- histories ---------- *)
(* what was done: a batch of honest reports issued concurrently (a singleton =
   a sequential report), a change of the global limit, the removal of an instance *)
Inductive bop :=
| BReports (rs : list (Z * Z * Z * Z))       (* instance, used, level, upstream level on record *)
| BSetLimit (limit burst : Z)
| BRemove (i : Z).

(* what was observed *)
Record sobs := {
  o_cur : list Z;                    (* the current quota each report of the batch carried *)
  o_ans : list (option (Z * Z));     (* the (quota, burst) answered to each; None = no answer *)
  o_quotas : list (Z * (Z * Z));     (* the (quota, burst) on record per instance afterwards *)
  o_rec : Z                          (* the allocated sum the server shows afterwards *)
}.

Definition answered (l : list (option (Z * Z))) : list (Z * Z) :=
  flat_map (fun a => match a with Some qb => [qb] | None => [] end) l.

(* clause vector of one step: floor, cap, step_safe, no_growth, burst, over_commit *)
Definition step_ok (is_bucket : bool) (limit gburst : Z) (before : list (Z * (Z * Z)))
           (o : bop) (b : sobs) : list bool :=
  let after := o_quotas b in
  match o with
  | BReports rs =>
      let ans := answered (o_ans b) in
      [ forallb (fun qb => floor_ok (fst qb)) ans;
        forallb (fun qb => cap_ok limit (fst qb)) ans;
        match o_ans b with
        | [Some (q, _)] => step_safe_ok limit (rec_sum before) (rec_sum after) q
        | _ => true
        end;
        match o_ans b, o_cur b with
        | [Some (q, _)], [c] => no_growth_ok limit (rec_sum before) c q
        | _, _ => true
        end;
        forallb (fun qb => burst_ok is_bucket limit gburst (fst qb) (snd qb)) ans;
        rec_sum1 after <=? Z.max limit (rec_sum1 before) ]
  | BSetLimit n g =>
      [true; true; true; true; true; rec_sum1 after <=? Z.max n (rec_sum1 before)]
  | BRemove _ =>
      [true; true; true; true; true; rec_sum1 after <=? Z.max limit (rec_sum1 before)]
  end.

Definition limit_after (limit gburst : Z) (o : bop) : Z * Z :=
  match o with BSetLimit n g => (n, g) | _ => (limit, gburst) end.

Definition and_rows (a b : list bool) : list bool :=
  map (fun p => andb (fst p) (snd p)) (combine a b).

(* fold over the trace; also collects (limit, gburst, quota, burst) of every answer *)
Fixpoint hist_rows (is_bucket : bool) (limit gburst : Z) (before : list (Z * (Z * Z)))
         (tr : list (bop * sobs)) : list bool * list (Z * Z * Z * Z) :=
  match tr with
  | [] => ([true; true; true; true; true; true], [])
  | (o, b) :: r =>
      let row := step_ok is_bucket limit gburst before o b in
      let ans := match o with
                 | BReports _ => map (fun qb => (limit, gburst, fst qb, snd qb)) (answered (o_ans b))
                 | _ => []
                 end in
      let (l', g') := limit_after limit gburst o in
      let (rows, answers) := hist_rows is_bucket l' g' (o_quotas b) r in
      (and_rows row rows, ans ++ answers)
  end.

(* clauses: floor, cap, step_safe, no_growth, burst, over_commit, burst_mono *)
Definition hist_ok (is_bucket : bool) (limit gburst : Z) (before : list (Z * (Z * Z)))
           (tr : list (bop * sobs)) : list bool :=
  let (rows, answers) := hist_rows is_bucket limit gburst before tr in
  rows ++ [if is_bucket then burst_mono_ok answers else true].
