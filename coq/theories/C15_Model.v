(* C15 — implementation model: removal of clusters and endpoints, and the context tree that cuts
   what was running on them.
   Mirrors pkg/gateway/controllers/upstream_controller.go (syncUpstreamCluster: create / Sync / delete
   path DeleteForServerNames), pkg/clusters/manager.go (name -> ClusterInfo, DeleteWithStop),
   pkg/clusters/clusterinfo.go (Stop cancels the cluster context; endpoint contexts are its children;
   syncEndpoints cancels the context of removed endpoints; Pop does not look at contexts),
   pkg/clusters/endpoint.go (the probe context is a child of the endpoint context),
   pkg/gateway/endpoints/filters/upstreaminfo.go (a request resolves its host to a ClusterInfo OBJECT
   once, early) and pkg/gateway/proxy/dispatcher/dispatcher.go (policy match, Pop, forward; the
   forwarded request's context is cancelled when the client's or the picked endpoint's context ends).

   Go contexts: a context is done iff its own cancel was called or its parent is done.  The tree has a
   fixed shape here: cluster ctx -> endpoint ctx -> probe ctx, and request ctx = client ctx joined
   with the endpoint ctx of the picked endpoint.  "Done" is therefore computed from the cancel flags.
   What a done context does to a running HTTP round trip (and how fast) is runtime behaviour: the model
   has an explicit step OCancelSeen for "the runtime delivers the cancellation". *)
From KG Require Import Prelude.
Open Scope Z_scope.

(* parent of a probe context.  EnsureGatewayHealthCheck(e, interval, ctx) derives the probe context from
   the context it is handed; addOrUpdateEndpoint hands it info.ctx — the ENDPOINT's context — on both of
   its paths (new endpoint, and update of a known endpoint).  The parent is recorded per probe context so
   that "removal stops probing" is a statement about whatever path started the probe loop. *)
Inductive pkind := PEp | PCl.
Definition new_path_parent : pkind := PEp.     (* addOrUpdateEndpoint, new endpoint:   ..., info.ctx) *)
Definition update_path_parent : pkind := PEp.  (* addOrUpdateEndpoint, known endpoint: ..., info.ctx) *)

Record epo := mkEp {
  eobj : Z;          (* identity of the EndpointInfo object *)
  ecl : Z;           (* identity of the ClusterInfo object it belongs to (its context's parent) *)
  ename : Z;         (* endpoint URL *)
  elive : bool;      (* still in ClusterInfo.Endpoints *)
  ecancel : bool;    (* info.cancel() was called (endpoint removed) *)
  ehealthy : bool;
  edisabled : bool;  (* status.Disabled *)
  eprobing : bool;   (* cancelHealthCheck != nil: a probe context exists and was not cancelled by a disable *)
  pparent : pkind;   (* the context the current probe context was derived from *)
}.

Record clo := mkCl {
  cobj : Z;            (* identity of the ClusterInfo object *)
  cnames : list Z;     (* LoadServerNames(): cluster name first, then the aliases *)
  ccancel : bool;      (* Stop() was called *)
}.

Inductive rres := R200 | R503 | RCut.
Inductive phase :=
| PBefore         (* host resolved to a cluster object; policy not matched / endpoint not picked yet *)
| PConnecting     (* forwarded, waiting for the upstream's response headers *)
| PStreaming      (* response streaming *)
| PDone (r : rres).

Record rq := mkRq {
  rid : Z;
  rcl : Z;                 (* cluster object the host resolved to *)
  rsub : list Z;           (* UpstreamSubset of the policy the request will match ([] = all endpoints) *)
  rep : option Z;          (* endpoint object picked *)
  rph : phase;
  rclient : bool;          (* the client's context is done *)
}.

Record st := mkSt {
  names : list (Z * Z);    (* manager: server name -> cluster object *)
  clos : list clo;         (* every ClusterInfo object ever created *)
  eps : list epo;          (* every EndpointInfo object ever created *)
  reqs : list rq;
  next : Z;                (* next fresh object identity *)
}.

Inductive event :=
| EProbe (eo : Z)          (* GET /healthz sent to endpoint object eo *)
| EContact (eo : Z)        (* a request is forwarded to endpoint object eo with a live context *)
| EDoomed (eo : Z).        (* a request is forwarded to eo with an already-cancelled context *)

(* ---------- lookups ---------- *)
Fixpoint zlook {A} (k : Z) (l : list (Z * A)) : option A :=
  match l with [] => None | (k', v) :: r => if k =? k' then Some v else zlook k r end.
Fixpoint zdel {A} (k : Z) (l : list (Z * A)) : list (Z * A) :=
  match l with [] => [] | (k', v) :: r => if k =? k' then zdel k r else (k', v) :: zdel k r end.
Definition zmem (k : Z) (l : list Z) : bool := existsb (Z.eqb k) l.

Definition find_cl (s : st) (o : Z) : option clo := find (fun c => cobj c =? o) (clos s).
Definition find_ep (s : st) (eo : Z) : option epo := find (fun e => eobj e =? eo) (eps s).
Definition find_rq (s : st) (id : Z) : option rq := find (fun r => rid r =? id) (reqs s).
Definition resolve (s : st) (host : Z) : option Z := zlook host (names s).

(* ---------- contexts ---------- *)
Definition cl_done (s : st) (o : Z) : bool :=
  match find_cl s o with Some c => ccancel c | None => false end.
Definition ep_done (s : st) (e : epo) : bool := cl_done s (ecl e) || ecancel e.
Definition probe_done (s : st) (e : epo) : bool :=
  negb (eprobing e) || match pparent e with PEp => ep_done s e | PCl => cl_done s (ecl e) end.
Definition ep_done_obj (s : st) (eo : Z) : bool :=
  match find_ep s eo with Some e => ep_done s e | None => false end.
Definition req_done (s : st) (r : rq) : bool :=
  rclient r || match rep r with Some eo => ep_done_obj s eo | None => false end.

(* ---------- state updates ---------- *)
Definition upd_rq (s : st) (id : Z) (f : rq -> rq) : st :=
  mkSt (names s) (clos s) (eps s) (map (fun r => if rid r =? id then f r else r) (reqs s)) (next s).
Definition set_ph (r : rq) (p : phase) : rq := mkRq (rid r) (rcl r) (rsub r) (rep r) p (rclient r).

(* ---------- controller: syncUpstreamCluster ---------- *)
Definition primary (c : clo) : Z := match cnames c with n :: _ => n | [] => -1 end.

(* fresh endpoint objects eobj = base, base+1, ... of cluster object o for the given names *)
(* EnsureGatewayHealthCheck: a disable cancels the probe context, an enable without one starts one
   (derived from the context [par] the caller hands in) *)
Definition ensure (par : pkind) (e : epo) : epo :=
  if edisabled e then mkEp (eobj e) (ecl e) (ename e) (elive e) (ecancel e) (ehealthy e) (edisabled e) false (pparent e)
  else if eprobing e then e
  else mkEp (eobj e) (ecl e) (ename e) (elive e) (ecancel e) (ehealthy e) (edisabled e) true par.

Definition dis_in (sv : list (Z * bool)) (n : Z) : bool := existsb (fun p => (fst p =? n) && snd p) sv.

(* new endpoints: Healthy=false, Disabled as in the spec, then EnsureGatewayHealthCheck(info, _, info.ctx) *)
Fixpoint fresh_eps (base o : Z) (sv : list (Z * bool)) (ns : list Z) : list epo :=
  match ns with
  | [] => []
  | n :: r => ensure new_path_parent (mkEp base o n true false false (dis_in sv n) false PEp)
              :: fresh_eps (base + 1) o sv r
  end.

Definition eps_of (s : st) (o : Z) : list epo := filter (fun e => ecl e =? o) (eps s).
Definition live_names (s : st) (o : Z) : list Z := map ename (filter elive (eps_of s o)).

Fixpoint dedup (l : list Z) : list Z :=
  match l with [] => [] | x :: r => if zmem x r then dedup r else x :: dedup r end.

(* syncEndpoints on cluster object o: endpoints not wanted any more leave the map and their context is cancelled *)
Definition drop_ep (o : Z) (want : list Z) (e : epo) : epo :=
  if (ecl e =? o) && elive e && negb (zmem (ename e) want)
  then mkEp (eobj e) (ecl e) (ename e) false true (ehealthy e) (edisabled e) (eprobing e) (pparent e) else e.

(* addOrUpdateEndpoint on a known endpoint: SetDisabled, then EnsureGatewayHealthCheck(info, _, info.ctx) *)
Definition update_ep (o : Z) (sv : list (Z * bool)) (e : epo) : epo :=
  if (ecl e =? o) && elive e && zmem (ename e) (map fst sv)
  then ensure update_path_parent
         (mkEp (eobj e) (ecl e) (ename e) (elive e) (ecancel e) (ehealthy e) (dis_in sv (ename e)) (eprobing e) (pparent e))
  else e.

Definition bind_all (o : Z) (ns : list Z) (l : list (Z * Z)) : list (Z * Z) :=
  fold_left (fun acc n => match zlook n acc with Some _ => acc | None => (n, o) :: acc end) ns l.

Definition unbind_all (o : Z) (ns : list Z) (l : list (Z * Z)) : list (Z * Z) :=
  fold_left (fun acc n => match zlook n acc with Some o' => if o' =? o then zdel n acc else acc | None => acc end) ns l.

Definition conflict (s : st) (o : Z) (ns : list Z) : bool :=
  existsb (fun n => match resolve s n with Some o' => negb (o' =? o) | None => false end) ns.

(* a server whose URL cannot be turned into a client (url.Parse fails inside ResetTransport; there is no
   admission validation of endpoint URLs) is written as a negative endpoint name.  addOrUpdateEndpoint
   fails on it, the add/update loop of syncEndpoints stops there and Sync returns the error: of the
   other servers only a part has been added / updated (here: those listed before it), the controller
   does not update the server names — but the endpoints that are not in the list any more were dropped
   BEFORE the loop, unconditionally. *)
Definition usable (n : Z) : bool := 0 <=? n.
Fixpoint usable_prefix (sv : list (Z * bool)) : list (Z * bool) :=
  match sv with [] => [] | p :: r => if usable (fst p) then p :: usable_prefix r else [] end.
Definition all_usable (sv : list (Z * bool)) : bool := forallb (fun p => usable (fst p)) sv.
Definition pick {A} (b : bool) (x y : A) : A := if b then x else y.

Definition upsert (s : st) (name : Z) (aliases : list Z) (sv : list (Z * bool)) : st :=
  let want := map fst sv in
  let ns := name :: aliases in
  match resolve s name with
  | None =>
      (* CreateClusterInfo + AddOrUpdateForServerNames(nil, info); refused on a server-name conflict *)
      let o := next s in
      if conflict s o ns || negb (all_usable sv) then s else      (* CreateClusterInfo fails: nothing is created *)
      let new := fresh_eps (o + 1) o sv (dedup want) in
      mkSt (bind_all o ns (names s)) (clos s ++ [mkCl o ns false]) (eps s ++ new) (reqs s)
           (o + 1 + Z.of_nat (List.length new))
  | Some o =>
      match find_cl s o with
      | None => s
      | Some c =>
          if negb (primary c =? name) || conflict s o ns then s else
          (* info.Sync (syncEndpoints) + AddOrUpdateForServerNames(old, new) *)
          let svp := usable_prefix sv in
          let added := filter (fun n => negb (zmem n (live_names s o))) (dedup (map fst svp)) in
          let dropped := filter (fun n => negb (zmem n ns)) (cnames c) in
          mkSt (pick (all_usable sv) (bind_all o ns (unbind_all o dropped (names s))) (names s))
               (map (fun x => if cobj x =? o then mkCl (cobj x) (pick (all_usable sv) ns (cnames x)) (ccancel x) else x) (clos s))
               (map (update_ep o svp) (map (drop_ep o want) (eps s)) ++ fresh_eps (next s) o svp added) (reqs s)
               (next s + Z.of_nat (List.length added))
      end
  end.

(* delete path: DeleteForServerNames(clusterName) -> DeleteWithStop for every server name of the cluster *)
Definition delete (s : st) (name : Z) : st :=
  match resolve s name with
  | None => s
  | Some o =>
      match find_cl s o with
      | None => s
      | Some c =>
          if negb (primary c =? name) then s else
          mkSt (unbind_all o (cnames c) (names s))
               (map (fun x => if cobj x =? o then mkCl (cobj x) (cnames x) true else x) (clos s))
               (eps s) (reqs s) (next s)
      end
  end.

(* ---------- dispatcher ---------- *)
Definition live_ep (s : st) (o : Z) (n : Z) : option epo :=
  find (fun e => (ecl e =? o) && elive e && (ename e =? n)) (eps s).
(* Pop's filter.  [rc] is the code variant: false = IsReady() only (before the fix), true = an endpoint
   whose context is done (removed, or its cluster stopped) is not ready either
   (build/fixes/C15_pick_on_stopped_cluster.diff) *)
Definition ready_names (rc : bool) (s : st) (o : Z) (ups : list Z) : list Z :=
  filter (fun n => match live_ep s o n with
                   | Some e => negb (edisabled e) && ehealthy e && (if rc then negb (cl_done s (ecl e) || ecancel e) else true)
                   | None => false end) ups.

Inductive op :=
| OUpsert (name : Z) (aliases : list Z) (servers : list (Z * bool))
| ODelete (name : Z)
| OHealthy (eo : Z) (ok : bool)     (* a probe of endpoint object eo is answered: 200 (true) or anything else (false) *)
| OTick (eo : Z)                    (* the health-check timer of eo fires *)
| OStart (id host : Z) (sub : list Z)
| OPick (id : Z) (choice : nat)
| OHeaders (id : Z)
| OFinish (id : Z)
| OCancelSeen (id : Z)              (* the runtime delivers the cancellation to the round trip *)
| OClientGone (id : Z).

Definition step (rc : bool) (s : st) (o : op) : st * list event :=
  match o with
  | OUpsert name aliases sv => (upsert s name aliases sv, [])
  | ODelete name => (delete s name, [])
  | OHealthy eo ok =>
      match find_ep s eo with
      | Some e =>
          if probe_done s e then (s, [])
          else (mkSt (names s) (clos s)
                  (map (fun x => if eobj x =? eo then mkEp (eobj x) (ecl x) (ename x) (elive x) (ecancel x) ok (edisabled x) (eprobing x) (pparent x) else x) (eps s))
                  (reqs s) (next s), [])
      | None => (s, [])
      end
  | OTick eo =>
      match find_ep s eo with
      | Some e => if probe_done s e then (s, []) else (s, [EProbe eo])
      | None => (s, [])
      end
  | OStart id host sub =>
      match find_rq s id with
      | Some _ => (s, [])
      | None =>
          let r := match resolve s host with
                   | Some o => mkRq id o sub None PBefore false
                   | None => mkRq id (-1) sub None (PDone R503) false   (* "cluster is not being proxied" *)
                   end in
          (mkSt (names s) (clos s) (eps s) (reqs s ++ [r]) (next s), [])
      end
  | OPick id choice =>
      match find_rq s id with
      | Some r =>
          match rph r with
          | PBefore =>
              let ups := match rsub r with [] => live_names s (rcl r) | l => l end in
              match ready_names rc s (rcl r) ups with
              | [] => (upd_rq s id (fun r => set_ph r (PDone R503)), [])
              | rd =>
                  match nth_error rd (Nat.modulo choice (List.length rd)) with
                  | Some n =>
                      match live_ep s (rcl r) n with
                      | Some e =>
                          (upd_rq s id (fun r => mkRq (rid r) (rcl r) (rsub r) (Some (eobj e)) PConnecting (rclient r)),
                           [if ep_done s e then EDoomed (eobj e) else EContact (eobj e)])
                      | None => (s, [])
                      end
                  | None => (s, [])
                  end
              end
          | _ => (s, [])
          end
      | None => (s, [])
      end
  | OHeaders id =>
      match find_rq s id with
      | Some r => match rph r with
                  | PConnecting => if req_done s r then (s, []) else (upd_rq s id (fun r => set_ph r PStreaming), [])
                  | _ => (s, []) end
      | None => (s, [])
      end
  | OFinish id =>
      match find_rq s id with
      | Some r => match rph r with
                  | PConnecting | PStreaming =>
                      if req_done s r then (s, []) else (upd_rq s id (fun r => set_ph r (PDone R200)), [])
                  | _ => (s, []) end
      | None => (s, [])
      end
  | OCancelSeen id =>
      match find_rq s id with
      | Some r => match rph r with
                  | PConnecting | PStreaming =>
                      if req_done s r then (upd_rq s id (fun r => set_ph r (PDone RCut)), []) else (s, [])
                  | _ => (s, []) end
      | None => (s, [])
      end
  | OClientGone id =>
      (upd_rq s id (fun r => mkRq (rid r) (rcl r) (rsub r) (rep r) (rph r) true), [])
  end.

Definition init : st := mkSt [] [] [] [] 0.

Fixpoint run (rc : bool) (s : st) (ops : list op) : st :=
  match ops with [] => s | o :: r => run rc (fst (step rc s o)) r end.

Fixpoint run_ev (rc : bool) (s : st) (ops : list op) (acc : list event) : st * list event :=
  match ops with
  | [] => (s, acc)
  | o :: r => let '(s', e) := step rc s o in run_ev rc s' r (acc ++ e)
  end.

(* which variant the correspondence run compares the real code with *)
Definition code_ctxcheck : bool := true.
