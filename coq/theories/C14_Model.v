(* C14 — implementation model of endpointPickStrategy.Pop (pkg/clusters/clusterinfo.go) and of the
   loadbalancer cursors of a ClusterInfo.  No proofs here.

   Pop():  readyEndpoints := [info | ep <- s.upstreams, info := Endpoints.Load(ep) exists,
                                     not stopped (ctx not done), info.IsReady()]      (order of s.upstreams)
           0 ready -> ErrNoReadyEndpoints;  1 ready -> that one (cursor untouched);
           else key := fmt.Sprintf("%v", readyEndpoints)   (the pointers, in order)
                lb := loadbalancer.LoadOrStore(key, new(uint64))
                index := atomic.AddUint64(lb, 1) % uint64(len(readyEndpoints))
   s.upstreams is policy.UpstreamSubset when that is non-empty, else ClusterInfo.AllEndpoints()
   (a sync.Map range: the order may differ from one MatchAttributes call to the next).
   syncEndpoints resets the whole loadbalancer map when an endpoint is added or deleted. *)
From KG Require Import Prelude Sched.
Open Scope Z_scope.

Definition eplist := list Z.                      (* endpoints are numbered *)
Definition cursors := list (eplist * Z).          (* loadbalancer: key (ready list, in order) -> counter *)

Definition eplist_eqb (a b : eplist) : bool := list_eqb Z.eqb a b.

Fixpoint get (cur : cursors) (key : eplist) : Z :=
  match cur with
  | [] => 0                                        (* LoadOrStore stores a fresh 0 *)
  | (k, v) :: r => if eplist_eqb key k then v else get r key
  end.
Fixpoint set (cur : cursors) (key : eplist) (v : Z) : cursors :=
  match cur with
  | [] => [(key, v)]
  | (k, x) :: r => if eplist_eqb key k then (k, v) :: r else (k, x) :: set r key v
  end.

Inductive pres := PErr | POk (e : Z).

(* one Pop for a picker with upstream list [ups]; [ok e] = present, not stopped, not disabled, healthy *)
Definition pop (cur : cursors) (ups : eplist) (ok : Z -> bool) : cursors * pres :=
  let rd := filter ok ups in
  match rd with
  | [] => (cur, PErr)
  | [e] => (cur, POk e)
  | _ =>
      let c := wrapu64 (get cur rd + 1) in
      let i := c mod Z.of_nat (List.length rd) in
      (set cur rd c, match nth_error rd (Z.to_nat i) with Some e => POk e | None => PErr end)
  end.

(* N picks with given upstream orders (one per pick: what MatchAttributes handed to the picker) *)
Fixpoint pops (cur : cursors) (orders : list eplist) (ok : Z -> bool) : cursors * list pres :=
  match orders with
  | [] => (cur, [])
  | u :: r => let '(c1, p) := pop cur u ok in let '(c2, l) := pops c1 r ok in (c2, p :: l)
  end.

(* ---- histories for the correspondence: readiness changes, server-set changes, forced cursor ---- *)
Inductive cop :=
| OPick (ups : eplist)                 (* one request: picker with this upstream list, then Pop *)
| OReady (e : Z) (b : bool)            (* health of an endpoint changes (probe result) *)
| OServers (es ds : eplist)            (* ClusterInfo.Sync with server list [es], of which [ds] carry disabled=true
                                          (anything else in the object - flow control, logging, policies of other
                                          names - does not reach syncEndpoints).  The cursors are reset iff a server
                                          is ADDED or REMOVED; new endpoints start unhealthy; the disabled flag of
                                          every listed endpoint is set to what the spec says. *)
| OCursor (key : eplist) (v : Z).      (* harness only: force a cursor (to reach the uint64 wrap) *)

(* [readyset] = endpoints whose last probe was healthy; [disabled] = endpoints with disabled=true *)
Record cstate := { servers : eplist; readyset : eplist; disabled : eplist; curs : cursors }.

Definition zin (x : Z) (l : eplist) : bool := existsb (Z.eqb x) l.
Definition subset (a b : eplist) : bool := forallb (fun x => zin x b) a.
Definition same_set (a b : eplist) : bool := subset a b && subset b a.

(* EndpointInfo.IsReady: !Disabled && Healthy (and the endpoint exists and is not stopped) *)
Definition is_ok (s : cstate) (e : Z) : bool :=
  zin e (servers s) && zin e (readyset s) && negb (zin e (disabled s)).

Definition cstep (s : cstate) (o : cop) : cstate * pres :=
  match o with
  | OPick ups => let '(c, p) := pop (curs s) ups (is_ok s) in
                 ({| servers := servers s; readyset := readyset s; disabled := disabled s; curs := c |}, p)
  | OReady e b =>
      if negb (zin e (servers s)) then (s, PErr) else     (* no such endpoint: nothing happens *)
      ({| servers := servers s;
          readyset := if b then (if zin e (readyset s) then readyset s else e :: readyset s)
                      else filter (fun x => negb (x =? e)) (readyset s);
          disabled := disabled s;
          curs := curs s |}, PErr)
  | OServers es ds =>
      if same_set es (servers s) then
        (* added = deleted = {}: the loadbalancer map (every cursor) is KEPT, whatever else the object says *)
        ({| servers := servers s; readyset := readyset s; disabled := ds; curs := curs s |}, PErr)
      else
        (* a server was added or removed: c.loadbalancer = sync.Map{} *)
        ({| servers := es; readyset := filter (fun x => zin x es) (readyset s); disabled := ds; curs := [] |}, PErr)
  | OCursor key v => ({| servers := servers s; readyset := readyset s; disabled := disabled s;
                         curs := set (curs s) key v |}, PErr)
  end.

Fixpoint crun (s : cstate) (ops : list cop) : list pres :=
  match ops with
  | [] => []
  | o :: r => let '(s', p) := cstep s o in p :: crun s' r
  end.

(* ---- request level: dispatcher.ServeHTTP for the requests of ONE policy (explicit subset [ups]) ----
   MatchAttributes -> Pin(flow control).TryAcquire() -> (false: 429, return) -> endpointPicker.Pop() -> forward.
   A refused (429) request returns BEFORE Pop: it does not consume a turn.  Every forwarded request does
   exactly one Pop, and the endpoint that Pop returns is the one the request is sent to. *)
Inductive qop :=
| QReq                   (* one request of the policy through the dispatcher *)
| QLimit (zero : bool).  (* Sync of the policy's flow-control schema: max-in-flight 0 (refuse all) / wide open;
                            servers unchanged, so no cursor is touched *)
Inductive qres := QRefused | QOut (p : pres) | QNone.
Record qstate := { qcur : cursors; qzero : bool }.

Definition qstep (ups : eplist) (ok : Z -> bool) (s : qstate) (o : qop) : qstate * qres :=
  match o with
  | QLimit b => ({| qcur := qcur s; qzero := b |}, QNone)
  | QReq => if qzero s then (s, QRefused)
            else let '(c, p) := pop (qcur s) ups ok in ({| qcur := c; qzero := false |}, QOut p)
  end.

Fixpoint qrun (ups : eplist) (ok : Z -> bool) (s : qstate) (ops : list qop) : list qres :=
  match ops with
  | [] => []
  | o :: r => let '(s', x) := qstep ups ok s o in x :: qrun ups ok s' r
  end.

(* where the forwarded requests went, in order *)
Fixpoint forwarded (rs : list qres) : list pres :=
  match rs with
  | [] => []
  | QOut p :: r => p :: forwarded r
  | _ :: r => forwarded r
  end.

(* ---- index level: which position of the ready list the i-th pick after cursor value a selects ---- *)
Definition idx (k a : Z) (i : Z) : Z := wrapu64 (a + i) mod k.
(* number of picks among the next n (i = 1..n) that select position j *)
Fixpoint cntf (f : Z -> Z) (j : Z) (n : nat) : Z :=
  match n with
  | O => 0
  | S m => cntf f j m + (if f (Z.of_nat (S m)) =? j then 1 else 0)
  end.

Definition ceil_div (n k : Z) : Z := (n + k - 1) / k.

(* ---- concurrent pickers: Sched instance.  Pop has two shared accesses on a stable ready list of k >= 2:
        loadbalancer.LoadOrStore(key, new counter)   -- ONE atomic get-or-create step
        atomic.AddUint64(counter, 1)                 -- the pick is decided here ---- *)
Record pth := { todo : nat; atadd : bool (* parked in front of the add (else: in front of LoadOrStore) *);
                got : list Z (* positions picked, latest first *) }.
Record psh := { cursor : Z;      (* value of the counter of this ready list (0 while it is not in the map) *)
                present : bool;  (* the counter has been published in the map *)
                plog : list Z (* ghost: positions in the order the adds happened, latest first *) }.

Definition pstep (k : Z) (s : psh) (t : pth) : psh * pth :=
  match todo t with
  | O => (s, t)
  | S n =>
      if atadd t then
        let c := wrapu64 (cursor s + 1) in
        ({| cursor := c; present := present s; plog := (c mod k) :: plog s |},
         {| todo := n; atadd := false; got := (c mod k) :: got t |})
      else   (* LoadOrStore: the existing counter, or a fresh 0 published atomically *)
        ({| cursor := cursor s; present := true; plog := plog s |},
         {| todo := S n; atadd := true; got := got t |})
  end.

Definition plive (t : pth) : bool := match todo t with O => false | _ => true end.

(* trace entries: (goroutine, 1 if this step completed a pick else 0) *)
Fixpoint pexec (k : Z) (st : config psh pth) (sched : list nat) : config psh pth * list (Z * Z) :=
  match sched with
  | [] => (st, [])
  | i :: r =>
      match nth_error (snd st) i with
      | Some t => if plive t then let '(st', tr) := pexec k (run1 (pstep k) st i) r in
                                  (st', (Z.of_nat i, if atadd t then 1 else 0) :: tr)
                  else pexec k st r
      | None => pexec k st r
      end
  end.

Fixpoint pfirst_live (ts : list pth) (i : nat) : option nat :=
  match ts with [] => None | t :: r => if plive t then Some i else pfirst_live r (S i) end.

Fixpoint pdrain (k : Z) (fuel : nat) (st : config psh pth) : config psh pth * list (Z * Z) :=
  match fuel with
  | O => (st, [])
  | S f => match pfirst_live (snd st) 0 with
           | None => (st, [])
           | Some i => let '(st1, tr1) := pexec k st [i] in
                       let '(st2, tr2) := pdrain k f st1 in (st2, tr1 ++ tr2)
           end
  end.

Definition pinit (c0 : Z) (picks : list nat) : config psh pth :=
  ({| cursor := c0; present := false; plog := [] |}, map (fun n => {| todo := n; atadd := false; got := [] |}) picks).

(* trace, per-goroutine picked positions, global order of picked positions, counter afterwards *)
Definition model_conc (k c0 : Z) (picks : list nat) (sched : list nat)
  : list (Z * Z) * list (list Z) * list Z * Z :=
  let '(st1, tr1) := pexec k (pinit c0 picks) sched in
  let '(st2, tr2) := pdrain k (2 * fold_right Nat.add 0%nat picks + 1) st1 in
  (tr1 ++ tr2, map (fun t => rev (got t)) (snd st2), rev (plog (fst st2)), cursor (fst st2)).
