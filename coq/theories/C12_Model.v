(* C12 — implementation model of the multi-cluster token authenticator and SAR authorizer:
     pkg/gateway/authentication/token/webhook/tokenreview.go   (AuthenticateToken)
     pkg/gateway/authorization/webhook/subjectaccessreview.go  (Authorize)
     pkg/clusters/manager.go + clientprovider.go               (Get / ClientFor / PickOne)
   and of the caches they wrap:
     k8s.io/apiserver/pkg/authentication/token/cache (cachedTokenAuthenticator over util/cache.Expiring)
     k8s.io/apimachinery/pkg/util/cache.LRUExpireCache
   Executable definitions only.  The clock is explicit: every request carries the value [now]
   that the caches' clock returns while the request runs (nanoseconds as Z). *)
From KG Require Import Prelude.
Open Scope Z_scope.

Definition host := string.       (* ExtraRequestInfo.Hostname, exactly as it arrived *)
Definition cluster := string.    (* ClusterInfo.Cluster *)
Definition key := list string.   (* cache key inside one host's cache *)
Definition server := string.     (* an upstream apiserver (its endpoint URL) *)

(* ---------- what a cluster can answer, what the caller gets ---------- *)
(* error classes of the (.., err) component *)
Inductive eclass :=
| ENone                      (* nil *)
| ENoInfo                    (* no ExtraRequestInfo in the context *)
| ENotFound                  (* clusters.ErrClusterNotFound *)
| ENoReady                   (* clusters.ErrNoReadyEndpoints *)
| EUp (tag : Z)              (* an error produced by the upstream cluster; [tag] identifies which *)
| EBoth                      (* "returned both allow and deny response" *)
| EOther.                    (* anything else (never produced by the model) *)

(* answer of a cluster to one TokenReview create call *)
Inductive tanswer :=
| TAuth (name uid : string)         (* status.authenticated = true, status.user = (name, uid) *)
| TUnauth                           (* status.authenticated = false, no status.error *)
| TUnauthMsg (tag : Z)              (* status.authenticated = false, status.error = tagged text *)
| TFail (tag : Z) (retry : bool).   (* the call itself fails; retry = DefaultShouldRetry(err) *)

(* (response, ok, err) of AuthenticateToken, projected *)
Record tresult := { t_user : option (string * string); t_ok : bool; t_err : eclass }.

(* webhook.WebhookTokenAuthenticator.AuthenticateToken, without audiences *)
Definition t_res_of (a : tanswer) : tresult :=
  match a with
  | TAuth n u => {| t_user := Some (n, u); t_ok := true; t_err := ENone |}
  | TUnauth => {| t_user := None; t_ok := false; t_err := ENone |}
  | TUnauthMsg k => {| t_user := None; t_ok := false; t_err := EUp k |}
  | TFail k _ => {| t_user := None; t_ok := false; t_err := EUp k |}
  end.

(* answer of a cluster to one SubjectAccessReview create call *)
Inductive sanswer :=
| SStatus (allowed denied : bool) (reason : string)
| SFail (tag : Z) (retry : bool).

Inductive decision := DDeny | DAllow | DNoOpinion.
Record sresult := { s_dec : decision; s_reason : string; s_err : eclass }.

(* the switch at the end of Authorize; a failed call gives decisionOnError = deny *)
Definition s_res_of (a : sanswer) : sresult :=
  match a with
  | SFail k _ => {| s_dec := DDeny; s_reason := EmptyString; s_err := EUp k |}
  | SStatus al de reason =>
      if (de && al)%bool then {| s_dec := DDeny; s_reason := reason; s_err := EBoth |}
      else if de then {| s_dec := DDeny; s_reason := reason; s_err := ENone |}
      else if al then {| s_dec := DAllow; s_reason := reason; s_err := ENone |}
      else {| s_dec := DNoOpinion; s_reason := reason; s_err := ENone |}
  end.

(* authorizer.Attributes, the fields Authorize reads *)
Record attrs := {
  a_user : string; a_uid : string; a_groups : list string;
  a_isres : bool;
  a_ns : string; a_verb : string; a_group : string; a_version : string;
  a_resource : string; a_subres : string; a_name : string; a_path : string }.

(* json.Marshal(r.Spec) of subjectAccessReviewFromAttributes: which fields reach the key *)
Definition sar_key (a : attrs) : key :=
  if a_isres a
  then (["R"%string; a_user a; a_uid a; a_ns a; a_verb a; a_group a; a_version a; a_resource a; a_subres a; a_name a]
          ++ a_groups a)%list
  else (["N"%string; a_user a; a_uid a; a_path a; a_verb a] ++ a_groups a)%list.

Definition slen (s : string) : Z := Z.of_nat (String.length s).

(* shouldCache: requester-controlled attribute size below maxControlledAttrCacheSize *)
Definition should_cache (a : attrs) : bool :=
  slen (a_ns a) + slen (a_verb a) + slen (a_group a) + slen (a_version a) + slen (a_resource a)
  + slen (a_subres a) + slen (a_name a) + slen (a_path a) <? 10000.

(* ---------- configuration ---------- *)
Record config := {
  reg : list (string * cluster);   (* initial manager.clusters: lower-cased server name -> cluster (own names and aliases) *)
  servers : list (cluster * list server);  (* initial .spec.servers of each cluster (lists pairwise disjoint) *)
  sttl : Z; fttl : Z;              (* tokenSuccessCacheTTL / tokenFailureCacheTTL *)
  attl : Z; dttl : Z;              (* allowCacheTTL / denyCacheTTL *)
  tretries : nat; sretries : nat   (* further attempts WithExponentialBackoff may make after the first *)
}.

Fixpoint assoc {V} (k : string) (l : list (string * V)) : option V :=
  match l with
  | [] => None
  | (k', v) :: r => if String.eqb k k' then Some v else assoc k r
  end.

Definition init_servers (cfg : config) (c : cluster) : list server :=
  match assoc c (servers cfg) with Some l => l | None => [] end.

Fixpoint find_owner (srv : server) (l : list (cluster * list server)) : option cluster :=
  match l with
  | [] => None
  | (c, ss) :: r => if str_mem srv ss then Some c else find_owner srv r
  end.

(* ---------- one kind of review (token / SAR): what differs between the two ---------- *)
Inductive ucause := UNoInfo | UNotFound | UNoReady.
Definition ucause_err (u : ucause) : eclass :=
  match u with UNoInfo => ENoInfo | UNotFound => ENotFound | UNoReady => ENoReady end.

Record kind (A R : Type) := {
  k_res_of : A -> R;                   (* result the caller gets from a fresh answer *)
  k_retriable : A -> bool;             (* WithExponentialBackoff tries again *)
  k_ttl : bool -> A -> option Z;       (* cacheable? -> answer -> TTL under which the code stores it *)
  k_valid : Z -> Z -> bool;            (* now -> expiry -> the cache still returns the entry *)
  k_retries : nat;
  k_bypass : bool;                     (* no cache at all *)
  k_unavail : ucause -> R              (* what the caller gets when the cluster cannot be asked *)
}.
Arguments k_res_of {A R}. Arguments k_retriable {A R}. Arguments k_ttl {A R}. Arguments k_valid {A R}.
Arguments k_retries {A R}. Arguments k_bypass {A R}. Arguments k_unavail {A R}.

(* token: cachedTokenAuthenticator — errors never stored (cacheErrs=false); ok stored iff successTTL>0,
   !ok stored iff failureTTL>0; Expiring.Get hits iff now.Before(expiry); both TTLs 0 => no cache object *)
Definition tkind (cfg : config) : kind tanswer tresult := {|
  k_res_of := t_res_of;
  k_retriable := fun a => match a with TFail _ r => r | _ => false end;
  k_ttl := fun _ a => match a with
                      | TAuth _ _ => if sttl cfg >? 0 then Some (sttl cfg) else None
                      | TUnauth => if fttl cfg >? 0 then Some (fttl cfg) else None
                      | _ => None
                      end;
  k_valid := fun now exp => now <? exp;
  k_retries := tretries cfg;
  k_bypass := ((fttl cfg =? 0) && (sttl cfg =? 0))%bool;
  k_unavail := fun u => {| t_user := None; t_ok := false; t_err := ucause_err u |}
|}.

(* SAR: status stored iff shouldCache, with allowCacheTTL / denyCacheTTL chosen by status.allowed;
   LRUExpireCache.Get misses iff now.After(expireTime) *)
Definition skind (cfg : config) : kind sanswer sresult := {|
  k_res_of := s_res_of;
  k_retriable := fun a => match a with SFail _ r => r | _ => false end;
  k_ttl := fun cacheable a => match a with
                              | SStatus al _ _ => if cacheable then Some (if al then attl cfg else dttl cfg) else None
                              | SFail _ _ => None
                              end;
  k_valid := fun now exp => now <=? exp;
  k_retries := sretries cfg;
  k_bypass := false;
  k_unavail := fun u => {| s_dec := DDeny; s_reason := EmptyString; s_err := ucause_err u |}
|}.

(* ---------- state ---------- *)
(* a cache belongs to a host AND to the cluster (incarnation) that served the host when the cache was
   created: sync.Map key struct{host, *ClusterInfo}.  Incarnations of one cluster name never coexist
   (a ClusterInfo is stopped, and its caches dropped, before the next one is created), so the cluster
   name identifies the live incarnation. *)
Definition cid := (host * cluster)%type.
Definition cid_eqb (a b : cid) : bool := (String.eqb (fst a) (fst b) && String.eqb (snd a) (snd b))%bool.

(* per kind: caches (sync.Map host -> cache; cache: key -> (stored result, expiry)) and, per cluster,
   how many review calls of this kind the cluster has received (index into its answer oracle) *)
Record kstate (R : Type) := {
  kc : cid -> key -> option (R * Z);
  kn : cluster -> nat }.
Arguments kc {R}. Arguments kn {R}.

(* endpoints: per cluster its CURRENT server list (ClusterInfo.Endpoints) with (Healthy, Disabled) of
   each endpoint, and which cluster a server currently belongs to *)
Record epstate := {
  e_list : cluster -> list (server * (bool * bool));
  e_own : server -> option cluster;
  e_reg : string -> option cluster }.   (* manager.clusters NOW: lower-cased server name -> cluster *)

(* manager.Get: strings.ToLower(name), then the map *)
Definition cluster_of (E : epstate) (h : host) : option cluster := e_reg E (to_lower h).

(* a cluster exists (has a running ClusterInfo) iff its own name is registered to it *)
Definition live (E : epstate) (c : cluster) : bool :=
  match e_reg E c with Some c' => String.eqb c' c | None => false end.

Record state := {
  eps : epstate;
  ts : kstate tresult;
  ss : kstate sresult }.

Definition key_eqb (a b : key) : bool := list_eqb String.eqb a b.

Definition upd_cache {R} (f : cid -> key -> option (R * Z)) (h : cid) (k : key) (v : option (R * Z))
  : cid -> key -> option (R * Z) :=
  fun h' k' => if (cid_eqb h' h && key_eqb k' k)%bool then v else f h' k'.

Definition upd_cnt (f : cluster -> nat) (c : cluster) (n : nat) : cluster -> nat :=
  fun c' => if String.eqb c' c then n else f c'.

Definition init_k {R} : kstate R := {| kc := fun _ _ => None; kn := fun _ => O |}.

(* a new EndpointInfo starts unhealthy and enabled *)
Definition fresh_ep (srv : server) : server * (bool * bool) := (srv, (false, false)).

Definition init_eps (cfg : config) : epstate :=
  {| e_list := fun c => map fresh_ep (init_servers cfg c);
     e_own := fun srv => find_owner srv (servers cfg);
     e_reg := fun k => assoc k (reg cfg) |}.

Definition init (cfg : config) : state :=
  {| eps := init_eps cfg; ts := init_k; ss := init_k |}.

(* endpointStatus.IsReady = !Disabled && Healthy; PickOne succeeds iff some endpoint is ready *)
Definition ep_ready (e : bool * bool) : bool := (negb (snd e) && fst e)%bool.
Definition ready (s : state) (c : cluster) : bool := existsb (fun e => ep_ready (snd e)) (e_list (eps s) c).

(* info from context; ClientFor(host): manager.Get, then PickOne *)
Definition route (cfg : config) (s : state) (ho : option host) : (host * cluster) + ucause :=
  match ho with
  | None => inr UNoInfo
  | Some h =>
      match cluster_of (eps s) h with
      | None => inr UNotFound
      | Some c => if ready s c then inl (h, c) else inr UNoReady
      end
  end.

(* WithExponentialBackoff: call; while the error is retriable and attempts remain, call again.
   Returns the last answer and the number of calls made. *)
Fixpoint ask {A} (retri : A -> bool) (more : nat) (orc : nat -> A) (k : nat) : A * nat :=
  match more with
  | O => (orc k, 1%nat)
  | S m => if retri (orc k)
           then let (a, n) := ask retri m orc (S k) in (a, S n)
           else (orc k, 1%nat)
  end.

(* a review call as the cluster side sees it: which cluster received it, and whether the endpoint
   whose clientset was used was ready *)
Definition call := (cluster * bool)%type.

(* one request after routing succeeded: cache lookup in the host's cache, else ask the host's cluster *)
Definition serve {A R} (K : kind A R) (orc : cluster -> nat -> A) (st : kstate R)
           (h : host) (c : cluster) (k : key) (cacheable : bool) (now : Z) : kstate R * R * list call :=
  let hit := if k_bypass K then None
             else match kc st (h, c) k with
                  | Some (r, exp) => if k_valid K now exp then Some r else None
                  | None => None
                  end in
  match hit with
  | Some r => (st, r, [])
  | None =>
      let (a, n) := ask (k_retriable K) (k_retries K) (orc c) (kn st c) in
      let cache' := if k_bypass K then kc st
                    else match k_ttl K cacheable a with
                         | Some ttl => upd_cache (kc st) (h, c) k (Some (k_res_of K a, now + ttl))
                         | None => kc st
                         end in
      ({| kc := cache'; kn := upd_cnt (kn st) c (kn st c + n)%nat |}, k_res_of K a, repeat (c, true) n)
  end.

Definition request {A R} (cfg : config) (K : kind A R) (orc : cluster -> nat -> A) (s : state) (st : kstate R)
           (ho : option host) (k : key) (cacheable : bool) (now : Z) : kstate R * R * list call :=
  match route cfg s ho with
  | inr u => (st, k_unavail K u, [])
  | inl (h, c) => serve K orc st h c k cacheable now
  end.

(* the goroutine started with each cache: <-cluster.Context().Done(); caches.Delete(key) *)
Definition drop_cluster {R} (c : cluster) (st : kstate R) : kstate R :=
  {| kc := fun id k => if String.eqb (snd id) c then None else kc st id k;
     kn := kn st |}.

(* the entry for k disappears from every cache of host h *)
Definition evict {R} (h : host) (k : key) (st : kstate R) : kstate R :=
  {| kc := fun id k' => if (String.eqb (fst id) h && key_eqb k' k)%bool then None else kc st id k';
     kn := kn st |}.
Definition upd_reg (f : string -> option cluster) (k : string) (v : option cluster) :=
  fun k' => if String.eqb k' k then v else f k'.

Definition upd_list (f : cluster -> list (server * (bool * bool))) (c : cluster) (v : list (server * (bool * bool))) :=
  fun c' => if String.eqb c' c then v else f c'.
Definition upd_own (f : server -> option cluster) (srv : server) (v : option cluster) :=
  fun s' => if String.eqb s' srv then v else f s'.

(* apply f to the status of server srv in a list *)
Fixpoint set_srv (srv : server) (f : bool * bool -> bool * bool) (l : list (server * (bool * bool)))
  : list (server * (bool * bool)) :=
  match l with
  | [] => []
  | (s', st) :: r => if String.eqb s' srv then (s', f st) :: r else (s', st) :: set_srv srv f r
  end.
Fixpoint del_srv (srv : server) (l : list (server * (bool * bool))) : list (server * (bool * bool)) :=
  match l with
  | [] => []
  | (s', st) :: r => if String.eqb s' srv then del_srv srv r else (s', st) :: del_srv srv r
  end.

(* ---------- operations and outputs ---------- *)
Inductive op :=
| OAuthn (ho : option host) (tok : string) (now : Z)    (* AuthenticateToken; ho = None: no ExtraRequestInfo *)
| OAuthz (ho : option host) (a : attrs) (now : Z)       (* Authorize *)
| OHealthy (srv : server) (b : bool)                    (* the endpoint of srv in its current cluster: UpdateStatus(healthy=b) *)
| ODisabled (srv : server) (b : bool)                   (* the endpoint of srv in its current cluster: SetDisabled(b) *)
| ORestart (c : cluster)                                (* ClusterInfo of c stopped, a new one (fresh endpoints) registered *)
| OEvictT (h : host) (tok : string)                     (* the host's token cache loses this entry (gc) *)
| OEvictS (h : host) (a : attrs)                        (* the host's LRU cache loses this entry (eviction) *)
| OAddEp (c : cluster) (srv : server)                   (* ClusterInfo.Sync with srv added to .spec.servers (a server of no cluster) *)
| ORemoveEp (c : cluster) (srv : server)                (* ClusterInfo.Sync with srv removed from .spec.servers *)
| OName (c : cluster) (h : host)                        (* c's object gains server name h: AddOrUpdateForServerNames -> AddWithKey(h, c) *)
| OUnname (c : cluster) (h : host)                      (* c's object loses server name h: AddOrUpdateForServerNames -> Delete(h), c keeps running *)
| ODelete (c : cluster)                                 (* c's object is deleted: DeleteForServerNames -> DeleteWithStop for all its names *)
| ORecreate (c : cluster).                              (* a deleted c is created again: new ClusterInfo (current server list, no aliases) *)

Inductive out :=
| OutT (r : tresult) (calls : list call)
| OutS (r : sresult) (calls : list call)
| OutNone.

Definition tkey (tok : string) : key := [tok].

(* what the endpoint operations do to the clusters' server lists (syncEndpoints / UpdateStatus /
   SetDisabled / a new ClusterInfo for the same object) *)
Definition ep_apply (o : op) (E : epstate) : epstate :=
  match o with
  | OHealthy srv b =>
      match e_own E srv with
      | Some c => {| e_list := upd_list (e_list E) c (set_srv srv (fun st => (b, snd st)) (e_list E c)); e_own := e_own E; e_reg := e_reg E |}
      | None => E
      end
  | ODisabled srv b =>
      match e_own E srv with
      | Some c => {| e_list := upd_list (e_list E) c (set_srv srv (fun st => (fst st, b)) (e_list E c)); e_own := e_own E; e_reg := e_reg E |}
      | None => E
      end
  | ORestart c =>
      {| e_list := upd_list (e_list E) c (map (fun e => fresh_ep (fst e)) (e_list E c)); e_own := e_own E; e_reg := e_reg E |}
  | OAddEp c srv =>
      match e_own E srv with
      | Some _ => E
      | None => {| e_list := upd_list (e_list E) c (e_list E c ++ [fresh_ep srv]); e_own := upd_own (e_own E) srv (Some c); e_reg := e_reg E |}
      end
  | ORemoveEp c srv =>
      match e_own E srv with
      | Some c' => if String.eqb c' c
                   then {| e_list := upd_list (e_list E) c (del_srv srv (e_list E c)); e_own := upd_own (e_own E) srv None; e_reg := e_reg E |}
                   else E
      | None => E
      end
  | OName c h =>
      let k := to_lower h in
      if live E c
      then match e_reg E k with
           | None => {| e_list := e_list E; e_own := e_own E; e_reg := upd_reg (e_reg E) k (Some c) |}
           | Some _ => E          (* already a name of c, or checkServerNameConflict rejects the update *)
           end
      else E
  | OUnname c h =>
      let k := to_lower h in
      if String.eqb k c then E      (* a cluster's own name is always one of its server names *)
      else match e_reg E k with
           | Some c' => if String.eqb c' c
                        then {| e_list := e_list E; e_own := e_own E; e_reg := upd_reg (e_reg E) k None |}
                        else E
           | None => E
           end
  | ODelete c =>
      if live E c
      then {| e_list := e_list E; e_own := e_own E;
              e_reg := fun k => match e_reg E k with
                                | Some c' => if String.eqb c' c then None else Some c'
                                | None => None
                                end |}
      else E
  | ORecreate c =>
      match e_reg E c with
      | Some _ => E                 (* still alive, or its name is taken by another cluster *)
      | None => {| e_list := upd_list (e_list E) c (map (fun e => fresh_ep (fst e)) (e_list E c));
                   e_own := e_own E; e_reg := upd_reg (e_reg E) c (Some c) |}
      end
  | _ => E
  end.

Definition step (cfg : config) (torc : cluster -> nat -> tanswer) (sorc : cluster -> nat -> sanswer)
           (s : state) (o : op) : state * out :=
  match o with
  | OAuthn ho tok now =>
      let '(st', r, calls) := request cfg (tkind cfg) torc s (ts s) ho (tkey tok) true now in
      ({| eps := eps s; ts := st'; ss := ss s |}, OutT r calls)
  | OAuthz ho a now =>
      let '(st', r, calls) := request cfg (skind cfg) sorc s (ss s) ho (sar_key a) (should_cache a) now in
      ({| eps := eps s; ts := ts s; ss := st' |}, OutS r calls)
  | OHealthy _ _ | ODisabled _ _ | OAddEp _ _ | ORemoveEp _ _ | OName _ _ | OUnname _ _ | ORecreate _ =>
      ({| eps := ep_apply o (eps s); ts := ts s; ss := ss s |}, OutNone)
  | ORestart c | ODelete c =>
      ({| eps := ep_apply o (eps s);
          ts := drop_cluster c (ts s); ss := drop_cluster c (ss s) |}, OutNone)
  | OEvictT h tok => ({| eps := eps s; ts := evict h (tkey tok) (ts s); ss := ss s |}, OutNone)
  | OEvictS h a => ({| eps := eps s; ts := ts s; ss := evict h (sar_key a) (ss s) |}, OutNone)
  end.

Fixpoint run (cfg : config) torc sorc (s : state) (ops : list op) : list (op * out) :=
  match ops with
  | [] => []
  | o :: r => let (s', x) := step cfg torc sorc s o in (o, x) :: run cfg torc sorc s' r
  end.

Fixpoint run_state (cfg : config) torc sorc (s : state) (ops : list op) : state :=
  match ops with
  | [] => s
  | o :: r => run_state cfg torc sorc (fst (step cfg torc sorc s o)) r
  end.

(* ---------- boolean equalities used by the case evaluator ---------- *)
Definition eclass_eqb (a b : eclass) : bool :=
  match a, b with
  | ENone, ENone | ENoInfo, ENoInfo | ENotFound, ENotFound | ENoReady, ENoReady | EBoth, EBoth | EOther, EOther => true
  | EUp x, EUp y => x =? y
  | _, _ => false
  end.
Definition user_eqb (a b : string * string) : bool := (String.eqb (fst a) (fst b) && String.eqb (snd a) (snd b))%bool.
Definition tresult_eqb (a b : tresult) : bool :=
  (opt_eqb user_eqb (t_user a) (t_user b) && Bool.eqb (t_ok a) (t_ok b) && eclass_eqb (t_err a) (t_err b))%bool.
Definition decision_eqb (a b : decision) : bool :=
  match a, b with DDeny, DDeny | DAllow, DAllow | DNoOpinion, DNoOpinion => true | _, _ => false end.
Definition sresult_eqb (a b : sresult) : bool :=
  (decision_eqb (s_dec a) (s_dec b) && String.eqb (s_reason a) (s_reason b) && eclass_eqb (s_err a) (s_err b))%bool.
Definition call_eqb (a b : call) : bool := (String.eqb (fst a) (fst b) && Bool.eqb (snd a) (snd b))%bool.
Definition out_eqb (a b : out) : bool :=
  match a, b with
  | OutT r1 c1, OutT r2 c2 => (tresult_eqb r1 r2 && list_eqb call_eqb c1 c2)%bool
  | OutS r1 c1, OutS r2 c2 => (sresult_eqb r1 r2 && list_eqb call_eqb c1 c2)%bool
  | OutNone, OutNone => true
  | _, _ => false
  end.

(* ---------- overlapping requests ---------- *)
(* Two requests in flight at the same time.  The code shares nothing between hosts of different
   clusters (per-host caches, per-cluster clients), so the model executes them one after the other;
   C12_overlap_commutes shows that for hosts of different clusters the order does not matter. *)
Inductive xop :=
| One (o : op)
| Ovl (a b : op)       (* a is started first and its review is still in flight while b runs to completion *)
| Chain (h : host) (tok : string) (imp : option string) (now : Z).
                       (* a request through the proxy handler chain: ExtraRequestInfo (Hostname = h), WithUpstreamInfo,
                          bearer-token authentication, impersonation filter (imp = Impersonate-User), dispatcher *)

Inductive xout :=
| R1 (x : out)
| R2 (x y : out)
| RC (t : option out)           (* the token authentication, if the chain got that far *)
     (z : option out)           (* the impersonation SubjectAccessReview, if one was made *)
     (d : option cluster).      (* reached the dispatcher: the cluster it would forward to (ExtraRequestInfo.UpstreamCluster) *)

(* attributes the impersonation filter asks about: may the authenticated user act as [target]? *)
Definition imp_attrs (u : string * string) (target : string) : attrs :=
  {| a_user := fst u; a_uid := snd u; a_groups := ["system:authenticated"%string]; a_isres := true;
     a_ns := EmptyString; a_verb := "impersonate"%string; a_group := EmptyString; a_version := EmptyString;
     a_resource := "users"%string; a_subres := EmptyString; a_name := target; a_path := EmptyString |}.

(* WithAuthentication lets the request through iff ok and no error *)
Definition authn_passes (x : out) : option (string * string) :=
  match x with
  | OutT r _ => if (t_ok r && eclass_eqb (t_err r) ENone)%bool then t_user r else None
  | _ => None
  end.
(* the impersonation filter lets it through iff the decision is allow and there is no error *)
Definition authz_passes (x : out) : bool :=
  match x with
  | OutS r _ => (decision_eqb (s_dec r) DAllow && eclass_eqb (s_err r) ENone)%bool
  | _ => false
  end.

Definition stepx (cfg : config) torc sorc (s : state) (o : xop) : state * xout :=
  match o with
  | One a => let (s', x) := step cfg torc sorc s a in (s', R1 x)
  | Ovl a b => let (s1, x) := step cfg torc sorc s a in
               let (s2, y) := step cfg torc sorc s1 b in (s2, R2 x y)
  | Chain h tok imp now =>
      match cluster_of (eps s) h with
      | None => (s, RC None None None)       (* WithUpstreamInfo: "the request cluster is not being proxied" *)
      | Some c =>
          let (s1, xt) := step cfg torc sorc s (OAuthn (Some h) tok now) in
          match authn_passes xt with
          | None => (s1, RC (Some xt) None None)                     (* 401 *)
          | Some u =>
              match imp with
              | None => (s1, RC (Some xt) None (Some c))
              | Some target =>
                  let (s2, xz) := step cfg torc sorc s1 (OAuthz (Some h) (imp_attrs u target) now) in
                  (s2, RC (Some xt) (Some xz) (if authz_passes xz then Some c else None))   (* else 403 *)
              end
          end
      end
  end.

Fixpoint runx (cfg : config) torc sorc (s : state) (ops : list xop) : list (xop * xout) :=
  match ops with
  | [] => []
  | o :: r => let (s', x) := stepx cfg torc sorc s o in (o, x) :: runx cfg torc sorc s' r
  end.

Definition xout_eqb (a b : xout) : bool :=
  match a, b with
  | R1 x, R1 y => out_eqb x y
  | R2 x1 y1, R2 x2 y2 => (out_eqb x1 x2 && out_eqb y1 y2)%bool
  | RC t1 z1 d1, RC t2 z2 d2 => (opt_eqb out_eqb t1 t2 && opt_eqb out_eqb z1 z2 && opt_eqb String.eqb d1 d2)%bool
  | _, _ => false
  end.

(* scripted oracle of the case files: the k-th call of a cluster gets the k-th scripted answer *)
Definition script_orc {A} (dflt : A) (scr : list (cluster * list A)) : cluster -> nat -> A :=
  fun c k => match assoc c scr with Some l => nth k l dflt | None => dflt end.
