(* C01 — property theorems (statements only; proofs live in C01_Proofs.v).
   Model side  : match_policies / route / match_attributes and the per-field matchers (C01_Model.v,
                 mirroring evaluation_helpers.go, matcher.go, clusterinfo.go).
   Spec side   : rule_sem / first_match (C01_Spec.v, the documented semantics).
   [plain s]       : s is neither "*" nor '-'-prefixed.
   [keep_plain l]  : l without its "*" and '-' entries.
   [all_inverted l]: l is non-empty and every entry is "-x" with x plain.
   [stars (S k)]   : one or more '*'. *)
From KG Require Import Prelude C01_Model C01_Spec C01_Proofs.
Open Scope string_scope.

(* for EVERY attribute tuple and EVERY policy list, the policy chosen by the code is the first one,
   in list order, that has a rule matching under the documented semantics *)
Theorem C01_route_is_first_match : forall a ps, match_policies a ps = first_match a ps.
Proof. exact route_is_first_match. Qed.
Print Assumptions C01_route_is_first_match.

(* the code's RuleMatches is the documented rule semantics (fields and-ed, per-field rules) *)
Theorem C01_rule_semantics : forall a r, rule_matches a r = rule_sem a r.
Proof. exact rule_ok. Qed.
Print Assumptions C01_rule_semantics.

(* first_match is the least index: that policy has a matching rule, no earlier policy has one *)
Theorem C01_first_match_least : forall a ps k,
  first_match a ps = Some k <->
  exists p, nth_error ps k = Some p /\ (exists r, In r (p_rules p) /\ rule_sem a r = true) /\
            forall j q, (j < k)%nat -> nth_error ps j = Some q ->
                        forall r, In r (p_rules q) -> rule_sem a r = false.
Proof. exact first_match_least. Qed.
Print Assumptions C01_first_match_least.

Theorem C01_first_match_none : forall a ps,
  first_match a ps = None <-> forall p r, In p ps -> In r (p_rules p) -> rule_sem a r = false.
Proof. exact first_match_none. Qed.
Print Assumptions C01_first_match_none.

(* no policy matches -> the request is rejected (ErrNoRouterRuleMatches, no picker), never forwarded *)
Theorem C01_no_match_rejected : forall a ps eps,
  first_match a ps = None -> route a ps = Reject /\ match_attributes a ps eps = None.
Proof. exact no_match_rejected. Qed.
Print Assumptions C01_no_match_rejected.

Theorem C01_forward_iff_first : forall a ps i, route a ps = Forward i <-> first_match a ps = Some i.
Proof. exact forward_iff_first. Qed.
Print Assumptions C01_forward_iff_first.

(* the flow-control name and the upstream set handed to the dispatcher are those of that policy *)
Theorem C01_chosen_policy : forall a ps eps i,
  first_match a ps = Some i ->
  exists p, nth_error ps i = Some p /\
            match_attributes a ps eps =
            Some (match p_flow p with "" => "system-default" | f => f end,
                  match p_subset p with [] => eps | s => s end).
Proof. exact chosen_policy. Qed.
Print Assumptions C01_chosen_policy.

(* the model's own observations satisfy every clause of the executable spec used on the real code *)
Theorem C01_model_meets_spec : forall a ps eps,
  let m := match match_attributes a ps eps with
           | None => mkMA true false "" []
           | Some (f, ups) => mkMA false true f ups end in
  let o := mkObs (match_policies a ps) m m in
  first_ok a ps o = true /\ reject_ok a ps m = true /\ chosen_ok a ps eps m = true /\ age_ok o = true.
Proof. exact model_meets_spec. Qed.
Print Assumptions C01_model_meets_spec.

(* ---- documented clauses, on the code's matchers ---- *)

(* "*" matches everything, at any position of the list, in every field *)
Theorem C01_star_wins : forall a r,
  (In "*" (r_verbs r) -> verb_matches (r_verbs r) (a_verb a) = true) /\
  (In "*" (r_groups r) -> apigroup_matches (r_groups r) (a_group a) = true) /\
  (In "*" (r_resources r) -> resource_matches (r_resources r) (combined_resource a) (a_subresource a) = true) /\
  (In "*" (r_names r) -> resourcename_matches (r_names r) (a_name a) = true) /\
  (In "*" (r_users r) -> user_or_sa_matches (r_users r) (r_sas r) (a_user a) = true) /\
  (In "*" (r_ugroups r) -> usergroup_matches (r_ugroups r) (a_groups a) = true) /\
  (In "*" (r_urls r) -> nonresource_url_matches (r_urls r) (a_path a) = true).
Proof. exact star_wins. Qed.
Print Assumptions C01_star_wins.

(* '-' entries are ignored once a positive entry is present *)
Theorem C01_positives_silence_negatives : forall rules,
  ~ In "*" rules -> (exists p, In p rules /\ plain p = true) ->
  (forall v, verb_matches rules v = verb_matches (keep_plain rules) v) /\
  (forall g, apigroup_matches rules g = apigroup_matches (keep_plain rules) g) /\
  (forall c s, resource_matches rules c s = resource_matches (keep_plain rules) c s) /\
  (forall n, resourcename_matches rules n = resourcename_matches (keep_plain rules) n) /\
  (forall sas u, user_or_sa_matches rules sas u = user_or_sa_matches (keep_plain rules) sas u) /\
  (forall gs, usergroup_matches rules gs = usergroup_matches (keep_plain rules) gs).
Proof. exact positives_silence_negatives. Qed.
Print Assumptions C01_positives_silence_negatives.

(* nonResourceURLs cannot be inverted: '-' entries never matter *)
Theorem C01_url_ignores_inverted : forall rules u,
  ~ In "*" rules -> nonresource_url_matches rules u = nonresource_url_matches (keep_plain rules) u.
Proof. exact url_ignores_inverted. Qed.
Print Assumptions C01_url_ignores_inverted.

(* a list made only of '-' entries matches exactly what the corresponding positive list does not *)
Theorem C01_inverted_is_complement : forall rules,
  all_inverted rules ->
  (forall v, verb_matches rules v = negb (verb_matches (map tail1 rules) v)) /\
  (forall g, apigroup_matches rules g = negb (apigroup_matches (map tail1 rules) g)) /\
  (forall c s, resource_matches rules c s = negb (resource_matches (map tail1 rules) c s)) /\
  (forall n, resourcename_matches rules n = negb (resourcename_matches (map tail1 rules) n)) /\
  (forall u, user_or_sa_matches rules [] u = negb (user_or_sa_matches (map tail1 rules) [] u)) /\
  (forall gs, usergroup_matches rules gs = negb (usergroup_matches (map tail1 rules) gs)).
Proof. exact inverted_is_complement. Qed.
Print Assumptions C01_inverted_is_complement.

(* empty optional fields match everything, empty required fields nothing; with service accounts
   listed an empty users list matches only those service accounts *)
Theorem C01_empty_fields :
  (forall n, resourcename_matches [] n = true) /\
  (forall gs, usergroup_matches [] gs = true) /\
  (forall u, user_or_sa_matches [] [] u = true) /\
  (forall v, verb_matches [] v = false) /\
  (forall g, apigroup_matches [] g = false) /\
  (forall c s, resource_matches [] c s = false) /\
  (forall p, nonresource_url_matches [] p = false) /\
  (forall u sa sas, user_or_sa_matches [] (sa :: sas) u = sa_loop (sa :: sas) u).
Proof. exact empty_fields. Qed.
Print Assumptions C01_empty_fields.

(* "*/sub" matches that subresource of any resource; "-*/sub" excludes it *)
Theorem C01_subresource_wildcard : forall rules res sub,
  In ("*/" ++ sub) rules -> sub <> "" -> resource_matches rules (res ++ "/" ++ sub) sub = true.
Proof. exact subresource_wildcard. Qed.
Print Assumptions C01_subresource_wildcard.

Theorem C01_inverted_subresource_wildcard : forall res sub,
  sub <> "" -> resource_matches ["-*/" ++ sub] (res ++ "/" ++ sub) sub = false.
Proof. exact inverted_subresource_wildcard. Qed.
Print Assumptions C01_inverted_subresource_wildcard.

(* trailing-'*' globs for users and non-resource paths; [glob] means "prefix ++ stars" *)
Theorem C01_glob_meaning : forall pat req,
  glob pat req = true <-> exists p k, pat = p ++ stars (S k) /\ has_prefix req p = true.
Proof. exact glob_iff. Qed.
Print Assumptions C01_glob_meaning.

Theorem C01_user_glob : forall rules sas p k u,
  In (p ++ stars (S k)) rules -> plain (p ++ stars (S k)) = true -> has_prefix u p = true ->
  user_or_sa_matches rules sas u = true.
Proof. exact user_glob. Qed.
Print Assumptions C01_user_glob.

Theorem C01_url_glob : forall rules p k path,
  In (p ++ stars (S k)) rules -> plain (p ++ stars (S k)) = true -> has_prefix path p = true ->
  nonresource_url_matches rules path = true.
Proof. exact url_glob. Qed.
Print Assumptions C01_url_glob.

(* ---- non-vacuity: the YAML examples of docs/en/design.md and list order ---- *)
Definition ex_rule (verbs groups resources urls : list string) : rule :=
  mkRule verbs groups resources [] [] [] [] urls.
Definition ex_req (verb group res sub : string) : attrs :=
  mkAttrs verb group res sub "" "" "alice" ["system:authenticated"] true.
Definition ex_path (verb path : string) : attrs :=
  mkAttrs verb "" "" "" "" path "alice" ["system:authenticated"] false.

(* "can match all operations on pods" *)
Example C01_docs_pods_nonvacuous :
  let ps := [mkPolicy [ex_rule ["*"] ["*"] ["pods"] []] "" []] in
  first_match (ex_req "delete" "" "pods" "") ps = Some O /\
  match_policies (ex_req "delete" "" "pods" "") ps = Some O /\
  first_match (ex_req "get" "apps" "deployments" "") ps = None /\
  route (ex_req "get" "apps" "deployments" "") ps = Reject.
Proof. vm_compute. repeat split; reflexivity. Qed.

(* nonResourceURLs ["/healthz", "/healthz/*"], verbs get/post *)
Example C01_docs_healthz_nonvacuous :
  let ps := [mkPolicy [ex_rule ["get"; "post"] [] [] ["/healthz"; "/healthz/*"]] "" []] in
  first_match (ex_path "get" "/healthz") ps = Some O /\
  first_match (ex_path "get" "/healthz/etcd") ps = Some O /\
  first_match (ex_path "get" "/healthzz") ps = None /\
  first_match (ex_path "delete" "/healthz") ps = None.
Proof. vm_compute. repeat split; reflexivity. Qed.

(* "match all requests for non-pods and non-deployments" — the witness of the repaired defect *)
Example C01_docs_inverted_nonvacuous :
  let ps := [mkPolicy [ex_rule ["*"] ["*"] ["-pods"; "-deployments"] []] "" []] in
  all_inverted ["-pods"; "-deployments"] /\
  match_policies (ex_req "get" "" "pods" "") ps = None /\
  match_policies (ex_req "get" "apps" "deployments" "") ps = None /\
  match_policies (ex_req "get" "" "services" "") ps = Some O.
Proof.
  split; [split; [discriminate|]|vm_compute; repeat split; reflexivity].
  intros r [<-|[<-|[]]]; split; reflexivity.
Qed.

(* the "example of an error": "-pods" is ignored, the rule matches deployments only *)
Example C01_docs_mixed_nonvacuous :
  let ps := [mkPolicy [ex_rule ["*"] ["*"] ["-pods"; "deployments"] []] "" []] in
  (exists p, In p ["-pods"; "deployments"] /\ plain p = true) /\
  keep_plain ["-pods"; "deployments"] = ["deployments"] /\
  match_policies (ex_req "get" "apps" "deployments" "") ps = Some O /\
  match_policies (ex_req "get" "" "services" "") ps = None /\
  match_policies (ex_req "get" "" "pods" "") ps = None.
Proof. split; [exists "deployments"; split; [right; now left|reflexivity]|vm_compute; repeat split; reflexivity]. Qed.

(* list order decides between two matching policies; a later policy is used when the first does not match *)
Example C01_order_nonvacuous :
  let p_pods := mkPolicy [ex_rule ["get"] ["*"] ["pods"; "*/status"] []] "fc-a" ["https://a:6443"] in
  let p_all := mkPolicy [ex_rule ["-delete"] ["*"] ["*"] ["*"]] "" [] in
  match_attributes (ex_req "get" "" "pods" "") [p_pods; p_all] ["https://a:6443"; "https://b:6443"]
    = Some ("fc-a", ["https://a:6443"]) /\
  match_attributes (ex_req "get" "" "pods" "") [p_all; p_pods] ["https://a:6443"; "https://b:6443"]
    = Some ("system-default", ["https://a:6443"; "https://b:6443"]) /\
  match_policies (ex_req "get" "apps" "deployments" "status") [p_pods; p_all] = Some O /\
  match_policies (ex_req "list" "" "nodes" "") [p_pods; p_all] = Some 1%nat /\
  match_policies (ex_req "delete" "" "nodes" "") [p_pods; p_all] = None.
Proof. vm_compute. repeat split; reflexivity. Qed.

(* ---- a match that overlaps a Sync of the policy list ----
   For all requests, all old and new lists and every interruption point of the model's evaluation
   order (before the load; before any policy read; before the fields of the result are read):
   the answer is the decision under the old list or the decision under the new list, and a forwarded
   answer names a policy that is the first matching one of the list it came from. *)
Theorem C01_overlapping_sync_old_or_new : forall a old new eps k,
  (overlapped_match a old new eps k = match_attributes a old eps \/
   overlapped_match a old new eps k = match_attributes a new eps) /\
  (forall f ups, overlapped_match a old new eps k = Some (f, ups) ->
     exists ps i p, (ps = old \/ ps = new) /\ first_match a ps = Some i /\ nth_error ps i = Some p /\
                    (exists r, In r (p_rules p) /\ rule_sem a r = true) /\
                    f = flow_name p /\ ups = (if list_len0 (p_subset p) then eps else p_subset p)).
Proof. exact overlapping_sync_old_or_new. Qed.
Print Assumptions C01_overlapping_sync_old_or_new.

(* which of the two: the new list iff the Sync completed before the list was loaded *)
Theorem C01_overlapping_sync_snapshot : forall a old new eps k,
  overlapped_match a old new eps k = match_attributes a (match k with O => new | S _ => old end) eps.
Proof. exact overlapped_is. Qed.
Print Assumptions C01_overlapping_sync_snapshot.

(* non-vacuity: the lists of seeded/C01-f (old [get->reads; *->rest], new [delete->deletes], get pods):
   the two decisions differ, every interruption point yields one of them, and "deletes" — what an
   in-place overwrite of the old array yields — is neither *)
Example C01_overlap_nonvacuous :
  let old := [mkPolicy [ex_rule ["get"] ["*"] ["*"] []] "reads" [];
              mkPolicy [ex_rule ["*"] ["*"] ["*"] []] "rest" []] in
  let new := [mkPolicy [ex_rule ["delete"] ["*"] ["*"] []] "deletes" []] in
  let a := ex_req "get" "" "pods" "" in
  let eps := ["https://a:6443"] in
  match_attributes a old eps = Some ("reads", eps) /\ match_attributes a new eps = None /\
  overlapped_match a old new eps 0 = None /\
  overlapped_match a old new eps 1 = Some ("reads", eps) /\
  overlapped_match a old new eps 2 = Some ("reads", eps) /\
  overlapped_match a old new eps 7 = Some ("reads", eps) /\
  overlapped_match (ex_req "list" "" "pods" "") old new eps 2 = Some ("rest", eps) /\
  atomic_list_ok a old new eps (mkOv true (mkMA false true "reads" eps) (mkMA true false "" [])) = true /\
  atomic_list_ok a old new eps (mkOv true (mkMA false true "deletes" eps) (mkMA true false "" [])) = false.
Proof. vm_compute. repeat split; reflexivity. Qed.
