(* C19 — property theorems (statements only; proofs live in C19_Proofs.v).
   Every theorem quantifies over the state it starts from (hence over every prefix of operations,
   faults and crashes that led there), over the injected outcome of every API call (the plans),
   and over the order in which the Go maps hand out their items. *)
From KG Require Import Prelude C13_Model C19_Model C19_Proofs.
Open Scope Z_scope.

(* write-through mode: Save returned ok => the API holds that condition (spec and status) *)
Theorem C19_ack_persisted : forall n lk s c pl s' rs,
  wt (sto s) = true -> step n lk s (OFg (FSave c) pl) = (s', (ROk, rs)) ->
  exists b, alookup String.eqb (fst c) (api s') = Some b /\ content_eqb b (snd c) = true.
Proof. exact ack_persisted. Qed.
Print Assumptions C19_ack_persisted.

(* ... and it is still there after any further operations, faults, crashes and restarts (any shard,
   any mode) that do not name that condition *)
Theorem C19_ack_durable : forall n lk owner s c pl s' rs ops,
  NoDup (map fst (api s)) -> Owned owner (api s) (loc (sto s)) -> bup (snd c) = owner (fst c) ->
  wt (sto s) = true -> step n lk s (OFg (FSave c) pl) = (s', (ROk, rs)) ->
  Forall (no_touch (fst c)) ops ->
  exists b, alookup String.eqb (fst c) (api (run_state n lk s' ops)) = Some b /\ content_eqb b (snd c) = true.
Proof. exact ack_durable. Qed.
Print Assumptions C19_ack_durable.

(* after any history, a Stop that returns ok on a store that was not stopped has written every
   condition the store holds (= every pending condition in periodic mode) to the API *)
Theorem C19_stop_flushes : forall n lk owner s0 ops ord pl s' rs,
  Inv n owner s0 -> Forall (wf_op owner) ops ->
  let s := run_state n lk s0 ops in
  stopped (sto s) = false ->
  step n lk s (OStop ord pl) = (s', (ROk, rs)) ->
  forall k b, alookup key_eqb k (loc (sto s)) = Some b ->
              exists it, alookup String.eqb (snd k) (api s') = Some it /\ content_eqb it b = true.
Proof.
  intros n lk owner s0 ops ord pl s' rs HI Hwf s Hst H.
  eapply stop_flushes; [apply Inv_run; eassumption|exact Hst|exact H].
Qed.
Print Assumptions C19_stop_flushes.

(* graceful stop by the limiter (stopLimitStoreWithRetry: Stop() retried after a failure, bound 10),
   from every reachable store state, with every pending set and every fault plan: a success means every
   condition the store holds is in the API, and the limiter only gives up after exactly ten failed
   attempts — so with fewer than ten failing flushes everything pending is persisted *)
Theorem C19_graceful_stop_survives_transient_failures : forall n lk owner s0 ops ords pl s' rs,
  Inv n owner s0 -> Forall (wf_op owner) ops ->
  let s := run_state n lk s0 ops in
  dead (sto s) = false -> stopped (sto s) = false ->
  (step n lk s (OGStop ords pl) = (s', (ROk, rs)) ->
   forall k b, alookup key_eqb k (loc (sto s)) = Some b ->
               exists it, alookup String.eqb (snd k) (api s') = Some it /\ content_eqb it b = true)
  /\ (step n lk s (OGStop ords pl) = (s', (RErr, rs)) ->
      gstop_attempts 10 n lk (shard (sto s)) (wt (sto s)) ords (mkW (api s) (loc (sto s)) pl) = 10%nat).
Proof.
  intros n lk owner s0 ops ords pl s' rs HI Hwf s Hd Hst. split.
  - intros H. eapply graceful_stop_survives; [apply Inv_run; eassumption|exact Hst|exact H].
  - intros H. eapply graceful_stop_gives_up_late; eassumption.
Qed.
Print Assumptions C19_graceful_stop_survives_transient_failures.

(* non-vacuity: periodic mode, three pending conditions, two failing flush attempts (a transient error,
   then five conflicts in a row), the third attempt succeeds; the next holder loads all three *)
Example C19_graceful_stop_nonvacuous :
  let lk := mkLocks true true in
  let ops := [ORestart 0 false;
              OFg (FSave ("a.g1", mkBody "a" 1 1 1)) []; OFg (FSave ("a.g2", mkBody "a" 2 2 2)) [];
              OFg (FSave ("b.g1", mkBody "b" 3 3 3)) []]%string in
  let s := run_state 1 lk (init []) ops in
  let ord := [("a", "a.g1"); ("a", "a.g2"); ("b", "b.g1")]%string in
  let pl := [("a.g2", [OTransient; OConflict; OOk; OConflict; OOk; OConflict; OOk; OConflict; OOk; OConflict; OOk])]%string in
  api s = [] /\ snd (step 1 lk s (OGStop [ord; ord; ord] pl)) = (ROk, [])
  /\ gstop_attempts 10 1 lk 0 false [ord; ord; ord] (mkW (api s) (loc (sto s)) pl) = 3%nat
  /\ map fst (loc (sto (run_state 1 lk (fst (step 1 lk s (OGStop [ord; ord; ord] pl))) [ORestart 0 true; OLoad OOk])))
     = ord.
Proof. vm_compute. repeat split; reflexivity. Qed.

(* whatever state the previous holder left behind (any prefix, any crash point): a new store for
   shard sh that loads holds exactly the persisted conditions of shard sh, as persisted *)
Theorem C19_load_exact : forall n lk s sh w,
  NoDup (map fst (api s)) ->
  let s1 := fst (step n lk s (ORestart sh w)) in
  let r2 := step n lk s1 (OLoad OOk) in
  snd r2 = (ROk, []) /\ api (fst r2) = api s
  /\ forall u m b, alookup key_eqb (u, m) (loc (sto (fst r2))) = Some b
                   <-> (alookup String.eqb m (api s) = Some b /\ u = bup b /\ shard_of n (bup b) = sh).
Proof. exact load_exact. Qed.
Print Assumptions C19_load_exact.

(* an acknowledged Delete: the condition is in neither the API nor any store afterwards, through any
   later operations, faults, crashes, restarts and loads, until somebody saves it again *)
Theorem C19_deleted_stay_deleted : forall n lk owner s0 ops1 X pl ops2 s1 rs,
  Inv n owner s0 -> Forall (wf_op owner) ops1 ->
  step n lk (run_state n lk s0 ops1) (OFg (FDelete (owner X) X) pl) = (s1, (ROk, rs)) ->
  Forall (no_save X) ops2 ->
  Gone X (api (run_state n lk s1 ops2)) (loc (sto (run_state n lk s1 ops2))).
Proof. exact deleted_stay_deleted. Qed.
Print Assumptions C19_deleted_stay_deleted.

(* Delete issued by another goroutine while a flush / periodic sync is running.
   Repaired code (Delete takes the store mutex, lk_del lk = true): still deleted afterwards. *)
Theorem C19_deleted_race_locked : forall n lk owner s ord k0 X pl s' r ops2,
  lk_del lk = true -> Inv n owner s ->
  step n lk s (OFlush ord [(k0, [FDelete (owner X) X])] pl) = (s', (r, [ROk])) ->
  Forall (no_save X) ops2 ->
  Gone X (api (run_state n lk s' ops2)) (loc (sto (run_state n lk s' ops2))).
Proof. exact deleted_race_locked. Qed.
Print Assumptions C19_deleted_race_locked.

(* Code before the repair (no locks): the flush re-creates the condition after the acknowledged
   Delete; the store no longer has it, the API does, and the next holder of the shard loads it. *)
Theorem C19_deleted_race_refuted :
  let s := run_state 1 nolocks (init []) (firstn 2 race_ops) in
  exists s' r,
    step 1 nolocks s (OFlush [("a", "a.g1")] [(("a", "a.g1"), [FDelete "a" "a.g1"])] [])%string = (s', (r, [ROk]))
    /\ alookup String.eqb "a.g1"%string (api s') = Some (mkBody "a" 1 2 3)
    /\ alookup key_eqb ("a", "a.g1")%string (loc (sto s')) = None
    /\ alookup key_eqb ("a", "a.g1")%string (loc (sto (run_state 1 nolocks s' [ORestart 0 false; OLoad OOk])))
       = Some (mkBody "a" 1 2 3).
Proof. exact deleted_race_refuted. Qed.
Print Assumptions C19_deleted_race_refuted.

(* Write-through Save issued by another goroutine while a flush is running (Stop / Flush racing a
   report).  Repaired code (a write-through Save takes the store mutex): what was acknowledged is what
   the API holds when both have returned. *)
Theorem C19_save_race_locked : forall n lk s ord k0 c pl s' r,
  lk_save lk = true -> wt (sto s) = true ->
  step n lk s (OFlush ord [(k0, [FSave c])] pl) = (s', (r, [ROk])) ->
  exists b, alookup String.eqb (fst c) (api s') = Some b /\ content_eqb b (snd c) = true.
Proof. exact save_race_locked. Qed.
Print Assumptions C19_save_race_locked.

(* Before that repair: the flush overwrites the acknowledged version 2 with the version 1 it listed;
   the store holds 2, the API holds 1, the next holder of the shard loads 1. *)
Theorem C19_save_race_refuted :
  let lk := mkLocks true false in
  let c1 := ("a.g1", mkBody "a" 1 1 1)%string in let c2 := ("a.g1", mkBody "a" 2 2 2)%string in
  let s := run_state 1 lk (init []) [ORestart 0 true; OFg (FSave c1) []] in
  exists s' r,
    step 1 lk s (OFlush [("a", "a.g1")] [(("a", "a.g1"), [FSave c2])] [])%string = (s', (r, [ROk]))
    /\ alookup String.eqb "a.g1"%string (api s') = Some (snd c1)
    /\ alookup key_eqb ("a", "a.g1")%string (loc (sto s')) = Some (snd c2)
    /\ alookup key_eqb ("a", "a.g1")%string (loc (sto (run_state 1 lk s' [ORestart 0 true; OLoad OOk]))) = Some (snd c1).
Proof. exact save_race_refuted. Qed.
Print Assumptions C19_save_race_refuted.

(* cited by C13: Save refuses a condition of another shard (nothing changes), and a store only ever
   holds conditions of its own shard — through Load and every other operation *)
Theorem C13_store_shard_filter : forall n lk,
  (forall s c pl, dead (sto s) = false -> shard_of n (bup (snd c)) <> shard (sto s) ->
     snd (step n lk s (OFg (FSave c) pl)) = (RRefused, [])
     /\ api (fst (step n lk s (OFg (FSave c) pl))) = api s
     /\ loc (sto (fst (step n lk s (OFg (FSave c) pl)))) = loc (sto s))
  /\ (forall s o, LocOwn n (shard (sto s)) (loc (sto s)) ->
        LocOwn n (shard (sto (fst (step n lk s o)))) (loc (sto (fst (step n lk s o)))))
  /\ (forall s sh w u m b,
        alookup key_eqb (u, m) (loc (sto (fst (step n lk (fst (step n lk s (ORestart sh w))) (OLoad OOk))))) = Some b ->
        shard_of n (bup b) = sh).
Proof.
  intros n lk. split; [intros; apply save_other_shard_refused; assumption|]. split.
  - intros s o H. destruct (step n lk s o) as [s' q] eqn:E. simpl. eapply LocOwn_step; eassumption.
  - intros s sh w u m b H.
    set (s1 := fst (step n lk s (ORestart sh w))) in *.
    assert (H0 : LocOwn n (shard (sto s1)) (loc (sto s1))) by (simpl; intros ? ? ? X; discriminate).
    destruct (step n lk s1 (OLoad OOk)) as [s2 q] eqn:E.
    pose proof (LocOwn_step n lk s1 (OLoad OOk) s2 q H0 E) as HL.
    assert (Hsh : shard (sto s2) = sh).
    { subst s1. simpl in E. unfold finish in E. simpl in E. inversion E; subst. reflexivity. }
    rewrite Hsh in HL. simpl in H. eapply HL; exact H.
Qed.
Print Assumptions C13_store_shard_filter.

(* non-vacuity: a concrete history with faults, a crash in the middle of a save, a hand-over to a
   new store, a failing and a successful stop *)
Example C19_nonvacuous :
  let ops := [ORestart 0 true;
              OFg (FSave ("a.g1", mkBody "a" 1 2 3)) [("a.g1", [OConflict; OTransient; OOk])];
              OFg (FSave ("a.g2", mkBody "a" 4 5 6)) [("a.g2", [OOk; OCrash])];
              ORestart 0 false; OLoad OOk;
              OFg (FSave ("a.g2", mkBody "a" 4 5 6)) [];
              OStop [("a", "a.g1"); ("a", "a.g2")] [("a.g2", [OTransient])];
              OStop [("a", "a.g2"); ("a", "a.g1")] [];
              OFg (FDelete "a" "a.g1") [("a.g1", [OConflict; OOk])];
              ORestart 0 true; OLoad OOk]%string in
  map (fun x => fst (fst (fst x))) (run 1 (mkLocks true true) (init []) ops)
    = [ROk; ROk; RCrash; ROk; ROk; ROk; RErr; ROk; ROk; ROk; ROk]
  /\ map fst (api (run_state 1 (mkLocks true true) (init []) ops)) = ["a.g2"%string]
  /\ Inv 1 (fun _ => "a"%string) (init [])
  /\ Forall (wf_op (fun _ => "a"%string)) ops.
Proof.
  intros ops. split; [vm_compute; reflexivity|]. split; [vm_compute; reflexivity|]. split.
  - split; [constructor|]. split; [split; intros; discriminate|intros u m b H; discriminate].
  - subst ops. repeat constructor; intros f Hf; simpl in Hf;
      repeat (destruct Hf as [Hf|Hf]; [subst f; simpl; try reflexivity; exact I|]); try contradiction.
Qed.
