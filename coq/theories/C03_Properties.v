(* C03 — property theorems (statements only; proofs live in C03_Proofs.v).
   A history is a list [ms] of micro steps from the empty cluster: spec syncs, timer firings, single
   steps of ticker / worker goroutines (each racy select resolved by the bit in the step), probe
   answers, TriggerHealthCheck calls, MatchAttributes / Pop / dispatcher requests — in any order.
   Quantifying over all [ms] is quantifying over all histories, schedules and probe-outcome sequences.
   [rc] is the code variant of the worker loop (false: before the fix ecd4f0e, true: with the re-check). *)
From KG Require Import Prelude C03_Model C03_Proofs.
Open Scope Z_scope.

(* A forwarded request goes to an endpoint of a cluster that exists, that is in the server list of the
   last sync, in the matched policy's subset when one is given, enabled in that spec, and whose
   EndpointInfo is enabled and healthy in the state at the pick.  Same for Pop on a picker captured
   earlier: the picker's ClusterInfo is the object the manager holds now (not a stopped one), the endpoint
   is among the upstreams MatchAttributes captured, which are the policy's subset when given. *)
Theorem C03_pick_sound : forall rc ms,
  let s := run_micro rc init ms in
  (forall p choice id, In (EContact id) (snd (micro rc s (MRequest p choice))) ->
     cexists s = true /\ wanted (servers s) id = true /\ dis_in (servers s) id = false /\ subset_given s p id
     /\ exists i, find_live (incs s) (cgen s) id = Some i /\ disabled i = false /\ healthy i = true)
  /\ (forall slot choice id, In (EPick id) (snd (micro rc s (MPop slot choice))) ->
     exists c ups, zlook slot (pickers s) = Some (c, ups) /\ In id ups
     /\ cexists s = true /\ c = cgen s
     /\ wanted (servers s) id = true /\ dis_in (servers s) id = false
     /\ exists i, find_live (incs s) (cgen s) id = Some i /\ disabled i = false /\ healthy i = true)
  /\ (forall p slot, cexists s = true ->
        zlook slot (pickers (fst (micro rc s (MMatch p slot)))) = option_map (fun ups => (cgen s, ups)) (upstreams_of s p))
  /\ (forall p ups id, upstreams_of s p = Some ups -> In id ups -> subset_given s p id).
Proof. exact pick_sound. Qed.
Print Assumptions C03_pick_sound.

(* When none of the candidate upstreams is present, not stopped, enabled and healthy, Pop fails and the
   dispatcher answers 503; the state is unchanged and nothing is contacted. *)
Theorem C03_pick_complete : forall rc s,
  (forall p choice ups, cexists s = true -> upstreams_of s p = Some ups ->
     (forall id i, In id ups -> find_live (incs s) (cgen s) id = Some i -> is_ready i = false) ->
     micro rc s (MRequest p choice) = (s, [ENone; E503]))
  /\ (forall slot choice c ups, zlook slot (pickers s) = Some (c, ups) ->
     (forall id i, In id ups -> find_live (incs s) c id = Some i -> negb (stopped s c) && is_ready i = false) ->
     micro rc s (MPop slot choice) = (s, [ENone])).
Proof. exact pick_complete. Qed.
Print Assumptions C03_pick_complete.

(* Stale handles.  (1) In any state: Pop on a picker, and PickOne on a ClusterInfo, that were taken from a
   cluster object which has been stopped since (the cluster was deleted; a later sync may have created a
   NEW object under the same name) return the no-ready-endpoints error, whatever Disabled/Healthy flags the
   stopped endpoints still carry; a request for a cluster that does not exist gets 503.
   (2) Over all histories and schedules — deletions, re-creations and stale handles included — every
   endpoint returned by Pop / PickOne / the dispatcher at some moment is, at that moment, enabled in the
   server list in force of a cluster that exists. *)
Theorem C03_stale_handle_never_routes : forall rc,
  (forall s,
     (forall slot choice c ups, zlook slot (pickers s) = Some (c, ups) -> stopped s c = true ->
        micro rc s (MPop slot choice) = (s, [ENone]))
     /\ (forall slot choice c, zlook slot (handles s) = Some c -> stopped s c = true ->
        micro rc s (MPickOne slot choice) = (s, [ENone]))
     /\ (forall p choice, cexists s = false -> micro rc s (MRequest p choice) = (s, [E503])))
  /\ (forall ms m id, let s := run_micro rc init ms in
        In (EPick id) (snd (micro rc s m)) -> spec_enabled s id = true).
Proof. intros rc. split; [intros s; apply stale_handle|intros ms m id; apply routes_only_current]. Qed.
Print Assumptions C03_stale_handle_never_routes.

(* The only step that contacts an upstream is the dispatcher's, and it contacts the endpoint Pop returned. *)
Theorem C03_contacted_is_picked : forall rc s m id,
  In (EContact id) (snd (micro rc s m)) ->
  exists p choice, m = MRequest p choice /\ snd (micro rc s m) = [EPick id; EContact id].
Proof. exact contacted_is_picked. Qed.
Print Assumptions C03_contacted_is_picked.

(* Over all histories and schedules: an endpoint that is not listed as enabled by the spec in force
   (disabled, or not a server) receives no proxied request. *)
Theorem C03_disabled_no_traffic : forall rc ms m id,
  let s := run_micro rc init ms in
  In (EContact id) (snd (micro rc s m)) -> spec_enabled s id = true.
Proof. exact disabled_no_traffic. Qed.
Print Assumptions C03_disabled_no_traffic.

(* Both code variants: (1) an uncancelled probe context (ticker + worker able to start new probes) exists
   only for endpoints the spec in force lists as enabled — disabling or removing cancels it, and nothing is
   started while disabled; (2) a probe of any other endpoint can only come from an already-cancelled worker
   whose select found both a queued trigger and ctx.Done() ready and took the trigger, in the code before the fix. *)
Theorem C03_disabled_no_new_probe : forall rc ms,
  let s := run_micro rc init ms in
  (forall k gi i g, gen_at s k gi = Some (i, g) -> gdone g = false -> spec_enabled s (iid i) = true)
  /\ (forall m id, In (EProbe id) (snd (micro rc s m)) ->
        spec_enabled s id = true
        \/ (rc = false /\ exists k gi i g, m = MWorker k gi true /\ gen_at s k gi = Some (i, g)
                                           /\ iid i = id /\ gdone g = true /\ chanfull i = true)).
Proof. exact disabled_no_new_probe. Qed.
Print Assumptions C03_disabled_no_new_probe.

(* Full strength, for the code as it is now (worker re-checks ctx.Err()/IstDisabled() after taking a
   trigger): over all histories and all schedules no probe is ever sent to an endpoint that the spec in
   force does not list as enabled. *)
Theorem C03_disabled_no_probe_at_all : forall ms m id,
  let s := run_micro true init ms in
  In (EProbe id) (snd (micro true s m)) -> spec_enabled s id = true.
Proof. exact disabled_no_probe_at_all. Qed.
Print Assumptions C03_disabled_no_probe_at_all.

(* The same statement is false for the worker loop before the fix: slow probe in flight, one queued
   trigger, the endpoint is disabled, the probe returns, the select takes the queued trigger. *)
Definition stray_witness : list mstep :=
  [ MSync [(0, false)] [[]; []];
    MTicker 0 0 false; MWorker 0 0 false;          (* initial trigger, probe P1 in flight *)
    MTimer 0 0; MTicker 0 0 false; MTicker 0 0 false;   (* a tick queues one more trigger *)
    MSync [(0, true)] [[]; []];                    (* the endpoint is disabled: probe context cancelled *)
    MProbeDone 0 0 POk ].                          (* P1 returns *)
Theorem C03_disabled_no_probe_at_all_refuted_before_fix :
  exists ms m id, In (EProbe id) (snd (micro false (run_micro false init ms) m))
                  /\ spec_enabled (run_micro false init ms) id = false.
Proof. exists stray_witness, (MWorker 0 0 true), 0. vm_compute. split; [left; reflexivity|reflexivity]. Qed.
Print Assumptions C03_disabled_no_probe_at_all_refuted_before_fix.

(* The harness-level ops of the correspondence run (one external action, then the goroutines run until
   none can move, in the given running order, racy selects resolved by the given bits) are schedules of micro steps: every state the
   correspondence compares with the real code is a state the theorems above talk about. *)
Theorem C03_macro_is_schedule : forall rc s o choice ord bits,
  exists ms, macro rc s o choice ord bits = run_events rc s ms []
             /\ fst (run_events rc s ms []) = run_micro rc s ms.
Proof.
  intros rc s o choice ord bits. destruct (macro_sched rc s o choice ord bits) as [ms H].
  exists ms. split; [exact H|apply run_events_state].
Qed.
Print Assumptions C03_macro_is_schedule.

(* ---- non-vacuity ---- *)
Definition demo : list mstep :=
  [ MSync [(0, false); (1, true); (2, false)] [[1; 2]; []];
    MTicker 0 0 false; MWorker 0 0 false; MProbeDone 0 0 POk;     (* endpoint 0 healthy *)
    MTicker 2 0 false; MWorker 2 0 false; MProbeDone 2 0 POk ].   (* endpoint 2 healthy *)

(* a request is really forwarded (hypothesis of pick_sound / disabled_no_traffic is satisfiable):
   policy 0 (subset {1,2}, 1 disabled) -> endpoint 2; catch-all policy -> endpoint 0 or 2 *)
Example C03_pick_sound_nonvacuous :
  snd (micro true (run_micro true init demo) (MRequest 0 0)) = [EPick 2; EContact 2]
  /\ snd (micro true (run_micro true init demo) (MRequest 2 0)) = [EPick 0; EContact 0]
  /\ snd (micro true (run_micro true init demo) (MRequest 2 1)) = [EPick 2; EContact 2]
  /\ spec_enabled (run_micro true init demo) 1 = false.
Proof. vm_compute. repeat split; reflexivity. Qed.

(* 503: the only endpoint of the subset that is enabled gets unhealthy *)
Example C03_pick_complete_nonvacuous :
  let s := run_micro true init (demo ++ [MTimer 2 0; MTicker 2 0 false; MTicker 2 0 false; MWorker 2 0 false;
                                         MProbeDone 2 0 PFail]) in
  micro true s (MRequest 0 7) = (s, [ENone; E503]).
Proof. vm_compute. reflexivity. Qed.

(* probes do happen for enabled endpoints (hypothesis of the probe theorems is satisfiable), and with the
   re-check the witness history of the refutation yields no probe *)
Example C03_probe_nonvacuous :
  snd (micro true (run_micro true init [MSync [(0, false)] [[]; []]; MTicker 0 0 false]) (MWorker 0 0 false)) = [EProbe 0]
  /\ snd (micro true (run_micro true init stray_witness) (MWorker 0 0 true)) = [].
Proof. vm_compute. split; reflexivity. Qed.

(* stale handles are really there: a picker (slot 0) and a ClusterInfo (slot 1) are taken while endpoint 0
   is healthy; both yield endpoint 0; the cluster is deleted: both yield the error although the stopped
   endpoint is still in the old object's map with Healthy = true; the cluster is re-created (new object,
   endpoint 0 healthy again): the stale handles still yield the error, a fresh picker yields endpoint 0 *)
Definition stale_demo : list mstep :=
  [ MSync [(0, false)] [[]; []]; MTicker 0 0 false; MWorker 0 0 false; MProbeDone 0 0 POk;
    MMatch 2 0; MHold 1 ].
Example C03_stale_handle_nonvacuous :
  let s1 := run_micro true init stale_demo in
  let s2 := run_micro true s1 [MDelete] in
  let s3 := run_micro true s2 [MSync [(0, false)] [[]; []]; MTicker 1 0 false; MWorker 1 0 false; MProbeDone 1 0 POk; MMatch 2 5] in
  snd (micro true s1 (MPop 0 0)) = [EPick 0] /\ snd (micro true s1 (MPickOne 1 0)) = [EPick 0]
  /\ snd (micro true s2 (MPop 0 0)) = [ENone] /\ snd (micro true s2 (MPickOne 1 0)) = [ENone]
  /\ snd (micro true s2 (MRequest 2 0)) = [E503]
  /\ map (fun i => (live i, healthy i, icl i)) (incs s2) = [(true, true, 1)]
  /\ snd (micro true s3 (MPop 0 0)) = [ENone] /\ snd (micro true s3 (MPickOne 1 0)) = [ENone]
  /\ snd (micro true s3 (MPop 5 0)) = [EPick 0] /\ snd (micro true s3 (MRequest 2 0)) = [EPick 0; EContact 0].
Proof. vm_compute. repeat split; reflexivity. Qed.
