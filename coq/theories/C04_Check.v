(* C04 — case format of the correspondence run and its evaluator. *)
From KG Require Import Prelude C02_Model C02_Spec C02_Check C04_Model C04_Spec.
Open Scope Z_scope.
Open Scope string_scope.
Open Scope list_scope.

Record case := mkCase4 {
  k_token : string;
  k_ip : string;
  k_cluster : cluster;
  k_req : request;              (* headers as recorded in front of the chain; target as sent *)
  k_id : identity;
  k_deny : list imp_item;
  k_reply : response;           (* what the stub upstream was scripted to answer *)
  k_reached : bool;             (* false: net/http rejected the request before the chain *)
  k_obs : obs;
}.

Definition drop_framing (h : headers) : headers := filter (fun e => negb (str_in (fst e) framing)) h.
(* canonical presentation; the values of Impersonate-Extra-* as a multiset *)
Definition present (h : headers) : headers :=
  map (fun e => if has_prefix (fst e) H_EXTRA then (fst e, sort_strs (snd e)) else e) (norm (drop_framing h)).

Definition agree (k : case) : bool :=
  let o := k_obs k in
  match gateway (k_token k) (k_ip k) (k_cluster k) (k_req k) (k_id k) (allowed (k_deny k)) (k_reply k) with
  | Relayed up r =>
      match o_ups o with
      | [u] => (String.eqb (s_method u) (p_method up) && String.eqb (s_uri u) (p_uri up)
                && String.eqb (s_host u) (p_host up) && String.eqb (s_body u) (p_body up)
                && hdr_eqb (present (s_headers u)) (present (p_headers up))
                && Z.eqb (o_status o) (r_status r) && String.eqb (o_body o) (r_body r)
                && hdr_eqb (present (o_headers o)) (present (r_headers r)))%bool
      | _ => false
      end
  | Upgraded up =>
      match o_ups o with
      | [u] => (String.eqb (s_method u) (p_method up) && String.eqb (s_uri u) (p_uri up)
                && String.eqb (s_host u) (p_host up) && String.eqb (s_body u) (p_body up)
                && hdr_eqb (present (s_headers u)) (present (p_headers up))
                && Z.eqb (o_status o) (r_status (k_reply k)) && String.eqb (o_body o) (r_body (k_reply k)))%bool
      | _ => false
      end
  | Terminated _ t =>
      (match o_ups o with [] => true | _ => false end && Z.eqb (o_status o) (t_code t)
       && vals_eqb (h_values "Retry-After" (o_headers o)) (t_retry_after t)
       && (if String.eqb (q_method (k_req k)) "HEAD" then String.eqb (o_body o) EmptyString
           else if t_status_body t then doc_ok (t_code t) o else match o_doc o with None => true | Some _ => false end))%bool
  | OutOfModel => false
  end.

(* clause layout: agree, method_body, path, query, headers, response, termination *)
Definition eval (k : case) : list bool :=
  if k_reached k
  then agree k :: spec_clauses (k_ip k) (k_cluster k) (k_req k) (k_id k) (k_deny k) (k_reply k) (k_obs k)
  else (* rejected by net/http (400) before any gateway code ran; the model must agree that the target is
          not a valid origin-form target or leave it to header-level rejection; nothing may be forwarded *)
    [ (match o_ups (k_obs k) with [] => true | _ => false end && Z.eqb (o_status (k_obs k)) 400)%bool;
      true; true; true; true; true; match o_ups (k_obs k) with [] => true | _ => false end ].
