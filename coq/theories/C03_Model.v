(* C03 — implementation model: endpoint selection and the health-probe machinery.
   Mirrors pkg/clusters/clusterinfo.go (syncEndpoints, addOrUpdateEndpoint, MatchAttributes,
   endpointPickStrategy.Pop), pkg/clusters/endpoint.go (endpointStatus, EnsureGatewayHealthCheck,
   startGatewayHealthCheck: the ticker goroutine and the worker goroutine, TriggerHealthCheck),
   pkg/gateway/controllers/upstream_controller.go (GatewayHealthCheck -> UpdateStatus) and the
   pick/contact part of pkg/gateway/proxy/dispatcher/dispatcher.go.

   Goroutines are explicit: every enabling of an endpoint starts one "generation" = a ticker
   goroutine and a worker goroutine sharing a cancellable probe context; a goroutine takes one
   step at a time (micro steps) and a Go `select` with two ready cases is resolved by a bit given
   in the step (the schedule).  Endpoints are identified by integers.

   [rc] selects the code variant of the worker loop:
     rc = false : `case <-e.healthCheckCh: e.healthCheckFun(e)`                       (before the fix)
     rc = true  : the trigger is re-checked against ctx.Err()/IstDisabled() before probing
                  (build/fixes/C03_stray_probe_after_disable.diff).
   [code_recheck] says which variant the correspondence run compares the real code with. *)
From KG Require Import Prelude.
Open Scope Z_scope.

Definition code_recheck : bool := true.

Inductive tpc := TSel | TSend | TExit.      (* ticker: at the select / at the blocking send / returned *)
Inductive wpc := WSel | WProbe | WExit.     (* worker: at the select / inside healthCheckFun / returned *)

Record gen := mkGen {
  gdone : bool;      (* the probe context of this generation is cancelled *)
  tpend : bool;      (* a tick is buffered in tick.C (capacity 1) *)
  tp : tpc;
  wp : wpc;
  pseq : Z;          (* arrival number of the probe in flight (meaningful when wp = WProbe) *)
}.

(* one EndpointInfo object *)
Record inc := mkInc {
  iid : Z;
  live : bool;        (* still in ClusterInfo.Endpoints (false: removed, its context is cancelled) *)
  disabled : bool;    (* status.Disabled *)
  healthy : bool;     (* status.Healthy *)
  ucount : Z;         (* status.UnhealthyCount *)
  chanfull : bool;    (* len(healthCheckCh) = 1 *)
  hascancel : bool;   (* cancelHealthCheck != nil *)
  gens : list gen;
  icl : Z;            (* the ClusterInfo object (cluster generation) this endpoint belongs to *)
}.

Record st := mkSt {
  incs : list inc;                 (* every EndpointInfo ever created, in creation order *)
  servers : list (Z * bool);       (* spec.servers of the last sync: (endpoint, disabled) *)
  subsets : list (list Z);         (* UpstreamSubset of policies 0,1,... of the last sync *)
  pickers : list (Z * (Z * list Z));   (* slot -> (ClusterInfo object, upstreams captured by MatchAttributes) *)
  nextseq : Z;
  cgen : Z;                        (* the ClusterInfo object the manager holds (or held last) under the cluster's name *)
  cexists : bool;                  (* the name is bound: the cluster exists; false after DeleteWithStop *)
  handles : list (Z * Z);          (* slot -> ClusterInfo object kept by a caller (extraInfo.UpstreamCluster, ClientFor) *)
}.

Inductive event :=
| EProbe (id : Z)        (* the worker entered healthCheckFun: GET /healthz goes to endpoint id *)
| EPick (id : Z)         (* Pop returned endpoint id *)
| ENone                  (* Pop returned ErrNoReadyEndpoints *)
| EContact (id : Z)      (* the dispatcher forwarded the request to endpoint id *)
| E503                   (* the dispatcher answered 503 *)
| ENoMatch               (* no policy matched: 500 *)
| ENoCluster.            (* the manager has no cluster under the name *)

Inductive outcome := POk | PFail.   (* /healthz 200 | anything else (non-200, error, timeout) *)

(* ---------- small helpers ---------- *)
Fixpoint upd_nth {A} (n : nat) (f : A -> A) (l : list A) : list A :=
  match l, n with
  | [], _ => []
  | x :: r, O => f x :: r
  | x :: r, S n' => x :: upd_nth n' f r
  end.

Definition set_gens (i : inc) (g : list gen) : inc :=
  mkInc (iid i) (live i) (disabled i) (healthy i) (ucount i) (chanfull i) (hascancel i) g (icl i).
Definition set_chan (i : inc) (b : bool) : inc :=
  mkInc (iid i) (live i) (disabled i) (healthy i) (ucount i) b (hascancel i) (gens i) (icl i).
Definition set_status (i : inc) (h : bool) (u : Z) : inc :=
  mkInc (iid i) (live i) (disabled i) h u (chanfull i) (hascancel i) (gens i) (icl i).
Definition set_incs (s : st) (l : list inc) : st :=
  mkSt l (servers s) (subsets s) (pickers s) (nextseq s) (cgen s) (cexists s) (handles s).

Definition cancel_gen (g : gen) : gen := mkGen true (tpend g) (tp g) (wp g) (pseq g).
Definition cancel_all (l : list gen) : list gen := map cancel_gen l.

(* startGatewayHealthCheck: the ticker goroutine begins with the blocking "trigger immediately" send *)
Definition new_gen : gen := mkGen false false TSend WSel 0.

(* ---------- syncEndpoints ---------- *)
Definition wanted (sv : list (Z * bool)) (id : Z) : bool := existsb (fun p => fst p =? id) sv.
Definition dis_in (sv : list (Z * bool)) (id : Z) : bool := existsb (fun p => (fst p =? id) && snd p) sv.

(* deleted.Range: LoadAndDelete + info.cancel()   (c: the ClusterInfo object being synced) *)
Definition sync_delete (c : Z) (sv : list (Z * bool)) (i : inc) : inc :=
  if (icl i =? c) && live i && negb (wanted sv (iid i)) then
    mkInc (iid i) false (disabled i) (healthy i) (ucount i) (chanfull i) (hascancel i) (cancel_all (gens i)) (icl i)
  else i.

(* EnsureGatewayHealthCheck *)
Definition ensure (i : inc) : inc :=
  let i1 := if disabled i && hascancel i then
              mkInc (iid i) (live i) (disabled i) (healthy i) (ucount i) (chanfull i) false (cancel_all (gens i)) (icl i)
            else i in
  if negb (disabled i1) && negb (hascancel i1) then
    mkInc (iid i1) (live i1) (disabled i1) (healthy i1) (ucount i1) (chanfull i1) true (gens i1 ++ [new_gen]) (icl i1)
  else i1.

(* addOrUpdateEndpoint on an existing endpoint: SetDisabled + EnsureGatewayHealthCheck *)
Definition sync_update (c : Z) (sv : list (Z * bool)) (i : inc) : inc :=
  if (icl i =? c) && live i then
    ensure (mkInc (iid i) (live i) (dis_in sv (iid i)) (healthy i) (ucount i) (chanfull i) (hascancel i) (gens i) (icl i))
  else i.

Definition has_live (l : list inc) (c id : Z) : bool := existsb (fun i => live i && (iid i =? id) && (icl i =? c)) l.

(* addOrUpdateEndpoint on a new endpoint: Healthy=false, then EnsureGatewayHealthCheck *)
Definition new_inc (c id : Z) (d : bool) : inc := ensure (mkInc id true d false 0 false false [] c).

Fixpoint sync_add (c : Z) (sv : list (Z * bool)) (todo : list Z) (l : list inc) : list inc :=
  match todo with
  | [] => l
  | id :: r => if has_live l c id then sync_add c sv r l else sync_add c sv r (l ++ [new_inc c id (dis_in sv id)])
  end.

(* the controller's sync handler: the cluster exists -> ClusterInfo.Sync on it; it does not (never
   created, or deleted) -> CreateClusterInfo = a NEW ClusterInfo object + Sync, bound under the name *)
Definition do_sync (sv : list (Z * bool)) (subs : list (list Z)) (s : st) : st :=
  let c := if cexists s then cgen s else cgen s + 1 in
  let l1 := map (sync_delete c sv) (incs s) in
  let l2 := map (sync_update c sv) l1 in
  let l3 := sync_add c sv (map fst sv) l2 in
  mkSt l3 sv subs (pickers s) (nextseq s) c true (handles s).

(* the controller's delete path: DeleteWithStop unbinds the name and calls ClusterInfo.Stop: the cluster
   context is cancelled, and with it every endpoint context and probe context of that ClusterInfo.  The
   endpoints STAY in the stopped ClusterInfo's map with their last status (a caller that still holds the
   ClusterInfo or a picker can look them up) *)
Definition do_delete (s : st) : st :=
  if cexists s then
    mkSt (map (fun i => if icl i =? cgen s then
                          mkInc (iid i) (live i) (disabled i) (healthy i) (ucount i) (chanfull i) (hascancel i)
                                (cancel_all (gens i)) (icl i)
                        else i) (incs s))
         [] [] (pickers s) (nextseq s) (cgen s) false (handles s)
  else s.

(* ---------- goroutine steps ---------- *)
(* ticker goroutine: for { select { case <-tick.C: ch <- {} ; case <-ctx.Done(): return } } *)
Definition ticker_step (b : bool) (i : inc) (g : gen) : inc * gen :=
  match tp g with
  | TSend => if chanfull i then (i, g) else (set_chan i true, mkGen (gdone g) (tpend g) TSel (wp g) (pseq g))
  | TSel =>
      match tpend g, gdone g with
      | true, true => if b then (i, mkGen (gdone g) false TSend (wp g) (pseq g))
                      else (i, mkGen (gdone g) (tpend g) TExit (wp g) (pseq g))
      | true, false => (i, mkGen (gdone g) false TSend (wp g) (pseq g))
      | false, true => (i, mkGen (gdone g) (tpend g) TExit (wp g) (pseq g))
      | false, false => (i, g)
      end
  | TExit => (i, g)
  end.

(* worker goroutine: for { select { case <-ch: healthCheckFun(e) ; case <-ctx.Done(): return } } *)
Definition worker_take (rc : bool) (seq : Z) (i : inc) (g : gen) : inc * gen * list event :=
  let i' := set_chan i false in
  if rc && gdone g then (i', mkGen (gdone g) (tpend g) (tp g) WExit (pseq g), [])
  else if rc && disabled i then (i', g, [])
  else (i', mkGen (gdone g) (tpend g) (tp g) WProbe seq, [EProbe (iid i)]).

Definition worker_step (rc : bool) (b : bool) (seq : Z) (i : inc) (g : gen) : inc * gen * list event :=
  match wp g with
  | WSel =>
      match chanfull i, gdone g with
      | true, true => if b then worker_take rc seq i g
                      else (i, mkGen (gdone g) (tpend g) (tp g) WExit (pseq g), [])
      | true, false => worker_take rc seq i g
      | false, true => (i, mkGen (gdone g) (tpend g) (tp g) WExit (pseq g), [])
      | false, false => (i, g, [])
      end
  | _ => (i, g, [])
  end.

(* GatewayHealthCheck returns: UpdateStatus(healthy) *)
Definition probe_done (r : outcome) (i : inc) (g : gen) : inc * gen :=
  match wp g with
  | WProbe =>
      let i' := match r with POk => set_status i true 0 | PFail => set_status i false (ucount i + 1) end in
      (i', mkGen (gdone g) (tpend g) (tp g) WSel (pseq g))
  | _ => (i, g)
  end.

(* the runtime timer fires: non-blocking send on tick.C; a stopped ticker does nothing *)
Definition timer_fire (g : gen) : gen :=
  match tp g with
  | TExit => g
  | _ => mkGen (gdone g) true (tp g) (wp g) (pseq g)
  end.

(* apply f to generation gi of endpoint object k *)
Definition on_gen (k gi : nat) (f : inc -> gen -> inc * gen * list event) (s : st) : st * list event :=
  match nth_error (incs s) k with
  | None => (s, [])
  | Some i =>
      match nth_error (gens i) gi with
      | None => (s, [])
      | Some g =>
          let '(i', g', ev) := f i g in
          (set_incs s (upd_nth k (fun _ => set_gens i' (upd_nth gi (fun _ => g') (gens i'))) (incs s)), ev)
      end
  end.

(* ---------- picking ---------- *)
(* lookup in the endpoint map of ClusterInfo object c *)
Definition find_live (l : list inc) (c id : Z) : option inc :=
  find (fun i => live i && (iid i =? id) && (icl i =? c)) l.
Definition is_ready (i : inc) : bool := negb (disabled i) && healthy i.
Definition live_ids (l : list inc) (c : Z) : list Z := map iid (filter (fun i => live i && (icl i =? c)) l).

(* the context of an endpoint of ClusterInfo object c is done when the endpoint was removed (then it is
   not in the map any more) or when c was stopped: c is not the object the manager holds now *)
Definition stopped (s : st) (c : Z) : bool := negb (cexists s && (c =? cgen s)).

(* Pop's filter on a picker of ClusterInfo object c: upstreams that are present in c's endpoint map,
   whose context is not done (fix 9edc511: a stopped endpoint is never ready, whatever its frozen
   Disabled/Healthy flags) and that are IsReady() *)
Definition ready_of (s : st) (c : Z) (ups : list Z) : list Z :=
  filter (fun id => match find_live (incs s) c id with
                    | Some i => negb (stopped s c) && is_ready i
                    | None => false end) ups.

(* MatchAttributes: policy p < number of subset policies: its subset or, when empty, AllEndpoints();
   the catch-all policy (p = number of subset policies): AllEndpoints(); beyond: no policy matches *)
Definition upstreams_of (s : st) (p : Z) : option (list Z) :=
  if (p <? 0) then None
  else match nth_error (subsets s) (Z.to_nat p) with
       | Some sub => Some (match sub with [] => live_ids (incs s) (cgen s) | _ => sub end)
       | None => if p =? Z.of_nat (List.length (subsets s)) then Some (live_ids (incs s) (cgen s)) else None
       end.

Definition pop (s : st) (c : Z) (ups : list Z) (choice : nat) : option Z :=
  match ready_of s c ups with
  | [] => None
  | r => nth_error r (Nat.modulo choice (List.length r))
  end.

Fixpoint zlook {A} (k : Z) (l : list (Z * A)) : option A :=
  match l with
  | [] => None
  | (k', v) :: r => if k =? k' then Some v else zlook k r
  end.
Fixpoint zrem {A} (k : Z) (l : list (Z * A)) : list (Z * A) :=
  match l with
  | [] => []
  | (k', v) :: r => if k =? k' then zrem k r else (k', v) :: zrem k r
  end.

(* ---------- micro steps ---------- *)
Inductive mstep :=
| MSync (sv : list (Z * bool)) (subs : list (list Z))
| MTimer (k gi : nat)
| MTicker (k gi : nat) (b : bool)        (* b: a select with both cases ready takes the tick *)
| MWorker (k gi : nat) (b : bool)        (* b: a select with both cases ready takes the trigger *)
| MProbeDone (k gi : nat) (r : outcome)
| MTrigger (id : Z)                      (* EndpointInfo.TriggerHealthCheck *)
| MMatch (p slot : Z)
| MPop (slot : Z) (choice : nat)
| MRequest (p : Z) (choice : nat)        (* gateway: resolve the cluster; dispatcher: MatchAttributes; Pop; forward *)
| MDelete                                (* the UpstreamCluster object is deleted: DeleteWithStop *)
| MHold (slot : Z)                       (* a caller resolves the cluster and keeps the ClusterInfo *)
| MPickOne (slot : Z) (choice : nat).    (* ClusterInfo.PickOne on a kept ClusterInfo *)

Definition micro (rc : bool) (s : st) (m : mstep) : st * list event :=
  match m with
  | MSync sv subs => (do_sync sv subs s, [])
  | MTimer k gi => on_gen k gi (fun i g => (i, timer_fire g, [])) s
  | MTicker k gi b => on_gen k gi (fun i g => (ticker_step b i g, [])) s
  | MWorker k gi b =>
      let '(s', ev) := on_gen k gi (worker_step rc b (nextseq s)) s in
      (mkSt (incs s') (servers s') (subsets s') (pickers s') (nextseq s + 1) (cgen s') (cexists s') (handles s'), ev)
  | MProbeDone k gi r => on_gen k gi (fun i g => (probe_done r i g, [])) s
  | MTrigger id =>
      (set_incs s (map (fun i => if live i && (iid i =? id) && (icl i =? cgen s) && cexists s
                                 then set_chan i true else i) (incs s)), [])
  | MMatch p slot =>
      if negb (cexists s) then (s, [ENoCluster]) else
      match upstreams_of s p with
      | Some ups => (mkSt (incs s) (servers s) (subsets s) ((slot, (cgen s, ups)) :: zrem slot (pickers s)) (nextseq s)
                          (cgen s) (cexists s) (handles s), [])
      | None => (mkSt (incs s) (servers s) (subsets s) (zrem slot (pickers s)) (nextseq s)
                      (cgen s) (cexists s) (handles s), [ENoMatch])
      end
  | MPop slot choice =>
      match zlook slot (pickers s) with
      | None => (s, [])
      | Some (c, ups) => match pop s c ups choice with
                         | Some id => (s, [EPick id])
                         | None => (s, [ENone])
                         end
      end
  | MRequest p choice =>
      if negb (cexists s) then (s, [E503]) else      (* "the request cluster is not being proxied" *)
      match upstreams_of s p with
      | None => (s, [ENoMatch])
      | Some ups => match pop s (cgen s) ups choice with
                    | Some id => (s, [EPick id; EContact id])
                    | None => (s, [ENone; E503])
                    end
      end
  | MDelete => (do_delete s, [])
  | MHold slot =>
      if cexists s then
        (mkSt (incs s) (servers s) (subsets s) (pickers s) (nextseq s) (cgen s) (cexists s)
              ((slot, cgen s) :: zrem slot (handles s)), [])
      else (s, [ENoCluster])
  | MPickOne slot choice =>
      match zlook slot (handles s) with
      | None => (s, [])
      | Some c => match pop s c (live_ids (incs s) c) choice with
                  | Some id => (s, [EPick id])
                  | None => (s, [ENone])
                  end
      end
  end.

Definition init : st := mkSt [] [] [] [] 0 0 false [].

(* state after a schedule, and the list of (state before the step, step, events of the step) *)
Fixpoint run_micro (rc : bool) (s : st) (ms : list mstep) : st :=
  match ms with
  | [] => s
  | m :: r => run_micro rc (fst (micro rc s m)) r
  end.

(* ---------- harness-level ops: one external action, then the goroutines run until none can move ---------- *)
Inductive op :=
| OSync (sv : list (Z * bool)) (subs : list (list Z))
| OTick (id : Z)                 (* the timers of all tickers of endpoint id fire *)
| OProbe (id : Z) (r : outcome)  (* the upstream answers the oldest /healthz request it holds *)
| OTrigger (id : Z)
| OMatch (p slot : Z)
| OPop (slot : Z)
| ORequest (p : Z)
| ODelete
| OHold (slot : Z)
| OPickOne (slot : Z).

Definition tpc_eqb (a b : tpc) : bool :=
  match a, b with TSel, TSel | TSend, TSend | TExit, TExit => true | _, _ => false end.
Definition wpc_eqb (a b : wpc) : bool :=
  match a, b with WSel, WSel | WProbe, WProbe | WExit, WExit => true | _, _ => false end.

Definition ticker_racy (i : inc) (g : gen) : bool := tpc_eqb (tp g) TSel && tpend g && gdone g.
Definition worker_racy (i : inc) (g : gen) : bool := wpc_eqb (wp g) WSel && chanfull i && gdone g.
Definition ticker_can_move (i : inc) (g : gen) : bool :=
  match tp g with
  | TSend => negb (chanfull i)
  | TSel => tpend g || gdone g
  | TExit => false
  end.
Definition worker_can_move (i : inc) (g : gen) : bool :=
  match wp g with
  | WSel => chanfull i || gdone g
  | _ => false
  end.

Definition gen_at (s : st) (k gi : nat) : option (inc * gen) :=
  match nth_error (incs s) k with
  | Some i => match nth_error (gens i) gi with Some g => Some (i, g) | None => None end
  | None => None
  end.

(* positions of the goroutine pairs that are not both finished *)
Definition alive (g : gen) : bool := negb (tpc_eqb (tp g) TExit && wpc_eqb (wp g) WExit).
Fixpoint gen_positions (k gi : nat) (gs : list gen) : list (nat * nat) :=
  match gs with
  | [] => []
  | g :: r => (if alive g then [(k, gi)] else []) ++ gen_positions k (S gi) r
  end.
Fixpoint inc_positions (k : nat) (l : list inc) : list (nat * nat) :=
  match l with
  | [] => []
  | i :: r => gen_positions k O (gens i) ++ inc_positions (S k) r
  end.

Definition quiet (s : st) : bool :=
  forallb (fun p => match gen_at s (fst p) (snd p) with
                    | Some (i, g) => negb (ticker_can_move i g) && negb (worker_can_move i g)
                    | None => true end) (inc_positions O (incs s)).

Definition pop_bit (bits : list bool) : bool * list bool :=
  match bits with [] => (false, []) | b :: r => (b, r) end.

(* one pass: every goroutine in the list takes one step; a racy select consumes a bit.
   A position is (endpoint object, generation, is_worker). *)
Fixpoint visit (rc : bool) (pos : list (nat * nat * bool)) (bits : list bool) (s : st) (acc : list event)
  : st * list event * list bool :=
  match pos with
  | [] => (s, acc, bits)
  | (k, gi, w) :: r =>
      let '(b, bits1) := match gen_at s k gi with
                         | Some (i, g) => if (if w then worker_racy i g else ticker_racy i g) then pop_bit bits else (false, bits)
                         | None => (false, bits) end in
      let '(s1, e1) := micro rc s (if w then MWorker k gi b else MTicker k gi b) in
      visit rc r bits1 s1 (acc ++ e1)
  end.

Definition goroutines (s : st) : list (nat * nat * bool) :=
  flat_map (fun p => [(fst p, snd p, false); (fst p, snd p, true)]) (inc_positions O (incs s)).

(* the order in which the runnable goroutines get to run is the scheduler's choice too (it matters when
   two of them compete: two tickers blocked on the same full trigger channel, two workers at the same
   channel): [ord] picks one of a few orders — rotation by ord/2, reversed when ord is odd *)
Fixpoint rotate {A} (k : nat) (l : list A) : list A :=
  match k, l with
  | S k', x :: r => rotate k' (r ++ [x])
  | _, _ => l
  end.
Definition reorder {A} (ord : nat) (l : list A) : list A :=
  let r := rotate (Nat.div ord 2) l in if Nat.odd ord then rev r else r.

Fixpoint settle (rc : bool) (fuel : nat) (ord : nat) (bits : list bool) (s : st) (acc : list event) : st * list event :=
  match fuel with
  | O => (s, acc)
  | S f => if quiet s then (s, acc)
           else let '(s', acc', bits') := visit rc (reorder ord (goroutines s)) bits s acc in
                settle rc f ord bits' s' acc'
  end.

Definition settle_fuel (s : st) : nat := (4 * List.length (inc_positions O (incs s)) + 4)%nat.

(* all (k, gi) of endpoint id satisfying a predicate *)
Fixpoint gens_where (k gi : nat) (i : inc) (f : gen -> bool) (gs : list gen) : list (nat * nat * gen) :=
  match gs with
  | [] => []
  | g :: r => (if f g then [(k, gi, g)] else []) ++ gens_where k (S gi) i f r
  end.
Fixpoint incs_where (k : nat) (id : Z) (f : gen -> bool) (l : list inc) : list (nat * nat * gen) :=
  match l with
  | [] => []
  | i :: r => (if iid i =? id then gens_where k O i f (gens i) else []) ++ incs_where (S k) id f r
  end.

Definition oldest (l : list (nat * nat * gen)) : option (nat * nat * gen) :=
  fold_left (fun best x => match best with
                           | None => Some x
                           | Some y => if pseq (snd x) <? pseq (snd y) then Some x else best
                           end) l None.

(* the external action of an op, as micro steps *)
Definition action (s : st) (o : op) (choice : nat) : list mstep :=
  match o with
  | OSync sv subs => [MSync sv subs]
  | OTick id => map (fun x => MTimer (fst (fst x)) (snd (fst x))) (incs_where O id (fun _ => true) (incs s))
  | OProbe id r => match oldest (incs_where O id (fun g => wpc_eqb (wp g) WProbe) (incs s)) with
                   | Some x => [MProbeDone (fst (fst x)) (snd (fst x)) r]
                   | None => []
                   end
  | OTrigger id => [MTrigger id]
  | OMatch p slot => [MMatch p slot]
  | OPop slot => [MPop slot choice]
  | ORequest p => [MRequest p choice]
  | ODelete => [MDelete]
  | OHold slot => [MHold slot]
  | OPickOne slot => [MPickOne slot choice]
  end.

Fixpoint run_events (rc : bool) (s : st) (ms : list mstep) (acc : list event) : st * list event :=
  match ms with
  | [] => (s, acc)
  | m :: r => let '(s', e) := micro rc s m in run_events rc s' r (acc ++ e)
  end.

Definition macro (rc : bool) (s : st) (o : op) (choice : nat) (ord : nat) (bits : list bool) : st * list event :=
  let '(s1, e1) := run_events rc s (action s o choice) [] in
  settle rc (settle_fuel s1) ord bits s1 e1.
