(* C06 — model of the gateway-side token bucket.

   pkg/flowcontrols/flowcontrol/flowcontrol.go  resizeableTokenBucket
     -> k8s.io/client-go/util/flowcontrol/throttle.go  TryAccept = limiter.AllowN(clock.Now(), 1)
     -> golang.org/x/time/rate@2019-03-08  rate.go  reserveN / advance (maxFutureReserve = 0)

   Units: time in integer nanoseconds (Unix ns; Go's zero time.Time is [zero_time]);
   tokens in integer multiples of 10^-9 token ("units"): with an integer rate q (tokens/s)
   the refill of e ns is exactly e*q units, n tokens are n*10^9 units, and the two
   float->Duration truncations of rate.go become integer quotients:
     durationFromTokens(x) = Duration(1e9 * (x / limit))   ~~>   Z.quot x_units q      (ns)
   The real code computes the same quantities in float64; the correspondence run compares
   every decision except those the model takes within a small band around the threshold. *)
From KG Require Import Prelude.
Open Scope Z_scope.

Definition NS : Z := 1000000000.
Definition max_dur : Z := 9223372036854775807.          (* time.Duration saturation of Time.Sub *)
Definition min_dur : Z := -9223372036854775808.
Definition zero_time : Z := -62135596800 * NS.            (* Unix ns of time.Time{} (year 1) *)

Record cfg := { qps : Z; burst : Z }.
Record st := { tok : Z; last : Z }.                       (* lim.tokens (units), lim.last (ns) *)

(* rate.NewLimiter: tokens = 0, last = time.Time{} *)
Definition init_st : st := {| tok := 0; last := zero_time |}.

Definition cap (c : cfg) : Z := burst c * NS.             (* float64(lim.burst), in units *)

Definition sub_sat (a b : Z) : Z := Z.max min_dur (Z.min max_dur (a - b)).   (* Time.Sub *)

(* lim.advance(now): returns (newLast, newTokens); lim is not changed *)
Definition advance (c : cfg) (s : st) (now : Z) : Z * Z :=
  let last0 := if now <? last s then now else last s in
  let maxel := Z.quot (cap c - tok s) (qps c) in          (* durationFromTokens(burst - tokens) *)
  let el0 := sub_sat now last0 in
  let el := if el0 >? maxel then maxel else el0 in
  let t := tok s + el * qps c in                          (* + tokensFromDuration(elapsed) *)
  let t' := if t >? cap c then cap c else t in
  (last0, t').

(* lim.AllowN(now, n) = reserveN(now, n, 0).ok together with the state update *)
Definition allow_n (c : cfg) (s : st) (now n : Z) : st * bool :=
  let '(last0, t) := advance c s now in
  let t2 := t - n * NS in
  let wait := if t2 <? 0 then Z.quot (- t2) (qps c) else 0 in      (* durationFromTokens(-tokens) *)
  if ((n <=? burst c) && (wait <=? 0))%bool
  then ({| tok := t2; last := now |}, true)
  else ({| tok := tok s; last := last0 |}, false).

(* a run of one limiter over calls (now, n); returns the decisions *)
Fixpoint run (c : cfg) (s : st) (calls : list (Z * Z)) : list bool :=
  match calls with
  | [] => []
  | (t, n) :: r => let '(s', ok) := allow_n c s t n in ok :: run c s' r
  end.

Fixpoint run_state (c : cfg) (s : st) (calls : list (Z * Z)) : st :=
  match calls with
  | [] => s
  | (t, n) :: r => run_state c (fst (allow_n c s t n)) r
  end.

(* observable events: (time, asked, granted?) *)
Record ev := { etime : Z; easked : Z; eok : bool }.
Definition mk_events (calls : list (Z * Z)) (oks : list bool) : list ev :=
  map (fun p => {| etime := fst (fst p); easked := snd (fst p); eok := snd p |}) (combine calls oks).
Definition trace (c : cfg) (s : st) (calls : list (Z * Z)) : list ev := mk_events calls (run c s calls).

(* ---------- resizeableTokenBucket ---------- *)
Record rtb := { rc : cfg; rs : st }.
Inductive op := OTry (now : Z) | OResize (q b : Z).

(* NewFlowControl(schema{TokenBucket{QPS,Burst}}) *)
Definition rtb_new (q b : Z) : rtb := {| rc := {| qps := q; burst := b |}; rs := init_st |}.

(* TryAcquire / Resize; the bool is the method's return value *)
Definition rtb_step (r : rtb) (o : op) : rtb * bool :=
  match o with
  | OTry now => let '(s', ok) := allow_n (rc r) (rs r) now 1 in ({| rc := rc r; rs := s' |}, ok)
  | OResize q b =>
      if ((qps (rc r) =? q) && (burst (rc r) =? b))%bool then (r, false)
      else (rtb_new q b, true)                             (* a NEW, full bucket *)
  end.

Fixpoint rtb_run (r : rtb) (ops : list op) : list bool :=
  match ops with
  | [] => []
  | o :: rest => let '(r', b) := rtb_step r o in b :: rtb_run r' rest
  end.

(* dispatcher.ServeHTTP: TryAcquire false -> 429 TooManyRequests, true -> the request is forwarded
   (status then comes from the upstream; 200 in the rig) *)
Definition dispatch_status (admitted : bool) (upstream_status : Z) : Z :=
  if admitted then upstream_status else 429.
