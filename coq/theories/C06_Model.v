(* C06 — model of the gateway-side token bucket.

   pkg/flowcontrols/flowcontrol/flowcontrol.go  resizeableTokenBucket
     -> k8s.io/client-go/util/flowcontrol/throttle.go  TryAccept = limiter.AllowN(clock.Now(), 1)
     -> golang.org/x/time/rate@2019-03-08  rate.go  reserveN / advance (maxFutureReserve = 0)

   Units: time in integer nanoseconds (Unix ns; Go's zero time.Time is [zero_time]);
   tokens in integer multiples of 10^-9 token ("units"): with an integer rate q (tokens/s)
   the refill of e ns is exactly e*q units, n tokens are n*10^9 units, and the two
   float->Duration truncations of rate.go become integer quotients:
     durationFromTokens(x) = Duration(1e9 * (x / limit))   ~~>   Z.quot x_units q      (ns)
   The real code computes the same quantities in float64; the correspondence run compares
   every decision except those the model takes within a small band around the threshold. *)
From KG Require Import Prelude.
Open Scope Z_scope.

Definition NS : Z := 1000000000.
Definition max_dur : Z := 9223372036854775807.          (* time.Duration saturation of Time.Sub *)
Definition min_dur : Z := -9223372036854775808.
Definition zero_time : Z := -62135596800 * NS.            (* Unix ns of time.Time{} (year 1) *)

Record cfg := { qps : Z; burst : Z }.
Record st := { tok : Z; last : Z }.                       (* lim.tokens (units), lim.last (ns) *)

(* rate.NewLimiter: tokens = 0, last = time.Time{} *)
Definition init_st : st := {| tok := 0; last := zero_time |}.

Definition cap (c : cfg) : Z := burst c * NS.             (* float64(lim.burst), in units *)

Definition sub_sat (a b : Z) : Z := Z.max min_dur (Z.min max_dur (a - b)).   (* Time.Sub *)

(* lim.advance(now): returns (newLast, newTokens); lim is not changed *)
Definition advance (c : cfg) (s : st) (now : Z) : Z * Z :=
  let last0 := if now <? last s then now else last s in
  let maxel := Z.quot (cap c - tok s) (qps c) in          (* durationFromTokens(burst - tokens) *)
  let el0 := sub_sat now last0 in
  let el := if el0 >? maxel then maxel else el0 in
  let t := tok s + el * qps c in                          (* + tokensFromDuration(elapsed) *)
  let t' := if t >? cap c then cap c else t in
  (last0, t').

(* lim.AllowN(now, n) = reserveN(now, n, 0).ok together with the state update *)
Definition allow_n (c : cfg) (s : st) (now n : Z) : st * bool :=
  let '(last0, t) := advance c s now in
  let t2 := t - n * NS in
  let wait := if t2 <? 0 then Z.quot (- t2) (qps c) else 0 in      (* durationFromTokens(-tokens) *)
  if ((n <=? burst c) && (wait <=? 0))%bool
  then ({| tok := t2; last := now |}, true)
  else ({| tok := tok s; last := last0 |}, false).

(* a run of one limiter over calls (now, n); returns the decisions *)
Fixpoint run (c : cfg) (s : st) (calls : list (Z * Z)) : list bool :=
  match calls with
  | [] => []
  | (t, n) :: r => let '(s', ok) := allow_n c s t n in ok :: run c s' r
  end.

Fixpoint run_state (c : cfg) (s : st) (calls : list (Z * Z)) : st :=
  match calls with
  | [] => s
  | (t, n) :: r => run_state c (fst (allow_n c s t n)) r
  end.

(* observable events: (time, asked, granted?) *)
Record ev := { etime : Z; easked : Z; eok : bool }.
Definition mk_events (calls : list (Z * Z)) (oks : list bool) : list ev :=
  map (fun p => {| etime := fst (fst p); easked := snd (fst p); eok := snd p |}) (combine calls oks).
Definition trace (c : cfg) (s : st) (calls : list (Z * Z)) : list ev := mk_events calls (run c s calls).

(* ---------- resizeableTokenBucket ---------- *)
Record rtb := { rc : cfg; rs : st }.
Inductive op := OTry (now : Z) | OResize (q b : Z).

(* NewFlowControl(schema{TokenBucket{QPS,Burst}}) *)
Definition rtb_new (q b : Z) : rtb := {| rc := {| qps := q; burst := b |}; rs := init_st |}.

(* TryAcquire / Resize; the bool is the method's return value *)
Definition rtb_step (r : rtb) (o : op) : rtb * bool :=
  match o with
  | OTry now => let '(s', ok) := allow_n (rc r) (rs r) now 1 in ({| rc := rc r; rs := s' |}, ok)
  | OResize q b =>
      if ((qps (rc r) =? q) && (burst (rc r) =? b))%bool then (r, false)
      else (rtb_new q b, true)                             (* a NEW, full bucket *)
  end.

Fixpoint rtb_run (r : rtb) (ops : list op) : list bool :=
  match ops with
  | [] => []
  | o :: rest => let '(r', b) := rtb_step r o in b :: rtb_run r' rest
  end.

(* dispatcher.ServeHTTP: TryAcquire false -> 429 TooManyRequests, true -> the request is forwarded
   (status then comes from the upstream; 200 in the rig) *)
Definition dispatch_status (admitted : bool) (upstream_status : Z) : Z :=
  if admitted then upstream_status else 429.

(* ---------- upstreamLimiter: the per-cluster map schema name -> limiter (pkg/flowcontrols/limiter.go) ----------
   Sync(spec): nothing if the spec equals the one synced last; otherwise every schema of the new spec is
   synced BY NAME into the map (created if absent; localWrapper.Sync: a changed type gives a new limiter,
   a token bucket gets Resize(qps, burst), which keeps the bucket when both are unchanged) and the names
   of the old spec that are not in the new one are deleted.  GetOrDefault(name): the entry, or the exempt
   default limiter (admits everything) when there is none.  Only token buckets are modelled in detail;
   [SOther] stands for a sibling schema of another type (max-in-flight, exempt), [None] for its limiter. *)
Inductive schema := STb (q b : Z) | SOther (kind : Z).
Definition fcspec := list (string * schema).
Definition entry := option rtb.
Record ulim := { uspec : fcspec; umap : list (string * entry) }.
Definition ulim_new : ulim := {| uspec := []; umap := [] |}.

Definition schema_eqb (a b : schema) : bool :=
  match a, b with
  | STb q1 b1, STb q2 b2 => ((q1 =? q2) && (b1 =? b2))%bool
  | SOther k1, SOther k2 => k1 =? k2
  | _, _ => false
  end.
Definition spec_eqb (a b : fcspec) : bool :=
  list_eqb (fun x y => (String.eqb (fst x) (fst y) && schema_eqb (snd x) (snd y))%bool) a b.

Fixpoint alookup {A} (k : string) (l : list (string * A)) : option A :=
  match l with [] => None | (k', v) :: r => if String.eqb k k' then Some v else alookup k r end.
Fixpoint aremove {A} (k : string) (l : list (string * A)) : list (string * A) :=
  match l with [] => [] | (k', v) :: r => if String.eqb k k' then aremove k r else (k', v) :: aremove k r end.
Definition aset {A} (k : string) (v : A) (l : list (string * A)) : list (string * A) := (k, v) :: aremove k l.

Definition sync_one (m : list (string * entry)) (name : string) (sc : schema) : list (string * entry) :=
  let e := match sc, alookup name m with
           | STb q b, Some (Some rt) => Some (fst (rtb_step rt (OResize q b)))   (* same type: Resize *)
           | STb q b, _ => Some (rtb_new q b)                                    (* absent / type changed *)
           | SOther _, _ => None
           end in
  aset name e m.

Fixpoint sync_entries (m : list (string * entry)) (spec : fcspec) : list (string * entry) :=
  match spec with [] => m | (n, sc) :: r => sync_entries (sync_one m n sc) r end.

Definition usync (u : ulim) (spec : fcspec) : ulim :=
  if spec_eqb (uspec u) spec then u
  else
    let m1 := sync_entries (umap u) spec in
    let deleted := filter (fun n => negb (str_mem n (map fst spec))) (map fst (uspec u)) in
    {| uspec := spec; umap := fold_left (fun m n => aremove n m) deleted m1 |}.

(* GetOrDefault(name).TryAcquire() at clock reading now *)
Definition utry (u : ulim) (name : string) (now : Z) : ulim * bool :=
  match alookup name (umap u) with
  | Some (Some rt) =>
      let '(rt', ok) := rtb_step rt (OTry now) in
      ({| uspec := uspec u; umap := aset name (Some rt') (umap u) |}, ok)
  | _ => (u, true)          (* exempt default limiter, or a sibling type that is not modelled *)
  end.

Inductive uop := UTry (now : Z) | USync (spec : fcspec).

(* decisions of the requests sent to schema [name] *)
Fixpoint urun (u : ulim) (name : string) (ops : list uop) : list bool :=
  match ops with
  | [] => []
  | UTry now :: r => let '(u', ok) := utry u name now in ok :: urun u' name r
  | USync spec :: r => urun (usync u spec) name r
  end.

(* the same requests seen by the bucket alone: a sync is a Resize to the values the spec gives the schema *)
Fixpoint rtb_tries (r : rtb) (ops : list op) : list bool :=
  match ops with
  | [] => []
  | OTry now :: rest => let '(r', ok) := rtb_step r (OTry now) in ok :: rtb_tries r' rest
  | OResize q b :: rest => rtb_tries (fst (rtb_step r (OResize q b))) rest
  end.

(* ---------- request level: dispatcher.ServeHTTP ----------
   The dispatcher asks the limiter of the matched policy's schema for one token for EVERY request the policy
   matches, whatever its kind (also for what the server classifies as long running: watch, pods/log,
   pods/exec, .../proxy): admitted -> forwarded, otherwise 429. *)
Inductive rkind := KGet | KList | KCreate | KUpdate | KDelete | KWatch | KLog | KExec | KProxy.

Definition req_step (r : rtb) (k : rkind) (now up : Z) : rtb * (bool * Z) :=
  let '(r', ok) := rtb_step r (OTry now) in (r', (ok, dispatch_status ok up)).

Fixpoint req_run (r : rtb) (reqs : list (rkind * Z)) : list (bool * Z) :=
  match reqs with
  | [] => []
  | (k, now) :: rest => let '(r', a) := req_step r k now 200 in a :: req_run r' rest
  end.
