(* C07 — case format of the correspondence run and its evaluator. *)
From KG Require Import Prelude C07_Float C07_Model C07_Spec.
Open Scope Z_scope.

(* ---- what was issued and observed on the real rateLimiter ---- *)
Inductive rres := RAns (a : list (Z * Z)) | RErr | RPanic.
Record mreport := {
  r_i : Z;                     (* instance *)
  r_items : list mitem;        (* its items (with the upstream level on record before the step) *)
  r_cur : list Z;              (* the current quota each item carried (honest: last answer of that item type) *)
  r_res : rres                 (* answered items / error / panic *)
}.
Inductive mop :=
| MReports (rs : list mreport)                 (* issued from concurrent goroutines *)
| MSet (sid : Z) (t : ftype) (limit burst : Z)
| MRemove (i : Z)
| MOverlap (r : mreport) (sid : Z) (t : ftype) (limit burst : Z).
    (* the report had looked the upstream state up and was parked before the per-upstream lock
       while the schema change was handled; then it went on *)
(* the record of one schema after a step, by limit member *)
Record sview := {
  v_s : Z;
  v_max : list (Z * (Z * Z)); v_bucket : list (Z * (Z * Z));
  v_rec_max : Z; v_rec_qps : Z
}.

Inductive case :=
| CCalc (i : inputs) (obs : option (Z * Z))                  (* one calculateNextQuota call; None = panic *)
| CHist (extra : Z) (schemas : list (Z * (ftype * (Z * Z)))) (tr : list (mop * list sview)).

Definition is_bucket (t : ftype) : bool := match t with TBucket => true | TMax => false end.
Definition typ_of (bk : bool) : ftype := if bk then TBucket else TMax.

Definition zz_eqb (a b : Z * Z) : bool := (fst a =? fst b) && (snd a =? snd b).
Definition ans_eqb := opt_eqb zz_eqb.
Definition ent_eqb (a b : Z * (Z * Z)) : bool := (fst a =? fst b) && zz_eqb (snd a) (snd b).

Fixpoint insert_sorted {A} (e : Z * A) (l : list (Z * A)) : list (Z * A) :=
  match l with
  | [] => [e]
  | x :: r => if fst e <=? fst x then e :: l else x :: insert_sorted e r
  end.
Definition sort_by_id {A} (l : list (Z * A)) := fold_right insert_sorted [] l.

(* ================= the model's step on one schema, in the vocabulary of the spec ================= *)
Definition sop_of_entry (r : rentry) : sop :=
  match r with
  | EReport i typed count used level up clients => SRep i typed count used level up clients
  | EDrop i => SDrop i true
  end.

(* executed in the listed order; collects the current quota and the answer of every item *)
Fixpoint run_entries (s : sstate) (rs : list rentry) : sstate * (list Z * list (option (Z * Z))) :=
  match rs with
  | [] => (s, ([], []))
  | r :: rest =>
      let (s1, a) := sstep s (sop_of_entry r) in
      let '(s2, (cs, ans)) := run_entries s1 rest in
      match r with
      | EReport i typed _ _ _ _ _ => (s2, (current_of s i typed :: cs, a :: ans))
      | EDrop _ => (s2, (cs, ans))
      end
  end.

Definition obs_of (s : sstate) (cs : list Z) (ans : list (option (Z * Z))) : sobs :=
  {| o_cur := cs; o_ans := ans; o_quotas := h_quotas s; o_oquotas := h_oquotas s;
     o_rec := h_rec s; o_orec := h_orec s |}.

Definition model_step (s : sstate) (o : bop) : sstate * sobs :=
  match o with
  | BReports rs => let '(s', (cs, ans)) := run_entries s rs in (s', obs_of s' cs ans)
  | BSet bk n g => let s' := fst (sstep s (SSet (typ_of bk) n g)) in (s', obs_of s' [] [])
  | BRemove i => let s' := fst (sstep s (SDrop i false)) in (s', obs_of s' [] [])
  | BOverlap true r bk n g =>            (* the lock served the report first *)
      let '(s1, (cs, ans)) := run_entries s [r] in
      let s2 := fst (sstep s1 (SSet (typ_of bk) n g)) in (s2, obs_of s2 cs ans)
  | BOverlap false r bk n g =>           (* the change first *)
      let s1 := fst (sstep s (SSet (typ_of bk) n g)) in
      let '(s2, (cs, ans)) := run_entries s1 [r] in (s2, obs_of s2 cs ans)
  end.

(* the model's own trace of a list of batches (used by the history theorems): the reports of a
   batch are executed in the listed order; any other serialisation is another list *)
Fixpoint model_trace (s : sstate) (bs : list bop) : list (bop * sobs) :=
  match bs with
  | [] => []
  | o :: r => let (s', b) := model_step s o in (o, b) :: model_trace s' r
  end.

(* ================= several schemas: what an operation means for each schema ================= *)
Definition entry_of (clients : Z) (sid : Z) (i : Z) (items : list mitem) : rentry :=
  match find_item sid items with
  | Some it => EReport i (match it_typ it with Some _ => true | None => false end) (it_count it)
                       (it_used it) (it_level it) (it_up it) clients
  | None => EDrop i
  end.

(* what was issued (without the observations) *)
Inductive iop :=
| IReports (rs : list (Z * list mitem))
| ISet (sid : Z) (t : ftype) (limit burst : Z)
| IRemove (i : Z)
| IOverlap (report_first : bool) (r : Z * list mitem) (sid : Z) (t : ftype) (limit burst : Z).

(* item types against the schemas as they are after schema [sid] got type [t] *)
Definition item_mismatch_after (M : mstate) (sid : Z) (t : ftype) (it : mitem) : bool :=
  match it_typ it, find_schema (it_s it) (m_schemas M) with
  | Some t', Some s => negb (ftype_eqb t' (if it_s it =? sid then t else h_typ s))
  | _, _ => false
  end.

(* the per-schema operation of the model; reports whose item types do not fit are refused as a whole *)
Definition derive (M : mstate) (clients : Z) (sid : Z) (o : iop) : option bop :=
  match o with
  | IReports rs =>
      Some (BReports (flat_map (fun r => if report_mismatch M (snd r) then []
                                         else [entry_of clients sid (fst r) (snd r)]) rs))
  | ISet sid' t n g => if sid' =? sid then Some (BSet (is_bucket t) n g) else None
  | IRemove i => Some (BRemove i)
  | IOverlap first r sid' t n g =>
      let refused := if first then report_mismatch M (snd r)
                     else existsb (item_mismatch_after M sid' t) (snd r) in
      let e := entry_of clients sid (fst r) (snd r) in
      if sid' =? sid
      then Some (if refused then BSet (is_bucket t) n g else BOverlap first e (is_bucket t) n g)
      else if refused then None else Some (BReports [e])
  end.

Definition issued (o : mop) : iop :=
  match o with
  | MReports rs => IReports (map (fun r => (r_i r, r_items r)) rs)
  | MSet sid t n g => ISet sid t n g
  | MRemove i => IRemove i
  | MOverlap r sid t n g => IOverlap false (r_i r, r_items r) sid t n g
  end.

Definition clients_after (M : mstate) (o : mop) : list Z :=
  match o with
  | MReports rs => fold_left (fun l r => zadd (r_i r) l) rs (m_clients M)    (* all heartbeat first *)
  | MSet _ _ _ _ => m_clients M
  | MRemove i => zremove i (m_clients M)
  | MOverlap r _ _ _ _ => zadd (r_i r) (m_clients M)
  end.

(* one step of the model on all schemas: new state and, per schema, what it did and saw *)
Definition mstep_with (M : mstate) (cl : list Z) (o : iop)
  : mstate * list (Z * option (bop * sobs)) :=
  let clients := m_extra M + Z.of_nat (List.length cl) in
  let res := map (fun ks => match derive M clients (fst ks) o with
                            | Some b => let (s', ob) := model_step (snd ks) b in (fst ks, s', Some (b, ob))
                            | None => (fst ks, snd ks, None)
                            end) (m_schemas M) in
  ({| m_schemas := map (fun x => (fst (fst x), snd (fst x))) res; m_clients := cl; m_extra := m_extra M |},
   map (fun x => (fst (fst x), snd x)) res).

(* ================= projection of the observations on one schema ================= *)
Fixpoint type_of_schema (sid : Z) (types : list (Z * ftype)) : option ftype :=
  match types with [] => None | (k, t) :: r => if k =? sid then Some t else type_of_schema sid r end.

Definition obs_mismatch (types : list (Z * ftype)) (items : list mitem) : bool :=
  existsb (fun it => match it_typ it, type_of_schema (it_s it) types with
                     | Some t, Some t' => negb (ftype_eqb t t')
                     | _, _ => false
                     end) items.

Fixpoint index_of (sid : Z) (items : list mitem) (k : nat) : option nat :=
  match items with [] => None | it :: r => if it_s it =? sid then Some k else index_of sid r (S k) end.

(* entry, current and answer of one report for schema [sid] ([] = the report does not concern the trace) *)
Definition proj_report (types : list (Z * ftype)) (sid : Z) (r : mreport)
  : list (rentry * option (Z * option (Z * Z))) :=
  let e := entry_of 0 sid (r_i r) (r_items r) in
  match index_of sid (r_items r) 0%nat, r_res r with
  | Some j, RAns a => [(e, Some (nth j (r_cur r) 0, nth_error a j))]
  | None, RAns _ => [(e, None)]
  | Some j, RErr => if obs_mismatch types (r_items r) then [] else [(e, Some (nth j (r_cur r) 0, None))]
  | Some j, RPanic => [(e, Some (nth j (r_cur r) 0, None))]
  | None, _ => []
  end.

Fixpoint find_view (sid : Z) (vs : list sview) : option sview :=
  match vs with [] => None | v :: r => if v_s v =? sid then Some v else find_view sid r end.

Definition view_obs (t : ftype) (v : sview) (cs : list Z) (ans : list (option (Z * Z))) : sobs :=
  match t with
  | TMax => {| o_cur := cs; o_ans := ans; o_quotas := v_max v; o_oquotas := v_bucket v;
               o_rec := v_rec_max v; o_orec := v_rec_qps v |}
  | TBucket => {| o_cur := cs; o_ans := ans; o_quotas := v_bucket v; o_oquotas := v_max v;
                  o_rec := v_rec_qps v; o_orec := v_rec_max v |}
  end.

Definition types_after (types : list (Z * ftype)) (o : mop) : list (Z * ftype) :=
  match o with
  | MSet sid t _ _ => map (fun kt => if fst kt =? sid then (fst kt, t) else kt) types
  | MOverlap _ sid t _ _ => map (fun kt => if fst kt =? sid then (fst kt, t) else kt) types
  | _ => types
  end.

Definition project (types : list (Z * ftype)) (sid : Z) (o : mop) (vs : list sview) : option (bop * sobs) :=
  match find_view sid vs, type_of_schema sid (types_after types o) with
  | Some v, Some t =>
      match o with
      | MReports rs =>
          let ps := flat_map (proj_report types sid) rs in
          let items := flat_map (fun p => match snd p with Some ca => [ca] | None => [] end) ps in
          Some (BReports (map fst ps), view_obs t v (map fst items) (map snd items))
      | MSet sid' t' n g => if sid' =? sid then Some (BSet (is_bucket t') n g, view_obs t v [] []) else None
      | MRemove i => Some (BRemove i, view_obs t v [] [])
      | MOverlap r sid' t' n g =>
          (* a refusal is expected if the items do not fit the types before or after the change *)
          let fits := negb (obs_mismatch types (r_items r) || obs_mismatch (types_after types o) (r_items r)) in
          let ps := proj_report (if fits then types else []) sid r in
          let ps := match r_res r with RErr => if fits then ps else [] | _ => ps end in
          let items := flat_map (fun p => match snd p with Some ca => [ca] | None => [] end) ps in
          if sid' =? sid
          then match ps with
               | [] => Some (BSet (is_bucket t') n g, view_obs t v [] [])
               | p :: _ => Some (BOverlap false (fst p) (is_bucket t') n g, view_obs t v (map fst items) (map snd items))
               end
          else match ps with
               | [] => None
               | _ => Some (BReports (map fst ps), view_obs t v (map fst items) (map snd items))
               end
      end
  | _, _ => None
  end.

(* ================= agreement: some serialisation of the batch explains the observations ================= *)
Fixpoint inserts {A} (x : A) (l : list A) : list (list A) :=
  match l with
  | [] => [[x]]
  | y :: r => (x :: l) :: map (cons y) (inserts x r)
  end.
Fixpoint perms {A} (l : list A) : list (list A) :=
  match l with
  | [] => [[]]
  | x :: r => flat_map (inserts x) (perms r)
  end.

(* the items of a batch with what they carried and got, keyed by instance (distinct within a batch) *)
Fixpoint keyed (rs : list rentry) (cs : list Z) (ans : list (option (Z * Z))) : list (Z * (Z * option (Z * Z))) :=
  match rs with
  | [] => []
  | EDrop _ :: r => keyed r cs ans
  | EReport i _ _ _ _ _ _ :: r =>
      match cs, ans with
      | c :: cs', a :: ans' => (i, (c, a)) :: keyed r cs' ans'
      | _, _ => [(i, (-1, None))]
      end
  end.
Definition keyed_eqb (a b : Z * (Z * option (Z * Z))) : bool :=
  (fst a =? fst b) && (fst (snd a) =? fst (snd b)) && ans_eqb (snd (snd a)) (snd (snd b)).

Definition drops (rs : list rentry) : list Z :=
  flat_map (fun r => match r with EDrop i => [i] | _ => [] end) rs.
Fixpoint insert_z (x : Z) (l : list Z) : list Z :=
  match l with [] => [x] | y :: r => if x <=? y then x :: l else y :: insert_z x r end.

Definition bop_sobs_eqb (m p : bop * sobs) : bool :=
  let (mb, mo) := m in let (pb, po) := p in
  (match mb, pb with
   | BReports mr, BReports pr =>
       list_eqb keyed_eqb (sort_by_id (keyed mr (o_cur mo) (o_ans mo))) (sort_by_id (keyed pr (o_cur po) (o_ans po)))
       && list_eqb Z.eqb (fold_right insert_z [] (drops mr)) (fold_right insert_z [] (drops pr))
   | BSet b1 n1 g1, BSet b2 n2 g2 => Bool.eqb b1 b2 && (n1 =? n2) && (g1 =? g2)
   | BRemove i1, BRemove i2 => i1 =? i2
   | BOverlap _ r1 b1 n1 g1, BOverlap _ r2 b2 n2 g2 =>      (* the order is not observed *)
       list_eqb keyed_eqb (keyed [r1] (o_cur mo) (o_ans mo)) (keyed [r2] (o_cur po) (o_ans po))
       && list_eqb Z.eqb (drops [r1]) (drops [r2]) && Bool.eqb b1 b2 && (n1 =? n2) && (g1 =? g2)
   | _, _ => false
   end)
  && list_eqb ent_eqb (sort_by_id (o_quotas mo)) (o_quotas po)
  && list_eqb ent_eqb (sort_by_id (o_oquotas mo)) (o_oquotas po)
  && (o_rec mo =? o_rec po) && (o_orec mo =? o_orec po).

Definition step_agrees (types : list (Z * ftype)) (o : mop) (vs : list sview)
           (ms : list (Z * option (bop * sobs))) : bool :=
  forallb (fun km => opt_eqb bop_sobs_eqb (snd km) (project types (fst km) o vs)) ms.

Definition reorder (o : mop) : list iop :=
  match o with
  | MReports rs => map (fun p => issued (MReports p)) (perms rs)
  | MOverlap r sid t n g => [IOverlap false (r_i r, r_items r) sid t n g; IOverlap true (r_i r, r_items r) sid t n g]
  | _ => [issued o]
  end.

Fixpoint first_agreeing (M : mstate) (types : list (Z * ftype)) (o : mop) (vs : list sview) (cands : list iop)
  : option mstate :=
  match cands with
  | [] => None
  | c :: r =>
      let (M', ms) := mstep_with M (clients_after M o) c in
      if step_agrees types o vs ms then Some M' else first_agreeing M types o vs r
  end.

Fixpoint agree_hist (M : mstate) (types : list (Z * ftype)) (tr : list (mop * list sview)) : bool :=
  match tr with
  | [] => true
  | (o, vs) :: r =>
      match first_agreeing M types o vs (reorder o) with
      | Some M' => agree_hist M' (types_after types o) r
      | None => false
      end
  end.

(* ================= the spec on the observations, schema by schema ================= *)
Fixpoint schema_trace (types : list (Z * ftype)) (sid : Z) (tr : list (mop * list sview)) : list (bop * sobs) :=
  match tr with
  | [] => []
  | (o, vs) :: r =>
      match project types sid o vs with
      | Some x => x :: schema_trace (types_after types o) sid r
      | None => schema_trace (types_after types o) sid r
      end
  end.

Definition all9 : list bool := [true; true; true; true; true; true; true; true; true].

Definition minit (extra : Z) (schemas : list (Z * (ftype * (Z * Z)))) : mstate :=
  {| m_schemas := map (fun x => (fst x, sinit (fst (snd x)) (fst (snd (snd x))) (snd (snd (snd x))))) schemas;
     m_clients := []; m_extra := extra |}.

(* clause layout: agree, answered, floor, cap, step_safe, no_growth, burst, over_commit, count, burst_mono *)
Definition eval (c : case) : list bool :=
  match c with
  | CCalc i obs =>
      let agree := ans_eqb (Some (calc_next_quota i)) obs in
      match obs with
      | Some (q, b) =>
          if i_count i
          then [agree; true; true; true; true; true; true; true;
                count_ok (is_bucket (i_typ i)) (i_total i) (i_gburst i) q b; true]
          else
            let honest := 0 <=? i_current i in
            [ agree; true; floor_ok q; cap_ok (i_total i) q;
              (* the sum after the answer is allocated - current + q *)
              if honest then step_safe_ok (i_total i) (i_allocated i) (i_allocated i - i_current i + q) q else true;
              if honest then no_growth_ok (i_total i) (i_allocated i) (i_current i) q else true;
              burst_ok (is_bucket (i_typ i)) (i_total i) (i_gburst i) q b; true; true; true ]
      | None => [agree; false; true; true; true; true; true; true; true; true]      (* not answered *)
      end
  | CHist extra schemas tr =>
      let types := map (fun x => (fst x, fst (snd x))) schemas in
      agree_hist (minit extra schemas) types tr ::
      fold_right (fun x acc =>
                    and_rows (hist_ok (is_bucket (fst (snd x))) (fst (snd (snd x))) (snd (snd (snd x))) [] []
                                      (schema_trace types (fst x) tr)) acc)
                 all9 schemas
  end.
