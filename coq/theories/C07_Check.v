(* C07 — case format of the correspondence run and its evaluator. *)
From KG Require Import Prelude C07_Float C07_Model C07_Spec.
Open Scope Z_scope.

Inductive case :=
| CCalc (i : inputs) (obs : option (Z * Z))                  (* one calculateNextQuota call; None = panic *)
| CHist (t : ftype) (limit burst extra : Z) (tr : list (bop * sobs)).   (* a history on a real rateLimiter *)

Definition is_bucket (t : ftype) : bool := match t with TBucket => true | TMax => false end.

Definition zz_eqb (a b : Z * Z) : bool := (fst a =? fst b) && (snd a =? snd b).
Definition ans_eqb := opt_eqb zz_eqb.
Definition ent_eqb (a b : Z * (Z * Z)) : bool := (fst a =? fst b) && zz_eqb (snd a) (snd b).

Fixpoint insert_sorted (e : Z * (Z * Z)) (l : list (Z * (Z * Z))) : list (Z * (Z * Z)) :=
  match l with
  | [] => [e]
  | x :: r => if fst e <=? fst x then e :: l else x :: insert_sorted e r
  end.
Definition sort_quotas (l : list (Z * (Z * Z))) := fold_right insert_sorted [] l.

(* ---- model side of a batch ---- *)
Definition report_op (r : Z * Z * Z * Z) : op :=
  match r with (i, used, level, up) => OReport i used level up end.

Definition ops_of (o : bop) : list op :=
  match o with
  | BReports rs => map report_op rs
  | BSetLimit n g => [OSetLimit n g]
  | BRemove i => [ORemove i]
  end.

(* run the reports (tagged with their position in the batch) in the given order *)
Fixpoint run_tagged (s : hstate) (rs : list (nat * (Z * Z * Z * Z))) : hstate * list (nat * option (Z * Z)) :=
  match rs with
  | [] => (s, [])
  | (k, r) :: rest =>
      let (s1, a) := step s (report_op r) in
      let (s2, l) := run_tagged s1 rest in
      (s2, (k, a) :: l)
  end.

Fixpoint tag {A} (k : nat) (l : list A) : list (nat * A) :=
  match l with [] => [] | x :: r => (k, x) :: tag (S k) r end.

Fixpoint inserts {A} (x : A) (l : list A) : list (list A) :=
  match l with
  | [] => [[x]]
  | y :: r => (x :: l) :: map (cons y) (inserts x r)
  end.
Fixpoint perms {A} (l : list A) : list (list A) :=
  match l with
  | [] => [[]]
  | x :: r => flat_map (inserts x) (perms r)
  end.

Fixpoint find_tag (k : nat) (l : list (nat * option (Z * Z))) : option (Z * Z) :=
  match l with
  | [] => None
  | (j, a) :: r => if Nat.eqb j k then a else find_tag k r
  end.

Definition state_matches (s : hstate) (b : sobs) : bool :=
  list_eqb ent_eqb (sort_quotas (h_quotas s)) (o_quotas b) && (h_rec s =? o_rec b).

(* some serialisation of the batch explains what was observed *)
Fixpoint first_match (s : hstate) (cands : list (list (nat * (Z * Z * Z * Z)))) (n : nat) (b : sobs)
  : option hstate :=
  match cands with
  | [] => None
  | c :: r =>
      let (s', tagged) := run_tagged s c in
      if list_eqb ans_eqb (map (fun k => find_tag k tagged) (seq 0 n)) (o_ans b) && state_matches s' b
      then Some s' else first_match s r n b
  end.

Definition agree_step (s : hstate) (o : bop) (b : sobs) : option hstate :=
  match o with
  | BReports rs =>
      if list_eqb Z.eqb (map (fun r => current_of s (fst (fst (fst r)))) rs) (o_cur b)
      then
        (* the batch's instances heartbeat first, then their reports overlap *)
        let s0 := fold_left (fun st r => fst (step st (OBeat (fst (fst (fst r)))))) rs s in
        first_match s0 (perms (tag 0%nat rs)) (List.length rs) b
      else None
  | _ =>
      let s' := fold_left (fun st x => fst (step st x)) (ops_of o) s in
      if state_matches s' b then Some s' else None
  end.

Fixpoint agree_hist (s : hstate) (tr : list (bop * sobs)) : bool :=
  match tr with
  | [] => true
  | (o, b) :: r => match agree_step s o b with Some s' => agree_hist s' r | None => false end
  end.

(* clause layout: agree, floor, cap, step_safe, no_growth, burst, over_commit, burst_mono *)
Definition eval (c : case) : list bool :=
  match c with
  | CCalc i obs =>
      let agree := ans_eqb (calc_next_quota i) obs in
      match obs with
      | Some (q, b) =>
          if i_count i then [agree; true; true; true; true; true; true; true]
          else
            let honest := 0 <=? i_current i in
            [ agree; floor_ok q; cap_ok (i_total i) q;
              (* the sum after the answer is allocated - current + q *)
              if honest then step_safe_ok (i_total i) (i_allocated i) (i_allocated i - i_current i + q) q else true;
              if honest then no_growth_ok (i_total i) (i_allocated i) (i_current i) q else true;
              burst_ok (is_bucket (i_typ i)) (i_total i) (i_gburst i) q b; true; true ]
      | None => [agree; true; true; true; true; true; true; true]
      end
  | CHist t limit burst extra tr =>
      agree_hist (init t limit burst extra) tr :: hist_ok (is_bucket t) limit burst [] tr
  end.

(* ---- the model's own trace of a list of batches (used by the history theorems):
   the reports of a batch are executed in the listed order, after the heartbeats of
   all its instances; any other serialisation is another list ---- *)
Fixpoint run_reports (s : hstate) (rs : list (Z * Z * Z * Z)) : hstate * (list Z * list (option (Z * Z))) :=
  match rs with
  | [] => (s, ([], []))
  | r :: rest =>
      let c := current_of s (fst (fst (fst r))) in
      let (s1, a) := step s (report_op r) in
      let '(s2, (cs, ans)) := run_reports s1 rest in
      (s2, (c :: cs, a :: ans))
  end.

Definition beat_all (s : hstate) (rs : list (Z * Z * Z * Z)) : hstate :=
  fold_left (fun st r => fst (step st (OBeat (fst (fst (fst r)))))) rs s.

Definition model_step (s : hstate) (o : bop) : hstate * sobs :=
  match o with
  | BReports rs =>
      let '(s', (cs, ans)) := run_reports (beat_all s rs) rs in
      (s', {| o_cur := cs; o_ans := ans; o_quotas := h_quotas s'; o_rec := h_rec s' |})
  | BSetLimit n g =>
      let s' := fst (step s (OSetLimit n g)) in
      (s', {| o_cur := []; o_ans := []; o_quotas := h_quotas s'; o_rec := h_rec s' |})
  | BRemove i =>
      let s' := fst (step s (ORemove i)) in
      (s', {| o_cur := []; o_ans := []; o_quotas := h_quotas s'; o_rec := h_rec s' |})
  end.

Fixpoint model_trace (s : hstate) (bs : list bop) : list (bop * sobs) :=
  match bs with
  | [] => []
  | o :: r => let (s', b) := model_step s o in (o, b) :: model_trace s' r
  end.
