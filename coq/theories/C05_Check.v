(* C05 — case format of the correspondence run and its evaluator. *)
From KG Require Import Prelude C05_Model C05_Spec.
Open Scope Z_scope.

Inductive case :=
(* schedule case: initial limit, goroutine programs, schedule; observed: trace of effective steps,
   TryAcquire results per goroutine, final counter / capacity, how many of max+1 fresh requests got in *)
| CSched (m0 : Z) (progs : list (list cmd)) (sched : list nat)
         (tr : list tent) (res : list (list bool)) (cnt mx refill : Z)
(* wrapper history: keys whose state is observed, ops with (result, view after the op) *)
| CHist (keys : list (string * string)) (tr : list (wop * (Z * list (Z * Z * Z * Z)))).

Definition tent_eqb (a b : tent) : bool :=
  let '(g, l, e, x) := a in let '(g', l', e', x') := b in
  (g =? g') && (l =? l') && (e =? e') && (x =? x').
Definition view_eqb (a b : Z * Z * Z * Z) : bool := tent_eqb a b.

Definition agree_sched m0 progs sched tr res cnt mx : bool :=
  let o := model_sched m0 progs sched in
  list_eqb tent_eqb (o_trace o) tr &&
  list_eqb (list_eqb Bool.eqb) (o_results o) res &&
  (o_count o =? cnt) && (o_max o =? mx).

Definition agree_hist keys (tr : list (wop * (Z * list (Z * Z * Z * Z)))) : bool :=
  list_eqb (fun (m b : Z * list (Z * Z * Z * Z)) =>
              (fst m =? fst b) &&
              match snd b with [] => true (* state not observable at this point *) | _ => list_eqb view_eqb (snd m) (snd b) end)
           (wrun world0 keys (map fst tr)) (map snd tr).

(* clause layout: agree, sched_bound, sched_admit, quiescent, refill, hist_bound, hist_no_spurious_reject *)
Definition eval (c : case) : list bool :=
  match c with
  | CSched m0 progs sched tr res cnt mx refill =>
      [ agree_sched m0 progs sched tr res cnt mx;
        sched_bound_ok m0 tr; sched_admit_ok m0 tr; quiescent_ok m0 tr cnt; refill_ok m0 tr mx refill;
        true; true ]
  | CHist keys tr =>
      let l := map (fun p => (fst p, fst (snd p))) tr in
      [ agree_hist keys tr; true; true; true; true; hist_bound_ok l; hist_noleak_ok l ]
  end.
