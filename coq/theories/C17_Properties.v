(* C17 — property theorems (statements only; proofs live in C17_Proofs.v).
   normalize_rule / filter_rules_adm model plugin/admission/upstreamcluster/admission.go;
   rule_matches / match_policies / match_attributes are C01's model of the matcher;
   rule_sem is the documented rule semantics (C01_Spec). *)
From KG Require Import Prelude C01_Model C01_Spec C17_Model C17_Spec C17_Proofs.
Open Scope string_scope.

(* for EVERY rule and EVERY request the stored (normalised) rule matches iff the submitted rule does *)
Theorem C17_same_matching : forall r a, rule_matches a (normalize_rule r) = rule_matches a r.
Proof. exact same_matching. Qed.
Print Assumptions C17_same_matching.

(* normalising an already normalised rule changes nothing *)
Theorem C17_idempotent : forall r, normalize_rule (normalize_rule r) = normalize_rule r.
Proof. exact idempotent. Qed.
Print Assumptions C17_idempotent.

(* hence routing is unchanged: same policy index, same flow-control name and upstream set, same rejections *)
Theorem C17_routing_unchanged : forall a ps eps,
  match_policies a (map normalize_policy ps) = match_policies a ps /\
  match_attributes a (map normalize_policy ps) eps = match_attributes a ps eps.
Proof. intros a ps eps. split; [apply routing_unchanged|apply attributes_unchanged]. Qed.
Print Assumptions C17_routing_unchanged.

(* the stored rule also means the same under the documented semantics *)
Theorem C17_same_semantics : forall r a, rule_sem a (normalize_rule r) = rule_sem a r.
Proof. exact same_semantics. Qed.
Print Assumptions C17_same_semantics.

(* key lemma, per field: filtering the normalised list gives the matcher what filtering the submitted list gives,
   and emptiness (which decides optional fields) is preserved *)
Theorem C17_field_preserved : forall rules,
  snd (filter_rules (filter_rules_adm rules)) = snd (filter_rules rules) /\
  (snd (filter_rules rules) = false ->
   fst (filter_rules (filter_rules_adm rules)) = fst (filter_rules rules)) /\
  list_len0 (filter_rules_adm rules) = list_len0 rules.
Proof.
  intros rules. destruct (filter_after_adm rules) as [H1 H2]. repeat split; [exact H1|exact H2|apply len0_adm].
Qed.
Print Assumptions C17_field_preserved.

(* a normalised field is ["*"], or only plain entries, or only '-' entries (possibly empty) *)
Theorem C17_normal_form : forall rules,
  filter_rules_adm rules = ["*"] \/ Forall pos_entry (filter_rules_adm rules) \/
  Forall neg_entry (filter_rules_adm rules).
Proof. exact normal_form. Qed.
Print Assumptions C17_normal_form.

(* the model's own outputs satisfy the executable spec clauses used on the real code *)
Theorem C17_model_meets_spec : forall rs reqs,
  let ns := map normalize_rule rs in
  let o := C17_Spec.mkObs ns (map normalize_rule ns) ns (map normalize_rule ns)
             (map (fun r => map (fun a => rule_matches a r) reqs) rs)
             (map (fun r => map (fun a => rule_matches a r) reqs) ns)
             (map (fun a => match_policies a (policies_of rs)) reqs)
             (map (fun a => match_policies a (policies_of ns)) reqs) in
  same_matching_ok o = true /\ idempotent_ok o = true.
Proof. exact model_meets_spec. Qed.
Print Assumptions C17_model_meets_spec.

(* non-vacuity: the rule of admission_test.go, plus requests it does and does not match *)
Definition ex_rule : rule :=
  mkRule ["*"; "get"; "-delete"] ["-apps"; "rbac"] ["-deployments"; "-statefulsets"] ["-apps"; "rbac"]
         ["-apps"; "rbac"] [mkSA "default" "default"] ["-apps"; "rbac"] ["-apps"; "rbac"].
Example C17_nonvacuous :
  normalize_rule ex_rule =
    mkRule ["*"] ["rbac"] ["-deployments"; "-statefulsets"] ["rbac"] ["rbac"] [mkSA "default" "default"]
           ["rbac"] ["rbac"] /\
  normalize_rule ex_rule <> ex_rule /\
  (let a := mkAttrs "delete" "rbac" "roles" "" "rbac" "" "rbac" ["rbac"] true in
   rule_matches a ex_rule = true /\ rule_matches a (normalize_rule ex_rule) = true) /\
  (let a := mkAttrs "delete" "rbac" "deployments" "" "rbac" "" "rbac" ["rbac"] true in
   rule_matches a ex_rule = false /\ rule_matches a (normalize_rule ex_rule) = false) /\
  (let a := mkAttrs "get" "" "" "" "" "rbac" "system:serviceaccount:default:default" ["rbac"; "x"] false in
   rule_matches a ex_rule = true /\ rule_matches a (normalize_rule ex_rule) = true).
Proof. vm_compute. repeat split; try reflexivity. discriminate. Qed.

(* non-vacuity of the normal form: each of the three shapes occurs *)
Example C17_normal_form_nonvacuous :
  filter_rules_adm ["-a"; "b"; "*"; "c"] = ["*"] /\ filter_rules_adm ["-a"; "b"; "-c"; "b"; ""] = ["b"; "b"; ""] /\
  filter_rules_adm ["-a"; "-"; "-a"] = ["-a"; "-"; "-a"] /\ filter_rules_adm [] = [].
Proof. vm_compute. repeat split; reflexivity. Qed.
