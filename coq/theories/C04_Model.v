(* C04 — implementation model: what the gateway does to a request on its way to
   the upstream and to the upstream's answer on its way back, and how it answers
   the requests it terminates itself.

   Mirrors (file references are to /repo, repaired by C04_rawpath_residue.diff and
   C04_cache_control.diff):
     pkg/gateway/endpoints/filters/upstreaminfo.go     WithUpstreamInfo (cluster not proxied)
     pkg/gateway/proxy/dispatcher/dispatcher.go        flow control, endpoint pick, location rebuild
     pkg/gateway/proxy/dispatcher/upgradeaware.go      UpgradeAwareHandler.ServeHTTP (non-upgrade path)
     pkg/util/reverseproxy/reverseproxy.go             joinURLPath/Director, header handling, response copy
     pkg/gateway/proxy/dispatcher/status.go            responseError / proxyErrorResponder
     pkg/gateway/endpoints/response/termination.go     TerminateWithError
   and, as a model of net/url and net/http (validated by the correspondence run only):
     url.ParseRequestURI/setPath, URL.EscapedPath, validEncoded, shouldEscape,
     url.ParseQuery, Values.Encode, URL.RequestURI, http.Transport's request
     writing (User-Agent, Accept-Encoding), response header reading. *)
From KG Require Import Prelude C02_Model.
Open Scope Z_scope.
Open Scope string_scope.
Open Scope list_scope.

(* ------------------------------------------------------------------ net/url *)
(* shouldEscape(c, encodePath) *)
Definition esc_path (c : ascii) : bool :=
  if is_alnum c then false else negb (char_in c "-_.~$&+,/:;=@").
(* shouldEscape(c, encodePathSegment) *)
Definition esc_seg (c : ascii) : bool :=
  if is_alnum c then false else negb (char_in c "-_.~$&+:=@").
(* shouldEscape(c, encodeQueryComponent) *)
Definition esc_query (c : ascii) : bool :=
  if is_alnum c then false else negb (char_in c "-_.~").

Definition path_escape (s : string) : string := escape esc_path false s.       (* escape(s, encodePath) *)
Definition seg_escape (s : string) : string := escape esc_seg false s.         (* url.PathEscape *)
Definition query_escape (s : string) : string := escape esc_query true s.      (* url.QueryEscape *)

(* validEncoded(s, encodePath) *)
Definition valid_enc_char (c : ascii) : bool := (char_in c "!$&'()*+,;=:@[]%" || negb (esc_path c))%bool.
Definition valid_encoded (s : string) : bool := all_chars valid_enc_char s.

(* strings.Cut(s, c) *)
Fixpoint cut (c : ascii) (s : string) : string * string :=
  match s with
  | EmptyString => (EmptyString, EmptyString)
  | String a r => if Ascii.eqb a c then (EmptyString, r)
                  else let p := cut c r in (String a (fst p), snd p)
  end.

Fixpoint has_ctl (s : string) : bool :=
  match s with
  | EmptyString => false
  | String a r => (N.ltb (nb a) 32 || N.eqb (nb a) 127 || has_ctl r)%bool
  end.

Record url := mkUrl { u_path : string; u_rawpath : string; u_query : string }.

(* url.ParseRequestURI for an origin-form target; None = the Go server answers 400 itself.
   (A target "…?" sets ForceQuery with an empty RawQuery; the dispatcher builds a new URL
   and does not copy ForceQuery, so it is not modelled.) *)
Definition parse_target (t : string) : option url :=
  if has_ctl t then None else
  let pq := cut "?" t in
  if negb (has_prefix (fst pq) "/") then None else
  match unescape false (fst pq) with
  | None => None
  | Some path =>
      Some (mkUrl path (if String.eqb (fst pq) (path_escape path) then EmptyString else fst pq) (snd pq))
  end.

(* URL.EscapedPath *)
Definition default_escaped (path : string) : string := if String.eqb path "*" then "*" else path_escape path.
Definition escaped_path (path rawpath : string) : string :=
  if (negb (String.eqb rawpath EmptyString) && valid_encoded rawpath)%bool then
    match unescape false rawpath with
    | Some p => if String.eqb p path then rawpath else default_escaped path
    | None => default_escaped path
    end
  else default_escaped path.

(* dispatcher.go reencodePathSegments (repair) *)
Fixpoint map_opt {A B} (f : A -> option B) (l : list A) : option (list B) :=
  match l with
  | [] => Some []
  | x :: r => match f x, map_opt f r with
              | Some y, Some t => Some (y :: t)
              | _, _ => None
              end
  end.
Definition reencode_segments (raw : string) : string :=
  match map_opt (unescape false) (split_on "/" raw) with
  | Some ds => join "/" (map seg_escape ds)
  | None => raw
  end.

(* url.ParseQuery (errors ignored, as URL.Query does): the valid pairs in order *)
Definition parse_pair (p : string) : list (string * string) :=
  if char_in ";" p then [] else
  if String.eqb p EmptyString then [] else
  let kv := cut "=" p in
  match unescape true (fst kv), unescape true (snd kv) with
  | Some k, Some v => [(k, v)]
  | _, _ => []
  end.
Definition parse_query (q : string) : list (string * string) := flat_map parse_pair (split_on "&" q).

(* Values.Encode: keys in bytewise order, the values of a key in insertion order
   = stable insertion sort of the pair list by key *)
Fixpoint insert_pair (p : string * string) (l : list (string * string)) : list (string * string) :=
  match l with
  | [] => [p]
  | x :: r => if str_leb (fst p) (fst x) then p :: l else x :: insert_pair p r
  end.
Definition sort_pairs (l : list (string * string)) : list (string * string) := fold_right insert_pair [] l.
Definition encode_pair (p : string * string) : string := query_escape (fst p) +++ "=" +++ query_escape (snd p).
Definition encode_query (l : list (string * string)) : string := join "&" (map encode_pair (sort_pairs l)).

(* dispatcher: location.Path/RawPath/RawQuery *)
Definition dispatch_location (u : url) : url :=
  let raw := if (negb (String.eqb (u_rawpath u) EmptyString) &&
                 negb (String.eqb (escaped_path (u_path u) (u_rawpath u)) (u_rawpath u)))%bool
             then reencode_segments (u_rawpath u) else u_rawpath u in
  mkUrl (u_path u) raw (encode_query (parse_query (u_query u))).

(* reverseproxy joinURLPath(target, req.URL) with an empty target path *)
Definition director_path (u : url) : url :=
  if String.eqb (u_rawpath u) EmptyString
  then mkUrl (if has_prefix (u_path u) "/" then u_path u else "/" +++ u_path u) EmptyString (u_query u)
  else
    let b := escaped_path (u_path u) (u_rawpath u) in
    if has_prefix b "/" then mkUrl (u_path u) b (u_query u)
    else mkUrl ("/" +++ u_path u) ("/" +++ b) (u_query u).

(* URL.RequestURI, as written on the request line by http.Transport *)
Definition request_uri (u : url) : string :=
  let p := escaped_path (u_path u) (u_rawpath u) in
  (if String.eqb p EmptyString then "/" else p) +++
  (if String.eqb (u_query u) EmptyString then EmptyString else "?" +++ u_query u).

(* connection upgrades: UpgradeAwareHandler.tryUpgrade writes the request with the dispatcher's location as its
   URL (no Director in between) *)
Definition upgrade_target (t : string) : option string :=
  match parse_target t with
  | None => None
  | Some u => Some (request_uri (dispatch_location u))
  end.

Definition rebuild_target (t : string) : option string :=
  match parse_target t with
  | None => None
  | Some u => Some (request_uri (director_path (dispatch_location u)))
  end.

(* ------------------------------------------------------------------ request headers on the last hop *)
(* http.Transport writing the request + the upstream's server reading it: only the first
   User-Agent value is written; Accept-Encoding: gzip is added when the request has none,
   no Range, and is not HEAD; Content-Length is written from the body, not from the map *)
Definition transport_headers (method : string) (h : headers) : headers :=
  let h1 := if h_has "User-Agent" h then h_set "User-Agent" (h_get "User-Agent" h) h else h in
  let h2 := if (String.eqb (h_get "Accept-Encoding" h1) EmptyString && String.eqb (h_get "Range" h1) EmptyString
                && negb (String.eqb method "HEAD"))%bool
            then h_add "Accept-Encoding" "gzip" h1 else h1 in
  h2.

(* framing headers are recomputed on every hop from the body and are not compared *)
Definition framing : list string := ["Content-Length"; "Transfer-Encoding"].

(* ------------------------------------------------------------------ response side *)
Record response := mkResp { r_status : Z; r_headers : headers; r_body : string }.

(* what http.Transport hands to the reverse proxy for the upstream's answer: canonical keys, trimmed values *)
Definition read_headers (h : headers) : headers := map (fun e => (canonical_key (fst e), map trim_ows (snd e))) h.

(* ReverseProxy.ServeHTTP after RoundTrip: removeConnectionHeaders, hop-by-hop headers, copyHeader
   into a response whose default Cache-Control was dropped by the dispatcher (repair) *)
Definition relay_headers (h : headers) : headers :=
  let h1 := read_headers h in
  del_all hop_headers (del_all (connection_named h1) h1).

Definition no_body (method : string) (status : Z) : bool :=
  (String.eqb method "HEAD" || Z.eqb status 204 || Z.eqb status 304)%bool.

Definition relay_response (method : string) (r : response) : response :=
  mkResp (r_status r) (relay_headers (r_headers r)) (if no_body method (r_status r) then EmptyString else r_body r).

(* ------------------------------------------------------------------ terminations *)
Inductive reason :=
| NotProxied          (* WithUpstreamInfo: no such cluster *)
| NoReadyEndpoint     (* dispatcher: endpointPicker.Pop failed *)
| RateLimited (events : bool)   (* dispatcher: flowcontrol.TryAcquire failed *)
| ImpersonationRefused          (* impersonation filter: authorizer said no *)
| ImpersonationMalformed        (* impersonation filter: groups/extras without user *)
| UpstreamError.                (* transport error -> proxyErrorResponder *)

Record termination := mkTerm {
  t_code : Z;
  t_retry_after : list string;      (* values of the Retry-After header *)
  t_status_body : bool;             (* the body is a metav1.Status with this code *)
}.

(* responseError / TerminateWithError / responsewriters.Forbidden / InternalError *)
Definition terminate (r : reason) : termination :=
  match r with
  | NotProxied => mkTerm 503 ["60"] true
  | NoReadyEndpoint => mkTerm 503 ["60"] true
  | RateLimited false => mkTerm 429 ["1"] true
  | RateLimited true => mkTerm 429 [] true            (* events: retryAfter 0 => no header *)
  | ImpersonationRefused => mkTerm 403 [] true
  | ImpersonationMalformed => mkTerm 500 [] false      (* http.Error: text/plain *)
  | UpstreamError => mkTerm 502 [] true
  end.

(* ------------------------------------------------------------------ the gateway *)
Inductive cluster :=
| CUnknown            (* Host names no cluster of the manager *)
| CLimited            (* the matching flow-control schema admits nothing *)
| CNoEndpoint         (* every endpoint disabled / unhealthy *)
| CDead               (* endpoint ready but not reachable *)
| COk.

Record request := mkReq {
  q_method : string;
  q_target : string;        (* raw request-target *)
  q_host : string;
  q_headers : headers;      (* as handed to the chain by the Go server *)
  q_body : string;          (* body (a digest in the case files) *)
  q_events : bool;          (* RequestInfo.Resource == "events" *)
}.

Record upstream_request := mkUp {
  p_method : string; p_uri : string; p_host : string; p_headers : headers; p_body : string }.

Inductive result :=
| Relayed (up : upstream_request) (r : response)    (* forwarded once; the client receives r *)
| Upgraded (up : upstream_request)                  (* connection upgrade: the request the upstream receives; what
                                                       follows (101 + tunnel, or the upstream's refusal) is relayed raw *)
| Terminated (rs : reason) (t : termination)        (* answered by the gateway; nothing forwarded *)
| OutOfModel.                                       (* targets net/http rejects *)

Definition term (rs : reason) : result := Terminated rs (terminate rs).

Definition gateway (token client_ip : string) (c : cluster) (q : request) (id : identity)
                   (authz : imp_item -> bool) (reply : response) : result :=
  match c with
  | CUnknown => term NotProxied
  | _ =>
    match filters_core (q_headers q) id authz with
    | Upgrade => OutOfModel
    | Refuse code => if Z.eqb code 403 then term ImpersonationRefused else term ImpersonationMalformed
    | Pass h1 id1 =>
        match c with
        | CLimited => term (RateLimited (q_events q))
        | CNoEndpoint => term NoReadyEndpoint
        | CDead => term UpstreamError
        | _ =>
          if is_upgrade_request (q_headers q) then
            match upgrade_target (q_target q) with
            | None => OutOfModel
            | Some uri =>
                match upgrade_send client_ip id1 h1 with
                | Forwarded h2 => Upgraded (mkUp (q_method q) uri (q_host q) h2 (q_body q))
                | Answered _ => term UpstreamError
                | NotModelled => OutOfModel
                end
            end
          else
            match rebuild_target (q_target q) with
            | None => OutOfModel
            | Some uri =>
                match send token client_ip id1 h1 with
                | Forwarded h2 =>
                    Relayed (mkUp (q_method q) uri (q_host q) (transport_headers (q_method q) h2) (q_body q))
                            (relay_response (q_method q) reply)
                | Answered _ => term UpstreamError
                | NotModelled => OutOfModel
                end
            end
        end
    end
  end.
