(* C06 — proofs: the model satisfies the specification for all configurations, all call
   sequences (any clock readings) and all windows. *)
From KG Require Import Prelude C06_Model C06_Spec C06_Check.
From Coq Require Import ZifyBool ZifyNat ZifyN.
Open Scope Z_scope.

Arguments Z.add : simpl never.
Arguments Z.sub : simpl never.
Arguments Z.mul : simpl never.
Arguments Z.leb : simpl never.
Arguments Z.ltb : simpl never.
Arguments Z.gtb : simpl never.
Arguments Z.geb : simpl never.
Arguments Z.eqb : simpl never.
Arguments Z.quot : simpl never.
Arguments Z.div : simpl never.
Arguments Z.min : simpl never.
Arguments Z.max : simpl never.

Definition cfg_ok (c : cfg) : Prop := 1 <= qps c /\ 0 <= burst c /\ cap c + qps c <= max_dur.
Definition inv (c : cfg) (s : st) : Prop := - qps c < tok s <= cap c.

(* potential: an upper bound of the tokens available at clock reading tau *)
Definition P (c : cfg) (s : st) (tau : Z) : Z := Z.min (cap c) (tok s + qps c * Z.max 0 (tau - last s)).

Lemma NS_pos : 0 < NS. Proof. unfold NS; lia. Qed.

Lemma cap_nonneg c : cfg_ok c -> 0 <= cap c.
Proof. intros (_ & Hb & _). unfold cap. pose proof NS_pos. nia. Qed.

Lemma init_inv c : cfg_ok c -> inv c init_st.
Proof. intros H. pose proof (cap_nonneg c H). destruct H as (Hq & _). unfold inv, init_st; simpl. lia. Qed.

Lemma quot_bounds a q : 0 <= a -> 0 < q ->
  0 <= Z.quot a q /\ q * Z.quot a q <= a < q * Z.quot a q + q.
Proof.
  intros Ha Hq. rewrite Z.quot_div_nonneg by lia.
  pose proof (Z.div_pos a q Ha Hq). pose proof (Z.mul_div_le a q Hq).
  pose proof (Z.mul_succ_div_gt a q Hq). lia.
Qed.

Definition maxel (c : cfg) (s : st) : Z := Z.quot (cap c - tok s) (qps c).
Definition elapsed (c : cfg) (s : st) (now : Z) : Z := Z.min (now - Z.min (last s) now) (maxel c s).

Lemma maxel_bounds c s : cfg_ok c -> inv c s ->
  0 <= maxel c s /\ qps c * maxel c s <= cap c - tok s < qps c * maxel c s + qps c.
Proof. intros (Hq & _) Hi. unfold maxel, inv in *. apply quot_bounds; lia. Qed.

Lemma advance_eq c s now : cfg_ok c -> inv c s ->
  advance c s now = (Z.min (last s) now, tok s + elapsed c s now * qps c).
Proof.
  intros Hc Hi. pose proof (maxel_bounds c s Hc Hi) as (Hm0 & Hm1 & Hm2).
  destruct Hc as (Hq & Hb & Hd). unfold inv in Hi.
  unfold advance, elapsed. fold (maxel c s).
  set (l0 := if now <? last s then now else last s).
  assert (El0 : l0 = Z.min (last s) now) by (unfold l0; destruct (now <? last s) eqn:E; lia).
  rewrite <- El0.
  assert (Hl0 : l0 <= now) by lia.
  assert (Hmd : maxel c s <= max_dur) by nia.
  set (el := if sub_sat now l0 >? maxel c s then maxel c s else sub_sat now l0).
  assert (Eel : el = Z.min (now - l0) (maxel c s)).
  { unfold el, sub_sat, min_dur, max_dur in *. destruct (_ >? _) eqn:E; lia. }
  rewrite Eel. set (e := Z.min (now - l0) (maxel c s)).
  assert (He : 0 <= e <= maxel c s) by (unfold e; lia).
  assert (e * qps c <= maxel c s * qps c) by nia.
  destruct (tok s + e * qps c >? cap c) eqn:E; [lia|reflexivity].
Qed.

Definition avail (c : cfg) (s : st) (now : Z) : Z := tok s + elapsed c s now * qps c.

Lemma allow_n_eq c s now n : cfg_ok c -> inv c s ->
  allow_n c s now n =
  if ((n <=? burst c) && (- qps c <? avail c s now - n * NS))%bool
  then ({| tok := avail c s now - n * NS; last := now |}, true)
  else ({| tok := tok s; last := Z.min (last s) now |}, false).
Proof.
  intros Hc Hi. unfold allow_n. rewrite (advance_eq c s now Hc Hi). fold (avail c s now).
  destruct Hc as (Hq & _).
  set (t2 := avail c s now - n * NS).
  assert (E : ((if t2 <? 0 then Z.quot (- t2) (qps c) else 0) <=? 0) = (- qps c <? t2)).
  { destruct (t2 <? 0) eqn:E0.
    - pose proof (quot_bounds (- t2) (qps c) ltac:(lia) ltac:(lia)) as (H0 & H1 & H2).
      destruct (- qps c <? t2) eqn:E1; [|nia]. nia.
    - lia. }
  rewrite E. reflexivity.
Qed.

Lemma avail_bounds c s now : cfg_ok c -> inv c s ->
  tok s <= avail c s now <= P c s now.
Proof.
  intros Hc Hi. pose proof (maxel_bounds c s Hc Hi) as (Hm0 & Hm1 & Hm2).
  destruct Hc as (Hq & _). unfold avail, P, elapsed.
  set (e := Z.min (now - Z.min (last s) now) (maxel c s)).
  assert (He : 0 <= e <= maxel c s) by (unfold e; lia).
  assert (He2 : e <= Z.max 0 (now - last s)) by (unfold e; lia).
  assert (e * qps c <= maxel c s * qps c) by nia.
  assert (e * qps c <= qps c * Z.max 0 (now - last s)) by nia.
  assert (0 <= e * qps c) by nia.
  lia.
Qed.

(* one call: the invariant is kept and the potential pays for what is granted *)
Lemma step_potential c s now n : cfg_ok c -> inv c s -> 0 <= n ->
  let s' := fst (allow_n c s now n) in
  let g := if snd (allow_n c s now n) then n else 0 in
  inv c s' /\ forall tau, P c s' tau + NS * g <= P c s now + qps c * Z.max 0 (tau - now).
Proof.
  intros Hc Hi Hn. rewrite (allow_n_eq c s now n Hc Hi).
  pose proof (avail_bounds c s now Hc Hi) as (Ha0 & Ha1).
  pose proof (cap_nonneg c Hc) as Hcap. pose proof NS_pos as HNS.
  assert (Hq : 1 <= qps c) by (destruct Hc; lia).
  assert (HP : P c s now <= cap c) by (unfold P; lia).
  destruct ((n <=? burst c) && (- qps c <? avail c s now - n * NS))%bool eqn:E; simpl.
  - split; [unfold inv; simpl; nia|]. intros tau. unfold P at 1; simpl.
    assert (0 <= qps c * Z.max 0 (tau - now)) by nia. nia.
  - split; [exact Hi|]. intros tau. unfold P; simpl.
    assert (Hm : Z.max 0 (tau - Z.min (last s) now) <= Z.max 0 (now - last s) + Z.max 0 (tau - now)) by lia.
    assert (qps c * Z.max 0 (tau - Z.min (last s) now)
            <= qps c * Z.max 0 (now - last s) + qps c * Z.max 0 (tau - now)) by nia.
    assert (0 <= qps c * Z.max 0 (tau - now)) by nia.
    lia.
Qed.

(* ---------- runs ---------- *)
Lemma trace_cons c s t n r :
  trace c s ((t, n) :: r) =
  {| etime := t; easked := n; eok := snd (allow_n c s t n) |} :: trace c (fst (allow_n c s t n)) r.
Proof. unfold trace, mk_events; simpl. destruct (allow_n c s t n) as [s' ok]; reflexivity. Qed.

Lemma trace_nil c s : trace c s [] = [].
Proof. reflexivity. Qed.

Lemma run_state_app c s l1 l2 : run_state c s (l1 ++ l2) = run_state c (run_state c s l1) l2.
Proof. revert s; induction l1 as [|[t n] l1 IH]; intros s; simpl; [reflexivity|apply IH]. Qed.

Lemma trace_app c s l1 l2 : trace c s (l1 ++ l2) = trace c s l1 ++ trace c (run_state c s l1) l2.
Proof.
  revert s; induction l1 as [|[t n] l1 IH]; intros s; [reflexivity|].
  rewrite <- app_comm_cons, !trace_cons, IH. reflexivity.
Qed.

Lemma trace_length c s l : List.length (trace c s l) = List.length l.
Proof. revert s; induction l as [|[t n] l IH]; intros s; [reflexivity|]. rewrite trace_cons; simpl; f_equal; apply IH. Qed.

Definition nonneg_calls (calls : list (Z * Z)) : Prop := Forall (fun p => 0 <= snd p) calls.

Lemma run_inv c calls : forall s, cfg_ok c -> inv c s -> nonneg_calls calls -> inv c (run_state c s calls).
Proof.
  induction calls as [|[t n] r IH]; intros s Hc Hi Hn; [exact Hi|]. simpl.
  inversion Hn as [|? ? Hn1 Hn2]; subst. apply IH; [exact Hc| |exact Hn2].
  exact (proj1 (step_potential c s t n Hc Hi Hn1)).
Qed.

Fixpoint end_time (prev : Z) (l : list ev) : Z :=
  match l with [] => prev | e :: r => end_time (etime e) r end.

Lemma gsum_cons e l : gsum (e :: l) = granted e + gsum l.
Proof. reflexivity. Qed.
Lemma gsum_app a b : gsum (a ++ b) = gsum a + gsum b.
Proof. unfold gsum. rewrite map_app, sumZ_app. reflexivity. Qed.

Lemma P_mono c s prev t : cfg_ok c -> P c s t <= P c s prev + qps c * Z.max 0 (t - prev).
Proof.
  intros (Hq & _). unfold P.
  assert (Z.max 0 (t - last s) <= Z.max 0 (prev - last s) + Z.max 0 (t - prev)) by lia.
  assert (qps c * Z.max 0 (t - last s) <= qps c * Z.max 0 (prev - last s) + qps c * Z.max 0 (t - prev)) by nia.
  assert (0 <= qps c * Z.max 0 (t - prev)) by nia.
  lia.
Qed.

(* the potential argument over a whole run, any clock readings *)
Lemma run_potential c calls : forall s prev, cfg_ok c -> inv c s -> nonneg_calls calls ->
  P c (run_state c s calls) (end_time prev (trace c s calls)) + NS * gsum (trace c s calls)
  <= P c s prev + qps c * fwd prev (trace c s calls).
Proof.
  induction calls as [|[t n] r IH]; intros s prev Hc Hi Hn.
  - rewrite trace_nil; simpl. unfold gsum; simpl. lia.
  - inversion Hn as [|? ? Hn1 Hn2]; subst. simpl in Hn1.
    rewrite trace_cons. cbn [end_time fwd etime run_state]. rewrite gsum_cons. unfold granted; cbn [eok easked].
    destruct (step_potential c s t n Hc Hi Hn1) as (Hi' & Hstep).
    specialize (IH (fst (allow_n c s t n)) t Hc Hi' Hn2).
    specialize (Hstep t). replace (Z.max 0 (t - t)) with 0 in Hstep by lia.
    pose proof (P_mono c s prev t Hc). lia.
Qed.

Lemma P_lower c s tau : cfg_ok c -> inv c s -> - qps c < P c s tau.
Proof.
  intros Hc Hi. pose proof (cap_nonneg c Hc). destruct Hc as (Hq & _). unfold inv in Hi. unfold P.
  assert (0 <= qps c * Z.max 0 (tau - last s)) by nia. lia.
Qed.

(* closed window: calls w issued from any reachable state *)
Lemma window_closed c s t n r : cfg_ok c -> inv c s -> nonneg_calls ((t, n) :: r) ->
  NS * gsum (trace c s ((t, n) :: r)) < cap c + qps c * (fwd t (trace c (fst (allow_n c s t n)) r) + 1).
Proof.
  intros Hc Hi Hn.
  pose proof (run_potential c ((t, n) :: r) s t Hc Hi Hn) as H.
  pose proof (run_inv c ((t, n) :: r) s Hc Hi Hn) as Hi'.
  pose proof (P_lower c _ (end_time t (trace c s ((t, n) :: r))) Hc Hi').
  assert (P c s t <= cap c) by (unfold P; lia).
  rewrite trace_cons in H at 3. cbn [fwd etime] in H. replace (Z.max 0 (t - t)) with 0 in H by lia.
  lia.
Qed.

(* ---------- windows of a trace are traces of sub-lists of calls ---------- *)
Lemma firstn_trace c : forall k s calls, firstn k (trace c s calls) = trace c s (firstn k calls).
Proof.
  induction k as [|k IH]; intros s calls; [reflexivity|].
  destruct calls as [|[t n] r]; [reflexivity|]. cbn [firstn]. rewrite !trace_cons. cbn [firstn]. f_equal. apply IH.
Qed.

Lemma skipn_trace c : forall k s calls,
  skipn k (trace c s calls) = trace c (run_state c s (firstn k calls)) (skipn k calls).
Proof.
  induction k as [|k IH]; intros s calls; [reflexivity|].
  destruct calls as [|[t n] r]; [reflexivity|]. rewrite trace_cons. cbn [skipn firstn run_state]. apply IH.
Qed.

Lemma firstn_len_app {A} (a b : list A) : firstn (List.length a) (a ++ b) = a.
Proof. rewrite firstn_app, firstn_all, Nat.sub_diag. simpl. apply app_nil_r. Qed.
Lemma skipn_len_app {A} (a b : list A) : skipn (List.length a) (a ++ b) = b.
Proof. rewrite skipn_app, skipn_all, Nat.sub_diag. reflexivity. Qed.

Lemma Forall_firstn {A} (Q : A -> Prop) k : forall l, Forall Q l -> Forall Q (firstn k l).
Proof. induction k as [|k IH]; intros l H; [constructor|]. destruct H; simpl; constructor; auto. Qed.
Lemma Forall_skipn {A} (Q : A -> Prop) k : forall l, Forall Q l -> Forall Q (skipn k l).
Proof. induction k as [|k IH]; intros l H; [exact H|]. destruct H; simpl; [constructor|apply IH; assumption]. Qed.

(* every window of the event trace of a run from a good state is the trace of some calls from a good state *)
Lemma window_pullback c s calls l1 w l2 : cfg_ok c -> inv c s -> nonneg_calls calls ->
  trace c s calls = l1 ++ w ++ l2 ->
  exists s1 cw, inv c s1 /\ nonneg_calls cw /\ w = trace c s1 cw /\
                s1 = run_state c s (firstn (List.length l1) calls).
Proof.
  intros Hc Hi Hn E.
  set (k := List.length l1).
  exists (run_state c s (firstn k calls)), (firstn (List.length w) (skipn k calls)).
  split; [apply run_inv; auto; apply Forall_firstn; exact Hn|].
  split; [apply Forall_firstn, Forall_skipn; exact Hn|].
  split; [|reflexivity].
  rewrite <- firstn_trace, <- skipn_trace, E. unfold k. rewrite skipn_len_app, firstn_len_app. reflexivity.
Qed.

Definition first_time (w : list ev) : Z := match w with [] => 0 | e :: _ => etime e end.

(* C06_upper_skew / C06_upper_closed, Prop form: any window of any run, any clock readings *)
Lemma upper_closed_any c s calls l1 w l2 : cfg_ok c -> inv c s -> nonneg_calls calls ->
  trace c s calls = l1 ++ w ++ l2 -> w <> [] ->
  NS * gsum w < cap c + qps c * (fwd (first_time w) (tl w) + 1).
Proof.
  intros Hc Hi Hn E Hw.
  destruct (window_pullback c s calls l1 w l2 Hc Hi Hn E) as (s1 & cw & Hi1 & Hn1 & Ew & _).
  destruct cw as [|[t n] r]; [rewrite trace_nil in Ew; congruence|].
  pose proof (window_closed c s1 t n r Hc Hi1 Hn1) as H.
  rewrite Ew. rewrite trace_cons at 2 3. cbn [first_time tl etime]. exact H.
Qed.

(* ---------- the O(n^2) checkers say what they should ---------- *)
Lemma fwd_cons prev e r : fwd prev (e :: r) = Z.max 0 (etime e - prev) + fwd (etime e) r.
Proof. reflexivity. Qed.

Lemma scan_spec c : forall l g f prev,
  scan c g f prev l = true <->
  (forall p sfx, l = p ++ sfx -> p <> [] -> NS * (g + gsum p) <= cap c + qps c * (f + fwd prev p + 1)).
Proof.
  induction l as [|e r IH]; intros g f prev.
  - split; [|reflexivity]. intros _ p sfx E Hp. destruct p; [congruence|discriminate].
  - cbn [scan]. rewrite Bool.andb_true_iff, IH, Z.leb_le. split.
    + intros (H1 & H2) p sfx E Hp. destruct p as [|e' p']; [congruence|].
      injection E as <- E. rewrite gsum_cons, fwd_cons.
      destruct p' as [|e2 p2].
      * unfold gsum; simpl. replace (g + (granted e + 0)) with (g + granted e) by lia.
        replace (f + (Z.max 0 (etime e - prev) + 0)) with (f + Z.max 0 (etime e - prev)) by lia. exact H1.
      * specialize (H2 (e2 :: p2) sfx E ltac:(discriminate)).
        replace (g + (granted e + gsum (e2 :: p2))) with (g + granted e + gsum (e2 :: p2)) by lia.
        replace (f + (Z.max 0 (etime e - prev) + fwd (etime e) (e2 :: p2)))
          with (f + Z.max 0 (etime e - prev) + fwd (etime e) (e2 :: p2)) by lia. exact H2.
    + intros H. split.
      * specialize (H [e] r eq_refl ltac:(discriminate)). unfold gsum in H; simpl in H.
        replace (g + (granted e + 0)) with (g + granted e) in H by lia.
        replace (f + (Z.max 0 (etime e - prev) + 0)) with (f + Z.max 0 (etime e - prev)) in H by lia. exact H.
      * intros p sfx E Hp. specialize (H (e :: p) sfx ltac:(rewrite E; reflexivity) ltac:(discriminate)).
        rewrite gsum_cons, fwd_cons in H.
        replace (g + granted e + gsum p) with (g + (granted e + gsum p)) by lia.
        replace (f + Z.max 0 (etime e - prev) + fwd (etime e) p)
          with (f + (Z.max 0 (etime e - prev) + fwd (etime e) p)) by lia. exact H.
Qed.

Lemma closed_bound_iff c w : w <> [] ->
  closed_bound c w = true <-> NS * gsum w <= cap c + qps c * (fwd (first_time w) (tl w) + 1).
Proof. destruct w as [|e r]; [congruence|]. intros _. cbn [closed_bound first_time tl]. apply Z.leb_le. Qed.

Lemma closed_ok_iff c : forall l,
  closed_ok c l = true <->
  (forall l1 w l2, l = l1 ++ w ++ l2 -> w <> [] ->
     NS * gsum w <= cap c + qps c * (fwd (first_time w) (tl w) + 1)).
Proof.
  induction l as [|e r IH].
  - split; [|reflexivity]. intros _ l1 w l2 E Hw. destruct l1; [destruct w; [congruence|discriminate]|discriminate].
  - cbn [closed_ok]. rewrite Bool.andb_true_iff, IH, scan_spec. split.
    + intros (H1 & H2) l1 w l2 E Hw. destruct l1 as [|e1 l1'].
      * simpl in E. specialize (H1 w l2 E Hw). destruct w as [|e' w']; [congruence|].
        injection E as <- E. rewrite fwd_cons in H1. cbn [first_time tl].
        replace (0 + gsum (e :: w')) with (gsum (e :: w')) in H1 by lia.
        replace (0 + (Z.max 0 (etime e - etime e) + fwd (etime e) w')) with (fwd (etime e) w') in H1 by lia.
        exact H1.
      * injection E as <- E. exact (H2 l1' w l2 E Hw).
    + intros H. split.
      * intros p sfx E Hp. specialize (H [] p sfx E Hp). destruct p as [|e' p']; [congruence|].
        injection E as <- E. rewrite fwd_cons. cbn [first_time tl] in H.
        replace (0 + gsum (e :: p')) with (gsum (e :: p')) by lia.
        replace (0 + (Z.max 0 (etime e - etime e) + fwd (etime e) p')) with (fwd (etime e) p') by lia.
        exact H.
      * intros l1 w l2 E Hw. apply (H (e :: l1) w l2); [rewrite E; reflexivity|exact Hw].
Qed.

(* the model satisfies the closed-window clause of the spec *)
Lemma spec_closed c calls : cfg_ok c -> nonneg_calls calls ->
  closed_ok c (trace c init_st calls) = true.
Proof.
  intros Hc Hn. apply closed_ok_iff. intros l1 w l2 E Hw.
  pose proof (upper_closed_any c init_st calls l1 w l2 Hc (init_inv c Hc) Hn E Hw). lia.
Qed.

(* ---------- non-decreasing clock readings ---------- *)
Lemma end_time_app prev a b : end_time prev (a ++ b) = end_time (end_time prev a) b.
Proof. revert prev; induction a as [|e a IH]; intros prev; [reflexivity|]. simpl. apply IH. Qed.

Lemma fwd_sorted : forall l prev, sorted_from prev l = true -> fwd prev l = end_time prev l - prev.
Proof.
  induction l as [|e r IH]; intros prev H; simpl in *; [lia|].
  apply Bool.andb_true_iff in H as (H1 & H2). rewrite (IH _ H2). lia.
Qed.

Lemma sorted_end : forall l prev, sorted_from prev l = true -> prev <= end_time prev l.
Proof.
  induction l as [|e r IH]; intros prev H; simpl in *; [lia|].
  apply Bool.andb_true_iff in H as (H1 & H2). specialize (IH _ H2). lia.
Qed.

Lemma sorted_weaken : forall l prev prev', prev' <= prev -> sorted_from prev l = true -> sorted_from prev' l = true.
Proof. destruct l as [|e r]; intros prev prev' Hp H; simpl in *; [reflexivity|]. apply Bool.andb_true_iff in H as (H1 & H2). apply Bool.andb_true_iff; split; [lia|exact H2]. Qed.

Lemma sorted_app_l : forall a b prev, sorted_from prev (a ++ b) = true -> sorted_from prev a = true.
Proof.
  induction a as [|e a IH]; intros b prev H; [reflexivity|]. simpl in *.
  apply Bool.andb_true_iff in H as (H1 & H2). apply Bool.andb_true_iff; split; [exact H1|exact (IH _ _ H2)].
Qed.

Lemma sorted_app_r : forall a b prev, sorted_from prev (a ++ b) = true -> sorted_from (end_time prev a) b = true.
Proof.
  induction a as [|e a IH]; intros b prev H; [exact H|]. simpl in *.
  apply Bool.andb_true_iff in H as (H1 & H2). exact (IH _ _ H2).
Qed.

(* backward steps of the clock readings: fwd = span + back (the skew term of C06_upper_skew) *)
Fixpoint back (prev : Z) (l : list ev) : Z :=
  match l with [] => 0 | e :: r => Z.max 0 (prev - etime e) + back (etime e) r end.
Lemma fwd_span_back : forall l prev, fwd prev l = (end_time prev l - prev) + back prev l.
Proof. induction l as [|e r IH]; intros prev; simpl; [lia|]. rewrite IH. lia. Qed.

(* events only copy the calls' readings and amounts *)
Definition all_one (calls : list (Z * Z)) : Prop := Forall (fun p => snd p = 1) calls.
Lemma all_one_nonneg calls : all_one calls -> nonneg_calls calls.
Proof. apply Forall_impl. intros p H; rewrite H; lia. Qed.

Lemma last_after_call c s t n : cfg_ok c -> inv c s -> last (fst (allow_n c s t n)) <= t.
Proof. intros Hc Hi. rewrite (allow_n_eq c s t n Hc Hi). destruct (_ && _)%bool; simpl; lia. Qed.

(* ---------- half-open windows (t_i, t_j] ---------- *)
(* potential right after a single-token call at reading t0 *)
Lemma P_after_call c s t0 : cfg_ok c -> inv c s -> 1 <= burst c -> qps c <= NS -> last s <= t0 ->
  P c (fst (allow_n c s t0 1)) t0 <= cap c - qps c + 1.
Proof.
  intros Hc Hi Hb Hq Hl. rewrite (allow_n_eq c s t0 1 Hc Hi).
  pose proof (avail_bounds c s t0 Hc Hi) as (Ha0 & Ha1).
  pose proof (maxel_bounds c s Hc Hi) as (Hm0 & Hm1 & Hm2).
  assert (HP : P c s t0 <= cap c) by (unfold P; lia).
  assert (Hcap : NS <= cap c) by (unfold cap; pose proof NS_pos; nia).
  destruct Hc as (Hq1 & _).
  destruct ((1 <=? burst c) && (- qps c <? avail c s t0 - 1 * NS))%bool eqn:E; simpl.
  - unfold P; simpl. replace (Z.max 0 (t0 - t0)) with 0 by lia. lia.
  - assert (Hrej : avail c s t0 - NS <= - qps c) by lia.
    unfold P; simpl. replace (Z.min (last s) t0) with (last s) by lia.
    replace (Z.max 0 (t0 - last s)) with (t0 - last s) by lia.
    unfold avail, elapsed in Hrej. replace (Z.min (last s) t0) with (last s) in Hrej by lia.
    destruct (Z_le_gt_dec (t0 - last s) (maxel c s)) as [Hle|Hgt].
    + replace (Z.min (t0 - last s) (maxel c s)) with (t0 - last s) in Hrej by lia. lia.
    + replace (Z.min (t0 - last s) (maxel c s)) with (maxel c s) in Hrej by lia. lia.
Qed.

Lemma open_core c s t0 r : cfg_ok c -> inv c s -> 1 <= burst c -> qps c <= NS -> last s <= t0 ->
  all_one r -> sorted_from t0 (trace c (fst (allow_n c s t0 1)) r) = true ->
  NS * gsum (trace c (fst (allow_n c s t0 1)) r)
  <= cap c + qps c * (end_time t0 (trace c (fst (allow_n c s t0 1)) r) - t0).
Proof.
  intros Hc Hi Hb Hq Hl H1 Hs.
  set (s1 := fst (allow_n c s t0 1)) in *.
  assert (Hi1 : inv c s1) by (exact (proj1 (step_potential c s t0 1 Hc Hi ltac:(lia)))).
  pose proof (run_potential c r s1 t0 Hc Hi1 (all_one_nonneg r H1)) as H.
  pose proof (run_inv c r s1 Hc Hi1 (all_one_nonneg r H1)) as Hi2.
  pose proof (P_lower c _ (end_time t0 (trace c s1 r)) Hc Hi2).
  pose proof (P_after_call c s t0 Hc Hi Hb Hq Hl). fold s1 in H2.
  rewrite (fwd_sorted _ _ Hs) in H. lia.
Qed.

Lemma end_time_cons prev e r : end_time prev (e :: r) = end_time (etime e) r.
Proof. reflexivity. Qed.

Lemma end_time_nonempty : forall p prev prev', p <> [] -> end_time prev p = end_time prev' p.
Proof. destruct p; [congruence|reflexivity]. Qed.

Lemma scan_open_spec c t0 : forall l g,
  scan_open c g t0 l = true <->
  (forall p sfx, l = p ++ sfx -> p <> [] -> NS * (g + gsum p) <= cap c + qps c * (end_time t0 p - t0)).
Proof.
  induction l as [|e r IH]; intros g.
  - split; [|reflexivity]. intros _ p sfx E Hp. destruct p; [congruence|discriminate].
  - cbn [scan_open]. rewrite Bool.andb_true_iff, IH, Z.leb_le. split.
    + intros (H1 & H2) p sfx E Hp. destruct p as [|e' p']; [congruence|].
      injection E as <- E. rewrite gsum_cons, end_time_cons.
      destruct p' as [|e2 p2].
      * unfold gsum; simpl. replace (g + (granted e + 0)) with (g + granted e) by lia. exact H1.
      * specialize (H2 (e2 :: p2) sfx E ltac:(discriminate)).
        rewrite (end_time_nonempty (e2 :: p2) (etime e) t0) by discriminate.
        replace (g + (granted e + gsum (e2 :: p2))) with (g + granted e + gsum (e2 :: p2)) by lia. exact H2.
    + intros H. split.
      * specialize (H [e] r eq_refl ltac:(discriminate)). unfold gsum in H; simpl in H.
        replace (g + (granted e + 0)) with (g + granted e) in H by lia. exact H.
      * intros p sfx E Hp. specialize (H (e :: p) sfx ltac:(rewrite E; reflexivity) ltac:(discriminate)).
        rewrite gsum_cons, end_time_cons in H. rewrite (end_time_nonempty p t0 (etime e) Hp).
        replace (g + granted e + gsum p) with (g + (granted e + gsum p)) by lia. exact H.
Qed.

Lemma open_all_iff c : forall l,
  open_all c l = true <->
  (forall l1 e w l2, l = l1 ++ e :: w ++ l2 -> w <> [] ->
     NS * gsum w <= cap c + qps c * (end_time (etime e) w - etime e)).
Proof.
  induction l as [|e r IH].
  - split; [|reflexivity]. intros _ l1 e w l2 E. destruct l1; discriminate.
  - cbn [open_all]. rewrite Bool.andb_true_iff, IH, scan_open_spec. split.
    + intros (H1 & H2) l1 e' w l2 E Hw. destruct l1 as [|e1 l1'].
      * injection E as <- E. specialize (H1 w l2 E Hw). lia.
      * injection E as <- E. exact (H2 l1' e' w l2 E Hw).
    + intros H. split.
      * intros p sfx E Hp. specialize (H [] e p sfx ltac:(rewrite E; reflexivity) Hp). lia.
      * intros l1 e' w l2 E Hw. apply (H (e :: l1) e' w l2); [rewrite E; reflexivity|exact Hw].
Qed.

Lemma open_from_state c : forall calls s, cfg_ok c -> inv c s -> 1 <= burst c -> qps c <= NS ->
  all_one calls -> sorted_from (last s) (trace c s calls) = true ->
  open_all c (trace c s calls) = true.
Proof.
  induction calls as [|[t n] r IH]; intros s Hc Hi Hb Hq H1 Hs; [reflexivity|].
  inversion H1 as [|? ? Hn Hr]; subst. simpl in Hn. subst n.
  rewrite trace_cons in *. cbn [open_all etime]. cbn [sorted_from etime] in Hs.
  apply Bool.andb_true_iff in Hs as (Hs1 & Hs2). apply Z.leb_le in Hs1.
  set (s1 := fst (allow_n c s t 1)) in *.
  assert (Hi1 : inv c s1) by (exact (proj1 (step_potential c s t 1 Hc Hi ltac:(lia)))).
  apply Bool.andb_true_iff; split.
  - apply scan_open_spec. intros p sfx E Hp.
    assert (Ep : p = trace c s1 (firstn (List.length p) r)).
    { rewrite <- firstn_trace, E. symmetry. apply firstn_len_app. }
    rewrite E in Hs2. apply sorted_app_l in Hs2.
    rewrite Ep in Hs2 |- *.
    pose proof (open_core c s t (firstn (List.length p) r) Hc Hi Hb Hq Hs1
                  (Forall_firstn _ _ _ Hr) Hs2) as H. fold s1 in H. lia.
  - apply IH; auto.
    apply (sorted_weaken _ t); [apply (last_after_call c s t 1 Hc Hi)|exact Hs2].
Qed.

(* C06_upper, Prop form: windows (t_i, t_j] of a run with non-decreasing readings *)
Lemma upper_open c calls l1 e w l2 : cfg_ok c -> 1 <= burst c -> qps c <= NS ->
  all_one calls -> sorted_from zero_time (trace c init_st calls) = true ->
  trace c init_st calls = l1 ++ e :: w ++ l2 -> w <> [] ->
  NS * gsum w <= cap c + qps c * (end_time (etime e) w - etime e).
Proof.
  intros Hc Hb Hq H1 Hs E Hw.
  pose proof (open_from_state c calls init_st Hc (init_inv c Hc) Hb Hq H1 Hs) as H.
  exact (proj1 (open_all_iff c _) H l1 e w l2 E Hw).
Qed.

(* ---------- never stricter than configured ---------- *)
(* tokens available after an idle period of t ns that started at or after the last state update *)
Lemma avail_lower c s cl t : cfg_ok c -> inv c s -> last s <= cl -> 0 <= t ->
  Z.min (cap c) (qps c * t) - qps c + 1 <= avail c s (cl + t).
Proof.
  intros Hc Hi Hl Ht. pose proof (maxel_bounds c s Hc Hi) as (Hm0 & Hm1 & Hm2).
  destruct Hc as (Hq & _). unfold inv in Hi. unfold avail, elapsed.
  replace (Z.min (last s) (cl + t)) with (last s) by lia.
  destruct (Z_le_gt_dec (cl + t - last s) (maxel c s)) as [Hle|Hgt].
  - replace (Z.min (cl + t - last s) (maxel c s)) with (cl + t - last s) by lia.
    assert (qps c * t <= (cl + t - last s) * qps c) by nia. lia.
  - replace (Z.min (cl + t - last s) (maxel c s)) with (maxel c s) by lia. lia.
Qed.

Definition all_granted (l : list ev) : Prop := Forall (fun e => eok e = true) l.

(* A units are available at the first call: the next calls are granted while they are covered *)
Lemma lower_run c : forall calls s A t0, cfg_ok c -> inv c s -> all_one calls ->
  sorted_from t0 (trace c s calls) = true -> last s <= t0 ->
  (forall t n r, calls = (t, n) :: r -> A <= avail c s t) ->
  NS * Z.of_nat (List.length calls) <= A + qps c - 1 ->
  Z.of_nat (List.length calls) <= burst c ->
  all_granted (trace c s calls).
Proof.
  induction calls as [|[t n] r IH]; intros s A t0 Hc Hi H1 Hs Hl HA Hlen Hb; [constructor|].
  inversion H1 as [|? ? Hn Hr]; subst. simpl in Hn; subst n.
  specialize (HA t 1 r eq_refl).
  rewrite trace_cons in *. cbn [sorted_from etime] in Hs. apply Bool.andb_true_iff in Hs as (Hs1 & Hs2).
  apply Z.leb_le in Hs1.
  cbn [List.length] in Hlen, Hb. rewrite Nat2Z.inj_succ in Hlen, Hb.
  pose proof NS_pos as HNS.
  assert (Hok : allow_n c s t 1 = ({| tok := avail c s t - 1 * NS; last := t |}, true)).
  { rewrite (allow_n_eq c s t 1 Hc Hi).
    replace ((1 <=? burst c) && (- qps c <? avail c s t - 1 * NS))%bool with true; [reflexivity|].
    symmetry. apply Bool.andb_true_iff. split; [apply Z.leb_le|apply Z.ltb_lt]; nia. }
  rewrite Hok in *. cbn [fst snd] in *.
  constructor; [reflexivity|].
  set (s1 := {| tok := avail c s t - 1 * NS; last := t |}) in *.
  assert (Hi1 : inv c s1).
  { pose proof (proj1 (step_potential c s t 1 Hc Hi ltac:(lia))) as H. rewrite Hok in H. exact H. }
  apply (IH s1 (A - NS) t Hc Hi1 Hr Hs2).
  - simpl. lia.
  - intros t' n' r' E. pose proof (avail_bounds c s1 t' Hc Hi1) as (Hlo & _). unfold s1 in Hlo at 1; simpl in Hlo. lia.
  - lia.
  - lia.
Qed.

(* C06_lower (core): idle for t ns after the last call at cl; the next calls, however spaced, are
   admitted as long as their number is at most min(burst, floor(qps*t)) *)
Lemma lower_core c s cl t calls : cfg_ok c -> inv c s -> last s <= cl -> 0 <= t ->
  all_one calls -> sorted_from (cl + t) (trace c s calls) = true ->
  Z.of_nat (List.length calls) <= Z.min (burst c) (qps c * t / NS) ->
  all_granted (trace c s calls).
Proof.
  intros Hc Hi Hl Ht H1 Hs Hlen.
  pose proof NS_pos as HNS.
  assert (Hq : 1 <= qps c) by (destruct Hc; lia).
  assert (Hdiv : NS * (qps c * t / NS) <= qps c * t) by (apply Z.mul_div_le; lia).
  apply (lower_run c calls s (Z.min (cap c) (qps c * t) - qps c + 1) (cl + t)); auto; try lia.
  - intros t1 n r E. subst calls. rewrite trace_cons in Hs. cbn [sorted_from etime] in Hs.
    apply Bool.andb_true_iff in Hs as (Hs1 & _). apply Z.leb_le in Hs1.
    pose proof (avail_lower c s cl (t1 - cl) Hc Hi Hl ltac:(lia)) as H.
    replace (cl + (t1 - cl)) with t1 in H by lia.
    assert (qps c * t <= qps c * (t1 - cl)) by nia. lia.
  - unfold cap. nia.
Qed.

(* a NEW bucket (creation, effective Resize) admits [burst] requests at once, at any reading >= 1970 *)
Lemma lower_fresh c calls : cfg_ok c -> all_one calls ->
  (forall t n r, calls = (t, n) :: r -> 0 <= t /\ sorted_from t (trace c init_st calls) = true) ->
  Z.of_nat (List.length calls) <= burst c ->
  all_granted (trace c init_st calls).
Proof.
  intros Hc H1 Hs Hlen. destruct calls as [|[t1 n1] r]; [constructor|].
  destruct (Hs t1 n1 r eq_refl) as (Ht1 & Hsorted).
  pose proof NS_pos as HNS. pose proof (init_inv c Hc) as Hi.
  assert (Hq : 1 <= qps c) by (destruct Hc; lia).
  assert (Hd : cap c + qps c <= max_dur) by (destruct Hc as (_ & _ & H); exact H).
  apply (lower_core c init_st zero_time (t1 - zero_time)); auto.
  - simpl; lia.
  - unfold zero_time, NS; lia.
  - replace (zero_time + (t1 - zero_time)) with t1 by lia. exact Hsorted.
  - assert (burst c <= qps c * (t1 - zero_time) / NS).
    { apply Z.div_le_lower_bound; [lia|]. fold (cap c).
      assert (Hz : max_dur <= - zero_time) by (unfold zero_time, max_dur, NS; lia).
      assert (Hc1 : cap c <= t1 - zero_time) by lia.
      pose proof (cap_nonneg c Hc) as Hc0.
      assert (Hx : 0 <= t1 - zero_time) by lia.
      assert (t1 - zero_time <= qps c * (t1 - zero_time)) by nia. unfold cap in Hc1. lia. }
    lia.
Qed.

(* ---------- the "owed" checker ---------- *)
Lemma owed_all_granted : forall l k t0 prev offered, 0 <= offered ->
  (forall p sfx, l = p ++ sfx -> Z.of_nat (List.length p) <= k - offered -> sorted_from prev p = true -> all_granted p) ->
  owed k t0 prev offered offered l = true.
Proof.
  induction l as [|e r IH]; intros k t0 prev offered Ho H; [reflexivity|].
  cbn [owed]. destruct (etime e <? prev) eqn:Eprev; [reflexivity|].
  destruct (Z_le_gt_dec k offered) as [Hk|Hk].
  - assert (E1 : (Z.min k (offered + 1) - (if etime e <? t0 + 1 then 1 else 0)
                  <=? offered + (if eok e then 1 else 0)) = true).
    { apply Z.leb_le. destruct (etime e <? t0 + 1), (eok e); lia. }
    rewrite E1.
    assert (E2 : (k <=? offered + (if eok e then 1 else 0)) = true) by (apply Z.leb_le; destruct (eok e); lia).
    rewrite E2. reflexivity.
  - assert (Hg : eok e = true).
    { assert (Hp : all_granted [e]).
      { apply (H [e] r eq_refl); [simpl; lia|]. simpl. apply Bool.andb_true_iff; split; [lia|reflexivity]. }
      inversion Hp; assumption. }
    rewrite Hg.
    assert (E1 : (Z.min k (offered + 1) - (if etime e <? t0 + 1 then 1 else 0) <=? offered + 1) = true).
    { apply Z.leb_le. destruct (etime e <? t0 + 1); lia. }
    rewrite E1. destruct (k <=? offered + 1) eqn:E2; [reflexivity|].
    apply IH; [lia|]. intros p sfx E Hlen Hs.
    assert (Hp : all_granted (e :: p)).
    { apply (H (e :: p) sfx); [rewrite E; reflexivity| cbn [List.length]; lia |].
      simpl. apply Bool.andb_true_iff; split; [lia|exact Hs]. }
    inversion Hp; assumption.
Qed.

Lemma asked_all_one c : forall calls s,
  forallb (fun x => easked x =? 1) (trace c s calls) = true -> all_one calls.
Proof.
  induction calls as [|[t n] r IH]; intros s H; [constructor|].
  rewrite trace_cons in H. cbn [forallb easked] in H. apply Bool.andb_true_iff in H as (H1 & H2).
  constructor; [simpl; lia|exact (IH _ H2)].
Qed.

Lemma lower_from_state c : forall calls s prev, cfg_ok c -> inv c s -> last s <= prev -> all_one calls ->
  lower_from c prev (trace c s calls) = true.
Proof.
  induction calls as [|[t n] r IH]; intros s prev Hc Hi Hl H1; [reflexivity|].
  inversion H1 as [|? ? Hn Hr]; subst. simpl in Hn; subst n.
  assert (Hi1 : inv c (fst (allow_n c s t 1))) by (exact (proj1 (step_potential c s t 1 Hc Hi ltac:(lia)))).
  pose proof (last_after_call c s t 1 Hc Hi) as Hl1.
  assert (Hrec : lower_from c t (trace c (fst (allow_n c s t 1)) r) = true) by (apply IH; auto).
  rewrite trace_cons. cbn [lower_from etime]. rewrite Hrec, Bool.andb_true_r.
  destruct (t <? prev) eqn:Et; [reflexivity|].
  rewrite <- trace_cons.
  apply owed_all_granted; [lia|]. intros p sfx E Hlen Hs.
  assert (Ep : p = trace c s (firstn (List.length p) ((t, 1) :: r))).
  { rewrite <- firstn_trace, E. symmetry. apply firstn_len_app. }
  rewrite Ep in Hs |- *.
  apply (lower_core c s prev (t - prev)); auto; try lia.
  - apply Forall_firstn; exact H1.
  - replace (prev + (t - prev)) with t by lia. exact Hs.
  - rewrite Ep in Hlen. rewrite trace_length in Hlen. lia.
Qed.

(* the model satisfies the "never stricter" clause of the spec *)
Lemma spec_lower c calls : cfg_ok c -> Forall (fun p => 0 <= fst p) calls ->
  lower_ok c (trace c init_st calls) = true.
Proof.
  intros Hc Ht. destruct calls as [|[t n] r]; [reflexivity|].
  pose proof (init_inv c Hc) as Hi.
  destruct (forallb (fun x => easked x =? 1) (trace c init_st ((t, n) :: r))) eqn:E1.
  2:{ rewrite trace_cons in *. cbn [lower_ok]. rewrite E1. reflexivity. }
  pose proof (asked_all_one c _ _ E1) as H1.
  inversion H1 as [|? ? Hn Hr]; subst. simpl in Hn; subst n.
  inversion Ht as [|? ? Ht1 Htr]; subst. simpl in Ht1.
  assert (Howed : owed (burst c) t t 0 0 (trace c init_st ((t, 1) :: r)) = true).
  { apply owed_all_granted; [lia|]. intros p sfx E Hlen Hs.
    assert (Ep : p = trace c init_st (firstn (List.length p) ((t, 1) :: r))).
    { rewrite <- firstn_trace. rewrite E. symmetry. apply firstn_len_app. }
    rewrite Ep in Hs |- *.
    apply lower_fresh; auto.
    + apply Forall_firstn; exact H1.
    + intros t' n' r' E'. destruct (List.length p) as [|k]; [discriminate|].
      cbn [firstn] in E'. injection E' as <- <- <-. split; [exact Ht1|]. cbn [firstn] in Hs. exact Hs.
    + rewrite Ep in Hlen. rewrite trace_length in Hlen. lia. }
  assert (Hfrom : lower_from c t (trace c (fst (allow_n c init_st t 1)) r) = true).
  { apply lower_from_state; auto.
    + exact (proj1 (step_potential c init_st t 1 Hc Hi ltac:(lia))).
    + apply (last_after_call c init_st t 1 Hc Hi). }
  rewrite trace_cons in *. cbn [lower_ok etime]. rewrite E1, Howed, Hfrom. reflexivity.
Qed.

(* the model satisfies the half-open clause of the spec *)
Lemma spec_open c calls : cfg_ok c -> 1 <= burst c -> qps c <= NS ->
  Forall (fun p => 0 <= fst p) calls ->
  open_ok c (trace c init_st calls) = true.
Proof.
  intros Hc Hb Hq Ht. destruct calls as [|[t n] r]; [reflexivity|].
  destruct (trace c init_st ((t, n) :: r)) as [|e tr] eqn:El; [reflexivity|].
  cbn [open_ok]. destruct (sorted_from (etime e) tr && forallb (fun x => easked x =? 1) (e :: tr))%bool eqn:G; [|reflexivity].
  apply Bool.andb_true_iff in G as (G1 & G2). rewrite <- El in *.
  pose proof (asked_all_one c _ _ G2) as H1.
  apply open_from_state; auto; [apply init_inv; exact Hc|].
  rewrite El. cbn [sorted_from]. apply Bool.andb_true_iff; split; [|exact G1].
  rewrite trace_cons in El. injection El as <- _. cbn [etime init_st last].
  inversion Ht as [|? ? Ht1 _]; subst. simpl in Ht1. unfold zero_time, NS. lia.
Qed.

(* ---------- run-level statements used in C06_Properties ---------- *)
(* state reached after some calls, the last of them at reading cl *)
Lemma after_prefix c pre cl n : cfg_ok c -> nonneg_calls pre -> 0 <= n ->
  let s := run_state c init_st (pre ++ [(cl, n)]) in inv c s /\ last s <= cl.
Proof.
  intros Hc Hp Hn. cbn zeta. rewrite run_state_app. cbn [run_state].
  pose proof (run_inv c pre init_st Hc (init_inv c Hc) Hp) as Hi.
  split; [exact (proj1 (step_potential c _ cl n Hc Hi Hn))|apply last_after_call; auto].
Qed.

Lemma lower_after_idle c pre cl n t post : cfg_ok c -> nonneg_calls pre -> 0 <= n -> 0 <= t ->
  all_one post ->
  sorted_from (cl + t) (trace c (run_state c init_st (pre ++ [(cl, n)])) post) = true ->
  Z.of_nat (List.length post) <= Z.min (burst c) (qps c * t / NS) ->
  all_granted (trace c (run_state c init_st (pre ++ [(cl, n)])) post).
Proof.
  intros Hc Hp Hn Ht H1 Hs Hlen.
  destruct (after_prefix c pre cl n Hc Hp Hn) as (Hi & Hl).
  apply (lower_core c _ cl t); auto.
Qed.

Lemma lower_tokens_after_idle c pre cl n t : cfg_ok c -> nonneg_calls pre -> 0 <= n -> 0 <= t ->
  Z.min (cap c) (qps c * t) - qps c + 1
  <= snd (advance c (run_state c init_st (pre ++ [(cl, n)])) (cl + t)).
Proof.
  intros Hc Hp Hn Ht. destruct (after_prefix c pre cl n Hc Hp Hn) as (Hi & Hl).
  rewrite (advance_eq c _ (cl + t) Hc Hi). cbn [snd]. apply (avail_lower c _ cl t Hc Hi Hl Ht).
Qed.

(* a request that is not admitted is answered 429 by the dispatcher; an admitted one is forwarded *)
Lemma rejects_rest c s now up : 
  dispatch_status (snd (allow_n c s now 1)) up = if snd (allow_n c s now 1) then up else 429.
Proof. reflexivity. Qed.

(* the strict closed-window bound burst + qps*(t_j - t_i) fails by 1e-9 token:
   (qps 3, burst 1), requests at 0 and 333333333 ns are both admitted: 2 > 1 + 3*0.333333333 *)
Lemma closed_strict_refuted :
  exists c calls, cfg_ok c /\ all_one calls /\ sorted_from 0 (trace c init_st calls) = true /\
    NS * gsum (trace c init_st calls)
    > cap c + qps c * (end_time 0 (trace c init_st calls) - first_time (trace c init_st calls)).
Proof.
  exists {| qps := 3; burst := 1 |}, [(0, 1); (333333333, 1)].
  split; [unfold cfg_ok, cap, max_dur, NS; simpl; lia|].
  split; [repeat constructor|]. split; vm_compute; reflexivity.
Qed.

(* ---------- reconfiguration ---------- *)
Definition seg_good (Q : cfg -> Prop) (p : cfg * list ev) : Prop :=
  exists calls, all_one calls /\ Forall (fun x => 0 <= fst x) calls /\ Q (fst p) /\
                snd p = trace (fst p) init_st calls.

Definition op_ok (Q : cfg -> Prop) (o : op) : Prop :=
  match o with OTry t => 0 <= t | OResize q b => Q {| qps := q; burst := b |} end.

Definition model_tr (r : rtb) (ops : list op) : list (op * bool) := combine ops (rtb_run r ops).

Lemma model_tr_cons r o ops :
  model_tr r (o :: ops) = (o, snd (rtb_step r o)) :: model_tr (fst (rtb_step r o)) ops.
Proof. unfold model_tr; simpl. destruct (rtb_step r o) as [r' b]; reflexivity. Qed.

(* Resize with the values in force changes nothing; any other Resize installs a NEW bucket *)
Lemma resize_step r q b :
  rtb_step r (OResize q b) =
  if ((qps (rc r) =? q) && (burst (rc r) =? b))%bool then (r, false) else (rtb_new q b, true).
Proof. reflexivity. Qed.

Lemma segments_model (Q : cfg -> Prop) : forall ops c calls, Q c -> all_one calls ->
  Forall (fun x => 0 <= fst x) calls -> Forall (op_ok Q) ops ->
  Forall (seg_good Q) (segments c (rev (trace c init_st calls))
                         (model_tr {| rc := c; rs := run_state c init_st calls |} ops)).
Proof.
  induction ops as [|o ops IH]; intros c calls Hc H1 Ht Ho.
  - cbn. constructor; [|constructor]. exists calls. rewrite rev_involutive. auto.
  - inversion Ho as [|? ? Ho1 Ho2]; subst. rewrite model_tr_cons. destruct o as [now|q b].
    + cbn [rtb_step rc rs]. destruct (allow_n c (run_state c init_st calls) now 1) as [s' ok] eqn:E.
      cbn [fst snd segments].
      assert (Et : {| etime := now; easked := 1; eok := ok |} :: rev (trace c init_st calls)
                   = rev (trace c init_st (calls ++ [(now, 1)]))).
      { rewrite trace_app, rev_app_distr. rewrite trace_cons, trace_nil, E. reflexivity. }
      assert (Es : s' = run_state c init_st (calls ++ [(now, 1)])).
      { rewrite run_state_app. cbn [run_state]. rewrite E. reflexivity. }
      rewrite Et, Es. apply IH; auto.
      * apply Forall_app; split; [exact H1|repeat constructor].
      * apply Forall_app; split; [exact Ht|]. constructor; [exact Ho1|constructor].
    + rewrite resize_step. cbn [rc]. cbn [segments].
      destruct ((qps c =? q) && (burst c =? b))%bool eqn:E; cbn [fst snd].
      * apply IH; auto.
      * constructor; [exists calls; rewrite rev_involutive; auto|].
        apply (IH {| qps := q; burst := b |} []); auto; constructor.
Qed.

Definition cfg_std (c : cfg) : Prop := cfg_ok c /\ 1 <= burst c /\ qps c <= NS.

(* every history of TryAcquire / Resize calls on one resizeableTokenBucket: each stretch between two
   effective reconfigurations satisfies all three clauses of the spec *)
Lemma history_ok q b ops : cfg_std {| qps := q; burst := b |} -> Forall (op_ok cfg_std) ops ->
  let segs := segments {| qps := q; burst := b |} [] (model_tr (rtb_new q b) ops) in
  all_segments closed_ok segs = true /\ all_segments open_ok segs = true /\ all_segments lower_ok segs = true.
Proof.
  intros Hc Ho.
  pose proof (segments_model cfg_std ops {| qps := q; burst := b |} [] Hc ltac:(constructor) ltac:(constructor) Ho) as H.
  cbn [run_state trace rev] in H. change (trace {| qps := q; burst := b |} init_st []) with (@nil ev) in H.
  cbn [rev] in H. unfold rtb_new. cbn zeta.
  unfold all_segments. rewrite !forallb_forall.
  rewrite Forall_forall in H.
  repeat split; intros [c evs] Hin; destruct (H _ Hin) as (calls & H1 & Ht & (Hok & Hb & Hq) & E);
    cbn [fst snd] in *; subst evs.
  - apply spec_closed; [exact Hok|apply all_one_nonneg; exact H1].
  - apply spec_open; auto.
  - apply spec_lower; auto.
Qed.

(* the evaluator's first clause is consistent: the model agrees with its own decisions *)
Lemma follow_self c s now :
  follow c s now (snd (allow_n c s now 1)) = (fst (allow_n c s now 1), true).
Proof.
  unfold follow. destruct (advance c s now) as [l0 t]. destruct (allow_n c s now 1) as [s' ok]; cbn [fst snd].
  rewrite Bool.eqb_reflx. reflexivity.
Qed.

Lemma agree_self : forall ops r, agree_ops r (model_tr r ops) = true.
Proof.
  induction ops as [|o ops IH]; intros r; [reflexivity|].
  rewrite model_tr_cons. destruct o as [now|q b].
  - cbn [agree_ops rtb_step]. destruct (allow_n (rc r) (rs r) now 1) as [s' ok] eqn:E. cbn [fst snd].
    pose proof (follow_self (rc r) (rs r) now) as F. rewrite E in F; cbn [fst snd] in F. rewrite F.
    cbn [andb]. apply IH.
  - cbn [agree_ops]. destruct (rtb_step r (OResize q b)) as [r' res] eqn:E. cbn [fst snd].
    rewrite Bool.eqb_reflx. cbn [andb]. apply IH.
Qed.

(* ---------- overlapping calls (any number of concurrent callers) ----------
   Repaired code: the clock is read while the bucket's own lock is held, so in order of decision
   the readings never step back, and the reading of a call lies between its invocation and its
   completion.  Then whatever is admitted entirely inside [a, b] is a window of the decision-order
   trace whose readings lie in [a, b]. *)
Definition inr (a b : Z) (e : ev) : bool := ((a <=? etime e) && (etime e <=? b))%bool.

Lemma sorted_ge : forall l prev x, sorted_from prev l = true -> In x l -> prev <= etime x.
Proof.
  induction l as [|e r IH]; intros prev x Hs Hin; [destruct Hin|].
  simpl in Hs. apply Bool.andb_true_iff in Hs as (H1 & H2). apply Z.leb_le in H1.
  destruct Hin as [->|Hin]; [exact H1|]. specialize (IH _ _ H2 Hin). lia.
Qed.

Lemma sorted_range_window a b : a <= b -> forall l prev, sorted_from prev l = true ->
  exists l1 w l2, l = l1 ++ w ++ l2 /\ filter (inr a b) l = w /\
    Forall (fun e => etime e < a) l1 /\ Forall (fun e => a <= etime e <= b) w /\ Forall (fun e => b < etime e) l2.
Proof.
  intros Hab. induction l as [|e r IH]; intros prev Hs.
  - exists [], [], []. repeat split; constructor.
  - simpl in Hs. apply Bool.andb_true_iff in Hs as (H1 & H2).
    destruct (IH _ H2) as (l1 & w & l2 & E & F & A1 & A2 & A3).
    assert (Hge : forall x, In x r -> etime e <= etime x) by (intros x Hx; exact (sorted_ge r _ x H2 Hx)).
    destruct (Z_lt_ge_dec (etime e) a) as [Hlt|Hge_a].
    + exists (e :: l1), w, l2. split; [rewrite E; reflexivity|]. split.
      * cbn [filter]. unfold inr at 1. replace (a <=? etime e) with false by lia. exact F.
      * repeat split; auto.
    + assert (Hl1 : l1 = []).
      { destruct l1 as [|x l1']; [reflexivity|]. inversion A1 as [|? ? Hx _]; subst.
        specialize (Hge x ltac:(left; reflexivity)). lia. }
      rewrite Hl1 in E. simpl in E.
      destruct (Z_le_gt_dec (etime e) b) as [Hle|Hgt].
      * exists [], (e :: w), l2. split; [rewrite E; reflexivity|]. split.
        -- cbn [filter]. unfold inr at 1. replace ((a <=? etime e) && (etime e <=? b))%bool with true by lia.
           rewrite F. reflexivity.
        -- repeat split; auto. constructor; [lia|exact A2].
      * assert (Hw : w = []).
        { destruct w as [|x w']; [reflexivity|]. inversion A2 as [|? ? Hx _]; subst.
          specialize (Hge x ltac:(left; reflexivity)). lia. }
        rewrite Hw in E, F. simpl in E. exists [], [], (e :: l2). split; [rewrite E; reflexivity|]. split.
        -- cbn [filter]. unfold inr at 1. replace ((a <=? etime e) && (etime e <=? b))%bool with false by lia. exact F.
        -- repeat split; auto. constructor; [lia|exact A3].
Qed.

Lemma end_time_le b : forall l prev, prev <= b -> Forall (fun e => etime e <= b) l -> end_time prev l <= b.
Proof. induction l as [|e r IH]; intros prev Hp H; [exact Hp|]. inversion H; subst. simpl. apply IH; auto. Qed.

Lemma range_bound c calls a b : cfg_ok c -> nonneg_calls calls -> a <= b ->
  (match trace c init_st calls with [] => true | e :: r => sorted_from (etime e) r end) = true ->
  NS * gsum (filter (inr a b) (trace c init_st calls)) <= cap c + qps c * (b - a + 1).
Proof.
  intros Hc Hn Hab Hs.
  pose proof (cap_nonneg c Hc) as Hcap. assert (Hq : 1 <= qps c) by (destruct Hc; lia).
  assert (Hs' : exists prev, sorted_from prev (trace c init_st calls) = true).
  { destruct (trace c init_st calls) as [|e r]; [exists 0; reflexivity|].
    exists (etime e). simpl. apply Bool.andb_true_iff; split; [lia|exact Hs]. }
  destruct Hs' as (prev & Hsp).
  destruct (sorted_range_window a b Hab _ prev Hsp) as (l1 & w & l2 & E & F & A1 & A2 & A3).
  rewrite F. destruct w as [|e0 w'].
  - unfold gsum; simpl. nia.
  - pose proof (upper_closed_any c init_st calls l1 (e0 :: w') l2 Hc (init_inv c Hc) Hn E ltac:(discriminate)) as H.
    cbn [first_time tl] in H.
    rewrite E in Hsp. apply sorted_app_r in Hsp. apply sorted_app_l in Hsp. simpl in Hsp.
    apply Bool.andb_true_iff in Hsp as (_ & Hsw).
    rewrite (fwd_sorted _ _ Hsw) in H.
    inversion A2 as [|? ? He0 Hw']; subst.
    assert (end_time (etime e0) w' <= b).
    { apply end_time_le; [lia|]. eapply Forall_impl; [|exact Hw']. simpl; intros; lia. }
    assert (qps c * (end_time (etime e0) w' - etime e0 + 1) <= qps c * (b - a + 1)) by nia.
    lia.
Qed.

(* what ties an observed call (invocation, completion, admitted?) to its decision event *)
Definition call_of (e : ev) (x : cev) : Prop :=
  easked e = 1 /\ cadm x = eok e /\ cinv x <= etime e <= cresp x.

Lemma conc_count_cons a b x l :
  conc_count a b (x :: l) = (if inside a b x then 1 else 0) + conc_count a b l.
Proof. unfold conc_count. cbn [filter]. destruct (inside a b x); cbn [List.length]; lia. Qed.

Lemma conc_count_le a b : forall evs l, Forall2 call_of evs l ->
  conc_count a b l <= gsum (filter (inr a b) evs).
Proof.
  induction 1 as [|e x evs l (H1 & H2 & H3) HF IH]; [reflexivity|].
  rewrite conc_count_cons. cbn [filter].
  assert (Hg : 0 <= granted e) by (unfold granted; destruct (eok e); lia).
  destruct (inside a b x) eqn:Ei.
  - unfold inside in Ei. apply Bool.andb_true_iff in Ei as (Ei & E3). apply Bool.andb_true_iff in Ei as (E1 & E2).
    unfold inr at 1. replace ((a <=? etime e) && (etime e <=? b))%bool with true by lia.
    rewrite gsum_cons. unfold granted at 1. rewrite <- H2, E1, H1. lia.
  - destruct (inr a b e); [rewrite gsum_cons|]; lia.
Qed.

(* C06_upper_concurrent *)
Lemma upper_concurrent c calls l a b : cfg_ok c -> all_one calls ->
  (match trace c init_st calls with [] => true | e :: r => sorted_from (etime e) r end) = true ->
  Forall2 call_of (trace c init_st calls) l -> a <= b ->
  NS * conc_count a b l <= cap c + qps c * (b - a + 1).
Proof.
  intros Hc H1 Hs HF Hab.
  pose proof (conc_count_le a b _ _ HF). pose proof NS_pos.
  pose proof (range_bound c calls a b Hc (all_one_nonneg _ H1) Hab Hs). nia.
Qed.

Lemma spec_conc c calls l : cfg_ok c -> all_one calls ->
  (match trace c init_st calls with [] => true | e :: r => sorted_from (etime e) r end) = true ->
  Forall2 call_of (trace c init_st calls) l ->
  conc_ok c l = true.
Proof.
  intros Hc H1 Hs HF. unfold conc_ok. apply forallb_forall; intros x _. apply forallb_forall; intros y _.
  cbn zeta. destruct (cinv x <=? cresp y) eqn:E; [|reflexivity].
  apply Z.leb_le. apply (upper_concurrent c calls l); auto. lia.
Qed.

(* ---------- the limiter map: syncing by name keeps an unchanged schema's bucket ---------- *)
Lemma alookup_aremove_other {A} (k n : string) : k <> n -> forall (l : list (string * A)),
  alookup k (aremove n l) = alookup k l.
Proof.
  intros Hne. induction l as [|[k2 v] r IH]; [reflexivity|]. simpl.
  destruct (String.eqb n k2) eqn:E2.
  - apply String.eqb_eq in E2. subst k2. destruct (String.eqb k n) eqn:E; [apply String.eqb_eq in E; congruence|exact IH].
  - simpl. destruct (String.eqb k k2); [reflexivity|exact IH].
Qed.

Lemma alookup_aset_same {A} k (v : A) l : alookup k (aset k v l) = Some v.
Proof. unfold aset; simpl. rewrite String.eqb_refl. reflexivity. Qed.

Lemma alookup_aset_other {A} k n (v : A) l : k <> n -> alookup k (aset n v l) = alookup k l.
Proof.
  intros Hne. unfold aset; simpl. destruct (String.eqb k n) eqn:E; [apply String.eqb_eq in E; congruence|].
  apply alookup_aremove_other; exact Hne.
Qed.

Lemma alookup_not_in {A} k : forall (l : list (string * A)), ~ In k (map fst l) -> alookup k l = None.
Proof.
  induction l as [|[k2 v] r IH]; intros H; [reflexivity|]. simpl in *.
  destruct (String.eqb k k2) eqn:E; [apply String.eqb_eq in E; subst; exfalso; apply H; left; reflexivity|].
  apply IH. intros Hin; apply H; right; exact Hin.
Qed.

Lemma alookup_in {A} k : forall (l : list (string * A)) v, alookup k l = Some v -> In k (map fst l).
Proof.
  induction l as [|[k2 v2] r IH]; intros v H; [discriminate|]. simpl in *.
  destruct (String.eqb k k2) eqn:E; [apply String.eqb_eq in E; left; congruence|right; exact (IH _ H)].
Qed.

Lemma sync_entries_other name : forall spec m, ~ In name (map fst spec) ->
  alookup name (sync_entries m spec) = alookup name m.
Proof.
  induction spec as [|[n sc] r IH]; intros m H; [reflexivity|]. simpl in *.
  rewrite IH by (intros Hin; apply H; right; exact Hin).
  unfold sync_one. apply alookup_aset_other. intros ->. apply H. left; reflexivity.
Qed.

Lemma sync_entries_tb name q b rt : forall spec m, NoDup (map fst spec) ->
  alookup name spec = Some (STb q b) -> alookup name m = Some (Some rt) ->
  alookup name (sync_entries m spec) = Some (Some (fst (rtb_step rt (OResize q b)))).
Proof.
  induction spec as [|[n sc] r IH]; intros m Hnd Hs Hm; [discriminate|].
  simpl in Hnd. inversion Hnd as [|? ? Hn Hr]; subst. simpl in Hs. cbn [sync_entries].
  destruct (String.eqb name n) eqn:E.
  - apply String.eqb_eq in E. subst n. injection Hs as ->.
    rewrite (sync_entries_other name r _ Hn). unfold sync_one. rewrite alookup_aset_same.
    f_equal. unfold entry in *. rewrite Hm. reflexivity.
  - apply IH; [exact Hr|exact Hs|].
    unfold sync_one. rewrite alookup_aset_other; [exact Hm|]. intros ->. rewrite String.eqb_refl in E. discriminate.
Qed.

Lemma sync_entries_new name q b : forall spec m, NoDup (map fst spec) ->
  alookup name spec = Some (STb q b) -> alookup name m = None ->
  alookup name (sync_entries m spec) = Some (Some (rtb_new q b)).
Proof.
  induction spec as [|[n sc] r IH]; intros m Hnd Hs Hm; [discriminate|].
  simpl in Hnd. inversion Hnd as [|? ? Hn Hr]; subst. simpl in Hs. cbn [sync_entries].
  destruct (String.eqb name n) eqn:E.
  - apply String.eqb_eq in E. subst n. injection Hs as ->.
    rewrite (sync_entries_other name r _ Hn). unfold sync_one. rewrite alookup_aset_same.
    f_equal. unfold entry in *. rewrite Hm. reflexivity.
  - apply IH; [exact Hr|exact Hs|].
    unfold sync_one. rewrite alookup_aset_other; [exact Hm|]. intros ->. rewrite String.eqb_refl in E. discriminate.
Qed.

Lemma fold_aremove_other {A} name : forall (del : list string) (m : list (string * A)), ~ In name del ->
  alookup name (fold_left (fun m n => aremove n m) del m) = alookup name m.
Proof.
  induction del as [|n r IH]; intros m H; [reflexivity|]. simpl.
  rewrite IH by (intros Hin; apply H; right; exact Hin).
  apply alookup_aremove_other. intros ->. apply H. left; reflexivity.
Qed.

Lemma spec_eqb_lookup name q b : forall a s, spec_eqb a s = true -> alookup name s = Some (STb q b) ->
  alookup name a = Some (STb q b).
Proof.
  unfold spec_eqb. induction a as [|[k1 s1] a IH]; intros [|[k2 s2] s] He Hl; simpl in *; try discriminate.
  apply Bool.andb_true_iff in He as (He1 & He2). apply Bool.andb_true_iff in He1 as (Hk & Hs).
  apply String.eqb_eq in Hk. subst k2. destruct (String.eqb name k1); [|exact (IH _ He2 Hl)].
  injection Hl as ->. destruct s1 as [q1 b1|k]; simpl in Hs; [|discriminate].
  assert (q1 = q /\ b1 = b) as (-> & ->) by lia. reflexivity.
Qed.

(* the schema under test as the limiter map holds it *)
Definition holds (u : ulim) (name : string) (r : rtb) : Prop :=
  alookup name (umap u) = Some (Some r) /\
  alookup name (uspec u) = Some (STb (qps (rc r)) (burst (rc r))).

Definition sync_ok (name : string) (spec : fcspec) : Prop :=
  NoDup (map fst spec) /\ exists q b, alookup name spec = Some (STb q b).

Definition proj_op (name : string) (o : uop) : op :=
  match o with
  | UTry t => OTry t
  | USync spec => match alookup name spec with Some (STb q b) => OResize q b | _ => OResize 0 0 end
  end.

Lemma usync_holds u name r spec q b : holds u name r -> NoDup (map fst spec) ->
  alookup name spec = Some (STb q b) ->
  holds (usync u spec) name (fst (rtb_step r (OResize q b))).
Proof.
  intros (Hm & Hs) Hnd Hl. unfold usync. destruct (spec_eqb (uspec u) spec) eqn:E.
  - pose proof (spec_eqb_lookup name q b _ _ E Hl) as Ha. rewrite Ha in Hs. injection Hs as -> ->.
    cbn [rtb_step]. rewrite !Z.eqb_refl. cbn [andb fst]. split; [exact Hm|exact Ha].
  - split; cbn [umap uspec].
    + rewrite fold_aremove_other.
      * apply sync_entries_tb; assumption.
      * intros Hin. apply filter_In in Hin as (_ & Hf).
        assert (str_mem name (map fst spec) = true) by (apply str_mem_In; exact (alookup_in name spec _ Hl)).
        rewrite H in Hf. discriminate.
    + rewrite Hl. cbn [rtb_step]. destruct ((qps (rc r) =? q) && (burst (rc r) =? b))%bool eqn:Eq; cbn [fst].
      * assert (qps (rc r) = q /\ burst (rc r) = b) as (-> & ->) by lia. reflexivity.
      * reflexivity.
Qed.

(* C06_sync_by_name: whatever happens to the siblings, the requests for [name] are decided exactly as by
   its own bucket, for which a re-sync is a Resize to the values of the new spec (no-op when unchanged) *)
Lemma sync_by_name name : forall ops u r, holds u name r ->
  Forall (fun o => match o with USync spec => sync_ok name spec | UTry _ => True end) ops ->
  urun u name ops = rtb_tries r (map (proj_op name) ops).
Proof.
  induction ops as [|o rest IH]; intros u r Hh Ho; [reflexivity|].
  inversion Ho as [|? ? Ho1 Ho2]; subst. destruct o as [now|spec].
  - cbn [urun map proj_op rtb_tries]. destruct Hh as (Hm & Hs). unfold utry. rewrite Hm.
    destruct (rtb_step r (OTry now)) as [r' ok] eqn:E. f_equal. apply IH; [|exact Ho2].
    split; cbn [umap uspec]; [apply alookup_aset_same|].
    cbn [rtb_step] in E. destruct (allow_n (rc r) (rs r) now 1) as [s' ok']. injection E as <- _. exact Hs.
  - destruct Ho1 as (Hnd & q & b & Hl). cbn [urun map proj_op rtb_tries]. rewrite Hl.
    apply IH; [apply usync_holds; assumption|exact Ho2].
Qed.

Lemma first_sync_holds name spec q b : NoDup (map fst spec) -> alookup name spec = Some (STb q b) ->
  holds (usync ulim_new spec) name (rtb_new q b).
Proof.
  intros Hnd Hl. unfold usync, ulim_new. cbn [uspec umap].
  destruct (spec_eqb [] spec) eqn:E.
  - destruct spec; [discriminate|discriminate].
  - split; cbn [umap uspec].
    + cbn [map filter fold_left]. apply sync_entries_new; auto.
    + exact Hl.
Qed.

Definition try_decisions (tr : list (op * bool)) : list bool :=
  flat_map (fun p => match fst p with OTry _ => [snd p] | OResize _ _ => [] end) tr.

Lemma rtb_tries_model_tr : forall ops r, rtb_tries r ops = try_decisions (model_tr r ops).
Proof.
  induction ops as [|o rest IH]; intros r; [reflexivity|]. rewrite model_tr_cons. destruct o as [now|q b].
  - cbn [rtb_tries try_decisions flat_map fst snd]. destruct (rtb_step r (OTry now)) as [r' ok]. cbn [fst snd app].
    f_equal. apply IH.
  - cbn [rtb_tries try_decisions flat_map fst snd app]. apply IH.
Qed.

Definition usync_std (name : string) (o : uop) : Prop :=
  match o with
  | UTry t => 0 <= t
  | USync spec => NoDup (map fst spec) /\ exists q b, alookup name spec = Some (STb q b) /\ cfg_std {| qps := q; burst := b |}
  end.

(* C06_sync_windows: a cluster with any sibling schemas, any sequence of requests for [name] and re-syncs
   of the whole spec.  The decisions are those of the schema's own bucket, whose history (re-sync = Resize
   to the spec's values) splits into stretches between EFFECTIVE reconfigurations of [name] only — a re-sync
   that changes, adds or removes siblings does not end a stretch — and every stretch satisfies the three
   clauses of the spec *)
Lemma sync_windows name spec0 q b ops : NoDup (map fst spec0) -> alookup name spec0 = Some (STb q b) ->
  cfg_std {| qps := q; burst := b |} -> Forall (usync_std name) ops ->
  let pops := map (proj_op name) ops in
  let tr := model_tr (rtb_new q b) pops in
  urun (usync ulim_new spec0) name ops = try_decisions tr /\
  let segs := segments {| qps := q; burst := b |} [] tr in
  all_segments closed_ok segs = true /\ all_segments open_ok segs = true /\ all_segments lower_ok segs = true.
Proof.
  intros Hnd Hl Hc Ho. cbn zeta. split.
  - rewrite <- rtb_tries_model_tr. apply sync_by_name; [apply first_sync_holds; assumption|].
    eapply Forall_impl; [|exact Ho]. intros [t|spec]; simpl; [auto|]. intros (H1 & q' & b' & H2 & _). split; eauto.
  - apply history_ok; [exact Hc|]. apply Forall_map. eapply Forall_impl; [|exact Ho].
    intros [t|spec]; simpl; [auto|]. intros (H1 & q' & b' & H2 & H3). rewrite H2. exact H3.
Qed.

(* ---------- request level ---------- *)
Lemma req_run_tries : forall reqs r,
  map fst (req_run r reqs) = rtb_tries r (map (fun p : rkind * Z => OTry (snd p)) reqs).
Proof.
  induction reqs as [|[k now] rest IH]; intros r; [reflexivity|].
  cbn [req_run map rtb_tries snd]. unfold req_step. destruct (rtb_step r (OTry now)) as [r' ok].
  cbn [map fst]. f_equal. apply IH.
Qed.

Lemma req_run_status : forall reqs r,
  Forall (fun a : bool * Z => snd a = if fst a then 200 else 429) (req_run r reqs).
Proof.
  induction reqs as [|[k now] rest IH]; intros r; [constructor|].
  cbn [req_run]. unfold req_step. destruct (rtb_step r (OTry now)) as [r' ok].
  constructor; [destruct ok; reflexivity|apply IH].
Qed.

(* C06_request_kind_irrelevant: a request-level history (any mix of kinds) of a schema (qps, burst) is decided
   like the TryAcquire trace with the same clock readings; hence one stretch that satisfies the three clauses,
   and every request that is not admitted is answered 429 *)
Lemma request_kind_irrelevant q b reqs : cfg_std {| qps := q; burst := b |} ->
  Forall (fun p : rkind * Z => 0 <= snd p) reqs ->
  let ops := map (fun p : rkind * Z => OTry (snd p)) reqs in
  map fst (req_run (rtb_new q b) reqs) = try_decisions (model_tr (rtb_new q b) ops) /\
  Forall (fun a : bool * Z => snd a = if fst a then 200 else 429) (req_run (rtb_new q b) reqs) /\
  let segs := segments {| qps := q; burst := b |} [] (model_tr (rtb_new q b) ops) in
  all_segments closed_ok segs = true /\ all_segments open_ok segs = true /\ all_segments lower_ok segs = true.
Proof.
  intros Hc Ht. cbn zeta. split; [rewrite req_run_tries; apply rtb_tries_model_tr|].
  split; [apply req_run_status|].
  apply history_ok; [exact Hc|]. apply Forall_map. eapply Forall_impl; [|exact Ht]. intros [k t]; simpl; auto.
Qed.

(* ---------- a change of TYPE to token bucket installs a new bucket, whatever was there ---------- *)
Lemma sync_entries_install name q b : forall spec m, NoDup (map fst spec) ->
  alookup name spec = Some (STb q b) ->
  (alookup name m = None \/ alookup name m = Some None) ->
  alookup name (sync_entries m spec) = Some (Some (rtb_new q b)).
Proof.
  induction spec as [|[n sc] r IH]; intros m Hnd Hs Hm; [discriminate|].
  simpl in Hnd. inversion Hnd as [|? ? Hn Hr]; subst. simpl in Hs. cbn [sync_entries].
  destruct (String.eqb name n) eqn:E.
  - apply String.eqb_eq in E. subst n. injection Hs as ->.
    rewrite (sync_entries_other name r _ Hn). unfold sync_one. rewrite alookup_aset_same.
    f_equal. unfold entry in *. destruct Hm as [Hm|Hm]; rewrite Hm; reflexivity.
  - apply IH; [exact Hr|exact Hs|].
    unfold sync_one. rewrite alookup_aset_other; [exact Hm|]. intros ->. rewrite String.eqb_refl in E. discriminate.
Qed.

(* the limiter the map holds for [name] is not a token bucket: absent (exempt default) or of another type *)
Definition not_bucket (u : ulim) (name : string) : Prop :=
  (forall q b, alookup name (uspec u) <> Some (STb q b)) /\
  (alookup name (umap u) = None \/ alookup name (umap u) = Some None).

Lemma type_change_holds u name spec q b : not_bucket u name -> NoDup (map fst spec) ->
  alookup name spec = Some (STb q b) -> holds (usync u spec) name (rtb_new q b).
Proof.
  intros (Hprev & Hm) Hnd Hl. unfold usync. destruct (spec_eqb (uspec u) spec) eqn:E.
  - exfalso. exact (Hprev q b (spec_eqb_lookup name q b _ _ E Hl)).
  - split; cbn [umap uspec]; [|exact Hl].
    rewrite fold_aremove_other.
    + apply sync_entries_install; assumption.
    + intros Hin. apply filter_In in Hin as (_ & Hf).
      assert (str_mem name (map fst spec) = true) by (apply str_mem_In; exact (alookup_in name spec _ Hl)).
      rewrite H in Hf. discriminate.
Qed.

Lemma windows_from_holds name u q b ops : holds u name (rtb_new q b) ->
  cfg_std {| qps := q; burst := b |} -> Forall (usync_std name) ops ->
  let tr := model_tr (rtb_new q b) (map (proj_op name) ops) in
  urun u name ops = try_decisions tr /\
  let segs := segments {| qps := q; burst := b |} [] tr in
  all_segments closed_ok segs = true /\ all_segments open_ok segs = true /\ all_segments lower_ok segs = true.
Proof.
  intros Hh Hc Ho. cbn zeta. split.
  - rewrite <- rtb_tries_model_tr. apply sync_by_name; [exact Hh|].
    eapply Forall_impl; [|exact Ho]. intros [t|spec]; simpl; [auto|]. intros (H1 & q' & b' & H2 & _). split; eauto.
  - apply history_ok; [exact Hc|]. apply Forall_map. eapply Forall_impl; [|exact Ho].
    intros [t|spec]; simpl; [auto|]. intros (H1 & q' & b' & H2 & H3). rewrite H2. exact H3.
Qed.

(* C06_type_change_installs_bucket: for EVERY previous state of the limiter map in which [name] is not a token
   bucket (absent, max-in-flight, exempt — any state of it), after a Sync that makes it tokenBucket(q, b) the
   requests for it are decided by a NEW full bucket: all window bounds and the lower bound hold from the
   reconfiguration on, across any later sibling-only re-syncs *)
Lemma type_change_installs_bucket name u spec q b ops : not_bucket u name -> NoDup (map fst spec) ->
  alookup name spec = Some (STb q b) -> cfg_std {| qps := q; burst := b |} -> Forall (usync_std name) ops ->
  let tr := model_tr (rtb_new q b) (map (proj_op name) ops) in
  urun (usync u spec) name ops = try_decisions tr /\
  let segs := segments {| qps := q; burst := b |} [] tr in
  all_segments closed_ok segs = true /\ all_segments open_ok segs = true /\ all_segments lower_ok segs = true.
Proof.
  intros Hnb Hnd Hl Hc Ho. apply windows_from_holds; [apply type_change_holds; assumption|exact Hc|exact Ho].
Qed.

(* [not_bucket] in reachable states: after any effective sync that gives [name] another type — whatever it was
   before, in particular a token bucket in any state — the map holds a non-bucket limiter for it *)
Lemma sync_entries_other_type name k : forall spec m, NoDup (map fst spec) ->
  alookup name spec = Some (SOther k) -> alookup name (sync_entries m spec) = Some None.
Proof.
  induction spec as [|[n sc] r IH]; intros m Hnd Hs; [discriminate|].
  simpl in Hnd. inversion Hnd as [|? ? Hn Hr]; subst. simpl in Hs. cbn [sync_entries].
  destruct (String.eqb name n) eqn:E.
  - apply String.eqb_eq in E. subst n. injection Hs as ->.
    rewrite (sync_entries_other name r _ Hn). unfold sync_one. apply alookup_aset_same.
  - apply IH; [exact Hr|exact Hs].
Qed.

Lemma sync_to_other_not_bucket u name spec k : NoDup (map fst spec) ->
  spec_eqb (uspec u) spec = false -> alookup name spec = Some (SOther k) ->
  not_bucket (usync u spec) name.
Proof.
  intros Hnd He Hl. unfold usync, not_bucket. rewrite He. cbn [uspec umap]. split.
  - intros q b H. rewrite Hl in H. discriminate.
  - right. rewrite fold_aremove_other.
    + apply (sync_entries_other_type name k); assumption.
    + intros Hin. apply filter_In in Hin as (_ & Hf).
      assert (str_mem name (map fst spec) = true) by (apply str_mem_In; exact (alookup_in name spec _ Hl)).
      rewrite H in Hf. discriminate.
Qed.

Lemma new_map_not_bucket name : not_bucket ulim_new name.
Proof. split; [intros q b H; discriminate H|left; reflexivity]. Qed.
