(* C11 — specification as an executable checker over OBSERVATIONS only.

   Property text: after the gateway has processed any history of UpstreamCluster creations, updates and
   deletions, including failed attempts and retried deliveries of superseded versions, each cluster's
   effective routing, endpoint set and disabled flags, flow-control schemas and limits, feature gates,
   logging switches, TLS material and server names are those of its latest object: identical to those of
   a freshly started gateway that was given only the latest objects (client connection settings excepted).

   The observations are the views (C11_Model.view: what the public accessors return) of the gateway that
   went through the history ("hot") and of a second, fresh gateway that only received the latest objects,
   for every cluster name of the universe, plus the results of the fresh gateway's deliveries.
   A history is judged when its final state is one the property speaks about (C10_Spec.judged): stored objects
   field-valid and pairwise name-disjoint, every re-delivery a legal one (requeued event or resync), and every
   stored cluster has had an event processed successfully since its current version was stored. *)
From KG Require Import Prelude C10_Model C10_Spec C11_Model.
Open Scope string_scope.
Open Scope Z_scope.

Definition fcp_eqb (a b : string * fkind) : bool := (String.eqb (fst a) (fst b) && fkind_eqb (snd a) (snd b))%bool.
Definition probe_eqb (a b : probe_res) : bool :=
  (String.eqb (pr_fcname a) (pr_fcname b) && fcp_eqb (pr_fc a) (pr_fc b)
   && list_eqb Bool.eqb (pr_ups a) (pr_ups b) && Bool.eqb (pr_log a) (pr_log b))%bool.
Definition bb_eqb (a b : bool * bool) : bool := (Bool.eqb (fst a) (fst b) && Bool.eqb (snd a) (snd b))%bool.
Definition view_eqb (a b : view) : bool :=
  (Bool.eqb (v_present a) (v_present b) && Bool.eqb (v_stopped a) (v_stopped b)
   && list_eqb (opt_eqb bb_eqb) (v_eps a) (v_eps b)
   && list_eqb fcp_eqb (v_fcs a) (v_fcs b)
   && list_eqb fkind_eqb (v_enf a) (v_enf b)
   && list_eqb Bool.eqb (v_gates a) (v_gates b)
   && list_eqb (opt_eqb probe_eqb) (v_probes a) (v_probes b)
   && list_eqb String.eqb (v_names a) (v_names b)
   && (Bool.eqb (fst (fst (v_tls a))) (fst (fst (v_tls b))) && (snd (fst (v_tls a)) =? snd (fst (v_tls b)))
       && (snd (v_tls a) =? snd (v_tls b)))
   && (Bool.eqb (fst (v_verify a)) (fst (v_verify b)) && (snd (v_verify a) =? snd (v_verify b)))
   && list_eqb Bool.eqb (v_keys a) (v_keys b))%bool.

Record c11_obs := {
  ob_hot : list view;          (* per cluster name of the universe, gateway that saw the whole history *)
  ob_fresh : list view;        (* same names, fresh gateway given only the latest objects *)
  ob_fresh_res : list Z        (* result of each delivery to the fresh gateway: 1 ok, 2 requeue, 3 error *)
}.

(* Is the final state inside the quantifier?  C10_Spec.judged on the state after the whole history: every stored
   object passed field validation, every re-delivery was a legal one (a requeued event, or a resync of the
   current version), the stored objects are pairwise name-disjoint, and every stored cluster has had an event
   processed successfully since its current version was stored. *)
Definition legal_hist (s : sstate) (l : list (op * step_obs)) : bool := judged_after s l.

(* the latest objects "apply on a fresh gateway" *)
Definition fresh_applies (o : c11_obs) : bool := forallb (Z.eqb 1) (ob_fresh_res o).

(* clause: the hot gateway is indistinguishable from the fresh one *)
Definition converges_ok (steps : list (op * step_obs)) (o : c11_obs) : bool :=
  if (legal_hist (sinit 0) steps && fresh_applies o)%bool
  then list_eqb view_eqb (ob_hot o) (ob_fresh o)
  else true.
