(* C11 — specification as an executable checker over OBSERVATIONS only.

   Property text: after the gateway has processed any history of UpstreamCluster creations, updates and
   deletions, including failed attempts and retried deliveries of superseded versions, each cluster's
   effective routing, endpoint set and disabled flags, flow-control schemas and limits, feature gates,
   logging switches, TLS material and server names are those of its latest object: identical to those of
   a freshly started gateway that was given only the latest objects (client connection settings excepted).

   The observations are the views (C11_Model.view: what the public accessors return) of the gateway that
   went through the history ("hot") and of a second, fresh gateway that only received the latest objects,
   for every cluster name of the universe, plus the results of the fresh gateway's deliveries.
   A history is in the quantifier when no op bypassed admission and every re-delivery was a legal one
   (the controller had asked for a requeue of that event, or it still is the current version: resync). *)
From KG Require Import Prelude C10_Model C10_Spec C11_Model.
Open Scope string_scope.
Open Scope Z_scope.

Definition fcp_eqb (a b : string * fkind) : bool := (String.eqb (fst a) (fst b) && fkind_eqb (snd a) (snd b))%bool.
Definition probe_eqb (a b : probe_res) : bool :=
  (String.eqb (pr_fcname a) (pr_fcname b) && fcp_eqb (pr_fc a) (pr_fc b)
   && list_eqb Bool.eqb (pr_ups a) (pr_ups b) && Bool.eqb (pr_log a) (pr_log b))%bool.
Definition bb_eqb (a b : bool * bool) : bool := (Bool.eqb (fst a) (fst b) && Bool.eqb (snd a) (snd b))%bool.
Definition view_eqb (a b : view) : bool :=
  (Bool.eqb (v_present a) (v_present b) && Bool.eqb (v_stopped a) (v_stopped b)
   && list_eqb (opt_eqb bb_eqb) (v_eps a) (v_eps b)
   && list_eqb fcp_eqb (v_fcs a) (v_fcs b)
   && list_eqb Bool.eqb (v_gates a) (v_gates b)
   && list_eqb (opt_eqb probe_eqb) (v_probes a) (v_probes b)
   && list_eqb String.eqb (v_names a) (v_names b)
   && (Bool.eqb (fst (fst (v_tls a))) (fst (fst (v_tls b))) && (snd (fst (v_tls a)) =? snd (fst (v_tls b)))
       && (snd (v_tls a) =? snd (v_tls b)))
   && (Bool.eqb (fst (v_verify a)) (fst (v_verify b)) && (snd (v_verify a) =? snd (v_verify b)))
   && list_eqb Bool.eqb (v_keys a) (v_keys b))%bool.

Record c11_obs := {
  ob_hot : list view;          (* per cluster name of the universe, gateway that saw the whole history *)
  ob_fresh : list view;        (* same names, fresh gateway given only the latest objects *)
  ob_fresh_res : list Z        (* result of each delivery to the fresh gateway: 1 ok, 2 requeue, 3 error *)
}.

(* is the history inside the quantifier? (uses C10_Spec's bookkeeping of events: names, results, versions) *)
Definition legal_step (s : sstate) (p : op) : bool :=
  match p with
  | OApply force _ => negb force
  | ODelete _ => true
  | ORetry k => legal_retry s k
  end.
Fixpoint legal_hist (s : sstate) (l : list (op * step_obs)) : bool :=
  match l with
  | [] => true
  | (p, b) :: r => (legal_step s p && legal_hist (snext s p b) r)%bool
  end.

(* the latest objects "apply on a fresh gateway" *)
Definition fresh_applies (o : c11_obs) : bool := forallb (Z.eqb 1) (ob_fresh_res o).

(* clause: the hot gateway is indistinguishable from the fresh one *)
Definition converges_ok (steps : list (op * step_obs)) (o : c11_obs) : bool :=
  if (legal_hist (sinit 0) steps && fresh_applies o)%bool
  then list_eqb view_eqb (ob_hot o) (ob_fresh o)
  else true.
