(* C07 — property theorems (statements only; proofs live in C07_Proofs.v).
   [calc_with next i] is the tail of calculateNextQuota (the 0.2% floor, the growth clamp,
   ceil, the cap at the total, the NaN-safe floor at 1, the burst) applied to an ARBITRARY
   binary64 value [next] of the threshold heuristic: NaN, infinities, anything.
   [ints_ok i] = current, total and allocated sum are int32 values. *)
From Coq Require Import ZArith Permutation.
From KG Require Import Prelude C07_Float C07_FloatLemmas C07_Model C07_Spec C07_Check C07_Proofs.
Open Scope Z_scope.

(* every quota answered is at least 1 *)
Theorem C07_floor : forall i, ints_ok i ->
  (forall next, 1 <= fst (calc_with next i)) /\
  (i_count i = false -> 1 <= fst (calc_next_quota i)).
Proof. exact floor_both. Qed.
Print Assumptions C07_floor.

(* ... and at most the global limit (a limit below 1 cannot hold the minimum quota) *)
Theorem C07_cap : forall i, ints_ok i ->
  (forall next, fst (calc_with next i) <= Z.max 1 (i_total i)) /\
  (i_count i = false -> fst (calc_next_quota i) <= Z.max 1 (i_total i)).
Proof. exact cap_both. Qed.
Print Assumptions C07_cap.

(* sum <= total: replacing the reporter's current quota by the answer keeps the sum within
   the limit, the minimum quota 1 aside.  current >= 0: what an honest instance reports *)
Theorem C07_step_safe : forall i, ints_ok i -> 0 <= i_current i -> i_allocated i <= i_total i ->
  (forall next, i_allocated i - i_current i + fst (calc_with next i) <= i_total i \/ fst (calc_with next i) = 1) /\
  (i_count i = false ->
     i_allocated i - i_current i + fst (calc_next_quota i) <= i_total i \/ fst (calc_next_quota i) = 1).
Proof. exact step_safe_both. Qed.
Print Assumptions C07_step_safe.

(* sum > total (e.g. the limit was lowered): no quota grows *)
Theorem C07_no_growth_when_over : forall i, ints_ok i -> 0 <= i_current i -> i_total i < i_allocated i ->
  (forall next, fst (calc_with next i) <= Z.max 1 (i_current i)) /\
  (i_count i = false -> fst (calc_next_quota i) <= Z.max 1 (i_current i)).
Proof. exact no_growth_both. Qed.
Print Assumptions C07_no_growth_when_over.

(* token bucket: the burst never exceeds the global burst (any input); under a limit >= 1 and a
   global burst >= 0 it lies in [0, global burst], the full quota gets the full burst, and the
   burst is scaled with the quota: under the same limit and global burst, whatever else differs
   between two calls, the larger quota never gets the smaller burst *)
Theorem C07_burst :
  (forall next i, ints_ok i -> i_typ i = TBucket -> in_int32 (i_gburst i) ->
     snd (calc_with next i) <= i_gburst i) /\
  (forall next i, ints_ok i -> i_typ i = TBucket -> 1 <= i_total i -> 0 <= i_gburst i < two31 ->
     0 <= snd (calc_with next i) <= i_gburst i /\
     (fst (calc_with next i) = i_total i -> snd (calc_with next i) = i_gburst i)) /\
  (forall next1 next2 i1 i2, ints_ok i1 -> ints_ok i2 ->
     i_typ i1 = TBucket -> i_typ i2 = TBucket ->
     i_total i1 = i_total i2 -> i_gburst i1 = i_gburst i2 -> 1 <= i_total i1 -> 0 <= i_gburst i1 < two31 ->
     fst (calc_with next1 i1) <= fst (calc_with next2 i2) ->
     snd (calc_with next1 i1) <= snd (calc_with next2 i2)).
Proof. exact burst_both. Qed.
Print Assumptions C07_burst.

(* the global-count strategy hands the global values through *)
Lemma C07_count_strategy : forall i, i_count i = true ->
  calc_next_quota i = (i_total i, match i_typ i with TBucket => i_gburst i | TMax => 0 end).
Proof. exact calc_next_quota_count. Qed.

(* every history of one schema: from any well-formed state (quotas on record in [0, 2^31) for both
   item types, the recorded sums not below the true saturated sums, limit in [0, 2^31), int32 burst)
   and for every list of batches of honest report items (typed or not, allocate or count strategy,
   or a report without the schema), schema changes (limit, burst, item type) and removals, every
   clause of the executable spec holds at every step of the model's trace: answered, floor, cap,
   step_safe, no_growth, burst, over_commit (sum of the quotas above 1 <= max(limit, its previous
   value), per item type), count, burst monotone over the history *)
Theorem C07_history : forall s bs, wf s -> Forall bop_ok bs ->
  hist_ok (is_bucket (h_typ s)) (h_limit s) (h_burst s) (h_quotas s) (h_oquotas s) (model_trace s bs)
  = [true; true; true; true; true; true; true; true; true].
Proof. exact history_ok. Qed.
Print Assumptions C07_history.

(* overlap: modelled assumption = the reports of one upstream run one after the other in SOME
   order (per-upstream mutex, sum re-read inside it); for every such order the batch meets the spec *)
Theorem C07_overlap : forall s rs rs', wf s -> Permutation rs rs' ->
  step_ok (is_bucket (h_typ s)) (h_limit s) (h_burst s) (h_quotas s) (h_oquotas s) (BReports rs')
          (snd (model_step s (BReports rs'))) = [true; true; true; true; true; true; true; true].
Proof. exact overlap_ok. Qed.
Print Assumptions C07_overlap.

(* several schemas in one upstream: reports carry items for some or all schemas and are refused as a
   whole when an item type does not fit; for every schema, what the history does to it meets the spec *)
Theorem C07_multi_history : forall M ops sid s, wfM M -> Forall iop_ok ops ->
  find_schema sid (m_schemas M) = Some s ->
  hist_ok (is_bucket (h_typ s)) (h_limit s) (h_burst s) (h_quotas s) (h_oquotas s) (pick sid (mtrace M ops))
  = [true; true; true; true; true; true; true; true; true].
Proof. exact multi_history_ok. Qed.
Print Assumptions C07_multi_history.

(* a report that overlaps a change of the schema (UpstreamConditionHandler with a new limit, burst or
   item type): the handler and the report serialise on the per-upstream mutex and the report reads
   limit and sums inside it, so the outcome is that of one of the two orders.  For every state, report
   and change, in BOTH orders the step meets the spec (the answer obeys every clause against the old or
   against the new configuration) and afterwards the NEW configuration is in force - so every later
   answer is checked against it (histories with overlaps are covered by C07_history / C07_multi_history,
   where BOverlap is one of the operations) *)
Theorem C07_limit_change_overlap : forall s first r bk n g, wf s -> 0 <= n < two31 -> in_int32 g ->
  let s' := fst (model_step s (BOverlap first r bk n g)) in
  step_ok (is_bucket (h_typ s)) (h_limit s) (h_burst s) (h_quotas s) (h_oquotas s)
          (BOverlap first r bk n g) (snd (model_step s (BOverlap first r bk n g)))
  = [true; true; true; true; true; true; true; true] /\
  (is_bucket (h_typ s'), h_limit s', h_burst s') = (bk, n, g) /\ wf s'.
Proof. exact limit_change_overlap_ok. Qed.
Print Assumptions C07_limit_change_overlap.

(* ---------------- non-vacuity ---------------- *)
Definition mk t c tot gb al up cur used lvl cl :=
  {| i_typ := t; i_count := c; i_total := tot; i_gburst := gb; i_allocated := al; i_uplevel := up;
     i_current := cur; i_used := used; i_level := lvl; i_clients := cl |}.

(* limit 1000 -> 100 with two instances at 400 (the unrepaired code answered -300); a new
   instance with nothing left (it answered 0); total 10000 with the 0.2% floor and nothing left;
   a growing token bucket; the upstream level -150 (the unrepaired code divided by zero);
   all hypotheses of the per-call theorems are met by these inputs *)
Example C07_calls_nonvacuous :
  map calc_next_quota
    [mk TMax false 100 0 800 0 400 100 30 2; mk TMax false 1000 0 1000 0 0 0 0 3;
     mk TBucket false 10000 500 10000 50 0 0 0 3; mk TBucket false 10000 500 3000 50 1000 900 95 3;
     mk TBucket false 1000 100 300 (-150) 100 90 95 3]
  = [(1, 0); (1, 0); (1, 1); (1300, 65); (130, 13)]
  /\ ints_ok (mk TMax false 100 0 800 0 400 100 30 2) /\ 100 < 800 /\ 0 <= 400.
Proof. vm_compute. repeat split; try reflexivity; discriminate. Qed.

(* a history in which two instances grow to 65 + 63, the limit is lowered to 60 (sum 128 > 60),
   an instance asking for more while over-committed is cut to 1, a newcomer is held at 1, the other
   instance shrinks to 51 (sum 53 <= 60) so that the first may grow again within the limit (57),
   one instance leaves; then the item type changes: the old quotas leave the sum, the first report
   of the new type starts from nothing *)
Definition demo_batches : list bop :=
  [BReports [EReport 1 true false 0 0 0 1]; BReports [EReport 2 true false 0 0 0 2];
   BReports [EReport 1 true false 40 100 4 2]; BReports [EReport 2 true false 40 100 8 2];
   BSet false 60 0; BReports [EReport 1 true false 40 100 8 2]; BReports [EReport 3 true false 0 0 8 3];
   BReports [EReport 2 true false 5 5 8 3; EReport 1 true false 5 5 8 3];
   BRemove 1; BReports [EReport 3 true false 1 100 8 2];
   BSet true 500 50; BReports [EReport 2 true false 5 50 0 2; EDrop 3]].
Example C07_history_nonvacuous :
  wf (sinit TMax 1000 0) /\ Forall bop_ok demo_batches /\
  map (fun ob => (o_ans (snd ob), rec_sum (o_quotas (snd ob)), rec_sum (o_oquotas (snd ob))))
      (model_trace (sinit TMax 1000 0) demo_batches)
  = [([Some (50, 0)], 50, 0); ([Some (48, 0)], 98, 0); ([Some (65, 0)], 113, 0); ([Some (63, 0)], 128, 0);
     ([], 128, 0); ([Some (1, 0)], 64, 0); ([Some (1, 0)], 65, 0); ([Some (51, 0); Some (5, 0)], 57, 0);
     ([], 52, 0); ([Some (2, 0)], 53, 0); ([], 0, 53); ([Some (25, 3)], 25, 0)].
Proof.
  split; [apply wf_sinit; unfold in_int32, two31; lia|]. split.
  - repeat constructor; unfold in_int32, two31; lia.
  - vm_compute. reflexivity.
Qed.

(* why C07_step_safe asks for current >= 0 (what an honest instance reports): with a negative
   current the float difference next - current is rounded, the growth clamp does not fire, and the
   ceiling lands one above what is left (allocated - current + q = 101 > 100, q = 2) *)
Example C07_step_safe_needs_nonneg_current :
  let i := mk TMax false 100 0 (100 - 1073741825) 0 (- 1073741824) 0 0 1 in
  let next := mkf 4503599627370497 (-52) eq_refl in       (* 1 + 2^-52 *)
  ints_ok i /\ i_allocated i <= i_total i /\ fst (calc_with next i) = 2 /\
  i_allocated i - i_current i + fst (calc_with next i) = 101.
Proof. vm_compute. repeat split; try reflexivity; discriminate. Qed.

(* limit 100, instance 1 holds 55 and asks for more; its report overlaps the lowering of the limit to 20.
   Report first: answered 88 against the old limit; change first: answered 20, the new limit.  In both
   orders limit 20 is in force afterwards: the next report of the instance is answered 20, a newcomer 1 *)
Definition overlap_grow : bop := BReports [EReport 1 true false 200 150 100 1].
Definition overlap_demo (first : bool) : list bop :=
  BReports [EReport 1 true false 0 0 0 1] :: repeat overlap_grow 5 ++
  [BOverlap first (EReport 1 true false 200 150 100 1) false 20 0; overlap_grow;
   BReports [EReport 2 true false 0 0 100 2]].
Example C07_limit_change_overlap_nonvacuous :
  map (fun first => map (fun ob => o_ans (snd ob)) (model_trace (sinit TMax 100 0) (overlap_demo first))) [true; false]
  = [[[Some (5, 0)]; [Some (8, 0)]; [Some (13, 0)]; [Some (21, 0)]; [Some (34, 0)]; [Some (55, 0)];
      [Some (88, 0)]; [Some (20, 0)]; [Some (1, 0)]];
     [[Some (5, 0)]; [Some (8, 0)]; [Some (13, 0)]; [Some (21, 0)]; [Some (34, 0)]; [Some (55, 0)];
      [Some (20, 0)]; [Some (20, 0)]; [Some (1, 0)]]]
  /\ Forall bop_ok (overlap_demo true) /\ wf (sinit TMax 100 0).
Proof.
  split; [vm_compute; reflexivity|]. split.
  - repeat constructor; unfold in_int32, two31; lia.
  - apply wf_sinit; unfold in_int32, two31; lia.
Qed.
