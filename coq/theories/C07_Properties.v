(* C07 — property theorems (statements only; proofs live in C07_Proofs.v).
   [calc_with next i] is the tail of calculateNextQuota (the 0.2% floor, the growth clamp,
   ceil, the cap at the total, the NaN-safe floor at 1, the burst) applied to an ARBITRARY
   binary64 value [next] of the threshold heuristic: NaN, infinities, anything.
   [ints_ok i] = current, total and allocated sum are int32 values. *)
From Coq Require Import ZArith Permutation.
From KG Require Import Prelude C07_Float C07_FloatLemmas C07_Model C07_Spec C07_Check C07_Proofs.
Open Scope Z_scope.

(* every quota answered is at least 1 *)
Theorem C07_floor : forall i, ints_ok i ->
  (forall next, 1 <= fst (calc_with next i)) /\
  (forall q b, i_count i = false -> calc_next_quota i = Some (q, b) -> 1 <= q).
Proof. exact floor_both. Qed.
Print Assumptions C07_floor.

(* ... and at most the global limit (a limit below 1 cannot hold the minimum quota) *)
Theorem C07_cap : forall i, ints_ok i ->
  (forall next, fst (calc_with next i) <= Z.max 1 (i_total i)) /\
  (forall q b, i_count i = false -> calc_next_quota i = Some (q, b) -> q <= Z.max 1 (i_total i)).
Proof. exact cap_both. Qed.
Print Assumptions C07_cap.

(* sum <= total: replacing the reporter's current quota by the answer keeps the sum within
   the limit, the minimum quota 1 aside.  current >= 0: what an honest instance reports *)
Theorem C07_step_safe : forall i, ints_ok i -> 0 <= i_current i -> i_allocated i <= i_total i ->
  (forall next, i_allocated i - i_current i + fst (calc_with next i) <= i_total i \/ fst (calc_with next i) = 1) /\
  (forall q b, i_count i = false -> calc_next_quota i = Some (q, b) ->
     i_allocated i - i_current i + q <= i_total i \/ q = 1).
Proof. exact step_safe_both. Qed.
Print Assumptions C07_step_safe.

(* sum > total (e.g. the limit was lowered): no quota grows *)
Theorem C07_no_growth_when_over : forall i, ints_ok i -> 0 <= i_current i -> i_total i < i_allocated i ->
  (forall next, fst (calc_with next i) <= Z.max 1 (i_current i)) /\
  (forall q b, i_count i = false -> calc_next_quota i = Some (q, b) -> q <= Z.max 1 (i_current i)).
Proof. exact no_growth_both. Qed.
Print Assumptions C07_no_growth_when_over.

(* token bucket: the burst never exceeds the global burst (any input); under a limit >= 1 and a
   global burst >= 0 it lies in [0, global burst], the full quota gets the full burst, and the burst is scaled with the quota: under the same
   limit and global burst, whatever else differs between two calls, the larger quota never gets
   the smaller burst *)
Theorem C07_burst :
  (forall next i, ints_ok i -> i_typ i = TBucket -> in_int32 (i_gburst i) ->
     snd (calc_with next i) <= i_gburst i) /\
  (forall next i, ints_ok i -> i_typ i = TBucket -> 1 <= i_total i -> 0 <= i_gburst i < two31 ->
     0 <= snd (calc_with next i) <= i_gburst i /\
     (fst (calc_with next i) = i_total i -> snd (calc_with next i) = i_gburst i)) /\
  (forall next1 next2 i1 i2, ints_ok i1 -> ints_ok i2 ->
     i_typ i1 = TBucket -> i_typ i2 = TBucket ->
     i_total i1 = i_total i2 -> i_gburst i1 = i_gburst i2 -> 1 <= i_total i1 -> 0 <= i_gburst i1 < two31 ->
     fst (calc_with next1 i1) <= fst (calc_with next2 i2) ->
     snd (calc_with next1 i1) <= snd (calc_with next2 i2)).
Proof. exact burst_both. Qed.
Print Assumptions C07_burst.

(* the global-count strategy hands the global values through *)
Lemma C07_count_strategy : forall i, i_count i = true ->
  calc_next_quota i = Some (i_total i, match i_typ i with TBucket => i_gburst i | TMax => 0 end).
Proof. exact calc_next_quota_count. Qed.

(* every history: from any well-formed server state (quotas on record in [0, 2^31), the recorded
   sum not below the true saturated sum, int32 limit and burst) and for every list of batches of
   honest reports, limit changes (int32) and removals, every clause of the executable spec holds
   at every step of the model's trace: floor, cap, step_safe, no_growth, burst, over_commit
   (sum of the quotas above 1 <= max(limit, its previous value)), burst monotone over the history *)
Theorem C07_history : forall s bs, wf s -> Forall bop_ok bs ->
  hist_ok (is_bucket (h_typ s)) (h_limit s) (h_burst s) (h_quotas s) (model_trace s bs)
  = [true; true; true; true; true; true; true].
Proof. exact history_ok. Qed.
Print Assumptions C07_history.

(* overlap: modelled assumption = the reports of one upstream run one after the other in SOME
   order (per-upstream mutex, sum re-read inside it); for every such order the batch meets the spec *)
Theorem C07_overlap : forall s rs rs', wf s -> Permutation rs rs' ->
  step_ok (is_bucket (h_typ s)) (h_limit s) (h_burst s) (h_quotas s) (BReports rs)
          (snd (model_step s (BReports rs'))) = [true; true; true; true; true; true].
Proof. exact overlap_ok. Qed.
Print Assumptions C07_overlap.

(* ---------------- non-vacuity ---------------- *)
Definition mk t c tot gb al up cur used lvl cl :=
  {| i_typ := t; i_count := c; i_total := tot; i_gburst := gb; i_allocated := al; i_uplevel := up;
     i_current := cur; i_used := used; i_level := lvl; i_clients := cl |}.

(* limit 1000 -> 100 with two instances at 400 (the unrepaired code answered -300); a new
   instance with nothing left (it answered 0); total 10000 with the 0.2% floor and nothing left;
   a growing token bucket; all hypotheses of the per-call theorems are met by these inputs *)
Example C07_calls_nonvacuous :
  map calc_next_quota
    [mk TMax false 100 0 800 0 400 100 30 2; mk TMax false 1000 0 1000 0 0 0 0 3;
     mk TBucket false 10000 500 10000 50 0 0 0 3; mk TBucket false 10000 500 3000 50 1000 900 95 3]
  = [Some (1, 0); Some (1, 0); Some (1, 1); Some (1300, 65)]
  /\ ints_ok (mk TMax false 100 0 800 0 400 100 30 2) /\ 100 < 800 /\ 0 <= 400.
Proof. vm_compute. repeat split; try reflexivity; discriminate. Qed.

(* a history in which two instances grow to 65 + 63, the limit is lowered to 60 (sum 128 > 60),
   an instance asking for more while over-committed is cut to 1, a newcomer is held at 1, the other
   instance shrinks to 51 (sum 53 <= 60) so that the first may grow again within the limit (57),
   one instance leaves *)
Definition demo_batches : list bop :=
  [BReports [(1, 0, 0, 0)]; BReports [(2, 0, 0, 0)]; BReports [(1, 40, 100, 4)]; BReports [(2, 40, 100, 8)];
   BSetLimit 60 0; BReports [(1, 40, 100, 8)]; BReports [(3, 0, 0, 8)]; BReports [(2, 5, 5, 8); (1, 5, 5, 8)];
   BRemove 1; BReports [(3, 1, 100, 8)]].
Example C07_history_nonvacuous :
  wf (init TMax 1000 0 0) /\ Forall bop_ok demo_batches /\
  map (fun ob => (answered (o_ans (snd ob)), rec_sum (o_quotas (snd ob)))) (model_trace (init TMax 1000 0 0) demo_batches)
  = [([(50, 0)], 50); ([(48, 0)], 98); ([(65, 0)], 113); ([(63, 0)], 128); ([], 128);
     ([(1, 0)], 64); ([(1, 0)], 65); ([(51, 0); (5, 0)], 57); ([], 52); ([(2, 0)], 53)].
Proof.
  split; [apply wf_init; unfold in_int32, two31; lia|]. split.
  - repeat constructor; unfold in_int32, two31; lia.
  - vm_compute. reflexivity.
Qed.

(* why C07_step_safe asks for current >= 0 (what an honest instance reports): with a negative
   current the float difference next - current is rounded, the growth clamp does not fire, and the
   ceiling lands one above what is left (allocated - current + q = 101 > 100, q = 2) *)
Example C07_step_safe_needs_nonneg_current :
  let i := mk TMax false 100 0 (100 - 1073741825) 0 (- 1073741824) 0 0 1 in
  let next := mkf 4503599627370497 (-52) eq_refl in       (* 1 + 2^-52 *)
  ints_ok i /\ i_allocated i <= i_total i /\ fst (calc_with next i) = 2 /\
  i_allocated i - i_current i + fst (calc_with next i) = 101.
Proof. vm_compute. repeat split; try reflexivity; discriminate. Qed.
