(* C17 — implementation model of the admission-time rule normalisation
     plugin/admission/upstreamcluster/admission.go   (normalizeRules, filterRules)
   next to C01's model of the matcher.  Executable definitions only; no proofs. *)
From KG Require Import Prelude C01_Model.
Open Scope string_scope.
Open Scope bool_scope.

(* the loop of the admission plugin's filterRules: (filtered, reversed, matchAll); `break` at the first "*".
   Unlike the matcher's filterRules the '-' entries keep their prefix. *)
Fixpoint split_adm (rules : list string) : list string * list string * bool :=
  match rules with
  | [] => ([], [], false)
  | r :: rest =>
      if String.eqb r "*" then ([], [], true)
      else
        let '(f, rv, all) := split_adm rest in
        if is_neg r then (f, r :: rv, all)
        else (r :: f, rv, all)
  end.

(* func filterRules(rules []string) (filtered []string) *)
Definition filter_rules_adm (rules : list string) : list string :=
  let '(f, rv, all) := split_adm rules in
  if all then ["*"]
  else match f with
       | _ :: _ => f              (* if filtered is not empty drop reversed *)
       | [] => rv
       end.

(* func normalizeRules(in DispatchPolicyRule) DispatchPolicyRule *)
Definition normalize_rule (r : rule) : rule :=
  mkRule (filter_rules_adm (r_verbs r))
         (filter_rules_adm (r_groups r))
         (filter_rules_adm (r_resources r))
         (filter_rules_adm (r_names r))
         (filter_rules_adm (r_users r))
         (r_sas r)
         (filter_rules_adm (r_ugroups r))
         (filter_rules_adm (r_urls r)).

(* Admit(): every rule of every policy is replaced by its normal form; nothing else of the policy changes *)
Definition normalize_policy (p : policy) : policy :=
  mkPolicy (map normalize_rule (p_rules p)) (p_flow p) (p_subset p).

(* shape of the objects used by the correspondence run: one dispatch policy per rule, in order *)
Definition policies_of (rs : list rule) : list policy := map (fun r => mkPolicy [r] "" []) rs.
