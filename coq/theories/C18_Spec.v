(* C18 — specification as an executable checker over observed histories (operations issued +
   what was observed after each of them; never model state).

   (state recorded for an upstream that was removed from the lister is outside the live clause: the
    unknown-condition pass deletes such an upstream as a whole)
   Conditions are read from the API (persisted state: it survives the replica losing and regaining
   leadership); counted in-flight lives in the leader's memory and is legitimately lost by StopLeading.
   Clean-up passes only count for the reclaimed clause when they run on the leader.
   live      : at every step, recorded state (conditions with their quota, counted in-flight) of an
               instance whose last heartbeat is less than 3 s old is still there afterwards (unless
               the step is that instance's own report / acquire, which replaces it)
   reclaimed : an instance that has been completely silent (no heartbeat, report, acquire) for more
               than 3 s when a timeout pass runs, and stays silent, has no counted in-flight from
               that pass on, and no condition carrying its instance label if the pass found it in the
               client cache; from the next unknown-condition pass on it has no condition at all.  The
               passes run every 1 s and every 30 s: the "cleanup period" is 3 s + 1 s + 30 s.
   capacity  : after a successful report the recorded allocated sum of the upstream is the sum of the
               quotas of the conditions that exist — reclaimed quota is no longer counted *)
From KG Require Import Prelude C13_Model C19_Model C18_Model.
Open Scope Z_scope.

Record obs := mkObs {
  ores : res;
  oclients : list string;                 (* instances in the client cache *)
  oconds : list (key * cnd);              (* stored conditions with Spec.Instance = snd key: quota, label *)
  osums : list (string * Z);              (* allocated sum recorded in the upstream state condition *)
  ocnts : list (string * fcst);           (* per upstream: counted in-flight per instance, running total *)
  oqc : list (key * Z);                   (* quota of the global-count item of the stored conditions that have one *)
  osumc : list (string * Z);              (* recorded sum of the global-count item, per upstream *)
  ocnts2 : list (string * fcst);          (* the second global-count flow control of every upstream (same acquires) *)
  oother : Z;                             (* instance entries on flow controls nobody acquires on (expected 0) *)
  opers : list (key * cnd);               (* the conditions persisted in the API (whether or not the replica leads) *)
}.

Record ctx := mkCtx {
  cnow : Z;
  chb : list (string * Z);                (* last heartbeat per instance, from the ops *)
  cact : list (string * Z);               (* last activity of any kind per instance, from the ops *)
  cs_cnt : list string;                   (* silent instances that must have no counted in-flight *)
  cs_lab : list string;                   (* ... no condition carrying their label *)
  cs_all : list string;                   (* ... no condition at all *)
  clisted : list string;                  (* upstreams in the lister, from the ops *)
  cleading : bool;                        (* the replica leads the shard, from the ops *)
  cprev : obs;
}.

Definition actor (o : op) : option string :=
  match o with Heartbeat i | Report _ i _ | Acquire _ i _ => Some i | _ => None end.

Definition is_live (c : ctx) (t : Z) (i : string) : bool :=
  match alookup String.eqb i (chb c) with Some h => t <? h + timeout_ms | None => false end.

Definition cnd_eqb (a b : cnd) : bool := ((fst a =? fst b) && String.eqb (snd a) (snd b))%bool.

Definition cnt_of (u i : string) (l : list (string * fcst)) : option Z :=
  match alookup String.eqb u l with Some f => alookup String.eqb i (fst f) | None => None end.

Definition live_cnt_ok (c : ctx) (t : Z) (o : op) (before after : list (string * fcst)) : bool :=
  forallb (fun q : string * fcst =>
             forallb (fun e : string * Z =>
                        if (is_live c t (fst e) && str_mem (fst q) (clisted c))%bool then
                          match o with
                          | Acquire u' i' _ => if (String.eqb (fst q) u' && String.eqb (fst e) i')%bool then true
                                               else opt_eqb Z.eqb (cnt_of (fst q) (fst e) after) (Some (snd e))
                          | _ => opt_eqb Z.eqb (cnt_of (fst q) (fst e) after) (Some (snd e))
                          end
                        else true) (fst (snd q))) before.

Definition live_ok (c : ctx) (t : Z) (o : op) (keepcnt : bool) (b : obs) : bool :=
  (forallb (fun p : key * cnd =>
              let u := fst (fst p) in let i := snd (fst p) in
              if (is_live c t i && str_mem u (clisted c))%bool then
                match o with
                | Report u' i' _ => if (String.eqb u u' && String.eqb i i')%bool then true
                                    else opt_eqb cnd_eqb (alookup key_eqb (u, i) (opers b)) (Some (snd p))
                | _ => opt_eqb cnd_eqb (alookup key_eqb (u, i) (opers b)) (Some (snd p))
                end
              else true) (opers (cprev c))
   && (negb keepcnt
       || (live_cnt_ok c t o (ocnts (cprev c)) (ocnts b) && live_cnt_ok c t o (ocnts2 (cprev c)) (ocnts2 b))))%bool.

(* no in-flight counted for the instance on ANY flow control *)
Definition no_count (i : string) (b : obs) : bool :=
  (forallb (fun q : string * fcst => negb (str_mem i (map fst (fst (snd q))))) (ocnts b)
   && forallb (fun q : string * fcst => negb (str_mem i (map fst (fst (snd q))))) (ocnts2 b)
   && (oother b =? 0))%bool.

Definition has_cond (i : string) (l : list (key * cnd)) : bool :=
  existsb (fun p : key * cnd => String.eqb (snd (fst p)) i) l.

Definition reclaimed_ok (scnt slab sall : list string) (b : obs) : bool :=
  (forallb (fun i => no_count i b) scnt
   && forallb (fun i => forallb (fun p : key * cnd =>
                                   negb (String.eqb (snd (fst p)) i && String.eqb (snd (snd p)) i
                                         && negb (String.eqb i EmptyString))) (opers b)) slab
   && forallb (fun i => forallb (fun p : key * cnd =>
                                   negb (String.eqb (snd (fst p)) i && negb (String.eqb i EmptyString))) (opers b)) sall)%bool.

Definition capacity_ok (o : op) (b : obs) : bool :=
  match o with
  | Report u _ _ =>
      if res_eqb (ores b) ROk then
        (opt_eqb Z.eqb (alookup String.eqb u (osums b)) (Some (sum_quota u (oconds b)))
         && match alookup String.eqb u (osumc b) with
            | Some sc => sc =? sumZ (map snd (filter (fun p : key * Z => String.eqb (fst (fst p)) u) (oqc b)))
            | None => forallb (fun p : key * Z => negb (String.eqb (fst (fst p)) u)) (oqc b)
            end)%bool
      else true
  | _ => true
  end.

Definition remove (i : string) (l : list string) : list string := filter (fun x => negb (String.eqb x i)) l.
Definition add (i : string) (l : list string) : list string := if str_mem i l then l else i :: l.

Definition strip (o : op) (l : list string) : list string :=
  match actor o with Some i => remove i l | None => l end.

Definition base (so : sop) : op := match so with Op o => o | _ => Advance 0 end.

Definition next_ctx (c : ctx) (so : sop) (b : obs) : ctx :=
  let o := base so in
  let t := match o with Advance dt => cnow c + dt | _ => cnow c end in
  let hb' := match o with Heartbeat i => aset String.eqb i (cnow c) (chb c) | _ => chb c end in
  let act' := match actor o with Some i => aset String.eqb i (cnow c) (cact c) | None => cact c end in
  let p := cprev c in
  (* silent for more than 3 s when this timeout pass runs *)
  let timed := match o with
               | TickTimeout => map fst (filter (fun q : string * Z => t >? snd q + timeout_ms) act')
               | _ => []
               end in
  let scnt := fold_left (fun acc i => add i acc) timed (strip o (cs_cnt c)) in
  let slab := fold_left (fun acc i => add i acc)
                        (filter (fun i => (cleading c && str_mem i (oclients p))%bool) timed) (strip o (cs_lab c)) in
  let sall := match o with
              | TickUnknown => if cleading c then fold_left (fun acc i => add i acc) (strip o (cs_cnt c)) (strip o (cs_all c))
                               else strip o (cs_all c)
              | _ => strip o (cs_all c)
              end in
  let lst := match o with
             | ClusterGone u => filter (fun x => negb (String.eqb x u)) (clisted c)
             | ClusterSet u => if str_mem u (clisted c) then clisted c else u :: clisted c
             | _ => clisted c
             end in
  let ld := match so with StopLeading => false | StartLeading => true | _ => cleading c end in
  mkCtx t hb' act' scnt slab sall lst ld b.

(* clause layout: live, reclaimed, capacity *)
Definition step_ok (c : ctx) (so : sop) (b : obs) : list bool :=
  let c' := next_ctx c so b in
  [ live_ok c (cnow c') (base so) (match so with StopLeading => false | _ => true end) b;
    reclaimed_ok (cs_cnt c') (cs_lab c') (cs_all c') b;
    capacity_ok (base so) b ].

Definition and_lists (a b : list bool) : list bool := map (fun p => (fst p && snd p)%bool) (combine a b).

Fixpoint hist_go (c : ctx) (l : list (sop * obs)) : list bool :=
  match l with
  | [] => [true; true; true]
  | (o, b) :: r => and_lists (step_ok c o b) (hist_go (next_ctx c o b) r)
  end.

Definition obs0 (u : list string) : obs := mkObs RNil [] [] [] (map (fun x => (x, ([], 0))) u) [] [] (map (fun x => (x, ([], 0))) u) 0 [].
Definition hist_ok (u : list string) (l : list (sop * obs)) : list bool :=
  hist_go (mkCtx 0 [] [] [] [] [] u true (obs0 u)) l.
