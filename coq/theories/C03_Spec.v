(* C03 — specification as an executable checker over observed histories.
   Inputs: the ops issued (spec syncs, ticks, probe answers, picks, requests).
   Observations: what the real code showed after each op (result of the op; per endpoint: the
   readiness flags, the number of GET /healthz and of proxied requests its stub upstream has
   received so far).  Nothing here looks at the implementation model's state.

   Property text: "A request is forwarded only to an endpoint that is in the target cluster's
   current server list, is in the matched policy's upstream subset when one is given, and was
   enabled and healthy at the moment it was picked.  When no such endpoint exists the client gets
   503 and nothing is forwarded.  An endpoint marked disabled receives neither proxied traffic nor
   health probes until it is enabled again." *)
From KG Require Import Prelude C03_Model.
Open Scope Z_scope.

Inductive result :=
| ROk | RErr
| RFired (n : Z)            (* tick: number of ticker channels that accepted the tick *)
| RNoneHeld                 (* probe answer: the upstream holds no /healthz request *)
| RAbsent                   (* trigger: endpoint not in the cluster *)
| RNoMatch                  (* match: no policy matches *)
| RNoCluster                (* match / hold: the manager has no cluster under the name *)
| RPicked (id : Z) | RNoReady | RNoSlot     (* Pop *)
| RHttp (code stub : Z).    (* request through the gateway: status, answering upstream (-1 none) *)

Record epobs := mkEpobs {
  present : bool; odisabled : bool; ohealthy : bool; oucount : Z; ohascancel : bool;
  ochan : bool; oheld : Z; ohits : Z; oproxied : Z;
  otickers : list (bool * tpc * bool);     (* per ticker ever started for this endpoint: tick buffered, state, its trigger channel full *)
}.

Record obs := mkObs { ores : result; oeps : list epobs; onworkers : Z; onprobing : Z }.

(* ---- the spec in force, read off the ops ---- *)
Definition in_servers (sv : list (Z * bool)) (id : Z) : bool := existsb (fun p => fst p =? id) sv.
Definition marked_disabled (sv : list (Z * bool)) (id : Z) : bool := existsb (fun p => (fst p =? id) && snd p) sv.
Definition zin (id : Z) (l : list Z) : bool := existsb (Z.eqb id) l.

Definition no_ep : epobs := mkEpobs false false false 0 false false 0 0 0 [].
Definition ep_of (l : list epobs) (id : Z) : epobs := if id <? 0 then no_ep else nth (Z.to_nat id) l no_ep.

(* the subset a policy gives: Some sub when the policy exists ([] = "all endpoints"), None = no policy matches *)
Definition policy_subset (subs : list (list Z)) (p : Z) : option (list Z) :=
  if p <? 0 then None
  else match nth_error subs (Z.to_nat p) with
       | Some sub => Some sub
       | None => if p =? Z.of_nat (List.length subs) then Some [] else None
       end.

(* "in the current server list, in the subset when one is given, enabled, healthy when picked" *)
Definition eligible (sv : list (Z * bool)) (sub : list Z) (before : list epobs) (id : Z) : bool :=
  in_servers sv id && negb (marked_disabled sv id)
  && (match sub with [] => true | _ => zin id sub end)
  && ohealthy (ep_of before id).

Definition any_eligible (sv : list (Z * bool)) (sub : list Z) (before : list epobs) : bool :=
  existsb (eligible sv sub before) (map fst sv).

Fixpoint slot_of (slot : Z) (l : list (Z * (Z * list Z))) : option (Z * list Z) :=
  match l with [] => None | (k, v) :: r => if slot =? k then Some v else slot_of slot r end.

Fixpoint same_counts (f : epobs -> Z) (a b : list epobs) : bool :=
  match a, b with
  | [], [] => true
  | x :: a', y :: b' => (f x =? f y) && same_counts f a' b'
  | [], y :: b' => (f y =? 0) && same_counts f [] b'
  | _ :: _, [] => false
  end.

(* proxied counters: unchanged, except +1 at position [only] *)
Fixpoint proxied_delta (k : Z) (only : Z) (a b : list epobs) : bool :=
  match b with
  | [] => match a with [] => true | _ => false end
  | y :: b' =>
      let x := match a with [] => no_ep | x :: _ => x end in
      let a' := match a with [] => [] | _ :: a' => a' end in
      (oproxied y =? oproxied x + (if k =? only then 1 else 0)) && proxied_delta (k + 1) only a' b'
  end.

Record spec_state := mkSpec {
  sp_sv : list (Z * bool);
  sp_subs : list (list Z);
  sp_slots : list (Z * (Z * list Z));   (* slot -> (cluster incarnation, subset its policy gave) when MatchAttributes ran *)
  sp_before : list epobs;
  sp_exists : bool;                 (* the cluster exists: created by a sync and not deleted since *)
  sp_gen : Z;                       (* which incarnation of the cluster (a sync after a deletion creates the next one) *)
  sp_handles : list (Z * Z);        (* slot -> incarnation of the cluster a caller resolved and kept *)
}.

Definition spec_init : spec_state := mkSpec [] [] [] [] false 0 [].

(* a handle / picker taken from an incarnation of the cluster that has been deleted since is stale: whatever
   it still remembers, nothing of it is in "the current server list of a cluster that exists" *)
Definition fresh (sp : spec_state) (g : Z) : bool := sp_exists sp && (g =? sp_gen sp).
Fixpoint handle_of (slot : Z) (l : list (Z * Z)) : option Z :=
  match l with [] => None | (k, v) :: r => if slot =? k then Some v else handle_of slot r end.

(* clause 1: a picked / contacted endpoint is eligible *)
Definition pick_sound_ok (sp : spec_state) (o : op) (b : obs) : bool :=
  match o, ores b with
  | OPop slot, RPicked id =>
      match slot_of slot (sp_slots sp) with
      | Some (g, sub) => fresh sp g && eligible (sp_sv sp) sub (sp_before sp) id
      | None => false
      end
  | OPickOne slot, RPicked id =>
      match handle_of slot (sp_handles sp) with
      | Some g => fresh sp g && eligible (sp_sv sp) [] (sp_before sp) id
      | None => false
      end
  | ORequest p, RHttp code stub =>
      if 0 <=? stub then
        match policy_subset (sp_subs sp) p with
        | Some sub => sp_exists sp && eligible (sp_sv sp) sub (sp_before sp) stub
        | None => false
        end
      else true
  | _, _ => true
  end.

(* clause 2: no eligible endpoint -> error / 503, nothing forwarded *)
Definition pick_complete_ok (sp : spec_state) (o : op) (b : obs) : bool :=
  match o with
  | OPop slot =>
      match slot_of slot (sp_slots sp) with
      | Some (g, sub) => if fresh sp g && any_eligible (sp_sv sp) sub (sp_before sp) then true
                         else match ores b with RNoReady => true | _ => false end
      | None => true
      end
  | OPickOne slot =>
      match handle_of slot (sp_handles sp) with
      | Some g => if fresh sp g && any_eligible (sp_sv sp) [] (sp_before sp) then true
                  else match ores b with RNoReady => true | _ => false end
      | None => true
      end
  | ORequest p =>
      match policy_subset (sp_subs sp) p with
      | Some sub => if sp_exists sp && any_eligible (sp_sv sp) sub (sp_before sp) then true
                    else match ores b with
                         | RHttp code stub => (code =? 503) && (stub =? -1)
                                              && proxied_delta 0 (-1) (sp_before sp) (oeps b)
                         | _ => false end
      | None => true
      end
  | _ => true
  end.

(* clause 3: the upstream that was contacted is the one that answered, exactly once; no other traffic *)
Definition contacted_ok (sp : spec_state) (o : op) (b : obs) : bool :=
  match o, ores b with
  | ORequest _, RHttp code stub =>
      if code =? 200 then (0 <=? stub) && proxied_delta 0 stub (sp_before sp) (oeps b)
      else (stub =? -1) && proxied_delta 0 (-1) (sp_before sp) (oeps b)
  | ORequest _, _ => false
  | _, _ => proxied_delta 0 (-1) (sp_before sp) (oeps b)
  end.

Definition spec_after (sp : spec_state) (o : op) : list (Z * bool) :=
  match o with OSync sv _ => sv | ODelete => [] | _ => sp_sv sp end.

Fixpoint forall_ids (k : Z) (f : Z -> epobs -> epobs -> bool) (a b : list epobs) : bool :=
  match b with
  | [] => true
  | y :: b' =>
      let x := match a with [] => no_ep | x :: _ => x end in
      let a' := match a with [] => [] | _ :: a' => a' end in
      f k x y && forall_ids (k + 1) f a' b'
  end.

(* clause 4: an endpoint marked disabled receives no proxied traffic *)
Definition disabled_no_traffic_ok (sp : spec_state) (o : op) (b : obs) : bool :=
  forall_ids 0 (fun id x y => if marked_disabled (sp_sv sp) id && marked_disabled (spec_after sp o) id
                              then oproxied y =? oproxied x else true) (sp_before sp) (oeps b).

(* clause 5: an endpoint marked disabled receives no health probe (it stays marked through the step) *)
Definition disabled_no_probe_ok (sp : spec_state) (o : op) (b : obs) : bool :=
  forall_ids 0 (fun id x y => if marked_disabled (sp_sv sp) id && marked_disabled (spec_after sp o) id
                              then ohits y =? ohits x else true) (sp_before sp) (oeps b).

(* clause 6 (the C15 side of the same mechanism): an endpoint that is not in the server list (before and
   after the step) receives no health probe either *)
Definition removed_no_probe_ok (sp : spec_state) (o : op) (b : obs) : bool :=
  forall_ids 0 (fun id x y => if negb (in_servers (sp_sv sp) id) && negb (in_servers (spec_after sp o) id)
                              then ohits y =? ohits x else true) (sp_before sp) (oeps b).

Definition spec_step (sp : spec_state) (o : op) (b : obs) : spec_state :=
  let keep sv subs slots ex g hs := mkSpec sv subs slots (oeps b) ex g hs in
  match o with
  | OSync sv subs =>
      keep sv subs (sp_slots sp) true (if sp_exists sp then sp_gen sp else sp_gen sp + 1) (sp_handles sp)
  | ODelete => keep [] [] (sp_slots sp) false (sp_gen sp) (sp_handles sp)
  | OMatch p slot =>
      let rest := filter (fun x => negb (fst x =? slot)) (sp_slots sp) in
      match ores b with
      | RNoCluster => keep (sp_sv sp) (sp_subs sp) (sp_slots sp) (sp_exists sp) (sp_gen sp) (sp_handles sp)
      | r =>
          match policy_subset (sp_subs sp) p, r with
          | Some sub, ROk => keep (sp_sv sp) (sp_subs sp) ((slot, (sp_gen sp, sub)) :: rest) (sp_exists sp) (sp_gen sp) (sp_handles sp)
          | _, _ => keep (sp_sv sp) (sp_subs sp) rest (sp_exists sp) (sp_gen sp) (sp_handles sp)
          end
      end
  | OHold slot =>
      match ores b with
      | ROk => keep (sp_sv sp) (sp_subs sp) (sp_slots sp) (sp_exists sp) (sp_gen sp)
                    ((slot, sp_gen sp) :: filter (fun x => negb (fst x =? slot)) (sp_handles sp))
      | _ => keep (sp_sv sp) (sp_subs sp) (sp_slots sp) (sp_exists sp) (sp_gen sp) (sp_handles sp)
      end
  | _ => keep (sp_sv sp) (sp_subs sp) (sp_slots sp) (sp_exists sp) (sp_gen sp) (sp_handles sp)
  end.

Definition step_ok (sp : spec_state) (o : op) (b : obs) : list bool :=
  [pick_sound_ok sp o b; pick_complete_ok sp o b; contacted_ok sp o b;
   disabled_no_traffic_ok sp o b; disabled_no_probe_ok sp o b; removed_no_probe_ok sp o b].

Definition and_lists (a b : list bool) : list bool := map (fun p => (fst p && snd p)%bool) (combine a b).

Fixpoint hist_ok (sp : spec_state) (l : list (op * obs)) : list bool :=
  match l with
  | [] => [true; true; true; true; true; true]
  | (o, b) :: r => and_lists (step_ok sp o b) (hist_ok (spec_step sp o b) r)
  end.
