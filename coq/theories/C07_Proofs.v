(* C07 — proofs.  Part A: the clamps of calculateNextQuota, for an arbitrary
   binary64 value coming out of the heuristic.  Part B: histories. *)
From Coq Require Import ZArith Reals Lia Lra Psatz Bool Permutation.
From Coq Require Import ZifyBool.
From Flocq Require Import Core IEEE754.BinarySingleNaN.
From KG Require Import Prelude C07_Float C07_FloatLemmas C07_Model C07_Spec C07_Check.
Open Scope Z_scope.

Arguments Z.add : simpl never.
Arguments Z.sub : simpl never.
Arguments Z.mul : simpl never.
Arguments Z.leb : simpl never.
Arguments Z.ltb : simpl never.
Arguments Z.eqb : simpl never.
Arguments Z.max : simpl never.
Arguments Z.min : simpl never.

(* ============================ Part A ============================ *)

Lemma in_int32_abs53 z : in_int32 z -> Z.abs z < 2 ^ 53.
Proof. unfold in_int32, two31. lia. Qed.

Lemma fsub_pinf (y : f64) : is_finite y = true -> fsub (B754_infinity false) y = B754_infinity false.
Proof. destruct y as [sy|sy| |sy my ey Hy]; try discriminate; reflexivity. Qed.

Lemma fceil_pinf_inv (x : f64) : fceil x = B754_infinity false -> x = B754_infinity false.
Proof.
  destruct x as [sx|sx| |sx mx ex Hx]; simpl; intros H; try discriminate; try exact H.
  exfalso. destruct (fceil_correct (B754_finite sx mx ex Hx)) as (_ & F).
  unfold fceil in F. simpl Bnearbyint in F. rewrite H in F. discriminate.
Qed.

Lemma Zceil_le_int (r : R) (k : Z) : (r <= IZR k)%R -> Zceil r <= k.
Proof. intros H. rewrite <- (Zceil_IZR k). apply Zceil_le. exact H. Qed.

Section Clamp.
  Variables (n1 : f64) (current total allocated : Z).
  Hypothesis Hcur : in_int32 current.
  Hypothesis Htot : in_int32 total.
  Hypothesis Hall : in_int32 allocated.

  Let cur := ofZ current.
  Let tot := ofZ total.
  Let remaining := fsub tot (ofZ allocated).
  Let available := fmax remaining fzero.
  Let av := Z.max (total - allocated) 0.
  Let n2 := if (fgt n1 cur && fgt (fsub n1 cur) available)%bool then fadd cur available else n1.

  Lemma cur_int : isint cur current.
  Proof. apply ofZ32; exact Hcur. Qed.
  Lemma tot_int : isint tot total.
  Proof. apply ofZ32; exact Htot. Qed.
  Lemma available_int : isint available av.
  Proof.
    apply fmax_zero_int. apply fsub_int; [exact tot_int|apply ofZ32; exact Hall|].
    unfold in_int32, two31 in *. lia.
  Qed.
  Lemma av_bounds : 0 <= av < 2 ^ 33.
  Proof. unfold av, in_int32, two31 in *. lia. Qed.

  (* the value that goes into ceil is never +Inf and, when finite, its ceiling is bounded by
     what the growth clamp allows *)
  Lemma n2_cases : 0 <= current ->
    n2 <> B754_infinity false /\ (is_finite n2 = true -> Zceil (B2R n2) <= current + av).
  Proof.
    intros Hc0.
    destruct cur_int as (Fc & Rc). destruct available_int as (Fa & Ra). pose proof av_bounds as Hav.
    unfold n2. destruct (fgt n1 cur && fgt (fsub n1 cur) available)%bool eqn:Cond.
    - assert (I : isint (fadd cur available) (current + av)).
      { apply fadd_int; [exact cur_int|exact available_int|]. unfold in_int32, two31 in *. lia. }
      destruct I as (Fi & Ri). split.
      + intros E. rewrite E in Fi. discriminate.
      + intros _. rewrite Ri, Zceil_IZR. lia.
    - split.
      + intros E. rewrite E in Cond.
        assert (fgt (B754_infinity false) cur = true) by (apply flt_pinf; exact Fc).
        assert (fgt (fsub (B754_infinity false) cur) available = true)
          by (rewrite fsub_pinf by exact Fc; apply flt_pinf; exact Fa).
        rewrite H, H0 in Cond. discriminate.
      + intros Fn.
        destruct (fgt n1 cur) eqn:G1.
        * (* n1 > cur, so the difference was not above what is available *)
          simpl in Cond.
          assert (Hlt : (IZR current < B2R n1)%R).
          { rewrite <- Rc. apply flt_true; assumption. }
          destruct (fsub_above_int n1 current Fn) as (Fd & Hsmall & Hbig);
            [unfold in_int32 in Hcur; lia|exact Hlt|].
          fold cur in Fd, Hsmall, Hbig.
          assert (Hd : (B2R (fsub n1 cur) <= IZR av)%R).
          { rewrite <- Ra. apply flt_false; assumption. }
          destruct (Rlt_le_dec (B2R n1) (IZR (2 ^ 53))) as [Hs|Hb].
          -- rewrite (Hsmall Hs) in Hd. apply Zceil_le_int. rewrite plus_IZR. lra.
          -- specialize (Hbig Hb). exfalso.
             assert (IZR av < IZR (2 ^ 52))%R by (apply IZR_lt; lia). lra.
        * (* n1 <= cur *)
          assert (Hle : (B2R n1 <= IZR current)%R).
          { rewrite <- Rc. apply flt_false; assumption. }
          apply Zceil_le_int. rewrite plus_IZR.
          assert (0 <= IZR av)%R by (apply IZR_le; lia). lra.
  Qed.

  Lemma clamp_tail_spec :
    exists q, isint (clamp_tail n1 current total allocated) q /\
      1 <= q <= Z.max 1 total /\
      (0 <= current -> q = 1 \/ q <= current + av).
  Proof.
    destruct tot_int as (Ft & Rt). destruct fone_int as (F1 & R1).
    unfold clamp_tail. fold cur tot remaining available n2.
    set (n3 := fceil n2).
    set (n4 := if fgt n3 tot then tot else n3).
    destruct (fge n4 fone) eqn:G.
    2:{ exists 1. split; [exact fone_int|]. split; [lia|]. intros _; left; reflexivity. }
    unfold fge in G. fold (fle fone n4) in G.
    destruct (fceil_correct n2) as (C1 & C2). fold n3 in C1, C2.
    unfold n4 in *. destruct (fgt n3 tot) eqn:T.
    - (* capped at the total *)
      exists total. split; [exact tot_int|].
      assert (H1 : 1 <= total).
      { apply le_IZR. rewrite <- R1, <- Rt. apply fle_true; assumption. }
      split; [lia|]. intros Hc0. right.
      destruct (n2_cases Hc0) as (Hninf & Hfin).
      unfold fgt in T. fold (flt tot n3) in T.
      destruct (flt_finite_l tot n3 Ft T) as [F3|E3].
      + rewrite F3 in C2. symmetry in C2. specialize (Hfin C2).
        assert (IZR total < B2R n3)%R by (rewrite <- Rt; apply flt_true; assumption).
        rewrite C1 in H. apply lt_IZR in H. lia.
      + exfalso. apply Hninf. apply fceil_pinf_inv. exact E3.
    - (* the ceiling itself *)
      assert (F3 : is_finite n3 = true).
      { destruct (fle_finite_l fone n3 F1 G) as [F|E]; [exact F|].
        exfalso. rewrite E in T. unfold fgt in T. fold (flt tot (B754_infinity false)) in T.
        rewrite flt_pinf in T by exact Ft. discriminate. }
      exists (Zceil (B2R n2)). split; [split; [exact F3|exact C1]|].
      assert (H1 : 1 <= Zceil (B2R n2)).
      { apply le_IZR. rewrite <- C1, <- R1. apply fle_true; assumption. }
      assert (H2 : Zceil (B2R n2) <= total).
      { apply le_IZR. rewrite <- C1, <- Rt. unfold fgt in T. apply flt_false; assumption. }
      split; [lia|]. intros Hc0. right.
      destruct (n2_cases Hc0) as (_ & Hfin). apply Hfin. rewrite <- C2. exact F3.
  Qed.
End Clamp.

(* ---- the whole tail of calculateNextQuota, for an arbitrary heuristic value ---- *)
Lemma finalize_spec (next : f64) (current total allocated : Z) :
  in_int32 current -> in_int32 total -> in_int32 allocated ->
  exists q, isint (finalize next current total allocated) q /\
    1 <= q <= Z.max 1 total /\
    (0 <= current -> q = 1 \/ q <= current + Z.max (total - allocated) 0).
Proof. intros Hc Ht Ha. unfold finalize. apply clamp_tail_spec; assumption. Qed.

Lemma quota_of_int (nf : f64) (q total : Z) :
  isint nf q -> in_int32 total -> 1 <= q <= Z.max 1 total -> quota_of nf = q.
Proof.
  intros I Ht Hq. unfold quota_of. apply toInt32_int; [exact I|].
  unfold in_int32, two31 in *. lia.
Qed.

Lemma burst_of_int (nf : f64) (q total gburst : Z) :
  isint nf q -> in_int32 total -> 1 <= q <= total -> 0 <= gburst < two31 ->
  burst_of nf total gburst = burst_real q total gburst.
Proof.
  intros I Ht Hq Hg. unfold burst_of.
  destruct (burst_float nf (ofZ total) (ofZ gburst) q total gburst I) as (Ib & Hle);
    [apply ofZ32; exact Ht|apply ofZ32; unfold in_int32, two31 in *; lia|exact Hq|exact Hg|].
  cbv zeta in Ib, Hle. rewrite Hle. apply toInt32_int; [exact Ib|].
  assert (0 <= burst_real q total gburst <= gburst)
    by (apply burst_real_range; [exact Hq|unfold two31 in Hg; lia]).
  unfold in_int32, two31 in *. lia.
Qed.

(* whatever float goes in: the burst answered is never above the global burst *)
Lemma burst_of_le (nf : f64) (total gburst : Z) : in_int32 gburst -> burst_of nf total gburst <= gburst.
Proof.
  intros Hg. unfold burst_of.
  pose proof (ofZ32 gburst Hg) as Ig. destruct Ig as (Fg & Rg).
  set (b := fceil (fmul (fdiv nf (ofZ total)) (ofZ gburst))).
  destruct (fle b (ofZ gburst)) eqn:E.
  - destruct (fle_finite_r _ _ Fg E) as [Fb|Einf].
    + destruct (fceil_correct (fmul (fdiv nf (ofZ total)) (ofZ gburst))) as (C1 & _). fold b in C1.
      rewrite (toInt32_int_gen b _ (conj Fb C1)).
      assert (Hle : Zceil (B2R (fmul (fdiv nf (ofZ total)) (ofZ gburst))) <= gburst).
      { apply le_IZR. rewrite <- C1, <- Rg. apply fle_true; assumption. }
      set (k := Zceil (B2R (fmul (fdiv nf (ofZ total)) (ofZ gburst)))) in *.
      unfold in_int32 in Hg. destruct (in_int32b k); lia.
    + rewrite Einf. cbn [toInt32]. unfold in_int32, two31 in *. lia.
  - rewrite (toInt32_int (ofZ gburst) gburst (conj Fg Rg) Hg). lia.
Qed.

Definition ints_ok (i : inputs) : Prop :=
  in_int32 (i_current i) /\ in_int32 (i_total i) /\ in_int32 (i_allocated i).

Lemma calc_with_spec (next : f64) (i : inputs) : ints_ok i ->
  let q := fst (calc_with next i) in
  let b := snd (calc_with next i) in
  1 <= q <= Z.max 1 (i_total i) /\
  (0 <= i_current i -> q = 1 \/ q <= i_current i + Z.max (i_total i - i_allocated i) 0) /\
  (i_typ i = TMax -> b = 0) /\
  (i_typ i = TBucket -> 1 <= i_total i -> 0 <= i_gburst i < two31 ->
     b = burst_real q (i_total i) (i_gburst i)) /\
  (i_typ i = TBucket -> in_int32 (i_gburst i) -> b <= i_gburst i).
Proof.
  intros (Hc & Ht & Ha).
  destruct (finalize_spec next (i_current i) (i_total i) (i_allocated i) Hc Ht Ha) as (q0 & I & Hq & Hg).
  unfold calc_with. cbn [fst snd].
  rewrite (quota_of_int _ q0 (i_total i) I Ht Hq).
  split; [exact Hq|]. split; [exact Hg|]. split; [|split].
  - intros E. rewrite E. reflexivity.
  - intros E H1 Hgb. rewrite E. apply burst_of_int; [exact I|exact Ht|lia|exact Hgb].
  - intros E Hgb. rewrite E. apply burst_of_le; exact Hgb.
Qed.

(* ---- the five per-call statements ---- *)
Lemma calc_floor next i : ints_ok i -> 1 <= fst (calc_with next i).
Proof. intros H. destruct (calc_with_spec next i H) as ((L & _) & _). exact L. Qed.

Lemma calc_cap next i : ints_ok i -> fst (calc_with next i) <= Z.max 1 (i_total i).
Proof. intros H. destruct (calc_with_spec next i H) as ((_ & U) & _). exact U. Qed.

Lemma calc_step_safe next i : ints_ok i -> 0 <= i_current i -> i_allocated i <= i_total i ->
  i_allocated i - i_current i + fst (calc_with next i) <= i_total i \/ fst (calc_with next i) = 1.
Proof.
  intros H Hc Hs. destruct (calc_with_spec next i H) as (_ & G & _).
  destruct (G Hc) as [E|Hle]; [right; exact E|left; lia].
Qed.

Lemma calc_no_growth next i : ints_ok i -> 0 <= i_current i -> i_total i < i_allocated i ->
  fst (calc_with next i) <= Z.max 1 (i_current i).
Proof.
  intros H Hc Hs. destruct (calc_with_spec next i H) as (_ & G & _).
  destruct (G Hc) as [E|Hle]; lia.
Qed.

Lemma calc_burst next i : ints_ok i -> i_typ i = TBucket -> 1 <= i_total i -> 0 <= i_gburst i < two31 ->
  0 <= snd (calc_with next i) <= i_gburst i /\
  (fst (calc_with next i) = i_total i -> snd (calc_with next i) = i_gburst i).
Proof.
  intros H Et H1 Hg. destruct (calc_with_spec next i H) as (Hq & _ & _ & B & _).
  rewrite (B Et H1 Hg). split.
  - apply burst_real_range; [lia|unfold two31 in Hg; lia].
  - intros E. rewrite E. apply burst_real_full; [exact H1|unfold two31 in Hg; lia].
Qed.

Lemma calc_burst_le next i : ints_ok i -> i_typ i = TBucket -> in_int32 (i_gburst i) ->
  snd (calc_with next i) <= i_gburst i.
Proof. intros H Et Hg. destruct (calc_with_spec next i H) as (_ & _ & _ & _ & B). apply B; assumption. Qed.

(* scaling: same limit and global burst, whatever else differs: a larger quota never gets a smaller burst *)
Lemma calc_burst_mono next1 next2 i1 i2 : ints_ok i1 -> ints_ok i2 ->
  i_typ i1 = TBucket -> i_typ i2 = TBucket ->
  i_total i1 = i_total i2 -> i_gburst i1 = i_gburst i2 -> 1 <= i_total i1 -> 0 <= i_gburst i1 < two31 ->
  fst (calc_with next1 i1) <= fst (calc_with next2 i2) ->
  snd (calc_with next1 i1) <= snd (calc_with next2 i2).
Proof.
  intros H1 H2 T1 T2 Et Eg Ht Hg Hle.
  destruct (calc_with_spec next1 i1 H1) as (Q1 & _ & _ & B1 & _).
  destruct (calc_with_spec next2 i2 H2) as (Q2 & _ & _ & B2 & _).
  rewrite (B1 T1 Ht Hg). rewrite <- Et, <- Eg in B2. rewrite (B2 T2 Ht Hg).
  apply burst_real_mono; lia.
Qed.

(* the calls themselves: calculateNextQuota always answers (the type is total: no panic is left) *)
Lemma calc_next_quota_allocate i : i_count i = false -> calc_next_quota i = calc_with (heuristic i) i.
Proof. unfold calc_next_quota. intros ->. reflexivity. Qed.

Lemma calc_next_quota_count i : i_count i = true ->
  calc_next_quota i = (i_total i, match i_typ i with TBucket => i_gburst i | TMax => 0 end).
Proof. unfold calc_next_quota. intros ->. reflexivity. Qed.

(* both forms of each per-call statement: for an arbitrary heuristic value, and for the call *)
Lemma floor_both : forall i, ints_ok i ->
  (forall next, 1 <= fst (calc_with next i)) /\
  (i_count i = false -> 1 <= fst (calc_next_quota i)).
Proof.
  intros i H. split; [intros next; apply calc_floor; exact H|].
  intros Hc. rewrite (calc_next_quota_allocate i Hc). apply calc_floor; exact H.
Qed.

Lemma cap_both : forall i, ints_ok i ->
  (forall next, fst (calc_with next i) <= Z.max 1 (i_total i)) /\
  (i_count i = false -> fst (calc_next_quota i) <= Z.max 1 (i_total i)).
Proof.
  intros i H. split; [intros next; apply calc_cap; exact H|].
  intros Hc. rewrite (calc_next_quota_allocate i Hc). apply calc_cap; exact H.
Qed.

Lemma step_safe_both : forall i, ints_ok i -> 0 <= i_current i -> i_allocated i <= i_total i ->
  (forall next, i_allocated i - i_current i + fst (calc_with next i) <= i_total i \/ fst (calc_with next i) = 1) /\
  (i_count i = false ->
     i_allocated i - i_current i + fst (calc_next_quota i) <= i_total i \/ fst (calc_next_quota i) = 1).
Proof.
  intros i H Hc Hs. split; [intros next; apply calc_step_safe; assumption|].
  intros Hcnt. rewrite (calc_next_quota_allocate i Hcnt). apply calc_step_safe; assumption.
Qed.

Lemma no_growth_both : forall i, ints_ok i -> 0 <= i_current i -> i_total i < i_allocated i ->
  (forall next, fst (calc_with next i) <= Z.max 1 (i_current i)) /\
  (i_count i = false -> fst (calc_next_quota i) <= Z.max 1 (i_current i)).
Proof.
  intros i H Hc Hs. split; [intros next; apply calc_no_growth; assumption|].
  intros Hcnt. rewrite (calc_next_quota_allocate i Hcnt). apply calc_no_growth; assumption.
Qed.

Lemma burst_both :
  (forall next i, ints_ok i -> i_typ i = TBucket -> in_int32 (i_gburst i) ->
     snd (calc_with next i) <= i_gburst i) /\
  (forall next i, ints_ok i -> i_typ i = TBucket -> 1 <= i_total i -> 0 <= i_gburst i < two31 ->
     0 <= snd (calc_with next i) <= i_gburst i /\
     (fst (calc_with next i) = i_total i -> snd (calc_with next i) = i_gburst i)) /\
  (forall next1 next2 i1 i2, ints_ok i1 -> ints_ok i2 ->
     i_typ i1 = TBucket -> i_typ i2 = TBucket ->
     i_total i1 = i_total i2 -> i_gburst i1 = i_gburst i2 -> 1 <= i_total i1 -> 0 <= i_gburst i1 < two31 ->
     fst (calc_with next1 i1) <= fst (calc_with next2 i2) ->
     snd (calc_with next1 i1) <= snd (calc_with next2 i2)).
Proof. split; [exact calc_burst_le|split; [exact calc_burst|exact calc_burst_mono]]. Qed.

(* ============================ Part B: histories of one schema ============================ *)

(* from here on the numeric function is used only through its specification above *)
Opaque calc_next_quota.
Strategy opaque [calc_next_quota calc_with heuristic finalize].

Definition qs_ok (l : list (Z * (Z * Z))) : Prop := Forall (fun e => 0 <= fst (snd e) < two31) l.

Record wf (s : sstate) : Prop := {
  wf_q : qs_ok (h_quotas s);
  wf_oq : qs_ok (h_oquotas s);
  wf_limit : 0 <= h_limit s < two31;          (* what validation admits *)
  wf_burst : in_int32 (h_burst s);
  (* the sum on record is never below the (saturated) true sum: equal after a report,
     possibly stale-high after a removal *)
  wf_rec : Z.min (quota_sum (h_quotas s)) (two31 - 1) <= h_rec s < two31;
  wf_orec : Z.min (quota_sum (h_oquotas s)) (two31 - 1) <= h_orec s < two31
}.

Fixpoint qsum_i (i : Z) (l : list (Z * (Z * Z))) : Z :=
  match l with
  | [] => 0
  | (j, v) :: r => (if j =? i then fst v else 0) + qsum_i i r
  end.
Fixpoint fsum_i (i : Z) (l : list (Z * (Z * Z))) : Z :=
  match l with
  | [] => 0
  | (j, v) :: r => (if j =? i then above1 (fst v) else 0) + fsum_i i r
  end.

Lemma quota_sum_cons e l : quota_sum (e :: l) = fst (snd e) + quota_sum l.
Proof. reflexivity. Qed.
Lemma rec_sum1_cons e l : rec_sum1 (e :: l) = above1 (fst (snd e)) + rec_sum1 l.
Proof. reflexivity. Qed.
Lemma rec_sum_quota_sum l : rec_sum l = quota_sum l.
Proof. reflexivity. Qed.

Lemma above1_bounds q : 0 <= q -> 0 <= above1 q <= q.
Proof. unfold above1. intros H. destruct (Z.leb_spec q 1); lia. Qed.

Lemma quota_sum_remove i l : quota_sum (remove_inst i l) = quota_sum l - qsum_i i l.
Proof.
  induction l as [|[j v] r IH]; [reflexivity|].
  cbn [remove_inst qsum_i]. destruct (Z.eqb_spec j i).
  - rewrite IH, quota_sum_cons. cbn [fst snd]. lia.
  - rewrite !quota_sum_cons, IH. cbn [fst snd]. lia.
Qed.
Lemma rec_sum1_remove i l : rec_sum1 (remove_inst i l) = rec_sum1 l - fsum_i i l.
Proof.
  induction l as [|[j v] r IH]; [reflexivity|].
  cbn [remove_inst fsum_i]. destruct (Z.eqb_spec j i).
  - rewrite IH, rec_sum1_cons. cbn [fst snd]. lia.
  - rewrite !rec_sum1_cons, IH. cbn [fst snd]. lia.
Qed.
Lemma qs_ok_remove i l : qs_ok l -> qs_ok (remove_inst i l).
Proof.
  unfold qs_ok. induction l as [|[j v] r IH]; intros H; [constructor|].
  inversion H as [|? ? H1 H2]; subst. cbn [remove_inst]. destruct (j =? i); [apply IH; exact H2|].
  constructor; [exact H1|apply IH; exact H2].
Qed.
Lemma sums_nonneg l : qs_ok l -> 0 <= rec_sum1 l <= quota_sum l.
Proof.
  unfold qs_ok. induction l as [|e r IH]; intros H; [cbn; lia|].
  inversion H as [|? ? H1 H2]; subst. rewrite quota_sum_cons, rec_sum1_cons.
  specialize (IH H2). pose proof (above1_bounds (fst (snd e))). lia.
Qed.
Lemma isums_nonneg i l : qs_ok l -> 0 <= fsum_i i l /\ 0 <= qsum_i i l.
Proof.
  unfold qs_ok. induction l as [|[j v] r IH]; intros H; [cbn; lia|].
  inversion H as [|? ? H1 H2]; subst. cbn [qsum_i fsum_i]. cbn [fst snd] in H1.
  specialize (IH H2). pose proof (above1_bounds (fst v)). destruct (j =? i); lia.
Qed.
Lemma current_le i l : qs_ok l ->
  let c := match lookup i l with Some (q, _) => q | None => 0 end in
  0 <= c < two31 /\ c <= qsum_i i l /\ above1 c <= fsum_i i l.
Proof.
  unfold qs_ok. induction l as [|[j [q b]] r IH]; intros H.
  - cbn [lookup qsum_i fsum_i]. cbv zeta. unfold two31, above1. destruct (Z.leb_spec 0 1); lia.
  - inversion H as [|? ? H1 H2]; subst. cbn [fst snd] in H1. cbn [lookup qsum_i fsum_i fst]. cbv zeta.
    destruct (Z.eqb_spec j i).
    + pose proof (isums_nonneg i r H2). lia.
    + specialize (IH H2). cbv zeta in IH. lia.
Qed.

Lemma step_arith L S R RF D DF c rec q F :
  L < two31 -> S = R + D -> F = RF + DF -> 0 <= RF <= R -> 0 <= c -> c <= D -> above1 c <= DF ->
  Z.min S (two31 - 1) <= rec < two31 ->
  1 <= q <= Z.max 1 L -> (q = 1 \/ q <= c + Z.max (L - rec) 0) ->
  (S <= L -> q + R <= L \/ q = 1) /\
  (L < S -> q <= Z.max 1 c) /\
  above1 q + RF <= Z.max L F.
Proof.
  intros HL -> -> HR Hc HD HDF Hrec Hq Hg.
  unfold above1 in *. unfold two31 in *.
  destruct (Z.leb_spec q 1); destruct (Z.leb_spec c 1); lia.
Qed.

Definition good_answer (isb : bool) (L G : Z) (qb : Z * Z) : Prop :=
  1 <= fst qb <= Z.max 1 L /\
  (isb = false -> snd qb = 0) /\
  (isb = true -> 1 <= L -> 0 <= G -> snd qb = burst_real (fst qb) L G) /\
  (isb = true -> snd qb <= G).

Definition same_cfg (s s' : sstate) : Prop :=
  h_typ s' = h_typ s /\ h_limit s' = h_limit s /\ h_burst s' = h_burst s.

Lemma current_of_le s i typed : qs_ok (h_quotas s) ->
  let c := current_of s i typed in
  0 <= c < two31 /\ c <= qsum_i i (h_quotas s) /\ above1 c <= fsum_i i (h_quotas s).
Proof.
  intros Q. unfold current_of. destruct typed.
  - exact (current_le i (h_quotas s) Q).
  - pose proof (isums_nonneg i _ Q). cbv zeta. unfold above1, two31. destruct (Z.leb_spec 0 1); lia.
Qed.

Lemma report_inputs_ok s i typed count used level up clients : wf s ->
  ints_ok (report_inputs s i typed count used level up clients).
Proof.
  intros W. unfold ints_ok, report_inputs; cbn [i_current i_total i_allocated].
  destruct (current_of_le s i typed (wf_q s W)) as (Hc & _). cbv zeta in Hc.
  destruct (wf_rec s W) as (Hr1 & Hr2). pose proof (sums_nonneg _ (wf_q s W)) as Hs.
  pose proof (wf_limit s W).
  split; [|split]; unfold in_int32, two31 in *; lia.
Qed.

Lemma sat32_bounds S : 0 <= S -> Z.min S (two31 - 1) <= sat32 S < two31.
Proof. unfold sat32, two31. lia. Qed.

(* one report item *)
Lemma rep_step s i typed count used level up clients : wf s ->
  let c := current_of s i typed in
  let L := h_limit s in
  let r := sstep s (SRep i typed count used level up clients) in
  wf (fst r) /\ same_cfg s (fst r) /\ h_oquotas (fst r) = remove_inst i (h_oquotas s) /\
  exists qb, snd r = Some qb /\
    (count = true -> qb = (L, if is_bucket (h_typ s) then h_burst s else 0)) /\
    (count = false ->
      good_answer (is_bucket (h_typ s)) L (h_burst s) qb /\
      (quota_sum (h_quotas s) <= L -> quota_sum (h_quotas (fst r)) <= L \/ fst qb = 1) /\
      (L < quota_sum (h_quotas s) -> fst qb <= Z.max 1 c) /\
      rec_sum1 (h_quotas (fst r)) <= Z.max L (rec_sum1 (h_quotas s))).
Proof.
  intros W c L r. subst r. unfold sstep. cbn [fst snd].
  pose proof (report_inputs_ok s i typed count used level up clients W) as IO.
  set (qb := calc_next_quota (report_inputs s i typed count used level up clients)).
  pose proof (qs_ok_remove i _ (wf_q s W)) as QR.
  pose proof (qs_ok_remove i _ (wf_oq s W)) as QOR.
  pose proof (sums_nonneg _ QR) as SR. pose proof (sums_nonneg _ QOR) as SOR.
  pose proof (wf_limit s W) as WL. fold L in WL.
  assert (Hq0 : 0 <= fst qb < two31 ->
          wf {| h_typ := h_typ s; h_limit := h_limit s; h_burst := h_burst s;
                h_quotas := set_inst i qb (h_quotas s); h_rec := sat32 (quota_sum (set_inst i qb (h_quotas s)));
                h_oquotas := remove_inst i (h_oquotas s); h_orec := sat32 (quota_sum (remove_inst i (h_oquotas s))) |}).
  { intros Hq. constructor; cbn [h_quotas h_oquotas h_limit h_burst h_rec h_orec].
    - unfold set_inst. constructor; [cbn [fst snd]; exact Hq|exact QR].
    - exact QOR.
    - exact WL.
    - exact (wf_burst s W).
    - apply sat32_bounds. unfold set_inst. rewrite quota_sum_cons. cbn [fst snd]. lia.
    - apply sat32_bounds. lia. }
  destruct count.
  - (* count strategy: the global values *)
    assert (E : qb = (L, if is_bucket (h_typ s) then h_burst s else 0)).
    { unfold qb. rewrite calc_next_quota_count by reflexivity. cbn [report_inputs i_total i_typ i_gburst].
      destruct (h_typ s); reflexivity. }
    split; [apply Hq0; rewrite E; cbn [fst]; exact WL|].
    split; [repeat split|]. split; [reflexivity|].
    exists qb. split; [reflexivity|]. split; [intros _; exact E|discriminate].
  - pose proof (calc_with_spec (heuristic (report_inputs s i typed false used level up clients)) _ IO) as SP.
    cbv zeta in SP.
    rewrite <- (calc_next_quota_allocate (report_inputs s i typed false used level up clients) eq_refl) in SP. fold qb in SP.
    destruct SP as (Hq & Hg & Bm & Bb & Ble).
    cbn [report_inputs i_total i_current i_allocated i_typ i_gburst] in Hq, Hg, Bm, Bb, Ble.
    fold c in Hg. fold L in Hq, Hg, Bb.
    destruct (current_of_le s i typed (wf_q s W)) as (Hc & HcD & HcF). cbv zeta in Hc, HcD, HcF.
    fold c in Hc, HcD, HcF.
    destruct (wf_rec s W) as (Hr1 & Hr2).
    assert (Hgrow : fst qb = 1 \/ fst qb <= c + Z.max (L - h_rec s) 0) by (apply Hg; lia).
    destruct (step_arith L (quota_sum (h_quotas s)) (quota_sum (remove_inst i (h_quotas s)))
                (rec_sum1 (remove_inst i (h_quotas s))) (qsum_i i (h_quotas s)) (fsum_i i (h_quotas s))
                c (h_rec s) (fst qb) (rec_sum1 (h_quotas s))) as (A1 & A2 & A3);
      try assumption; try lia.
    { rewrite quota_sum_remove; lia. }
    { rewrite rec_sum1_remove; lia. }
    split; [apply Hq0; unfold two31 in *; lia|].
    split; [repeat split|]. split; [reflexivity|].
    exists qb. split; [reflexivity|]. split; [discriminate|]. intros _.
    split; [|split; [|split]].
    + unfold good_answer. split; [exact Hq|]. split; [|split].
      * intros Hb. apply Bm. destruct (h_typ s); [reflexivity|discriminate].
      * intros Hb H1 HG. apply Bb; [destruct (h_typ s); [discriminate|reflexivity]|exact H1|].
        pose proof (wf_burst s W) as WB. unfold in_int32 in WB. lia.
      * intros Hb. apply Ble; [destruct (h_typ s); [discriminate|reflexivity]|exact (wf_burst s W)].
    + cbn [h_quotas]. unfold set_inst. rewrite quota_sum_cons. cbn [fst snd]. exact A1.
    + exact A2.
    + cbn [h_quotas]. unfold set_inst. rewrite rec_sum1_cons. cbn [fst snd]. exact A3.
Qed.

Lemma drop_step s i rc : wf s ->
  let s' := fst (sstep s (SDrop i rc)) in
  wf s' /\ same_cfg s s' /\ h_quotas s' = remove_inst i (h_quotas s) /\ h_oquotas s' = remove_inst i (h_oquotas s).
Proof.
  intros W. unfold sstep. cbn [fst].
  pose proof (isums_nonneg i _ (wf_q s W)). pose proof (isums_nonneg i _ (wf_oq s W)).
  pose proof (qs_ok_remove i _ (wf_q s W)) as QR. pose proof (qs_ok_remove i _ (wf_oq s W)) as QOR.
  pose proof (sums_nonneg _ QR). pose proof (sums_nonneg _ QOR).
  destruct (wf_rec s W). destruct (wf_orec s W).
  split; [|split; [repeat split|split; reflexivity]].
  constructor; cbn [h_quotas h_oquotas h_limit h_burst h_rec h_orec];
    [exact QR|exact QOR|exact (wf_limit s W)|exact (wf_burst s W)| |].
  - destruct rc; [apply sat32_bounds; lia|rewrite quota_sum_remove; lia].
  - destruct rc; [apply sat32_bounds; lia|rewrite quota_sum_remove; lia].
Qed.

Lemma typ_eqb_bucket bk t : ftype_eqb (typ_of bk) t = Bool.eqb bk (is_bucket t).
Proof. destruct bk, t; reflexivity. Qed.

Lemma set_step s bk n g : wf s -> 0 <= n < two31 -> in_int32 g ->
  let s' := fst (sstep s (SSet (typ_of bk) n g)) in
  wf s' /\ h_typ s' = typ_of bk /\ h_limit s' = n /\ h_burst s' = g /\
  h_quotas s' = (if Bool.eqb bk (is_bucket (h_typ s)) then h_quotas s else h_oquotas s) /\
  h_oquotas s' = (if Bool.eqb bk (is_bucket (h_typ s)) then h_oquotas s else h_quotas s).
Proof.
  intros W Hn Hg. unfold sstep. rewrite typ_eqb_bucket.
  destruct (Bool.eqb bk (is_bucket (h_typ s))); cbn [fst]; (split; [|repeat split]);
    constructor; cbn [h_quotas h_oquotas h_limit h_burst h_rec h_orec];
    first [exact (wf_q s W)|exact (wf_oq s W)|exact Hn|exact Hg|exact (wf_rec s W)|exact (wf_orec s W)].
Qed.

Lemma wf_sinit t limit burst : 0 <= limit < two31 -> in_int32 burst -> wf (sinit t limit burst).
Proof.
  intros Hl Hb. constructor; cbn [sinit h_quotas h_oquotas h_limit h_burst h_rec h_orec];
    first [constructor; fail|exact Hl|exact Hb|cbn; unfold two31; lia].
Qed.

(* ---- a batch of entries executed in the listed order ---- *)
Definition is_count_pair (isb : bool) (L G : Z) (qb : Z * Z) : Prop := qb = (L, if isb then G else 0).

Lemma run_entries_ok rs : forall s, wf s ->
  let r := run_entries s rs in
  let cs := item_counts rs in
  let ans := snd (snd r) in
  wf (fst r) /\ same_cfg s (fst r) /\
  all_answered cs ans = true /\
  Forall (good_answer (is_bucket (h_typ s)) (h_limit s) (h_burst s)) (answers_with false cs ans) /\
  Forall (is_count_pair (is_bucket (h_typ s)) (h_limit s) (h_burst s)) (answers_with true cs ans) /\
  (answers_with true cs ans = [] ->
     rec_sum1 (h_quotas (fst r)) <= Z.max (h_limit s) (rec_sum1 (h_quotas s))) /\
  rec_sum1 (h_oquotas (fst r)) <= rec_sum1 (h_oquotas s).
Proof.
  induction rs as [|e rest IH]; intros s W.
  - cbn. split; [exact W|]. split; [repeat split|]. split; [reflexivity|].
    split; [constructor|]. split; [constructor|]. split; [intros _; lia|lia].
  - cbn [run_entries].
    destruct e as [i typed count used level up clients|i].
    + cbn [sop_of_entry].
      pose proof (rep_step s i typed count used level up clients W) as RS. cbv zeta in RS.
      destruct (sstep s (SRep i typed count used level up clients)) as [s1 a] eqn:E1. cbn [fst snd] in RS.
      destruct RS as (W1 & (T1 & L1 & B1) & O1 & qb & -> & Hcnt & Hall).
      specialize (IH s1 W1). cbv zeta in IH.
      destruct (run_entries s1 rest) as [s2 [cs ans]] eqn:E2. cbn [fst snd] in IH |- *.
      destruct IH as (W2 & (T2 & L2 & B2) & AA & GA & GC & F2 & FO).
      rewrite T1, L1, B1 in GA, GC. rewrite L1 in F2. rewrite O1, rec_sum1_remove in FO.
      pose proof (isums_nonneg i _ (wf_oq s W)) as HO.
      cbn [item_counts flat_map app]. fold (item_counts rest).
      split; [exact W2|]. split; [repeat split; congruence|].
      split.
      { unfold all_answered in *. cbn [List.length forallb]. rewrite Bool.andb_true_iff in *.
        destruct AA as (A1 & A2). split; [|exact A2]. rewrite Nat.eqb_eq in *. lia. }
      destruct count; cbn [answers_with Bool.eqb].
      * split; [exact GA|]. split; [constructor; [exact (Hcnt eq_refl)|exact GC]|]. split; [discriminate|lia].
      * destruct (Hall eq_refl) as (G1 & _ & _ & F1).
        split; [constructor; [exact G1|exact GA]|]. split; [exact GC|].
        split; [intros En; specialize (F2 En); lia|lia].
    + cbn [sop_of_entry].
      pose proof (drop_step s i true W) as DS. cbv zeta in DS.
      destruct (sstep s (SDrop i true)) as [s1 a] eqn:E1. cbn [fst] in DS.
      destruct DS as (W1 & (T1 & L1 & B1) & Q1 & O1).
      specialize (IH s1 W1). cbv zeta in IH.
      destruct (run_entries s1 rest) as [s2 [cs ans]] eqn:E2. cbn [fst snd] in IH |- *.
      destruct IH as (W2 & (T2 & L2 & B2) & AA & GA & GC & F2 & FO).
      rewrite T1, L1, B1 in GA, GC. rewrite L1, Q1, rec_sum1_remove in F2. rewrite O1, rec_sum1_remove in FO.
      pose proof (isums_nonneg i _ (wf_q s W)). pose proof (isums_nonneg i _ (wf_oq s W)) as HO.
      cbn [item_counts flat_map app]. fold (item_counts rest).
      split; [exact W2|]. split; [repeat split; congruence|].
      split; [exact AA|]. split; [exact GA|]. split; [exact GC|].
      split; [intros En; specialize (F2 En); lia|lia].
Qed.

Lemma good_answer_clauses isb L G qb : in_int32 G -> good_answer isb L G qb ->
  floor_ok (fst qb) = true /\ cap_ok L (fst qb) = true /\ burst_ok isb L G (fst qb) (snd qb) = true.
Proof.
  intros HG (Hq & Bm & Bb & Ble). unfold floor_ok, cap_ok, burst_ok.
  split; [lia|]. split; [lia|].
  destruct isb.
  - specialize (Ble eq_refl).
    assert ((snd qb <=? G) = true) as -> by lia. cbn [andb].
    destruct (Z.leb_spec 1 L); [|reflexivity]. destruct (Z.leb_spec 0 G); [|reflexivity]. cbn [andb].
    rewrite (Bb eq_refl) by assumption.
    assert (HG' : 0 <= G < 2 ^ 53) by (unfold in_int32, two31 in HG; lia).
    pose proof (burst_real_range (fst qb) L G ltac:(lia) HG') as R.
    destruct (Z.eqb_spec (fst qb) L) as [->|Hne].
    + rewrite burst_real_full by lia. lia.
    + lia.
  - rewrite (Bm eq_refl). reflexivity.
Qed.

Lemma forallb_Forall {A} (P : A -> Prop) (f : A -> bool) l :
  (forall x, P x -> f x = true) -> Forall P l -> forallb f l = true.
Proof.
  intros Hf H. induction H as [|x r Hx Hr IH]; [reflexivity|]. cbn. rewrite (Hf x Hx), IH. reflexivity.
Qed.

Lemma count_pair_ok isb L G qb : is_count_pair isb L G qb -> count_ok isb L G (fst qb) (snd qb) = true.
Proof. intros ->. unfold count_ok. cbn [fst snd]. rewrite !Z.eqb_refl. reflexivity. Qed.

Definition bop_ok (o : bop) : Prop :=
  match o with
  | BSet _ n g => 0 <= n < two31 /\ in_int32 g
  | BOverlap _ _ _ n g => 0 <= n < two31 /\ in_int32 g
  | _ => True
  end.

Definition tagged_good (a : Z * Z * Z * Z) : Prop :=
  match a with (l, g, q, b) => in_int32 g /\ good_answer true l g (q, b) end.

Definition step_answers (isb : bool) (limit gburst : Z) (o : bop) (b : sobs) : list (Z * Z * Z * Z) :=
  match o with
  | BReports rs =>
      if isb then map (fun qb => (limit, gburst, fst qb, snd qb)) (answers_with false (item_counts rs) (o_ans b))
      else []
  | _ => []
  end.

(* the two clauses that only speak about a sequential (singleton) allocate report *)
Lemma single_clauses s rs s' cs ans : wf s -> run_entries s rs = (s', (cs, ans)) ->
  match rs, ans with
  | [EReport _ _ false _ _ _ _], [Some (q, _)] =>
      step_safe_ok (h_limit s) (rec_sum (h_quotas s)) (rec_sum (h_quotas s')) q
  | _, _ => true
  end = true /\
  match rs, ans, cs with
  | [EReport _ _ false _ _ _ _], [Some (q, _)], [c] => no_growth_ok (h_limit s) (rec_sum (h_quotas s)) c q
  | _, _, _ => true
  end = true.
Proof.
  intros W E.
  destruct rs as [|[i typed [|] used level up clients|i] [|r2 rest]]; try (split; reflexivity).
  - (* one allocate report *)
    cbn [run_entries sop_of_entry] in E.
    pose proof (rep_step s i typed false used level up clients W) as RS. cbv zeta in RS.
    destruct (sstep s (SRep i typed false used level up clients)) as [s1 a] eqn:E1.
    cbn [fst snd] in RS. inversion E; subst. clear E.
    destruct RS as (_ & _ & _ & qb & -> & _ & Hall). destruct (Hall eq_refl) as (_ & A1 & A2 & _).
    destruct qb as [q b0]. cbn [fst] in A1, A2.
    change rec_sum with quota_sum. unfold step_safe_ok, no_growth_ok. split.
    + destruct (Z.leb_spec (quota_sum (h_quotas s)) (h_limit s)); [|reflexivity].
      destruct (A1 ltac:(lia)); lia.
    + destruct (Z.ltb_spec (h_limit s) (quota_sum (h_quotas s))); [|reflexivity].
      specialize (A2 ltac:(lia)). lia.
Qed.

Definition cfg_of (s : sstate) : bool * Z * Z := (is_bucket (h_typ s), h_limit s, h_burst s).

(* a batch of reports meets every clause of its row *)
Lemma report_row_ok s rs s' cs ans : wf s -> run_entries s rs = (s', (cs, ans)) ->
  report_row (is_bucket (h_typ s)) (h_limit s) (h_burst s) (h_quotas s) rs cs ans (h_quotas s') = all8 /\
  wf s' /\ same_cfg s s' /\ rec_sum1 (h_oquotas s') <= rec_sum1 (h_oquotas s) /\
  Forall (good_answer (is_bucket (h_typ s)) (h_limit s) (h_burst s)) (answers_with false (item_counts rs) ans).
Proof.
  intros W E. set (isb := is_bucket (h_typ s)).
  pose proof (run_entries_ok rs s W) as RR. cbv zeta in RR. rewrite E in RR. cbn [fst snd] in RR.
  destruct RR as (W1 & SC1 & AA & GA & GC & F1 & FO). fold isb in GA, GC.
  destruct (single_clauses s rs s' cs ans W E) as (S3 & S4).
  pose proof (wf_burst s W) as WB.
  split; [|split; [exact W1|split; [exact SC1|split; [exact FO|exact GA]]]].
  unfold report_row, all8.
  rewrite AA.
  rewrite (forallb_Forall _ (fun qb => floor_ok (fst qb)) _
             (fun qb H => proj1 (good_answer_clauses _ _ _ qb WB H)) GA).
  rewrite (forallb_Forall _ (fun qb => cap_ok (h_limit s) (fst qb)) _
             (fun qb H => proj1 (proj2 (good_answer_clauses _ _ _ qb WB H))) GA).
  rewrite (forallb_Forall _ (fun qb => burst_ok isb (h_limit s) (h_burst s) (fst qb) (snd qb)) _
             (fun qb H => proj2 (proj2 (good_answer_clauses _ _ _ qb WB H))) GA).
  rewrite S3, S4.
  rewrite (forallb_Forall _ _ _ (count_pair_ok isb (h_limit s) (h_burst s)) GC).
  destruct (answers_with true (item_counts rs) ans) eqn:En; [|reflexivity].
  assert (rec_sum1 (h_quotas s') <=? Z.max (h_limit s) (rec_sum1 (h_quotas s)) = true) as -> by (specialize (F1 eq_refl); lia).
  reflexivity.
Qed.

Lemma quiet_row_ok limit before after : rec_sum1 after <= Z.max limit (rec_sum1 before) ->
  quiet_row limit before after = all8.
Proof. intros H. unfold quiet_row, all8. assert (rec_sum1 after <=? Z.max limit (rec_sum1 before) = true) as -> by lia. reflexivity. Qed.

Lemma is_bucket_typ_of bk : is_bucket (typ_of bk) = bk.
Proof. destruct bk; reflexivity. Qed.

Lemma model_step_ok s o : wf s -> bop_ok o ->
  let isb := is_bucket (h_typ s) in
  let s' := fst (model_step s o) in
  let b := snd (model_step s o) in
  wf s' /\
  cfg_after isb (h_limit s) (h_burst s) o = cfg_of s' /\
  o_quotas b = h_quotas s' /\ o_oquotas b = h_oquotas s' /\
  step_ok isb (h_limit s) (h_burst s) (h_quotas s) (h_oquotas s) o b = all8 /\
  Forall tagged_good (step_answers isb (h_limit s) (h_burst s) o b).
Proof.
  intros W OK isb s' b. subst s' b. destruct o as [rs|bk n g|i|first r bk n g].
  - (* reports *)
    cbn [model_step].
    destruct (run_entries s rs) as [s1 [cs ans]] eqn:E. cbn [fst snd].
    destruct (report_row_ok s rs s1 cs ans W E) as (ROW & W1 & (T1 & L1 & B1) & _ & GA). fold isb in ROW, GA.
    split; [exact W1|]. split; [unfold cfg_after, cfg_of, isb; congruence|]. split; [reflexivity|]. split; [reflexivity|].
    pose proof (wf_burst s W) as WB.
    split; [exact ROW|].
    unfold step_answers. cbn [obs_of o_ans]. destruct isb eqn:Eb; [|constructor].
    clear -GA WB.
    induction GA as [|qb r Hq Hr IH]; [constructor|]. cbn [map]. constructor; [|exact IH].
    unfold tagged_good. split; [exact WB|]. destruct qb; exact Hq.
  - (* schema change *)
    destruct OK as (Hn & Hg). cbn [model_step fst snd].
    destruct (set_step s bk n g W Hn Hg) as (W1 & T1 & L1 & B1 & Q1 & O1).
    split; [exact W1|].
    split; [unfold cfg_after, cfg_of; rewrite T1, L1, B1, is_bucket_typ_of; reflexivity|].
    split; [reflexivity|]. split; [reflexivity|].
    split; [|constructor].
    unfold step_ok; cbv zeta. cbn [obs_of o_quotas]. rewrite Q1. fold isb.
    apply quiet_row_ok. destruct (Bool.eqb bk isb); lia.
  - (* removal *)
    cbn [model_step fst snd].
    destruct (drop_step s i false W) as (W1 & (T1 & L1 & B1) & Q1 & _).
    split; [exact W1|]. split; [unfold cfg_after, cfg_of, isb; congruence|]. split; [reflexivity|]. split; [reflexivity|].
    split; [|constructor].
    unfold step_ok; cbv zeta. cbn [obs_of o_quotas]. rewrite Q1.
    pose proof (isums_nonneg i _ (wf_q s W)). apply quiet_row_ok. rewrite rec_sum1_remove. lia.
  - (* a report overlapping a schema change, in either order *)
    destruct OK as (Hn & Hg). destruct first; cbn [model_step].
    + (* the report first *)
      destruct (run_entries s [r]) as [s1 [cs ans]] eqn:E.
      destruct (report_row_ok s [r] s1 cs ans W E) as (ROW & W1 & (T1 & L1 & B1) & FO & _). fold isb in ROW.
      destruct (set_step s1 bk n g W1 Hn Hg) as (W2 & T2 & L2 & B2 & Q2 & O2).
      rewrite T1 in Q2, O2. fold isb in Q2, O2.
      cbn [fst snd].
      split; [exact W2|].
      split; [unfold cfg_after, cfg_of; rewrite T2, L2, B2, is_bucket_typ_of; reflexivity|].
      split; [reflexivity|]. split; [reflexivity|].
      split; [|constructor].
      unfold step_ok; cbv zeta. cbn [obs_of o_quotas o_oquotas o_cur o_ans]. rewrite Q2, O2.
      destruct (Bool.eqb bk isb).
      * rewrite ROW. rewrite quiet_row_ok by lia. reflexivity.
      * rewrite ROW. rewrite quiet_row_ok by lia. reflexivity.
    + (* the change first *)
      destruct (set_step s bk n g W Hn Hg) as (W1 & T1 & L1 & B1 & Q1 & O1). fold isb in Q1, O1.
      destruct (run_entries (fst (sstep s (SSet (typ_of bk) n g))) [r]) as [s2 [cs ans]] eqn:E.
      destruct (report_row_ok _ [r] s2 cs ans W1 E) as (ROW & W2 & (T2 & L2 & B2) & _ & _).
      rewrite T1, L1, B1, Q1, is_bucket_typ_of in ROW.
      cbn [fst snd].
      split; [exact W2|].
      split; [unfold cfg_after, cfg_of; rewrite T2, L2, B2, T1, L1, B1, is_bucket_typ_of; reflexivity|].
      split; [reflexivity|]. split; [reflexivity|].
      split; [|constructor].
      unfold step_ok; cbv zeta. cbn [obs_of o_quotas o_oquotas o_cur o_ans].
      rewrite ROW. rewrite Bool.orb_true_r. reflexivity.
Qed.

(* ---- the whole trace of one schema ---- *)
(* a trace in which every observation is the model's, from the state the previous step left *)
Inductive chain : sstate -> list (bop * sobs) -> Prop :=
| chain_nil s : chain s []
| chain_cons s o r : bop_ok o -> chain (fst (model_step s o)) r -> chain s ((o, snd (model_step s o)) :: r).

Lemma model_trace_chain bs : forall s, Forall bop_ok bs -> chain s (model_trace s bs).
Proof.
  induction bs as [|o rest IH]; intros s OK; [constructor|].
  inversion OK as [|? ? OK1 OK2]; subst. cbn [model_trace].
  destruct (model_step s o) as [s' b] eqn:E.
  replace b with (snd (model_step s o)) by (rewrite E; reflexivity).
  constructor; [exact OK1|]. rewrite E. cbn [fst]. apply IH. exact OK2.
Qed.

Lemma hist_rows_chain tr : forall s, wf s -> chain s tr ->
  let r := hist_rows (is_bucket (h_typ s)) (h_limit s) (h_burst s) (h_quotas s) (h_oquotas s) tr in
  fst r = all8 /\ Forall tagged_good (snd r).
Proof.
  induction tr as [|[o b] rest IH]; intros s W C r; subst r.
  - cbn. split; [reflexivity|constructor].
  - inversion C as [|? ? ? OK1 C2]; subst.
    pose proof (model_step_ok s o W OK1) as MS. cbv zeta in MS.
    destruct MS as (W' & CA & Q' & O' & ROW & ANS).
    cbn [hist_rows]. rewrite ROW, CA. unfold cfg_of. rewrite Q', O'.
    specialize (IH _ W' C2). cbv zeta in IH.
    destruct (hist_rows (is_bucket (h_typ (fst (model_step s o)))) (h_limit (fst (model_step s o)))
                (h_burst (fst (model_step s o))) (h_quotas (fst (model_step s o)))
                (h_oquotas (fst (model_step s o))) rest) as [rows answers].
    cbn [fst snd] in IH |- *. destruct IH as (-> & GA).
    split; [reflexivity|].
    apply Forall_app. split; [|exact GA].
    unfold step_answers in ANS. destruct o; first [exact ANS|constructor].
Qed.

Lemma burst_mono_good answers : Forall tagged_good answers -> burst_mono_ok answers = true.
Proof.
  intros H. unfold burst_mono_ok.
  apply forallb_forall. intros a Ha. apply forallb_forall. intros a' Ha'.
  rewrite Forall_forall in H. pose proof (H a Ha) as G1. pose proof (H a' Ha') as G2.
  destruct a as [[[l1 g1] q1] b1]. destruct a' as [[[l2 g2] q2] b2].
  unfold tagged_good, good_answer in G1, G2. cbn [fst snd] in G1, G2.
  destruct G1 as (I1 & Q1 & _ & B1 & _). destruct G2 as (I2 & Q2 & _ & B2 & _).
  unfold mono_pair.
  destruct (Z.leb_spec 1 l1); [|reflexivity]. destruct (Z.leb_spec 0 g1); [|reflexivity].
  destruct (Z.eqb_spec l1 l2) as [<-|]; [|reflexivity]. destruct (Z.eqb_spec g1 g2) as [<-|]; [|reflexivity].
  destruct (Z.leb_spec q1 q2); [|reflexivity]. cbn [andb].
  rewrite (B1 eq_refl) by assumption. rewrite (B2 eq_refl) by assumption.
  apply Z.leb_le. apply burst_real_mono; lia.
Qed.

Theorem chain_ok s tr : wf s -> chain s tr ->
  hist_ok (is_bucket (h_typ s)) (h_limit s) (h_burst s) (h_quotas s) (h_oquotas s) tr = all9.
Proof.
  intros W C. pose proof (hist_rows_chain tr s W C) as H. cbv zeta in H.
  unfold hist_ok.
  destruct (hist_rows (is_bucket (h_typ s)) (h_limit s) (h_burst s) (h_quotas s) (h_oquotas s) tr) as [rows answers].
  cbn [fst snd] in H. destruct H as (-> & GA).
  rewrite (burst_mono_good _ GA). reflexivity.
Qed.

Theorem history_ok s bs : wf s -> Forall bop_ok bs ->
  hist_ok (is_bucket (h_typ s)) (h_limit s) (h_burst s) (h_quotas s) (h_oquotas s) (model_trace s bs) = all9.
Proof. intros W OK. apply chain_ok; [exact W|apply model_trace_chain; exact OK]. Qed.

(* overlap: whichever order the per-upstream mutex serialises the reports of a batch in,
   the batch meets the spec (the order is a permutation of the reports issued) *)
Theorem overlap_ok s rs rs' : wf s -> Permutation rs rs' ->
  step_ok (is_bucket (h_typ s)) (h_limit s) (h_burst s) (h_quotas s) (h_oquotas s) (BReports rs')
          (snd (model_step s (BReports rs'))) = all8.
Proof.
  intros W _. pose proof (model_step_ok s (BReports rs') W I) as MS. cbv zeta in MS.
  destruct MS as (_ & _ & _ & _ & ROW & _). exact ROW.
Qed.

(* ============================ Part C: several schemas ============================ *)
Definition wfM (M : mstate) : Prop := Forall (fun ks => wf (snd ks)) (m_schemas M).

Definition iop_ok (o : iop) : Prop :=
  match o with
  | ISet _ _ n g => 0 <= n < two31 /\ in_int32 g
  | IOverlap _ _ _ _ n g => 0 <= n < two31 /\ in_int32 g
  | _ => True
  end.

Definition iclients_after (M : mstate) (o : iop) : list Z :=
  match o with
  | IReports rs => fold_left (fun l r => zadd (fst r) l) rs (m_clients M)
  | ISet _ _ _ _ => m_clients M
  | IRemove i => zremove i (m_clients M)
  | IOverlap _ r _ _ _ _ => zadd (fst r) (m_clients M)
  end.

(* the operations as issued; an overlap names the order the lock served its two parts in *)
Fixpoint mtrace (M : mstate) (ops : list iop) : list (list (Z * option (bop * sobs))) :=
  match ops with
  | [] => []
  | o :: r => let (M', ms) := mstep_with M (iclients_after M o) o in ms :: mtrace M' r
  end.

Fixpoint find_ms (sid : Z) (ms : list (Z * option (bop * sobs))) : option (option (bop * sobs)) :=
  match ms with [] => None | (k, x) :: r => if k =? sid then Some x else find_ms sid r end.

(* what the steps did to schema [sid] *)
Fixpoint pick (sid : Z) (tr : list (list (Z * option (bop * sobs)))) : list (bop * sobs) :=
  match tr with
  | [] => []
  | ms :: r => match find_ms sid ms with Some (Some x) => x :: pick sid r | _ => pick sid r end
  end.

Lemma derive_ok M clients sid o b : iop_ok o -> derive M clients sid o = Some b -> bop_ok b.
Proof.
  destruct o as [rs|sid' t n g|i|first r sid' t n g]; cbn [derive]; intros OK E.
  - inversion E; subst. exact I.
  - destruct (sid' =? sid); [|discriminate]. inversion E; subst. exact OK.
  - inversion E; subst. exact I.
  - destruct (sid' =? sid).
    + inversion E; subst. destruct (if first then _ else _); exact OK.
    + destruct (if first then _ else _); [discriminate|]. inversion E; subst. exact I.
Qed.

Lemma find_map_step (g : Z * sstate -> Z * sstate * option (bop * sobs)) l sid s :
  (forall ks, fst (fst (g ks)) = fst ks) -> find_schema sid l = Some s ->
  find_schema sid (map (fun x => (fst (fst (g x)), snd (fst (g x)))) l) = Some (snd (fst (g (sid, s)))) /\
  find_ms sid (map (fun x => (fst (fst (g x)), snd (g x))) l) = Some (snd (g (sid, s))).
Proof.
  intros Hk. induction l as [|[k sk] rest IH]; intros F; [discriminate|].
  cbn [find_schema] in F. cbn [map find_schema find_ms]. rewrite (Hk (k, sk)). cbn [fst].
  destruct (Z.eqb_spec k sid) as [->|Hne].
  - inversion F; subst. split; reflexivity.
  - apply IH. exact F.
Qed.

Lemma mstep_schema M cl o sid s : wfM M -> iop_ok o -> find_schema sid (m_schemas M) = Some s ->
  let r := mstep_with M cl o in
  wfM (fst r) /\
  match derive M (m_extra M + Z.of_nat (List.length cl)) sid o with
  | Some b => bop_ok b /\ find_schema sid (m_schemas (fst r)) = Some (fst (model_step s b)) /\
              find_ms sid (snd r) = Some (Some (b, snd (model_step s b)))
  | None => find_schema sid (m_schemas (fst r)) = Some s /\ find_ms sid (snd r) = Some None
  end.
Proof.
  intros WM OK F r. subst r. unfold mstep_with. cbn [fst snd m_schemas].
  set (clients := m_extra M + Z.of_nat (List.length cl)).
  set (f := fun ks : Z * sstate =>
              match derive M clients (fst ks) o with
              | Some b => let (s', ob) := model_step (snd ks) b in (fst ks, s', Some (b, ob))
              | None => (fst ks, snd ks, None)
              end).
  split.
  - clear F. unfold wfM in *. cbn [m_schemas]. rewrite map_map. revert WM.
    generalize (m_schemas M) as l. induction l as [|[k sk] rest IH]; intros WM; [constructor|].
    inversion WM as [|? ? W1 W2]; subst. cbn [map]. constructor; [|apply IH; exact W2].
    unfold f. cbn [fst snd].
    destruct (derive M clients k o) as [b|] eqn:D.
    + pose proof (model_step_ok sk b W1 (derive_ok _ _ _ _ _ OK D)) as MS. cbv zeta in MS.
      destruct (model_step sk b) as [s' ob]. cbn [fst snd] in *. exact (proj1 MS).
    + exact W1.
  - clear WM. rewrite !map_map.
    assert (Hk : forall ks, fst (fst (f ks)) = fst ks).
    { intros [k sk]. unfold f. cbn [fst snd]. destruct (derive M clients k o); [destruct (model_step sk b)|]; reflexivity. }
    destruct (find_map_step f (m_schemas M) sid s Hk F) as (F1 & F2). rewrite F1, F2.
    unfold f. cbn [fst snd].
    destruct (derive M clients sid o) as [b|] eqn:D.
    + destruct (model_step s b) as [s' ob]. cbn [fst snd].
      split; [exact (derive_ok _ _ _ _ _ OK D)|]. split; reflexivity.
    + split; reflexivity.
Qed.

Lemma pick_chain ops : forall M sid s, wfM M -> Forall iop_ok ops ->
  find_schema sid (m_schemas M) = Some s -> chain s (pick sid (mtrace M ops)).
Proof.
  induction ops as [|o rest IH]; intros M sid s WM OK F; [constructor|].
  inversion OK as [|? ? OK1 OK2]; subst. cbn [mtrace].
  pose proof (mstep_schema M (iclients_after M o) o sid s WM OK1 F) as MS. cbv zeta in MS.
  destruct (mstep_with M (iclients_after M o) o) as [M' ms] eqn:E. cbn [fst snd] in MS.
  destruct MS as (WM' & H). cbn [pick].
  destruct (derive M (m_extra M + Z.of_nat (List.length (iclients_after M o))) sid o) as [b|].
  - destruct H as (Hb & F' & Hms). rewrite Hms. constructor; [exact Hb|]. apply (IH M'); assumption.
  - destruct H as (F' & Hms). rewrite Hms. apply (IH M'); assumption.
Qed.

(* every schema of the upstream, over every history of multi-schema reports (refused when an item
   type does not fit), schema changes incl. the item type, and removals *)
Theorem multi_history_ok M ops sid s : wfM M -> Forall iop_ok ops ->
  find_schema sid (m_schemas M) = Some s ->
  hist_ok (is_bucket (h_typ s)) (h_limit s) (h_burst s) (h_quotas s) (h_oquotas s) (pick sid (mtrace M ops)) = all9.
Proof.
  intros WM OK F. apply chain_ok.
  - unfold wfM in WM. rewrite Forall_forall in WM.
    assert (In (sid, s) (m_schemas M)).
    { clear -F. induction (m_schemas M) as [|[k sk] r IH]; [discriminate|]. cbn [find_schema] in F.
      destruct (Z.eqb_spec k sid) as [->|]; [inversion F; left; reflexivity|right; apply IH; exact F]. }
    exact (WM _ H).
  - apply pick_chain with (M := M); assumption.
Qed.

(* a report overlapping a change of the schema: whichever of the two the per-upstream lock serves
   first, the step meets the spec, and afterwards the NEW configuration is in force *)
Theorem limit_change_overlap_ok s first r bk n g : wf s -> 0 <= n < two31 -> in_int32 g ->
  let s' := fst (model_step s (BOverlap first r bk n g)) in
  step_ok (is_bucket (h_typ s)) (h_limit s) (h_burst s) (h_quotas s) (h_oquotas s)
          (BOverlap first r bk n g) (snd (model_step s (BOverlap first r bk n g))) = all8 /\
  (is_bucket (h_typ s'), h_limit s', h_burst s') = (bk, n, g) /\ wf s'.
Proof.
  intros W Hn Hg s'. subst s'.
  pose proof (model_step_ok s (BOverlap first r bk n g) W (conj Hn Hg)) as MS. cbv zeta in MS.
  destruct MS as (W' & CA & _ & _ & ROW & _).
  split; [exact ROW|]. split; [|exact W']. unfold cfg_after, cfg_of in CA. symmetry. exact CA.
Qed.
