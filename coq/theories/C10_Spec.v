(* C10 — specification as an executable checker over a history and what was OBSERVED on the real
   gateway after each op.  It never looks at the implementation model's state: it only keeps the
   list of objects currently stored in the API (derived from the ops and from the observed
   "stored and delivered" flag) and compares the observed resolutions with what the property demands.

   Property text: a request, and the TLS handshake carrying it, addressed to host H is served by
   cluster C iff H equals, case-insensitively and ignoring the port, C's name or one of C's current
   server names; each name resolves to at most one cluster; create/update/delete of a cluster never
   removes or captures a name of another cluster; the names of a deleted cluster stop resolving; the
   serving certificate, client-CA pool and verification options used for H are those of C. *)
From KG Require Import Prelude C10_Model.
Open Scope string_scope.
Open Scope Z_scope.

Record host_obs := {
  h_c : string;        (* cluster that served the request ("" = none) *)
  h_stopped : bool;    (* that ClusterInfo was already stopped *)
  h_code : Z;          (* 0 handed on, 503 not proxied, 429 denied by gate *)
  h_tc : string;       (* cluster the handshake for SNI = host-without-port is answered for *)
  h_cert : Z; h_ca : Z; h_reqcert : bool;   (* tls.Config returned by WrapGetConfigForClient *)
  h_vok : bool; h_vca : Z                   (* SNIVerifyOptions *)
}.
Record step_obs := {
  t_valid : bool;      (* the real admission plugin accepted the object *)
  t_fvalid : bool;     (* it would accept the object if no other object were stored (field validation) *)
  t_delivered : bool;  (* the object was stored / removed and an event reached the controller *)
  t_res : Z;           (* 0 none, 1 ok, 2 requeue, 3 error *)
  t_hosts : list host_obs;
  t_x : list (string * Z);  (* per cross probe (Host, SNI of the connection): serving cluster ("" = none), status *)
  t_mid : list (list host_obs)  (* the host probes repeated after every single manager mutation of the delivery *)
}.

(* --- what the property says about one host, given the objects currently in the API *)
Definition owner (api : list obj) (key : string) : option obj :=
  find (fun o => smem key (allnames o)) api.
Definition owner_name (api : list obj) (key : string) : string :=
  match owner api key with Some o => lowname o | None => "" end.

Definition pair_of (o : obj) : Z :=
  if (negb (o_key o =? 0) && negb (o_cert o =? 0) && (o_key o =? o_cert o))%bool then o_cert o else 0.
(* certificate, CA pool, RequestClientCert expected for SNI key *)
Definition tls_of (api : list obj) (key : string) : Z * Z * bool :=
  match owner api key with
  | None => (0, 0, false)
  | Some o => if ((pair_of o =? 0) && (o_ca o =? 0))%bool then (0, 0, false)
              else (pair_of o, o_ca o, negb (o_ca o =? 0))
  end.
Definition verify_of (api : list obj) (key : string) : bool * Z :=
  match owner api key with
  | None => (false, 0)
  | Some o => if o_ca o =? 0 then (false, 0) else (true, o_ca o)
  end.
Definition deny_gate (o : obj) : bool :=        (* DenyAllRequests (gate 1) after the annotation is applied *)
  match gates_of (o_gates o) with Some g => nth 1 g false | None => false end.
Definition code_of (api : list obj) (key : string) : Z :=
  match owner api key with
  | None => 503
  | Some o => if deny_gate o then 429 else 0
  end.

(* H "equals, case-insensitively and ignoring the port" a name: compare this key *)
Definition req_key (host : string) : string := host_without_port host.
Definition sni_key (sni : string) : string := to_lower sni.

Definition triple_eqb (a b : Z * Z * bool) : bool :=
  ((fst (fst a) =? fst (fst b)) && (snd (fst a) =? snd (fst b)) && Bool.eqb (snd a) (snd b))%bool.
Definition vpair_eqb (a b : bool * Z) : bool := (Bool.eqb (fst a) (fst b) && (snd a =? snd b))%bool.

(* clause 1: served by C iff H is one of C's names (request path and handshake path) *)
Definition resolves_ok (api : list obj) (hs : string * string) (b : host_obs) : bool :=
  (String.eqb (h_c b) (owner_name api (req_key (fst hs)))
   && String.eqb (h_tc b) (owner_name api (sni_key (snd hs)))
   && (h_code b =? code_of api (req_key (fst hs))))%bool.
(* clause 2: request and handshake of the same host name see the same (single) tenant *)
Definition same_tenant_ok (hs : string * string) (b : host_obs) : bool :=
  if String.eqb (req_key (fst hs)) (sni_key (snd hs)) then String.eqb (h_c b) (h_tc b) else true.
(* clause 3: an event for cluster A leaves every host served by another cluster with that cluster *)
Definition no_capture_ok (a : string) (prev now : host_obs) : bool :=
  ((if (negb (String.eqb (h_c prev) "") && negb (String.eqb (h_c prev) a))%bool
    then String.eqb (h_c now) (h_c prev) else true)
   && (if (negb (String.eqb (h_tc prev) "") && negb (String.eqb (h_tc prev) a))%bool
       then String.eqb (h_tc now) (h_tc prev) else true))%bool.
(* clause 4: the names of a deleted cluster stop resolving *)
Definition deleted_ok (a : string) (b : host_obs) : bool :=
  (negb (String.eqb (h_c b) a) && negb (String.eqb (h_tc b) a))%bool.
(* clause 5: TLS material and verification options are those of the owner *)
Definition tls_ok (api : list obj) (hs : string * string) (b : host_obs) : bool :=
  (triple_eqb (h_cert b, h_ca b, h_reqcert b) (tls_of api (sni_key (snd hs)))
   && vpair_eqb (h_vok b, h_vca b) (verify_of api (req_key (fst hs))))%bool.
(* clause 6: hosts that differ only in case / port are treated alike *)
Definition norm_ok (hosts : list (string * string)) (obs : list host_obs) : bool :=
  forallb (fun p1 => forallb (fun p2 =>
     if String.eqb (req_key (fst (fst p1))) (req_key (fst (fst p2)))
     then (String.eqb (h_c (snd p1)) (h_c (snd p2)) && (h_code (snd p1) =? h_code (snd p2))
           && vpair_eqb (h_vok (snd p1), h_vca (snd p1)) (h_vok (snd p2), h_vca (snd p2)))%bool
     else true) (combine hosts obs)) (combine hosts obs).
(* clause 7: never served by a ClusterInfo that was already stopped *)
Definition alive_ok (b : host_obs) : bool := negb (h_stopped b).
(* clause 8: a REQUEST is served by the owner of its Host header, whatever server name the TLS connection
   it arrived on was opened with (the handshake uses the SNI for the certificates only) *)
Definition request_ok (api : list obj) (hs : string * string) (x : string * Z) : bool :=
  (String.eqb (fst x) (owner_name api (req_key (fst hs))) && (snd x =? code_of api (req_key (fst hs))))%bool.

(* one delivered event: the name it carries, its result, and the op that first delivered this very object *)
Record ev := { ev_name : string; ev_res : Z; ev_src : nat }.

(* clause 9 ("at every moment"): while one event is being applied, a probe that lands between two manager
   mutations sees, for every host, either what it saw before the event or what it sees after it - so a name
   that belongs to the same cluster before and after (the cluster's own name, every retained server name,
   every name of any other cluster) never stops resolving to it, with that cluster's TLS material, and no
   name ever resolves to a cluster that lists it in neither version *)
Definition either_s (x a b : string) : bool := (String.eqb x a || String.eqb x b)%bool.
Definition by_name (api : list obj) (c : string) : option obj := find (fun o => String.eqb (lowname o) c) api.
(* material / options / status of the version of cluster c stored in api ("" = no cluster: the gateway's own) *)
Definition tls_cl (api : list obj) (c : string) : option (Z * Z * bool) :=
  if String.eqb c "" then Some (0, 0, false) else
  match by_name api c with
  | Some o => Some (if ((pair_of o =? 0) && (o_ca o =? 0))%bool then (0, 0, false)
                    else (pair_of o, o_ca o, negb (o_ca o =? 0)))
  | None => None
  end.
Definition verify_cl (api : list obj) (c : string) : option (bool * Z) :=
  if String.eqb c "" then Some (false, 0) else
  match by_name api c with
  | Some o => Some (if o_ca o =? 0 then (false, 0) else (true, o_ca o))
  | None => None
  end.
Definition code_cl (api : list obj) (c : string) : option Z :=
  if String.eqb c "" then Some 503 else
  match by_name api c with
  | Some o => Some (if deny_gate o then 429 else 0)
  | None => None
  end.
Definition in2 {A} (eqb : A -> A -> bool) (x : A) (a b : option A) : bool :=
  (match a with Some v => eqb x v | None => false end || match b with Some v => eqb x v | None => false end)%bool.

Definition mid_ok (before after : list obj) (hs : string * string) (b : host_obs) : bool :=
  let rk := req_key (fst hs) in
  let sk := sni_key (snd hs) in
  (* the serving cluster is the owner before or the owner after the event *)
  (either_s (h_c b) (owner_name before rk) (owner_name after rk)
   && either_s (h_tc b) (owner_name before sk) (owner_name after sk)
   (* and what is served is that cluster's (old or new version's) status, material and options *)
   && in2 Z.eqb (h_code b) (code_cl before (h_c b)) (code_cl after (h_c b))
   && in2 triple_eqb (h_cert b, h_ca b, h_reqcert b) (tls_cl before (h_tc b)) (tls_cl after (h_tc b))
   && in2 vpair_eqb (h_vok b, h_vca b) (verify_cl before (h_c b)) (verify_cl after (h_c b)))%bool.

Record sstate := {
  sp_api : list obj;               (* objects currently stored: the LATEST version of every cluster *)
  sp_fclean : bool;                (* so far: every stored object passed field validation, no delivery ended in an
                                      error, every re-delivery was a legal one *)
  sp_prev : list host_obs;         (* observations after the previous op *)
  sp_log : list (option ev);       (* the event of each op, None if the op delivered nothing *)
  sp_latest : list (string * nat); (* stored name -> op that stored its current version *)
  sp_lastev : list (string * (nat * Z))  (* name -> (op, result) of the last event delivered about it *)
}.
Definition sinit (n : nat) : sstate :=
  {| sp_api := []; sp_fclean := true;
     sp_prev := repeat {| h_c := ""; h_stopped := false; h_code := 503; h_tc := ""; h_cert := 0; h_ca := 0;
                          h_reqcert := false; h_vok := false; h_vca := 0 |} n;
     sp_log := []; sp_latest := []; sp_lastev := [] |}.

Fixpoint latest_get (n : string) (l : list (string * nat)) : option nat :=
  match l with
  | [] => None
  | (k, v) :: r => if String.eqb n k then Some v else latest_get n r
  end.
Definition latest_del (n : string) (l : list (string * nat)) := filter (fun p => negb (String.eqb n (fst p))) l.
Fixpoint lastev_get (n : string) (l : list (string * (nat * Z))) : option (nat * Z) :=
  match l with
  | [] => None
  | (k, v) :: r => if String.eqb n k then Some v else lastev_get n r
  end.

(* the stored objects are pairwise name-disjoint: every name of every object has exactly one owner *)
Definition api_disjoint (api : list obj) : bool :=
  forallb (fun o => forallb (fun k => Nat.eqb (List.length (filter (fun o' => smem k (allnames o')) api)) 1)
                            (allnames o)) api.

(* the gateway has had the chance to reach the state the property describes: the stored objects do not
   contradict each other, and for every stored cluster the controller has processed, successfully, an event
   about it after its current version was stored (a rejected version waits for its requeue; until then the
   property cannot be judged).  Result 0 = the event was handed to the controller's event handler and nothing
   was queued for it: nothing is pending either, so the state is judged (an event must not be lost) *)
Definition settled (s : sstate) : bool :=
  (api_disjoint (sp_api s)
   && forallb (fun p => match lastev_get (fst p) (sp_lastev s) with
                        | Some (idx, r) => (((r =? 1) || (r =? 0)) && Nat.leb (snd p) idx)%bool
                        | None => false
                        end) (sp_latest s))%bool.
Definition judged (s : sstate) : bool := (sp_fclean s && settled s)%bool.

(* the event delivered by op k may legally be delivered again iff the controller asked for a requeue
   (syncqueue re-adds the same object), or it still is the current version of its object (informer resync) *)
Definition legal_retry (s : sstate) (k : nat) : bool :=
  match nth_error (sp_log s) k with
  | Some (Some e) =>
      ((ev_res e =? 2)
       || match latest_get (ev_name e) (sp_latest s) with Some src => Nat.eqb src (ev_src e) | None => false end)%bool
  | _ => true
  end.

(* name of the cluster the op's event is about (lower-case), "" when no event is delivered *)
Definition event_cluster (s : sstate) (p : op) (b : step_obs) : string :=
  if negb (t_delivered b) then "" else
  match p with
  | OApply _ o => lowname o
  | ODelete n => to_lower n
  | ORetry k => match nth_error (sp_log s) k with Some (Some e) => to_lower (ev_name e) | _ => "" end
  end.

Definition snext (s : sstate) (p : op) (b : step_obs) : sstate :=
  let here := List.length (sp_log s) in
  let api := if t_delivered b then
               match p with
               | OApply _ o => api_upsert o (sp_api s)
               | ODelete n => api_remove n (sp_api s)
               | ORetry _ => sp_api s
               end
             else sp_api s in
  let ok := match p with
            | OApply _ _ => if t_delivered b then (t_fvalid b && negb (t_res b =? 3))%bool else true
            | ODelete _ => if t_delivered b then negb (t_res b =? 3) else true
            | ORetry k => (legal_retry s k && (if t_delivered b then negb (t_res b =? 3) else true))%bool
            end in
  let e := if t_delivered b then
             match p with
             | OApply _ o => Some {| ev_name := o_name o; ev_res := t_res b; ev_src := here |}
             | ODelete n => Some {| ev_name := n; ev_res := t_res b; ev_src := here |}
             | ORetry k => match nth_error (sp_log s) k with
                           | Some (Some e0) => Some {| ev_name := ev_name e0; ev_res := t_res b; ev_src := ev_src e0 |}
                           | _ => None
                           end
             end
           else None in
  let latest := if t_delivered b then
                  match p with
                  | OApply _ o => (o_name o, here) :: latest_del (o_name o) (sp_latest s)
                  | ODelete n => latest_del n (sp_latest s)
                  | ORetry _ => sp_latest s
                  end
                else sp_latest s in
  let lastev := match e with
                | Some e1 => (ev_name e1, (here, ev_res e1))
                             :: filter (fun p => negb (String.eqb (ev_name e1) (fst p))) (sp_lastev s)
                | None => sp_lastev s
                end in
  {| sp_api := api; sp_fclean := (sp_fclean s && ok)%bool; sp_prev := t_hosts b;
     sp_log := (sp_log s ++ [e])%list; sp_latest := latest; sp_lastev := lastev |}.

(* is the property judged on the state after the whole history? (used by C11) *)
Fixpoint judged_after (s : sstate) (l : list (op * step_obs)) : bool :=
  match l with
  | [] => judged s
  | (p, b) :: r => judged_after (snext s p b) r
  end.

(* the nine clauses for one step *)
Definition step_ok (hosts xps : list (string * string)) (s : sstate) (p : op) (b : step_obs) : list bool :=
  let s' := snext s p b in
  let clean := judged s' in            (* "current" = the latest stored version of every cluster *)
  let fclean := sp_fclean s' in
  let a := event_cluster s p b in
  let hb := combine hosts (t_hosts b) in
  [ if clean then forallb (fun x => resolves_ok (sp_api s') (fst x) (snd x)) hb else true;
    forallb (fun x => same_tenant_ok (fst x) (snd x)) hb;
    forall2b (no_capture_ok a) (sp_prev s) (t_hosts b);
    if (fclean && match p with ODelete _ => t_delivered b | _ => false end)%bool
    then forallb (deleted_ok a) (t_hosts b) else true;
    if clean then forallb (fun x => tls_ok (sp_api s') (fst x) (snd x)) hb else true;
    norm_ok hosts (t_hosts b);
    if fclean then forallb alive_ok (t_hosts b) else true;
    if clean then forall2b (request_ok (sp_api s')) xps (t_x b) else true;
    if (judged s && clean)%bool
    then forallb (fun obs => forallb (fun x => mid_ok (sp_api s) (sp_api s') (fst x) (snd x)) (combine hosts obs)) (t_mid b)
    else true ].

Definition and_lists (a b : list bool) : list bool := map (fun p => (fst p && snd p)%bool) (combine a b).

Fixpoint hist_ok (hosts xps : list (string * string)) (s : sstate) (l : list (op * step_obs)) : list bool :=
  match l with
  | [] => [true; true; true; true; true; true; true; true; true]
  | (p, b) :: r => and_lists (step_ok hosts xps s p b) (hist_ok hosts xps (snext s p b) r)
  end.
