(* C15 — case format of the correspondence run and its evaluator: the scenario is replayed on the
   model (same clusters, same request phases, same removal) and the model's outcome for every request,
   context, name and probe is compared with what the real gateway showed. *)
From KG Require Import Prelude C15_Model C15_Spec.
Open Scope Z_scope.

Inductive case :=
| CScen (cls : list scl) (ghosts : list (Z * list Z))    (* ghost objects: name, server names; synced after the clusters *)
        (unh : list Z)     (* endpoints (local numbers, cluster of the action) made unhealthy before the drain *)
        (bad : Z)          (* the removal's server list also has an unusable URL: 1 = first, 2 = last, 0 = no *)
        (reqs : list sreq) (act : saction) (after : list sreq)
        (ro ao : list robs) (co : list clobs)
| CBroken.

Definition ep_names (cls : list scl) (ci : nat) : list Z :=
  zrange (offset cls ci) (Z.to_nat (neps_of cls ci)).
Definition cl_name (cls : list scl) (ci : nat) : Z := match nth_error cls ci with Some c => s_name c | None => -1 end.
Definition cl_aliases (cls : list scl) (ci : nat) : list Z := match nth_error cls ci with Some c => s_aliases c | None => [] end.
Definition host_of (cls : list scl) (q : sreq) : Z :=
  match qvia q with
  | O => cl_name cls (qcl q)
  | S k => nth k (cl_aliases cls (qcl q)) (-1)
  end.
Definition sub_of (cls : list scl) (q : sreq) : list Z :=
  if 0 <=? qep q then [offset cls (qcl q) + qep q] else [].

(* endpoint object carrying a given name (names are unique in a scenario) *)
Definition eo_of (s : st) (n : Z) : Z :=
  match find (fun e => elive e && (ename e =? n)) (eps s) with Some e => eobj e | None => -1 end.

Fixpoint index_of (x : Z) (l : list Z) (k : nat) : option nat :=
  match l with [] => None | y :: r => if x =? y then Some k else index_of x r (S k) end.

(* the choice that makes Pop return the endpoint the real run used (any ready endpoint is allowed) *)
Definition choice_for (s : st) (id : Z) (want : Z) : nat :=
  match find_rq s id with
  | Some r =>
      let ups := match rsub r with [] => live_names s (rcl r) | l => l end in
      match index_of want (ready_names code_ctxcheck s (rcl r) ups) O with Some k => k | None => O end
  | None => O
  end.

Fixpoint seqn (k : Z) (n : nat) : list Z := match n with O => [] | S m => k :: seqn (k + 1) m end.


Definition cl_pre (cls : list scl) (ci : nat) : list (list Z) := match nth_error cls ci with Some c => s_pre c | None => [] end.

(* server list of one pre-history sync: endpoint k of the cluster with state 1 (enabled) or 2 (disabled) *)
Fixpoint servers_of (names : list Z) (states : list Z) : list (Z * bool) :=
  match names, states with
  | n :: nr, x :: xr => (if x =? 0 then [] else [(n, x =? 2)]) ++ servers_of nr xr
  | _, _ => []
  end.

Definition all_on (names : list Z) : list (Z * bool) := map (fun n => (n, false)) names.

(* every sync of the pre-history, then the sync that lists everything enabled; every probe that can be
   answered is answered 200 after each sync (the stub upstreams answer /healthz at once) *)
Definition answer_all (s : st) : st := run code_ctxcheck s (map (fun e => OHealthy (eobj e) true) (eps s)).

Definition setup_cluster (cls : list scl) (s : st) (ci : nat) : st :=
  let syncs := map (servers_of (ep_names cls ci)) (cl_pre cls ci) ++ [all_on (ep_names cls ci)] in
  fold_left (fun acc sv => answer_all (run code_ctxcheck acc [OUpsert (cl_name cls ci) (cl_aliases cls ci) sv])) syncs s.

(* what the pre-history shows after each sync: per endpoint name (in the map?, is the context of the object
   that was in the map before the sync done now?) *)
Definition live_obj (s : st) (n : Z) : option epo := find (fun e => elive e && (ename e =? n)) (eps s).
Definition pre_row (before after : st) (names : list Z) : list (bool * bool) :=
  map (fun n => (match live_obj after n with Some _ => true | None => false end,
                 match live_obj before n with Some e => ep_done_obj after (eobj e) | None => false end)) names.
Definition pre_rows (cls : list scl) (s : st) (ci : nat) : list (list (bool * bool)) :=
  let syncs := map (servers_of (ep_names cls ci)) (cl_pre cls ci) ++ [all_on (ep_names cls ci)] in
  snd (fold_left (fun (acc : st * list (list (bool * bool))) sv =>
                    let s' := answer_all (run code_ctxcheck (fst acc) [OUpsert (cl_name cls ci) (cl_aliases cls ci) sv]) in
                    (s', snd acc ++ [pre_row (fst acc) s' (ep_names cls ci)])) syncs (s, [])).
(* state before cluster ci is set up *)
Definition setup_upto (cls : list scl) (ci : nat) : st := fold_left (setup_cluster cls) (seq 0 ci) init.

Definition setup (cls : list scl) (ghosts : list (Z * list Z)) : st :=
  let s := fold_left (setup_cluster cls) (seq 0 (List.length cls)) init in
  answer_all (run code_ctxcheck s (map (fun g => OUpsert (fst g) (snd g) [(9000 + fst g, false)]) ghosts)).

(* bring request number id to its phase *)
Definition bring (cls : list scl) (s : st) (id : Z) (q : sreq) (o : robs) : st :=
  let s1 := run code_ctxcheck s [OStart id (host_of cls q) (sub_of cls q)] in
  match qph q with
  | QBefore | QPlain => s1
  | QConnecting => run code_ctxcheck s1 [OPick id (choice_for s1 id (o_upstub o))]
  | QStreaming => run code_ctxcheck s1 [OPick id (choice_for s1 id (o_upstub o)); OHeaders id]
  end.

Fixpoint bring_all (cls : list scl) (s : st) (id : Z) (qs : list sreq) (os : list robs) : st :=
  match qs, os with
  | q :: qr, o :: or => bring_all cls (bring cls s id q o) (id + 1) qr or
  | _, _ => s
  end.

Definition act_cl (act : saction) : option nat :=
  match act with ADelete c _ | ARemove c _ _ => Some c | _ => None end.
Definition act_drain (act : saction) : list Z :=
  match act with ADelete _ d | ARemove _ _ d => d | _ => [] end.

(* the server list of cluster ci with the drained endpoints disabled, minus [gone] *)
Definition drained_servers (cls : list scl) (ci : nat) (drain gone : list Z) : list (Z * bool) :=
  map (fun n => (n, zin (n - offset cls ci) drain))
      (filter (fun n => negb (zin (n - offset cls ci) gone)) (ep_names cls ci)).

(* before the removal: the endpoints of [unh] start failing their probes, then the drain sync marks the
   endpoints of [drain] disabled (requests in flight go on) *)
Definition drain_ops (cls : list scl) (s : st) (act : saction) (unh : list Z) : list op :=
  match act_cl act with
  | None => []
  | Some ci =>
      map (fun e => OHealthy (eo_of s (offset cls ci + e)) false) unh
      ++ match act_drain act with
         | [] => []
         | d => [OUpsert (cl_name cls ci) (cl_aliases cls ci) (drained_servers cls ci d [])]
         end
  end.

Definition with_bad (bad : Z) (sv : list (Z * bool)) : list (Z * bool) :=
  if bad =? 1 then (-1, false) :: sv else if bad =? 2 then sv ++ [(-1, false)] else sv.

Definition act_op (cls : list scl) (ghosts : list (Z * list Z)) (bad : Z) (act : saction) : list op :=
  match act with
  | AGhost g => match nth_error ghosts g with Some x => [ODelete (fst x)] | None => [] end
  | ADelete ci _ => [ODelete (cl_name cls ci)]
  | ARemove ci eps d => [OUpsert (cl_name cls ci) (cl_aliases cls ci) (with_bad bad (drained_servers cls ci d eps))]
  | ANone => []
  end.

(* after the removal: cancellations are delivered, held requests go on, everything that can still finish does *)
Definition wind_up (s : st) (id : Z) (q : sreq) (o : robs) : st :=
  let s1 := run code_ctxcheck s [OCancelSeen id] in
  let s2 := match qph q with
            | QBefore | QPlain => run code_ctxcheck s1 [OPick id (choice_for s1 id (if o_upseen o then o_upstub o else o_stub o)); OCancelSeen id]
            | _ => s1
            end in
  run code_ctxcheck s2 [OHeaders id; OFinish id].

Fixpoint wind_all (s : st) (id : Z) (qs : list sreq) (os : list robs) : st :=
  match qs, os with
  | q :: qr, o :: or => wind_all (wind_up s id q o) (id + 1) qr or
  | _, _ => s
  end.

Definition rres_eqb (a b : rres) : bool :=
  match a, b with R200, R200 | R503, R503 | RCut, RCut => true | _, _ => false end.

(* outcome class of an observed request *)
Definition class_of (o : robs) : rres :=
  if o_complete o then R200 else if (o_code o =? 503) && negb (o_upseen o) then R503 else RCut.

Definition req_agrees (s : st) (id : Z) (o : robs) : bool :=
  negb (o_hang o) &&
  match find_rq s id with
  | Some r =>
      match rph r with
      | PDone x =>
          rres_eqb x (class_of o)
          && match x, rep r with
             | R200, Some eo => match find_ep s eo with Some e => ename e =? o_stub o | None => false end
             | R200, None => false
             | _, _ => true
             end
      | _ => false
      end
  | None => false
  end.

Fixpoint reqs_agree (s : st) (id : Z) (os : list robs) : bool :=
  match os with [] => true | o :: r => req_agrees s id o && reqs_agree s (id + 1) r end.

Definition is_probe (eo : Z) (e : event) : bool := match e with EProbe x => x =? eo | _ => false end.

Definition cl_agrees (cls : list scl) (s0 s : st) (evs : list event) (ci : nat) (c : clobs) : bool :=
  match resolve s0 (cl_name cls ci) with
  | None => false
  | Some o =>
      list_eqb Bool.eqb (map (fun n => match resolve s n with Some o' => o' =? o | None => false end)
                             (cl_name cls ci :: cl_aliases cls ci)) (o_resolves c)
      && Bool.eqb (cl_done s o) (o_cctx c)
      && all2 (fun n (e : eobs) =>
                 match find_ep s (eo_of s0 n) with
                 | Some x => Bool.eqb (elive x) (o_inmap e) && Bool.eqb (ep_done s x) (o_ectx e)
                             && Bool.eqb (existsb (fun y => (ename y =? n) && existsb (is_probe (eobj y)) evs) (eps s))
                                         (1 <=? o_hits e)
                 | None => false
                 end) (ep_names cls ci) (o_eps c)
  end.

Definition agree (cls : list scl) (ghosts : list (Z * list Z)) (unh : list Z) (bad : Z) (reqs : list sreq) (act : saction)
                 (after : list sreq) (ro ao : list robs) (co : list clobs) : bool :=
  let s0 := setup cls ghosts in
  let s1 := bring_all cls s0 0 reqs ro in
  let s1d := run code_ctxcheck s1 (drain_ops cls s1 act unh) in
  let s2 := run code_ctxcheck s1d (act_op cls ghosts bad act) in
  let s3 := wind_all s2 0 reqs ro in
  let s4 := bring_all cls s3 1000 after ao in
  let s5 := wind_all s4 1000 after ao in
  let '(s6, evs) := run_ev code_ctxcheck s5 (map (fun e => OTick (eobj e)) (eps s5)) [] in
  forallb o_reached ro
  && (Nat.eqb (List.length reqs) (List.length ro)) && (Nat.eqb (List.length after) (List.length ao))
  && reqs_agree s6 0 ro && reqs_agree s6 1000 ao
  && alli O (cl_agrees cls s0 s6 evs) co && Nat.eqb (List.length co) (List.length cls)
  && alli O (fun ci c => list_eqb (list_eqb (fun a b => Bool.eqb (fst a) (fst b) && Bool.eqb (snd a) (snd b)))
                                  (pre_rows cls (setup_upto cls ci) ci) (o_pre c)) co.

(* clause layout: agree, not_routed, inflight_cut, prompt, probing_stops, others_unaffected *)
Definition eval (c : case) : list bool :=
  match c with
  | CScen cls ghosts unh bad reqs act after ro ao co =>
      agree cls ghosts unh bad reqs act after ro ao co :: scen_ok cls reqs act after ro ao co
  | CBroken => [false; true; true; true; true; true]
  end.
