(* C10 — property theorems (statements only; proofs live in C10_Proofs.v).

   A history is a list of API-level ops (C10_Model.op): create/update through admission, delete,
   and re-delivery of any earlier event.  [legal] excludes only ops that bypass admission.
   [run empty_world ops] is the gateway after the controller has processed the events of the ops
   one by one. *)
From KG Require Import Prelude C10_Model C10_Spec C10_Proofs.
Open Scope string_scope.
Open Scope Z_scope.

(* A host H resolves to stored cluster o iff H, lower-cased and without its port, is o's name or one
   of o's current server names; and whatever a host resolves to is a stored cluster that has this name. *)
Theorem C10_resolves_iff : forall ops, Forall legal ops ->
  let w := run empty_world ops in
  (forall o host, In o (w_api w) ->
     (resolve_cluster (w_gw w) host = Some (lowname o) <-> In (host_without_port host) (allnames o)))
  /\ (forall host c, resolve_cluster (w_gw w) host = Some c ->
        exists o, In o (w_api w) /\ c = lowname o /\ In (host_without_port host) (allnames o)).
Proof. exact resolves_iff. Qed.
Print Assumptions C10_resolves_iff.

(* At every moment a host name belongs to at most one stored cluster (and resolution is a function). *)
Theorem C10_at_most_one : forall ops, Forall legal ops ->
  let w := run empty_world ops in
  forall o1 o2 host, In o1 (w_api w) -> In o2 (w_api w) ->
    In (host_without_port host) (allnames o1) -> In (host_without_port host) (allnames o2) -> o1 = o2.
Proof. exact at_most_one. Qed.
Print Assumptions C10_at_most_one.

(* An event about cluster n never changes what a host served by another cluster resolves to: same
   ClusterInfo with the same contents.  Holds in EVERY gateway state and for every lister content,
   also when admission was bypassed. *)
Theorem C10_no_capture : forall api g n host i,
  resolve g host = Some i -> i_cluster i <> to_lower n ->
  resolve (fst (deliver api g n)) host = Some i.
Proof. exact no_capture. Qed.
Print Assumptions C10_no_capture.

(* After the delete of cluster n has been processed no host resolves to n any more. *)
Theorem C10_deleted_stop_resolving : forall ops n, Forall legal ops -> to_lower n = n ->
  let w := run empty_world (ops ++ [ODelete n]) in
  forall host, resolve_cluster (w_gw w) host <> Some n.
Proof. exact deleted_stop. Qed.
Print Assumptions C10_deleted_stop_resolving.

(* The certificate / client-CA pool / RequestClientCert answered for an SNI name, and the verification
   options for a host, are those of the LATEST object of the cluster owning the name (the spec's tls_of /
   verify_of), and the gateway's own when nobody owns it. *)
Theorem C10_tls_of_owner : forall ops, Forall legal ops ->
  let w := run empty_world ops in
  (forall sni, tls_for (w_gw w) sni = tls_of (w_api w) (sni_key sni))
  /\ (forall host, verify_for (w_gw w) host = verify_of (w_api w) (req_key host)).
Proof. exact tls_of_owner. Qed.
Print Assumptions C10_tls_of_owner.

(* resolve (NAME-in-any-case ++ ":" ++ port) = resolve name, for names and ports without ':' '[' ']' *)
Theorem C10_host_normalisation : forall g s s' p,
  s <> EmptyString -> nospecial s -> nospecial s' -> nospecial p -> to_lower s = to_lower s' ->
  resolve g (s ++ String colon p) = resolve g s'.
Proof. exact host_normalisation. Qed.
Print Assumptions C10_host_normalisation.

(* A request with Host header H is served by the owner of H whatever server name (SNI) the TLS connection it
   arrived on was opened with: same ClusterInfo, same status; the SNI selects certificates only. *)
Theorem C10_request_ignores_sni : forall ops, Forall legal ops ->
  let w := run empty_world ops in
  (forall host sni, resolve_request (w_gw w) host sni = resolve (w_gw w) host
                    /\ request_code (w_gw w) host sni = filter_code (w_gw w) host)
  /\ (forall o host sni, In o (w_api w) ->
        (option_map i_cluster (resolve_request (w_gw w) host sni) = Some (lowname o)
         <-> In (host_without_port host) (allnames o))).
Proof. exact request_ignores_sni. Qed.
Print Assumptions C10_request_ignores_sni.

(* "At every moment": [step_trace w p] lists the gateway states after every single manager mutation while the
   event of op p is being applied.  In each of them every host resolves to what it resolved to before the event
   or to what it resolves to after it; hence a host served by cluster c before AND after (the cluster's own
   name, every retained server name, every name of any other cluster) is served by c at every intermediate point. *)
Theorem C10_retained_names_never_drop : forall ops p, Forall legal ops -> legal p ->
  let w := run empty_world ops in
  forall gm, In gm (step_trace w p) ->
  forall host,
    (resolve_cluster gm host = resolve_cluster (w_gw w) host
     \/ resolve_cluster gm host = resolve_cluster (w_gw (fst (step w p))) host)
    /\ (forall c, resolve_cluster (w_gw w) host = Some c ->
                  resolve_cluster (w_gw (fst (step w p))) host = Some c ->
                  resolve_cluster gm host = Some c).
Proof. exact retained_names_never_drop. Qed.
Print Assumptions C10_retained_names_never_drop.

(* ---------------------------------------------------------------- non-vacuity *)
Definition mk (name : string) (sn : list string) (cert key ca : Z) : obj :=
  {| o_name := name; o_gates := []; o_fc := []; o_sn := sn; o_cert := cert; o_key := key; o_ca := ca;
     o_eps := [(0, 0)]; o_pol := [{| p_verbs := ["*"]; p_fc := ""; p_subset := []; p_log := 0 |}];
     o_log := 0; o_client := 0 |}.

(* a legal history in which an alias is refused while taken, released, taken over, and a cluster deleted *)
Definition demo : list op :=
  [OApply false (mk "a" ["X"] 1 1 1); OApply false (mk "b" ["x"] 0 0 0); OApply false (mk "a" [] 0 0 0);
   OApply false (mk "b" ["x"; "y"] 2 2 0); ODelete "a"; ORetry 0].

Example C10_history_nonvacuous :
  Forall legal demo
  /\ map o_name (w_api (run empty_world demo)) = ["b"]
  /\ map (resolve_cluster (w_gw (run empty_world demo))) ["a"; "X:443"; "y"; "B:6443"; "nosuch"]
     = [None; Some "b"; Some "b"; Some "b"; None]
  /\ tls_for (w_gw (run empty_world demo)) "X" = (2, 0, false)
  /\ option_map i_cluster (resolve_request (w_gw (run empty_world demo)) "nosuch" "b") = None
  /\ option_map i_cluster (resolve_request (w_gw (run empty_world demo)) "y:443" "nosuch") = Some "b"
  /\ map (fun ops => so_valid (snd (step (run empty_world (firstn ops demo)) (nth ops demo (ODelete "")))))
         [0; 1; 2; 3]%nat = [true; false; true; true].
Proof. split; [repeat constructor|]. vm_compute. repeat split; reflexivity. Qed.

(* an update that keeps "y", drops "x" and adds "z" goes through two intermediate manager states; the cluster's
   own name and the retained "y" resolve in both, "x" / "z" are in transit *)
Example C10_retained_names_nonvacuous :
  let w := run empty_world [OApply false (mk "a" ["x"; "y"] 1 1 0)] in
  let p := OApply false (mk "a" ["y"; "z"] 2 2 0) in
  legal p
  /\ map (fun gm => map (resolve_cluster gm) ["a"; "x"; "y"; "z"]) (step_trace w p)
     = [[Some "a"; None; Some "a"; None]; [Some "a"; None; Some "a"; Some "a"]]
  /\ map (resolve_cluster (w_gw w)) ["a"; "x"; "y"; "z"] = [Some "a"; Some "a"; Some "a"; None]
  /\ map (resolve_cluster (w_gw (fst (step w p)))) ["a"; "x"; "y"; "z"] = [Some "a"; None; Some "a"; Some "a"].
Proof. split; [reflexivity|]. vm_compute. repeat split; reflexivity. Qed.

Example C10_host_normalisation_nonvacuous :
  "kube-1" <> EmptyString /\ nospecial "KUBE-1" /\ nospecial "kube-1" /\ nospecial "6443"
  /\ to_lower "KUBE-1" = to_lower "kube-1" /\ host_without_port "KUBE-1:6443" = "kube-1".
Proof. vm_compute. repeat split; try reflexivity; discriminate. Qed.

(* ---------------------------------------------------------------- why deliveries must be serial
   All theorems above quantify over histories whose events are processed ONE AT A TIME; the correspondence run
   checks that on the real controller (clause serial_delivery: under the real Run() no two sync handler
   executions are ever in progress together).  The assumption is necessary: syncUpstreamCluster answers its
   conflict checks and stores the names later with no lock in between.  Two workers creating clusters a and b
   that both claim "x" can both pass every check on the empty manager; after both stored, "x" is a current
   server name of the served cluster a but resolves to b. *)
Theorem C10_concurrent_sync_captures_name_witness :
  exists oa ob ia ib,
    let g0 := empty_gw in
    (* both workers' checks (checkUpstreamServerNameConflict, and checkServerNameConflict inside
       AddOrUpdateForServerNames) are answered on the state before either of them stored anything *)
    conflict_upstream g0 oa = false /\ conflict_upstream g0 ob = false
    /\ create_info oa = Some ia /\ create_info ob = Some ib
    /\ check_conflict g0 (i_cluster ia) [] (load_names ia) = false
    /\ check_conflict g0 (i_cluster ib) [] (load_names ib) = false
    /\ let g := racy_store ib (racy_store ia g0) in
       resolve_cluster g "a" = Some "a" /\ In "x" (allnames oa)
       /\ resolve_cluster g "x" = Some "b"
       (* one worker: the second cluster is refused instead *)
       /\ resolve_cluster (fst (burst_run [oa; ob] [oa; ob] g0)) "x" = Some "a"
       /\ snd (burst_run [oa; ob] [oa; ob] g0) = [ROk; RRequeue].
Proof.
  exists (mk "a" ["x"] 0 0 0), (mk "b" ["x"] 0 0 0).
  destruct (create_info (mk "a" ["x"] 0 0 0)) as [ia|] eqn:Ea; [|vm_compute in Ea; discriminate].
  destruct (create_info (mk "b" ["x"] 0 0 0)) as [ib|] eqn:Eb; [|vm_compute in Eb; discriminate].
  exists ia, ib. vm_compute in Ea, Eb. injection Ea as <-. injection Eb as <-.
  vm_compute. repeat split; try reflexivity. right. now left.
Qed.
Print Assumptions C10_concurrent_sync_captures_name_witness.

(* ---------------------------------------------------------------- outside the quantifier (recorded, not a check failure)
   If an object that validation would refuse reaches the controller (here: an endpoint the data plane
   cannot create, admission bypassed) ClusterInfo.Sync fails AFTER the secure-serving section was stored;
   the retry then sees old = new server names and the manager is never updated: the removed alias "x"
   keeps resolving and the new alias "y" never does, even after a later good version.
   Candidate repair: build/fixes/C10_names_after_failed_sync_OPTIONAL.diff *)
Definition bad_ep (name : string) (sn : list string) : obj :=
  {| o_name := name; o_gates := []; o_fc := []; o_sn := sn; o_cert := 0; o_key := 0; o_ca := 0;
     o_eps := [(-1, 0)]; o_pol := [{| p_verbs := ["*"]; p_fc := ""; p_subset := []; p_log := 0 |}];
     o_log := 0; o_client := 0 |}.

Theorem C10_stale_names_after_failed_sync_witness :
  exists ops, ~ Forall legal ops /\
    let w := run empty_world ops in
    map (fun o => (o_name o, o_sn o)) (w_api w) = [("a", ["y"])]
    /\ resolve_cluster (w_gw w) "x" = Some "a" /\ resolve_cluster (w_gw w) "y" = None.
Proof.
  exists [OApply false (mk "a" ["x"] 0 0 0); OApply true (bad_ep "a" ["y"]); OApply false (mk "a" ["y"] 0 0 0)].
  split.
  - intros H. inversion H as [|? ? _ H2]; subst. inversion H2 as [|? ? H3 _]; subst. discriminate H3.
  - vm_compute. repeat split; reflexivity.
Qed.
Print Assumptions C10_stale_names_after_failed_sync_witness.
