(* C19 — proofs about the model of the API-backed limiter store. *)
From KG Require Import Prelude C13_Model C19_Model.
From Coq Require Import ZifyBool.
Open Scope Z_scope.

Lemma NoDup_app_one {A} (l : list A) (k : A) : NoDup l -> ~ In k l -> NoDup (l ++ [k]).
Proof.
  induction l as [|x r IH]; simpl; intros Hnd Hn.
  - constructor; [tauto|constructor].
  - inversion Hnd as [|? ? Hx Hr]; subst. constructor.
    + rewrite in_app_iff; simpl. intros [H|[H|[]]]; [exact (Hx H)|subst; apply Hn; left; reflexivity].
    + apply IH; [exact Hr|tauto].
Qed.

Lemma filter_keys_nodup {K V} (f : K * V -> bool) (l : list (K * V)) :
  NoDup (map fst l) -> NoDup (map fst (filter f l)).
Proof.
  induction l as [|p r IH]; simpl; intros H; [constructor|].
  inversion H as [|? ? Hx Hr]; subst.
  destruct (f p); simpl; [|exact (IH Hr)].
  constructor; [|exact (IH Hr)].
  intros Hin. apply Hx. apply in_map_iff in Hin. destruct Hin as [q [Hq1 Hq2]].
  apply filter_In in Hq2. apply in_map_iff. exists q; tauto.
Qed.

Lemma filter_idem {A} (f : A -> bool) (l : list A) : filter f (filter f l) = filter f l.
Proof.
  induction l as [|x r IH]; simpl; [reflexivity|].
  destruct (f x) eqn:E; simpl; [rewrite E, IH; reflexivity|exact IH].
Qed.

(* ------------------------------------------------------------------ association lists *)
Section Assoc.
  Context {K V : Type}.
  Variable eqb : K -> K -> bool.
  Hypothesis eqb_spec : forall a b, eqb a b = true <-> a = b.

  Lemma eqb_refl' k : eqb k k = true.
  Proof. apply eqb_spec; reflexivity. Qed.
  Lemma eqb_neq k k' : k <> k' -> eqb k k' = false.
  Proof. intros H. destruct (eqb k k') eqn:E; [apply eqb_spec in E; contradiction|reflexivity]. Qed.

  Lemma alookup_aset_same k v (l : list (K * V)) : alookup eqb k (aset eqb k v l) = Some v.
  Proof.
    induction l as [|[k' v'] r IH]; simpl.
    - rewrite eqb_refl'; reflexivity.
    - destruct (eqb k k') eqn:E; simpl.
      + rewrite eqb_refl'; reflexivity.
      + rewrite E; exact IH.
  Qed.

  Lemma alookup_aset_other k k' v (l : list (K * V)) : k <> k' -> alookup eqb k' (aset eqb k v l) = alookup eqb k' l.
  Proof.
    intros Hne. induction l as [|[k2 v2] r IH]; simpl.
    - rewrite (eqb_neq k' k); [reflexivity|congruence].
    - destruct (eqb k k2) eqn:E; simpl.
      + apply eqb_spec in E; subst k2. rewrite (eqb_neq k' k); [reflexivity|congruence].
      + destruct (eqb k' k2); [reflexivity|exact IH].
  Qed.

  Lemma alookup_filter (f : K -> bool) k (l : list (K * V)) :
    alookup eqb k (filter (fun p => f (fst p)) l) = if f k then alookup eqb k l else None.
  Proof.
    induction l as [|[k2 v2] r IH]; simpl.
    - destruct (f k); reflexivity.
    - destruct (f k2) eqn:F2; simpl.
      + destruct (eqb k k2) eqn:E.
        * apply eqb_spec in E; subst k2. rewrite F2; reflexivity.
        * exact IH.
      + destruct (eqb k k2) eqn:E.
        * apply eqb_spec in E; subst k2. rewrite IH, F2; reflexivity.
        * exact IH.
  Qed.

  Lemma alookup_adel_same k (l : list (K * V)) : alookup eqb k (adel eqb k l) = None.
  Proof.
    unfold adel. rewrite (alookup_filter (fun x => negb (eqb k x))). rewrite eqb_refl'; reflexivity.
  Qed.
  Lemma alookup_adel_other k k' (l : list (K * V)) : k <> k' -> alookup eqb k' (adel eqb k l) = alookup eqb k' l.
  Proof.
    intros Hne. unfold adel. rewrite (alookup_filter (fun x => negb (eqb k x))). rewrite (eqb_neq k k' Hne); reflexivity.
  Qed.

  Lemma alookup_In k v (l : list (K * V)) : alookup eqb k l = Some v -> In (k, v) l.
  Proof.
    induction l as [|[k2 v2] r IH]; simpl; [discriminate|].
    destruct (eqb k k2) eqn:E.
    - apply eqb_spec in E; subst k2. intros H; inversion H; subst; left; reflexivity.
    - intros H; right; exact (IH H).
  Qed.
  Lemma alookup_None_notin k (l : list (K * V)) : alookup eqb k l = None -> ~ In k (map fst l).
  Proof.
    induction l as [|[k2 v2] r IH]; simpl; [tauto|].
    destruct (eqb k k2) eqn:E; [discriminate|].
    intros H [H1|H1]; [subst k2; rewrite eqb_refl' in E; discriminate|exact (IH H H1)].
  Qed.
  Lemma notin_alookup_None k (l : list (K * V)) : ~ In k (map fst l) -> alookup eqb k l = None.
  Proof.
    induction l as [|[k2 v2] r IH]; simpl; [reflexivity|].
    intros H. destruct (eqb k k2) eqn:E.
    - apply eqb_spec in E; subst k2. exfalso; apply H; left; reflexivity.
    - apply IH. intros H1; apply H; right; exact H1.
  Qed.
  Lemma In_alookup k v (l : list (K * V)) : NoDup (map fst l) -> In (k, v) l -> alookup eqb k l = Some v.
  Proof.
    induction l as [|[k2 v2] r IH]; simpl; [tauto|].
    intros Hnd [H|H].
    - inversion H; subst. rewrite eqb_refl'; reflexivity.
    - inversion Hnd as [|? ? Hnotin Hnd']; subst.
      destruct (eqb k k2) eqn:E.
      + apply eqb_spec in E; subst k2. exfalso; apply Hnotin. change k with (fst (k, v)). apply in_map; exact H.
      + exact (IH Hnd' H).
  Qed.

  Lemma aset_keys k v (l : list (K * V)) :
    map fst (aset eqb k v l) = map fst l \/ (~ In k (map fst l) /\ map fst (aset eqb k v l) = map fst l ++ [k]).
  Proof.
    induction l as [|[k2 v2] r IH]; simpl.
    - right; split; [tauto|reflexivity].
    - destruct (eqb k k2) eqn:E; simpl.
      + apply eqb_spec in E; subst k2. left; reflexivity.
      + destruct IH as [IH|[IH1 IH2]].
        * left; rewrite IH; reflexivity.
        * right; split; [|rewrite IH2; reflexivity].
          intros [H|H]; [subst k2; rewrite eqb_refl' in E; discriminate|exact (IH1 H)].
  Qed.
  Lemma aset_nodup k v (l : list (K * V)) : NoDup (map fst l) -> NoDup (map fst (aset eqb k v l)).
  Proof.
    intros H. destruct (aset_keys k v l) as [E|[Hn E]]; rewrite E; [exact H|].
    apply NoDup_app_one; assumption.
  Qed.
End Assoc.

(* ------------------------------------------------------------------ instances *)
Lemma key_eqb_spec (a b : key) : key_eqb a b = true <-> a = b.
Proof.
  destruct a as [a1 a2], b as [b1 b2]; unfold key_eqb; simpl.
  rewrite Bool.andb_true_iff, !String.eqb_eq. split; [intros [-> ->]; reflexivity|intros H; inversion H; tauto].
Qed.

Notation aget := (alookup String.eqb).
Notation lget := (alookup key_eqb).
Notation akeys a := (map fst (a : apist)).

Definition ceq (a b : body) : Prop := content_eqb a b = true.
Lemma ceq_iff a b : ceq a b <-> bup a = bup b /\ bsv a = bsv b /\ btv a = btv b.
Proof.
  unfold ceq, content_eqb. rewrite !Bool.andb_true_iff, String.eqb_eq, !Z.eqb_eq. tauto.
Qed.
Lemma ceq_refl a : ceq a a.
Proof. apply ceq_iff; tauto. Qed.
Lemma ceq_sym a b : ceq a b -> ceq b a.
Proof. rewrite !ceq_iff. intuition congruence. Qed.
Lemma ceq_trans a b c : ceq a b -> ceq b c -> ceq a c.
Proof. rewrite !ceq_iff. intuition congruence. Qed.
Lemma ceq_bup a b : ceq a b -> bup a = bup b.
Proof. rewrite ceq_iff; tauto. Qed.
Lemma ceq_merge latest orig : ceq (merge latest orig) orig.
Proof. apply ceq_iff; simpl; tauto. Qed.

Lemma aget_set_same m (v : body) (a : apist) : aget m (aset String.eqb m v a) = Some v.
Proof. apply alookup_aset_same, String.eqb_eq. Qed.
Lemma aget_set_other m m' (v : body) (a : apist) : m <> m' -> aget m' (aset String.eqb m v a) = aget m' a.
Proof. apply alookup_aset_other, String.eqb_eq. Qed.
Lemma aget_del_same m (a : apist) : aget m (adel String.eqb m a) = None.
Proof. apply alookup_adel_same, String.eqb_eq. Qed.
Lemma aget_del_other m m' (a : apist) : m <> m' -> aget m' (adel String.eqb m a) = aget m' a.
Proof. apply alookup_adel_other, String.eqb_eq. Qed.
Lemma lget_set_same k (v : body) (l : localst) : lget k (aset key_eqb k v l) = Some v.
Proof. apply alookup_aset_same, key_eqb_spec. Qed.
Lemma lget_set_other k k' (v : body) (l : localst) : k <> k' -> lget k' (aset key_eqb k v l) = lget k' l.
Proof. apply alookup_aset_other, key_eqb_spec. Qed.
Lemma lget_del_same k (l : localst) : lget k (adel key_eqb k l) = None.
Proof. apply alookup_adel_same, key_eqb_spec. Qed.
Lemma lget_del_other k k' (l : localst) : k <> k' -> lget k' (adel key_eqb k l) = lget k' l.
Proof. apply alookup_adel_other, key_eqb_spec. Qed.
Lemma adel_nodup m (a : apist) : NoDup (akeys a) -> NoDup (akeys (adel String.eqb m a)).
Proof. apply filter_keys_nodup. Qed.
Lemma aset_nodup_s m v (a : apist) : NoDup (akeys a) -> NoDup (akeys (aset String.eqb m v a)).
Proof. apply aset_nodup, String.eqb_eq. Qed.

(* ------------------------------------------------------------------ the API calls *)
Lemma api_update_spec a n b o a' r : api_update a n b o = (a', r) ->
  (r = AOk /\ a' = aset String.eqb n b a) \/ (r <> AOk /\ a' = a).
Proof.
  unfold api_update. destruct o; simpl;
    try (intros H; inversion H; subst; right; split; [discriminate|reflexivity]).
  destruct (aget n a); intros H; inversion H; subst; [left; tauto|right; split; [discriminate|reflexivity]].
Qed.
Lemma api_create_spec a n b o a' r : api_create a n b o = (a', r) ->
  (r = AOk /\ a' = aset String.eqb n b a) \/ (r <> AOk /\ a' = a).
Proof.
  unfold api_create. destruct o; simpl;
    try (intros H; inversion H; subst; right; split; [discriminate|reflexivity]).
  destruct (aget n a); intros H; inversion H; subst; [right; split; [discriminate|reflexivity]|left; tauto].
Qed.
Lemma api_delete_spec a n o a' r : api_delete a n o = (a', r) ->
  (a' = a \/ a' = adel String.eqb n a) /\ ((r = AOk \/ r = ANotFound) -> aget n a' = None).
Proof.
  unfold api_delete. destruct o; simpl.
  - destruct (aget n a) eqn:E; intros H; inversion H; subst.
    + split; [right; reflexivity|intros _; apply aget_del_same].
    + split; [left; reflexivity|intros _; exact E].
  - intros H; inversion H; subst. split; [right; reflexivity|intros _; apply aget_del_same].
  - intros H; inversion H; subst. split; [left; reflexivity|intros [X|X]; discriminate].
  - intros H; inversion H; subst. split; [left; reflexivity|intros [X|X]; discriminate].
  - intros H; inversion H; subst. split; [left; reflexivity|intros [X|X]; discriminate].
  - intros H; inversion H; subst. split; [left; reflexivity|intros [X|X]; discriminate].
Qed.

(* createOrUpdate either leaves the API untouched (and does not succeed) or writes one object
   under the condition's name with the caller's spec and status (and succeeds) *)
Lemma cou_spec steps : forall a pl nm orig item a' pl' cr,
  (forall it, item = Some it -> ceq it orig) ->
  cou steps a pl nm orig item = (a', pl', cr) ->
  (a' = a /\ forall it, cr <> CDone it)
  \/ (exists it, a' = aset String.eqb nm it a /\ cr = CDone it /\ ceq it orig).
Proof.
  induction steps as [|k IH]; intros a pl nm orig item a' pl' cr Hitem; simpl.
  - intros H; inversion H; subst. left; split; [reflexivity|discriminate].
  - destruct item as [it|].
    2:{ intros H; inversion H; subst. left; split; [reflexivity|discriminate]. }
    specialize (Hitem it eq_refl) as Hit.
    destruct (pop nm pl) as [o pl1].
    destruct (api_update a nm it o) as [a1 r] eqn:EU.
    apply api_update_spec in EU.
    destruct r; destruct EU as [[EU1 EU2]|[EU1 EU2]]; try congruence; subst a1.
    + intros H; inversion H; subst. right; exists it; tauto.
    + (* not found -> create *)
      destruct (pop nm pl1) as [o2 pl2].
      destruct (api_create a nm it o2) as [a2 r2] eqn:EC.
      apply api_create_spec in EC.
      destruct r2; destruct EC as [[EC1 EC2]|[EC1 EC2]]; try congruence; subst a2;
        try (intros H; apply IH in H; [exact H|intros ? X; discriminate]).
      * intros H; inversion H; subst. right; exists it; tauto.
      * intros H; inversion H; subst. left; split; [reflexivity|discriminate].
    + (* conflict -> get *)
      destruct (pop nm pl1) as [o2 pl2].
      destruct (api_get a nm o2) as [g lo].
      destruct g; destruct lo as [latest|];
        try (intros H; apply IH in H; [exact H|intros ? X; inversion X; subst; assumption]);
        try (intros H; inversion H; subst; left; split; [reflexivity|discriminate]).
      intros H; apply IH in H; [exact H|]. intros ? X; inversion X; subst. apply ceq_merge.
    + intros H; inversion H; subst. left; split; [reflexivity|discriminate].
    + intros H; inversion H; subst. left; split; [reflexivity|discriminate].
    + intros H; inversion H; subst. left; split; [reflexivity|discriminate].
Qed.

Lemma del_loop_spec steps : forall a pl nm a' pl' r,
  del_loop steps a pl nm = (a', pl', r) ->
  (a' = a \/ a' = adel String.eqb nm a) /\ (r = ROk -> aget nm a' = None).
Proof.
  induction steps as [|k IH]; intros a pl nm a' pl' r; simpl.
  - intros H; inversion H; subst. split; [left; reflexivity|discriminate].
  - destruct (pop nm pl) as [o pl1].
    destruct (api_delete a nm o) as [a1 q] eqn:ED.
    apply api_delete_spec in ED. destruct ED as [ED1 ED2].
    destruct q.
    + intros H; inversion H; subst. split; [exact ED1|intros _; apply ED2; tauto].
    + intros H; inversion H; subst. split; [exact ED1|intros _; apply ED2; tauto].
    + intros H. apply IH in H. destruct H as [H1 H2]. split; [|exact H2].
      destruct ED1 as [->| ->]; [exact H1|].
      destruct H1 as [->| ->]; [right; reflexivity|].
      right. unfold adel. rewrite filter_idem. reflexivity.
    + intros H; inversion H; subst. split; [exact ED1|discriminate].
    + intros H; inversion H; subst. split; [exact ED1|discriminate].
    + intros H; inversion H; subst. split; [left; reflexivity|discriminate].
Qed.

Lemma gstop_go_S f n lk sh w ords x :
  gstop_go (S f) n lk sh w ords x =
  (let '(x1, _, r) := do_flush n lk sh w (hd [] ords) [] x in
   match r with ROk => (x1, ROk) | RCrash => (x1, RCrash) | _ => gstop_go f n lk sh w (tl ords) x1 end).
Proof. reflexivity. Qed.
Lemma gstop_go_O n lk sh w ords x : gstop_go O n lk sh w ords x = (x, RErr).
Proof. reflexivity. Qed.
Arguments gstop_go : simpl never.
Arguments cou : simpl never.
Arguments del_loop : simpl never.
Arguments shard_of : simpl never.

(* ------------------------------------------------------------------ effect relations *)
(* What an operation may do to the API and to the local store: leave a name alone, delete it
   (only names in Dn), or write a body allowed by P (local writes: under the body's upstream,
   and only bodies of the store's own shard). *)
Section Rel.
  Variables (n sh : Z).

  Definition wr_api (P : string -> body -> Prop) (Dn : string -> Prop) (a a' : apist) : Prop :=
    forall m, aget m a' = aget m a \/ (aget m a' = None /\ Dn m) \/ (exists it, aget m a' = Some it /\ P m it).
  Definition wr_loc (P : string -> body -> Prop) (Dn : string -> Prop) (l l' : localst) : Prop :=
    forall u m, lget (u, m) l' = lget (u, m) l \/ (lget (u, m) l' = None /\ Dn m)
             \/ (exists it, lget (u, m) l' = Some it /\ P m it /\ bup it = u /\ shard_of n (bup it) = sh).
  Definition R (P : string -> body -> Prop) (Dn : string -> Prop) (x x' : world) : Prop :=
    wr_api P Dn (wapi x) (wapi x') /\ wr_loc P Dn (wloc x) (wloc x')
    /\ (NoDup (akeys (wapi x)) -> NoDup (akeys (wapi x'))).

  Lemma wr_api_refl P Dn a : wr_api P Dn a a.
  Proof. intros m; left; reflexivity. Qed.
  Lemma wr_loc_refl P Dn l : wr_loc P Dn l l.
  Proof. intros u m; left; reflexivity. Qed.
  Lemma R_refl P Dn x : R P Dn x x.
  Proof. split; [apply wr_api_refl|split; [apply wr_loc_refl|tauto]]. Qed.

  Lemma wr_api_trans P Dn a a1 a2 : wr_api P Dn a a1 -> wr_api P Dn a1 a2 -> wr_api P Dn a a2.
  Proof.
    intros H1 H2 m. destruct (H2 m) as [E|[E|E]]; [|right; left; exact E|right; right; exact E].
    rewrite E. apply H1.
  Qed.
  Lemma wr_loc_trans P Dn l l1 l2 : wr_loc P Dn l l1 -> wr_loc P Dn l1 l2 -> wr_loc P Dn l l2.
  Proof.
    intros H1 H2 u m. destruct (H2 u m) as [E|[E|E]]; [|right; left; exact E|right; right; exact E].
    rewrite E. apply H1.
  Qed.
  Lemma R_trans P Dn x x1 x2 : R P Dn x x1 -> R P Dn x1 x2 -> R P Dn x x2.
  Proof.
    intros [A1 [L1 N1]] [A2 [L2 N2]]. split; [eapply wr_api_trans; eassumption|].
    split; [eapply wr_loc_trans; eassumption|tauto].
  Qed.

  Lemma wr_api_mono (P P' : string -> body -> Prop) (Dn Dn' : string -> Prop) a a' :
    (forall m it, P m it -> P' m it) -> (forall m, Dn m -> Dn' m) -> wr_api P Dn a a' -> wr_api P' Dn' a a'.
  Proof.
    intros HP HD H m. destruct (H m) as [E|[[E1 E2]|[it [E1 E2]]]]; [left; exact E|right; left; auto|].
    right; right; exists it; auto.
  Qed.
  Lemma wr_loc_mono (P P' : string -> body -> Prop) (Dn Dn' : string -> Prop) l l' :
    (forall m it, P m it -> P' m it) -> (forall m, Dn m -> Dn' m) -> wr_loc P Dn l l' -> wr_loc P' Dn' l l'.
  Proof.
    intros HP HD H u m. destruct (H u m) as [E|[[E1 E2]|[it [E1 [E2 E3]]]]]; [left; exact E|right; left; auto|].
    right; right; exists it; auto.
  Qed.
  Lemma R_mono (P P' : string -> body -> Prop) (Dn Dn' : string -> Prop) x x' :
    (forall m it, P m it -> P' m it) -> (forall m, Dn m -> Dn' m) -> R P Dn x x' -> R P' Dn' x x'.
  Proof.
    intros HP HD [A [L N]]. split; [eapply wr_api_mono; eassumption|split; [eapply wr_loc_mono; eassumption|exact N]].
  Qed.

  Lemma wr_api_aset (P : string -> body -> Prop) Dn a nm it : P nm it -> wr_api P Dn a (aset String.eqb nm it a).
  Proof.
    intros HP m. destruct (String.eqb_spec nm m) as [->|Hne].
    - right; right; exists it; split; [apply aget_set_same|exact HP].
    - left; apply aget_set_other; exact Hne.
  Qed.
  Lemma wr_api_adel P (Dn : string -> Prop) a nm : Dn nm -> wr_api P Dn a (adel String.eqb nm a).
  Proof.
    intros HD m. destruct (String.eqb_spec nm m) as [->|Hne].
    - right; left; split; [apply aget_del_same|exact HD].
    - left; apply aget_del_other; exact Hne.
  Qed.
  Lemma wr_loc_aset (P : string -> body -> Prop) Dn l nm it :
    P nm it -> shard_of n (bup it) = sh -> wr_loc P Dn l (aset key_eqb (bup it, nm) it l).
  Proof.
    intros HP Hs u m. destruct (key_eqb (bup it, nm) (u, m)) eqn:E.
    - apply key_eqb_spec in E. inversion E; subst. right; right; exists it.
      split; [apply lget_set_same|tauto].
    - left; apply lget_set_other. intros X. rewrite X in E.
      assert (key_eqb (u, m) (u, m) = true) by (apply key_eqb_spec; reflexivity). congruence.
  Qed.
  Lemma wr_loc_adel P (Dn : string -> Prop) l cl nm : Dn nm -> wr_loc P Dn l (adel key_eqb (cl, nm) l).
  Proof.
    intros HD u m. destruct (key_eqb (cl, nm) (u, m)) eqn:E.
    - apply key_eqb_spec in E. inversion E; subst. right; left; split; [apply lget_del_same|exact HD].
    - left; apply lget_del_other. intros X. rewrite X in E.
      assert (key_eqb (u, m) (u, m) = true) by (apply key_eqb_spec; reflexivity). congruence.
  Qed.
End Rel.

Definition Pf (f : fop) (m : string) (it : body) : Prop :=
  match f with FSave c => m = fst c /\ ceq it (snd c) | _ => False end.
Definition Df (f : fop) (m : string) : Prop :=
  match f with FSave _ => False | FDelete _ nm => m = nm | FDeleteUp _ ord => In m ord end.

Lemma shard_test n up sh : (shard_of n up =? sh) = true <-> shard_of n up = sh.
Proof. apply Z.eqb_eq. Qed.

Lemma do_save_R n sh w c x x' r : do_save n sh w c x = (x', r) -> R n sh (Pf (FSave c)) (Df (FSave c)) x x'.
Proof.
  unfold do_save. destruct c as [nm b]; simpl.
  destruct (shard_of n (bup b) =? sh) eqn:Es; simpl.
  2:{ intros H; inversion H; subst. apply R_refl. }
  destruct w.
  - destruct (cou 5 (wapi x) (wpl x) nm b (Some b)) as [[a pl] cr] eqn:EC.
    apply cou_spec in EC; [|intros it X; inversion X; subst; apply ceq_refl].
    destruct EC as [[EC1 EC2]|[it [EC1 [EC2 EC3]]]]; subst.
    + destruct cr; [exfalso; eapply EC2; reflexivity| |];
        intros H; inversion H; subst; (split; [apply wr_api_refl|split; [apply wr_loc_refl|tauto]]).
    + intros H; inversion H; subst. simpl.
      split; [apply wr_api_aset; simpl; tauto|]. split; [|apply aset_nodup_s].
      rewrite <- (ceq_bup _ _ EC3). apply wr_loc_aset; [simpl; tauto|].
      rewrite (ceq_bup _ _ EC3); apply shard_test; exact Es.
  - intros H; inversion H; subst; simpl.
    split; [apply wr_api_refl|]. split; [|tauto].
    apply wr_loc_aset; [simpl; split; [reflexivity|apply ceq_refl]|apply shard_test; exact Es].
Qed.

Lemma do_save_ack n sh c x x' : do_save n sh true c x = (x', ROk) ->
  exists it, aget (fst c) (wapi x') = Some it /\ ceq it (snd c).
Proof.
  unfold do_save. destruct c as [nm b]; simpl.
  destruct (shard_of n (bup b) =? sh); simpl; [|discriminate].
  destruct (cou 5 (wapi x) (wpl x) nm b (Some b)) as [[a pl] cr] eqn:EC.
  apply cou_spec in EC; [|intros it X; inversion X; subst; apply ceq_refl].
  destruct EC as [[EC1 EC2]|[it [EC1 [EC2 EC3]]]]; subst.
  - destruct cr; [exfalso; eapply EC2; reflexivity|discriminate|discriminate].
  - intros H; inversion H; subst; simpl. exists it; split; [apply aget_set_same|exact EC3].
Qed.

Lemma do_save_refused n sh w c x : shard_of n (bup (snd c)) <> sh -> do_save n sh w c x = (x, RRefused).
Proof.
  intros H. unfold do_save. destruct (shard_of n (bup (snd c)) =? sh) eqn:E; [apply shard_test in E; contradiction|reflexivity].
Qed.

Lemma do_delete_R n sh cl nm x x' r : do_delete cl nm x = (x', r) -> R n sh (Pf (FDelete cl nm)) (Df (FDelete cl nm)) x x'.
Proof.
  unfold do_delete. destruct (del_loop 5 (wapi x) (wpl x) nm) as [[a pl] q] eqn:ED.
  apply del_loop_spec in ED. destruct ED as [ED1 _].
  assert (HA : wr_api (Pf (FDelete cl nm)) (Df (FDelete cl nm)) (wapi x) a).
  { destruct ED1 as [->| ->]; [apply wr_api_refl|apply wr_api_adel; reflexivity]. }
  assert (HN : NoDup (akeys (wapi x)) -> NoDup (akeys a)).
  { destruct ED1 as [->| ->]; [tauto|apply adel_nodup]. }
  destruct q; intros H; inversion H; subst; simpl;
    (split; [exact HA|split; [|exact HN]]); try apply wr_loc_refl.
  apply wr_loc_adel; reflexivity.
Qed.

Lemma do_delete_gone cl nm x x' : do_delete cl nm x = (x', ROk) ->
  aget nm (wapi x') = None /\ lget (cl, nm) (wloc x') = None.
Proof.
  unfold do_delete. destruct (del_loop 5 (wapi x) (wpl x) nm) as [[a pl] q] eqn:ED.
  apply del_loop_spec in ED. destruct ED as [_ ED2].
  destruct q; intros H; inversion H; subst; simpl. split; [apply ED2; reflexivity|apply lget_del_same].
Qed.

Lemma del_many_spec names : forall a pl a' pl' r, del_many a pl names = (a', pl', r) ->
  wr_api (fun _ _ => False) (fun m => In m names) a a'
  /\ (NoDup (akeys a) -> NoDup (akeys a'))
  /\ (r = ROk -> forall m, In m names -> aget m a' = None).
Proof.
  induction names as [|nm rest IH]; intros a pl a' pl' r; simpl.
  - intros H; inversion H; subst. split; [apply wr_api_refl|split; [tauto|intros _ m []]].
  - destruct (del_loop 5 a pl nm) as [[a1 pl1] q] eqn:ED.
    apply del_loop_spec in ED. destruct ED as [ED1 ED2].
    assert (HA : wr_api (fun _ _ => False) (fun m => In m (nm :: rest)) a a1).
    { destruct ED1 as [->| ->]; [apply wr_api_refl|apply wr_api_adel; left; reflexivity]. }
    assert (HN : NoDup (akeys a) -> NoDup (akeys a1)).
    { destruct ED1 as [->| ->]; [tauto|apply adel_nodup]. }
    destruct q; try (intros H; inversion H; subst; split; [exact HA|split; [exact HN|discriminate]]).
    intros H. apply IH in H. destruct H as [H1 [H2 H3]].
    split; [|split; [tauto|]].
    + eapply wr_api_trans; [exact HA|]. eapply wr_api_mono; [| |exact H1]; [tauto|intros m X; right; exact X].
    + intros Hr m [->|Hin]; [|apply H3; assumption].
      destruct (H1 m) as [E|[[E _]|[it [_ []]]]]; [rewrite E; apply ED2; reflexivity|exact E].
Qed.

Lemma str_mem_iff x l : str_mem x l = true <-> In x l.
Proof. apply str_mem_In. Qed.

Lemma do_delete_up_R n sh cl ord x x' r : do_delete_up cl ord x = (x', r) ->
  R n sh (Pf (FDeleteUp cl ord)) (Df (FDeleteUp cl ord)) x x'.
Proof.
  unfold do_delete_up.
  destruct (negb _); [intros H; inversion H; subst; apply R_refl|].
  destruct (del_many (wapi x) (wpl x) ord) as [[a pl] q] eqn:ED.
  apply del_many_spec in ED. destruct ED as [HA [HN _]].
  assert (HA' : wr_api (Pf (FDeleteUp cl ord)) (Df (FDeleteUp cl ord)) (wapi x) a).
  { eapply wr_api_mono; [| |exact HA]; simpl; tauto. }
  destruct q; try (intros H; inversion H; subst; simpl; split; [exact HA'|split; [apply wr_loc_refl|exact HN]]).
  destruct (forallb _ (wloc x)) eqn:EF;
    intros H; inversion H; subst; simpl; (split; [exact HA'|split; [|exact HN]]); [|apply wr_loc_refl].
  intros u m.
  pose proof (alookup_filter key_eqb key_eqb_spec (fun k : key => negb (String.eqb (fst k) cl)) (u, m) (wloc x) (V:=body)) as HF.
  cbv beta in HF. simpl. rewrite HF. clear HF. simpl.
  destruct (String.eqb_spec u cl) as [->|Hne]; simpl; [|left; reflexivity].
  destruct (lget (cl, m) (wloc x)) as [b|] eqn:EL; [|left; reflexivity].
  right; left; split; [reflexivity|].
  apply (alookup_In key_eqb key_eqb_spec) in EL.
  rewrite forallb_forall in EF. specialize (EF _ EL). simpl in EF.
  rewrite String.eqb_refl in EF. simpl in EF. apply str_mem_iff; exact EF.
Qed.

Lemma do_fop_R n sh w f x x' r : do_fop n sh w f x = (x', r) -> R n sh (Pf f) (Df f) x x'.
Proof.
  destruct f; simpl; [apply do_save_R|apply do_delete_R|apply do_delete_up_R].
Qed.

(* ------------------------------------------------------------------ composite operations *)
Definition Pfs (fs : list fop) (m : string) (it : body) : Prop := exists f, In f fs /\ Pf f m it.
Definition Dfs (fs : list fop) (m : string) : Prop := exists f, In f fs /\ Df f m.
Definition Psnap (snap : localst) (m : string) (it : body) : Prop :=
  exists u b, lget (u, m) snap = Some b /\ ceq it b.
Definition Pall (snap : localst) (fs : list fop) (m : string) (it : body) : Prop := Psnap snap m it \/ Pfs fs m it.
Definition allf (inter : list (key * list fop)) : list fop := flat_map (fun e : key * list fop => snd e) inter.

Lemma run_inter_R n lk sh w fs : forall x dq rs x' dq' rs' cr,
  run_inter n lk sh w fs x dq rs = (x', dq', rs', cr) ->
  R n sh (Pfs fs) (Dfs fs) x x' /\ (forall f, In f dq' -> In f dq \/ In f fs).
Proof.
  induction fs as [|f r IH]; intros x dq rs x' dq' rs' cr; simpl.
  - intros H; inversion H; subst. split; [apply R_refl|tauto].
  - destruct (defers lk w f).
    + intros H. apply IH in H. destruct H as [H1 H2]. split.
      * eapply R_mono; [| |exact H1]; [intros m it [g [G1 G2]]; exists g; simpl; tauto|intros m [g [G1 G2]]; exists g; simpl; tauto].
      * intros g Hg. destruct (H2 g Hg) as [X|X]; [|tauto]. apply in_app_iff in X. simpl in X. intuition.
    + destruct (do_fop n sh w f x) as [x1 q] eqn:EF. apply do_fop_R in EF.
      assert (EF' : R n sh (Pfs (f :: r)) (Dfs (f :: r)) x x1).
      { eapply R_mono; [| |exact EF]; [intros m it G; exists f; simpl; tauto|intros m G; exists f; simpl; tauto]. }
      destruct (res_eqb q RCrash).
      * intros H; inversion H; subst. split; [exact EF'|tauto].
      * intros H. apply IH in H. destruct H as [H1 H2]. split.
        -- eapply R_trans; [exact EF'|].
           eapply R_mono; [| |exact H1]; [intros m it [g [G1 G2]]; exists g; simpl; tauto|intros m [g [G1 G2]]; exists g; simpl; tauto].
        -- intros g Hg. destruct (H2 g Hg) as [X|X]; simpl; tauto.
Qed.

Lemma inter_sub (inter : list (key * list fop)) k fs f :
  alookup key_eqb k inter = Some fs -> In f fs -> In f (allf inter).
Proof.
  intros H Hf. apply (alookup_In key_eqb key_eqb_spec) in H.
  unfold allf. apply in_flat_map. exists (k, fs); tauto.
Qed.

Lemma flush_go_R n lk sh w snap inter ord : forall x dq rs x' dq' rs' out,
  flush_go n lk sh w snap ord inter x dq rs = (x', dq', rs', out) ->
  R n sh (Pall snap (allf inter)) (Dfs (allf inter)) x x' /\ (forall f, In f dq' -> In f dq \/ In f (allf inter)).
Proof.
  induction ord as [|k r IH]; intros x dq rs x' dq' rs' out; simpl.
  - intros H; inversion H; subst. split; [apply R_refl|tauto].
  - destruct (lget k snap) as [b|] eqn:EL.
    2:{ intros H; inversion H; subst. split; [apply R_refl|tauto]. }
    destruct (negb (shard_of n (bup b) =? sh)).
    { intros H; inversion H; subst. split; [apply R_refl|tauto]. }
    set (fs := match alookup key_eqb k inter with Some l => l | None => [] end).
    assert (Hfs : forall f, In f fs -> In f (allf inter)).
    { subst fs. destruct (alookup key_eqb k inter) as [l|] eqn:EI; [|intros f []].
      intros f Hf. eapply inter_sub; eassumption. }
    destruct (run_inter n lk sh w fs x dq rs) as [[[x1 dq1] rs1] crashed] eqn:ER.
    apply run_inter_R in ER. destruct ER as [ER1 ER2].
    assert (ER1' : R n sh (Pall snap (allf inter)) (Dfs (allf inter)) x x1).
    { eapply R_mono; [| |exact ER1].
      - intros m it [g [G1 G2]]. right. exists g; split; [apply Hfs; exact G1|exact G2].
      - intros m [g [G1 G2]]. exists g; split; [apply Hfs; exact G1|exact G2]. }
    assert (ER2' : forall f, In f dq1 -> In f dq \/ In f (allf inter)).
    { intros f Hf. destruct (ER2 f Hf) as [X|X]; [tauto|right; apply Hfs; exact X]. }
    destruct crashed.
    { intros H; inversion H; subst. split; [exact ER1'|exact ER2']. }
    destruct (cou 5 (wapi x1) (wpl x1) (snd k) b (Some b)) as [[a pl] cr] eqn:EC.
    apply cou_spec in EC; [|intros it X; inversion X; subst; apply ceq_refl].
    assert (HW : R n sh (Pall snap (allf inter)) (Dfs (allf inter)) x1 (mkW a (wloc x1) pl)).
    { destruct EC as [[EC1 _]|[it [EC1 [_ EC3]]]]; subst a.
      - split; [apply wr_api_refl|split; [apply wr_loc_refl|tauto]].
      - split; [|split; [apply wr_loc_refl|apply aset_nodup_s]].
        apply wr_api_aset. left. destruct k as [u m]. exists u, b. simpl. tauto. }
    destruct cr.
    + intros H. apply IH in H. destruct H as [H1 H2]. split.
      * eapply R_trans; [exact ER1'|]. eapply R_trans; [exact HW|exact H1].
      * intros f Hf. destruct (H2 f Hf) as [X|X]; [apply ER2'; exact X|tauto].
    + intros H; inversion H; subst. split; [eapply R_trans; [exact ER1'|exact HW]|exact ER2'].
    + intros H; inversion H; subst. split; [eapply R_trans; [exact ER1'|exact HW]|exact ER2'].
Qed.

Lemma do_flush_R n lk sh w ord inter x x' rs r :
  do_flush n lk sh w ord inter x = (x', rs, r) -> R n sh (Pall (wloc x) (allf inter)) (Dfs (allf inter)) x x'.
Proof.
  unfold do_flush. destruct (negb (key_nodup ord)).
  { intros H; inversion H; subst. apply R_refl. }
  destruct (flush_go n lk sh w (wloc x) ord inter x [] []) as [[[x1 dq] rs1] out] eqn:EF.
  apply flush_go_R in EF. destruct EF as [EF1 EF2].
  destruct (res_eqb out RCrash).
  { intros H; inversion H; subst. exact EF1. }
  destruct (run_inter n nolocks sh w dq x1 [] rs1) as [[[x2 dq2] rs2] crashed] eqn:ER.
  apply run_inter_R in ER. destruct ER as [ER1 _].
  intros H; inversion H; subst.
  eapply R_trans; [exact EF1|].
  eapply R_mono; [| |exact ER1].
  - intros m it [g [G1 G2]]. right. exists g; split; [|exact G2]. destruct (EF2 g G1) as [[]|X]; exact X.
  - intros m [g [G1 G2]]. exists g; split; [|exact G2]. destruct (EF2 g G1) as [[]|X]; exact X.
Qed.

Lemma load_fold_R n sh (a : apist) : forall (items : apist) (l : localst),
  (forall p, In p items -> In p a) ->
  wr_loc n sh (fun m it => In (m, it) a) (fun _ => False) l
    (fold_left (fun (l : localst) (p : string * body) =>
                  if shard_of n (bup (snd p)) =? sh then aset key_eqb (bup (snd p), fst p) (snd p) l else l) items l).
Proof.
  induction items as [|[m b] r IH]; intros l Hin; simpl.
  - apply wr_loc_refl.
  - destruct (shard_of n (bup b) =? sh) eqn:Es.
    + eapply wr_loc_trans; [|apply IH; intros p Hp; apply Hin; right; exact Hp].
      apply wr_loc_aset; [apply Hin; left; reflexivity|apply shard_test; exact Es].
    + apply IH. intros p Hp; apply Hin; right; exact Hp.
Qed.

Lemma do_load_R n sh o x x' r : do_load n sh o x = (x', r) ->
  R n sh (fun m it => In (m, it) (wapi x)) (fun _ => False) x x'.
Proof.
  unfold do_load. destruct (inj o) as [q|].
  - destruct q; intros H; inversion H; subst; apply R_refl.
  - intros H; inversion H; subst; simpl. split; [apply wr_api_refl|split; [|tauto]].
    apply load_fold_R. tauto.
Qed.

(* ------------------------------------------------------------------ one step of a history *)
Definition Pop (s : st) (o : op) : string -> body -> Prop :=
  match o with
  | OFg f _ => Pf f
  | OFlush _ inter _ => Pall (loc (sto s)) (allf inter)
  | OStop _ _ => Pall (loc (sto s)) []
  | OGStop _ _ => Pall (loc (sto s)) []
  | OLoad _ => fun m it => In (m, it) (api s)
  | ORestart _ _ => fun _ _ => False
  end.
Definition Dop (o : op) : string -> Prop :=
  match o with
  | OFg f _ => Df f
  | OFlush _ inter _ => Dfs (allf inter)
  | OStop _ _ => Dfs []
  | OGStop _ _ => Dfs []
  | _ => fun _ => False
  end.

Lemma do_flush_plain_loc0 n lk sh w ord x x1 rs r : do_flush n lk sh w ord [] x = (x1, rs, r) -> wloc x1 = wloc x.
Proof.
  unfold do_flush. destruct (negb (key_nodup ord)); [intros H; inversion H; subst; reflexivity|].
  destruct (flush_go n lk sh w (wloc x) ord [] x [] []) as [[[x0 dq] rs1] out] eqn:EF.
  assert (G : forall ord x dq rs x' dq' rs' out, flush_go n lk sh w (wloc x0) ord [] x dq rs = (x', dq', rs', out) -> True) by (intros; exact I).
  clear G.
  assert (HL : forall snap ord x dq rs x' dq' rs' out,
             flush_go n lk sh w snap ord [] x dq rs = (x', dq', rs', out) -> wloc x' = wloc x /\ dq' = dq).
  { clear. intros snap ord. induction ord as [|k r IH]; intros x dq rs x' dq' rs' out; simpl.
    - intros H; inversion H; subst. tauto.
    - destruct (lget k snap) as [b|]; [|intros H; inversion H; subst; tauto].
      destruct (negb (shard_of n (bup b) =? sh)); [intros H; inversion H; subst; tauto|].
      destruct (cou 5 (wapi x) (wpl x) (snd k) b (Some b)) as [[a pl] cr]. destruct cr.
      + intros H. apply IH in H. exact H.
      + intros H; inversion H; subst. tauto.
      + intros H; inversion H; subst. tauto. }
  apply HL in EF. destruct EF as [EF Hdq]. subst dq.
  destruct (res_eqb out RCrash); [intros H; inversion H; subst; exact EF|].
  simpl. intros H; inversion H; subst. exact EF.
Qed.

Lemma gstop_R fuel n lk sh w : forall ords x x1 r,
  gstop_go fuel n lk sh w ords x = (x1, r) -> R n sh (Pall (wloc x) []) (Dfs []) x x1.
Proof.
  induction fuel as [|f IH]; intros ords x x1 r.
  - rewrite gstop_go_O. intros H; inversion H; subst. apply R_refl.
  - rewrite gstop_go_S. destruct (do_flush n lk sh w (hd [] ords) [] x) as [[x0 rs] q] eqn:EF.
    pose proof (do_flush_plain_loc0 _ _ _ _ _ _ _ _ _ EF) as Hloc.
    apply do_flush_R in EF. simpl in EF.
    destruct q; try (intros H; inversion H; subst; exact EF);
      (intros H; apply IH in H; rewrite Hloc in H; eapply R_trans; [exact EF|exact H]).
Qed.

Definition step_post (n : Z) (s : st) (o : op) (s' : st) : Prop :=
  wr_api (Pop s o) (Dop o) (api s) (api s')
  /\ (loc (sto s') = []
      \/ (shard (sto s') = shard (sto s)
          /\ wr_loc n (shard (sto s)) (Pop s o) (Dop o) (loc (sto s)) (loc (sto s'))))
  /\ (NoDup (akeys (api s)) -> NoDup (akeys (api s'))).

Lemma finish_post n s x r stp (P : string -> body -> Prop) (Dn : string -> Prop) o :
  wr_api P Dn (api s) (wapi x) -> wr_loc n (shard (sto s)) P Dn (loc (sto s)) (wloc x) ->
  (NoDup (akeys (api s)) -> NoDup (akeys (wapi x))) ->
  P = Pop s o -> Dn = Dop o ->
  step_post n s o (finish s x r stp).
Proof.
  intros HA HL HN -> ->. unfold finish, step_post. destruct (res_eqb r RCrash); simpl.
  - split; [exact HA|split; [left; reflexivity|exact HN]].
  - split; [exact HA|split; [right; split; [reflexivity|exact HL]|exact HN]].
Qed.

Lemma step_R n lk s o s' q : step n lk s o = (s', q) -> step_post n s o s'.
Proof.
  destruct o as [f pl|ord inter pl|ord pl|ords pl|oc|sh w]; simpl.
  - destruct (dead (sto s)).
    { intros H; inversion H; subst. split; [apply wr_api_refl|split; [right; split; [reflexivity|apply wr_loc_refl]|tauto]]. }
    destruct (do_fop n (shard (sto s)) (wt (sto s)) f (mkW (api s) (loc (sto s)) pl)) as [x r] eqn:E.
    apply do_fop_R in E. destruct E as [E1 [E2 E3]]. simpl in *.
    intros H; inversion H; subst. eapply finish_post; [exact E1|exact E2|exact E3|reflexivity|reflexivity].
  - destruct (dead (sto s)).
    { intros H; inversion H; subst. split; [apply wr_api_refl|split; [right; split; [reflexivity|apply wr_loc_refl]|tauto]]. }
    destruct (do_flush n lk (shard (sto s)) (wt (sto s)) ord inter (mkW (api s) (loc (sto s)) pl)) as [[x rs] r] eqn:E.
    apply do_flush_R in E. destruct E as [E1 [E2 E3]]. simpl in *.
    intros H; inversion H; subst. eapply finish_post; [exact E1|exact E2|exact E3|reflexivity|reflexivity].
  - destruct (dead (sto s)).
    { intros H; inversion H; subst. split; [apply wr_api_refl|split; [right; split; [reflexivity|apply wr_loc_refl]|tauto]]. }
    destruct (stopped (sto s)).
    { intros H; inversion H; subst. split; [apply wr_api_refl|split; [right; split; [reflexivity|apply wr_loc_refl]|tauto]]. }
    destruct (do_flush n lk (shard (sto s)) (wt (sto s)) ord [] (mkW (api s) (loc (sto s)) pl)) as [[x rs] r] eqn:E.
    apply do_flush_R in E. destruct E as [E1 [E2 E3]]. simpl in *.
    intros H; inversion H; subst. eapply finish_post; [exact E1|exact E2|exact E3|reflexivity|reflexivity].
  - destruct (dead (sto s)).
    { intros H; inversion H; subst. split; [apply wr_api_refl|split; [right; split; [reflexivity|apply wr_loc_refl]|tauto]]. }
    destruct (stopped (sto s)).
    { intros H; inversion H; subst. split; [apply wr_api_refl|split; [right; split; [reflexivity|apply wr_loc_refl]|tauto]]. }
    destruct (gstop_go 10 n lk (shard (sto s)) (wt (sto s)) ords (mkW (api s) (loc (sto s)) pl)) as [x r] eqn:E.
    apply gstop_R in E. destruct E as [E1 [E2 E3]]. simpl in *.
    intros H; inversion H; subst. eapply finish_post; [exact E1|exact E2|exact E3|reflexivity|reflexivity].
  - destruct (dead (sto s)).
    { intros H; inversion H; subst. split; [apply wr_api_refl|split; [right; split; [reflexivity|apply wr_loc_refl]|tauto]]. }
    destruct (do_load n (shard (sto s)) oc (mkW (api s) (loc (sto s)) [])) as [x r] eqn:E.
    apply do_load_R in E. destruct E as [E1 [E2 E3]]. simpl in *.
    intros H; inversion H; subst. eapply finish_post; [exact E1|exact E2|exact E3|reflexivity|reflexivity].
  - intros H; inversion H; subst. split; [apply wr_api_refl|split; [left; reflexivity|tauto]].
Qed.

(* ------------------------------------------------------------------ invariants *)
Definition Durable (X : string) (c : body) (a : apist) (l : localst) : Prop :=
  (exists b, aget X a = Some b /\ ceq b c) /\ (forall u b, lget (u, X) l = Some b -> ceq b c).
Definition Gone (X : string) (a : apist) (l : localst) : Prop :=
  aget X a = None /\ forall u, lget (u, X) l = None.
Definition Owned (owner : string -> string) (a : apist) (l : localst) : Prop :=
  (forall m b, aget m a = Some b -> bup b = owner m)
  /\ (forall u m b, lget (u, m) l = Some b -> u = owner m /\ bup b = u).
Definition LocOwn (n sh : Z) (l : localst) : Prop :=
  forall u m b, lget (u, m) l = Some b -> shard_of n (bup b) = sh.

Definition loc_step (n sh : Z) (P : string -> body -> Prop) (Dn : string -> Prop) (l l' : localst) : Prop :=
  l' = [] \/ wr_loc n sh P Dn l l'.

Lemma Durable_pres n sh P Dn X c a l a' l' :
  Durable X c a l -> wr_api P Dn a a' -> loc_step n sh P Dn l l' ->
  ~ Dn X -> (forall it, P X it -> ceq it c) -> Durable X c a' l'.
Proof.
  intros [[b [D1 D2]] D3] HA HL HD HP. split.
  - destruct (HA X) as [E|[[_ E]|[it [E1 E2]]]]; [rewrite E; exists b; tauto|contradiction|].
    exists it; split; [exact E1|apply HP; exact E2].
  - intros u b' Hb. destruct HL as [->|HL]; [discriminate|].
    destruct (HL u X) as [E|[[E _]|[it [E1 [E2 _]]]]].
    + rewrite E in Hb. eapply D3; exact Hb.
    + rewrite E in Hb; discriminate.
    + rewrite E1 in Hb; inversion Hb; subst. apply HP; exact E2.
Qed.

Lemma Gone_pres n sh (P : string -> body -> Prop) Dn X a l a' l' :
  Gone X a l -> wr_api P Dn a a' -> loc_step n sh P Dn l l' ->
  (forall it, ~ P X it) -> Gone X a' l'.
Proof.
  intros [G1 G2] HA HL HP. split.
  - destruct (HA X) as [E|[[E _]|[it [_ E2]]]]; [rewrite E; exact G1|exact E|exfalso; eapply HP; exact E2].
  - intros u. destruct HL as [->|HL]; [reflexivity|].
    destruct (HL u X) as [E|[[E _]|[it [_ [E2 _]]]]]; [rewrite E; apply G2|exact E|exfalso; eapply HP; exact E2].
Qed.

Lemma Owned_pres n sh (P : string -> body -> Prop) Dn owner a l a' l' :
  Owned owner a l -> wr_api P Dn a a' -> loc_step n sh P Dn l l' ->
  (forall m it, P m it -> bup it = owner m) -> Owned owner a' l'.
Proof.
  intros [O1 O2] HA HL HP. split.
  - intros m b Hb. destruct (HA m) as [E|[[E _]|[it [E1 E2]]]].
    + rewrite E in Hb. eapply O1; exact Hb.
    + rewrite E in Hb; discriminate.
    + rewrite E1 in Hb; inversion Hb; subst. apply HP; exact E2.
  - intros u m b Hb. destruct HL as [->|HL]; [discriminate|].
    destruct (HL u m) as [E|[[E _]|[it [E1 [E2 [E3 _]]]]]].
    + rewrite E in Hb. eapply O2; exact Hb.
    + rewrite E in Hb; discriminate.
    + rewrite E1 in Hb; inversion Hb; subst. split; [|reflexivity]. apply HP; exact E2.
Qed.

Lemma LocOwn_pres n sh (P : string -> body -> Prop) Dn l l' :
  LocOwn n sh l -> loc_step n sh P Dn l l' -> LocOwn n sh l'.
Proof.
  intros HO HL u m b Hb. destruct HL as [->|HL]; [discriminate|].
  destruct (HL u m) as [E|[[E _]|[it [E1 [_ [_ E4]]]]]].
  - rewrite E in Hb. eapply HO; exact Hb.
  - rewrite E in Hb; discriminate.
  - rewrite E1 in Hb; inversion Hb as [Hx]. rewrite <- Hx. exact E4.
Qed.

(* ------------------------------------------------------------------ side conditions on operations *)
Definition ftouch (X : string) (f : fop) : Prop :=
  match f with FSave c => fst c = X | FDelete _ nm => nm = X | FDeleteUp _ ord => In X ord end.
Definition fsaves (X : string) (f : fop) : Prop :=
  match f with FSave c => fst c = X | _ => False end.
Definition op_fops (o : op) : list fop :=
  match o with OFg f _ => [f] | OFlush _ inter _ => allf inter | _ => [] end.
Definition no_touch (X : string) (o : op) : Prop := forall f, In f (op_fops o) -> ~ ftouch X f.
Definition no_save (X : string) (o : op) : Prop := forall f, In f (op_fops o) -> ~ fsaves X f.
Definition wf_fop (owner : string -> string) (f : fop) : Prop :=
  match f with FSave c => bup (snd c) = owner (fst c) | _ => True end.
Definition wf_op (owner : string -> string) (o : op) : Prop := forall f, In f (op_fops o) -> wf_fop owner f.

Lemma Pfs_sub fs m it : Pfs fs m it -> exists c, In (FSave c) fs /\ fst c = m /\ ceq it (snd c).
Proof.
  intros [f [F1 F2]]. destruct f as [c| |]; simpl in F2; try contradiction.
  exists c. destruct F2 as [F2 F3]. split; [exact F1|]. split; [symmetry; exact F2|exact F3].
Qed.

Lemma Dop_touch o X : Dop o X -> exists f, In f (op_fops o) /\ ftouch X f.
Proof.
  destruct o as [f pl|ord inter pl|ord pl|ords pl|oc|sh w]; simpl; try contradiction.
  - intros H. exists f; split; [left; reflexivity|]. destruct f; simpl in *; [contradiction|congruence|exact H].
  - intros [f [F1 F2]]. exists f; split; [exact F1|]. destruct f; simpl in *; [contradiction|congruence|exact F2].
  - intros [f [[] _]].
  - intros [f [[] _]].
Qed.

(* what an operation may write under name X *)
Lemma Pop_cases s o X it : Pop s o X it ->
  (exists u b, lget (u, X) (loc (sto s)) = Some b /\ ceq it b)
  \/ (exists c, In (FSave c) (op_fops o) /\ fst c = X /\ ceq it (snd c))
  \/ In (X, it) (api s).
Proof.
  destruct o as [f pl|ord inter pl|ord pl|ords pl|oc|sh w]; simpl.
  - intros H. right; left. destruct f as [c| |]; simpl in H; try contradiction.
    exists c. destruct H as [H1 H2]. split; [left; reflexivity|]. split; [symmetry; exact H1|exact H2].
  - intros [H|H]; [left; exact H|]. right; left. apply Pfs_sub; exact H.
  - intros [H|[f [[] _]]]. left; exact H.
  - intros [H|[f [[] _]]]. left; exact H.
  - intros H; right; right; exact H.
  - contradiction.
Qed.

(* ------------------------------------------------------------------ invariants along a step *)
Lemma step_loc_step n lk s o s' q : step n lk s o = (s', q) ->
  wr_api (Pop s o) (Dop o) (api s) (api s')
  /\ loc_step n (shard (sto s)) (Pop s o) (Dop o) (loc (sto s)) (loc (sto s'))
  /\ (NoDup (akeys (api s)) -> NoDup (akeys (api s')))
  /\ (loc (sto s') = [] \/ shard (sto s') = shard (sto s)).
Proof.
  intros H. apply step_R in H. destruct H as [H1 [H2 H3]].
  split; [exact H1|]. split; [|split; [exact H3|]].
  - destruct H2 as [H2|[_ H2]]; [left; exact H2|right; exact H2].
  - destruct H2 as [H2|[H2 _]]; [left; exact H2|right; exact H2].
Qed.

Lemma In_aget (a : apist) m b : NoDup (akeys a) -> In (m, b) a -> aget m a = Some b.
Proof. apply In_alookup, String.eqb_eq. Qed.

Lemma Durable_step n lk X c s o s' q :
  NoDup (akeys (api s)) -> Durable X c (api s) (loc (sto s)) -> no_touch X o ->
  step n lk s o = (s', q) -> Durable X c (api s') (loc (sto s')).
Proof.
  intros Hnd HD Hnt H. apply step_loc_step in H. destruct H as [H1 [H2 _]].
  eapply Durable_pres; [exact HD|exact H1|exact H2| |].
  - intros HX. apply Dop_touch in HX. destruct HX as [f [F1 F2]]. exact (Hnt f F1 F2).
  - intros it HP. apply Pop_cases in HP. destruct HD as [[b [D1 D2]] D3].
    destruct HP as [[u [b' [E1 E2]]]|[[c' [E1 [E2 E3]]]|E]].
    + eapply ceq_trans; [exact E2|]. eapply D3; exact E1.
    + exfalso. eapply (Hnt _ E1). exact E2.
    + apply In_aget in E; [|exact Hnd]. rewrite D1 in E; inversion E; subst; exact D2.
Qed.

Lemma Gone_step n lk X s o s' q :
  NoDup (akeys (api s)) -> Gone X (api s) (loc (sto s)) -> no_save X o ->
  step n lk s o = (s', q) -> Gone X (api s') (loc (sto s')).
Proof.
  intros Hnd HG Hns H. apply step_loc_step in H. destruct H as [H1 [H2 _]].
  eapply Gone_pres; [exact HG|exact H1|exact H2|].
  intros it HP. apply Pop_cases in HP. destruct HG as [G1 G2].
  destruct HP as [[u [b' [E1 E2]]]|[[c' [E1 [E2 E3]]]|E]].
  - rewrite G2 in E1; discriminate.
  - eapply (Hns _ E1). exact E2.
  - apply In_aget in E; [|exact Hnd]. rewrite G1 in E; discriminate.
Qed.

Lemma Owned_step n lk owner s o s' q :
  NoDup (akeys (api s)) -> Owned owner (api s) (loc (sto s)) -> wf_op owner o ->
  step n lk s o = (s', q) -> Owned owner (api s') (loc (sto s')).
Proof.
  intros Hnd HO Hwf H. apply step_loc_step in H. destruct H as [H1 [H2 _]].
  eapply Owned_pres; [exact HO|exact H1|exact H2|].
  intros m it HP. apply Pop_cases in HP. destruct HO as [O1 O2].
  destruct HP as [[u [b' [E1 E2]]]|[[c' [E1 [E2 E3]]]|E]].
  - rewrite (ceq_bup _ _ E2). destruct (O2 _ _ _ E1) as [A B]. congruence.
  - rewrite (ceq_bup _ _ E3). specialize (Hwf _ E1). simpl in Hwf. congruence.
  - apply In_aget in E; [|exact Hnd]. eapply O1; exact E.
Qed.

Lemma LocOwn_step n lk s o s' q :
  LocOwn n (shard (sto s)) (loc (sto s)) -> step n lk s o = (s', q) -> LocOwn n (shard (sto s')) (loc (sto s')).
Proof.
  intros HL H. apply step_loc_step in H. destruct H as [_ [H2 [_ H4]]].
  destruct H4 as [H4|H4].
  - rewrite H4. intros u m b X; discriminate.
  - rewrite H4. eapply LocOwn_pres; [exact HL|exact H2].
Qed.

Lemma NoDup_step n lk s o s' q : NoDup (akeys (api s)) -> step n lk s o = (s', q) -> NoDup (akeys (api s')).
Proof. intros Hnd H. apply step_loc_step in H. tauto. Qed.

(* the invariant of reachable states *)
Definition Inv (n : Z) (owner : string -> string) (s : st) : Prop :=
  NoDup (akeys (api s)) /\ Owned owner (api s) (loc (sto s)) /\ LocOwn n (shard (sto s)) (loc (sto s)).

Lemma Inv_step n lk owner s o : Inv n owner s -> wf_op owner o -> Inv n owner (fst (step n lk s o)).
Proof.
  intros [I1 [I2 I3]] Hwf. destruct (step n lk s o) as [s' q] eqn:E; simpl.
  split; [eapply NoDup_step; eassumption|]. split; [eapply Owned_step; eassumption|eapply LocOwn_step; eassumption].
Qed.

Lemma Inv_run n lk owner ops : forall s, Inv n owner s -> Forall (wf_op owner) ops -> Inv n owner (run_state n lk s ops).
Proof.
  induction ops as [|o r IH]; intros s HI Hwf; simpl; [exact HI|].
  inversion Hwf; subst. apply IH; [apply Inv_step; assumption|assumption].
Qed.

Lemma NoDup_run n lk ops : forall s, NoDup (akeys (api s)) -> NoDup (akeys (api (run_state n lk s ops))).
Proof.
  induction ops as [|o r IH]; intros s H; simpl; [exact H|].
  apply IH. destruct (step n lk s o) as [s' q] eqn:E; simpl. eapply NoDup_step; eassumption.
Qed.

Lemma Durable_run n lk X c ops : forall s,
  NoDup (akeys (api s)) -> Durable X c (api s) (loc (sto s)) -> Forall (no_touch X) ops ->
  Durable X c (api (run_state n lk s ops)) (loc (sto (run_state n lk s ops))).
Proof.
  induction ops as [|o r IH]; intros s Hnd HD Hnt; simpl; [exact HD|].
  inversion Hnt; subst. destruct (step n lk s o) as [s' q] eqn:E; simpl.
  apply IH; [eapply NoDup_step; eassumption|eapply Durable_step; eassumption|assumption].
Qed.

Lemma Gone_run n lk X ops : forall s,
  NoDup (akeys (api s)) -> Gone X (api s) (loc (sto s)) -> Forall (no_save X) ops ->
  Gone X (api (run_state n lk s ops)) (loc (sto (run_state n lk s ops))).
Proof.
  induction ops as [|o r IH]; intros s Hnd HG Hns; simpl; [exact HG|].
  inversion Hns; subst. destruct (step n lk s o) as [s' q] eqn:E; simpl.
  apply IH; [eapply NoDup_step; eassumption|eapply Gone_step; eassumption|assumption].
Qed.

(* ------------------------------------------------------------------ theorems *)
Lemma res_eqb_eq a b : res_eqb a b = true <-> a = b.
Proof. destruct a, b; simpl; split; intros H; try reflexivity; try discriminate. Qed.

(* write-through: Save returned ok => the API holds that condition *)
Lemma ack_persisted n lk s c pl s' rs :
  wt (sto s) = true -> step n lk s (OFg (FSave c) pl) = (s', (ROk, rs)) ->
  exists b, aget (fst c) (api s') = Some b /\ ceq b (snd c).
Proof.
  intros Hwt. unfold step. destruct (dead (sto s)); [intros H; inversion H|].
  rewrite Hwt. simpl.
  destruct (do_save n (shard (sto s)) true c (mkW (api s) (loc (sto s)) pl)) as [x r] eqn:E.
  intros H; inversion H; subst r. apply do_save_ack in E. unfold finish; simpl. exact E.
Qed.

Lemma do_save_ok_local n sh w c x x' : do_save n sh w c x = (x', ROk) ->
  (exists it, lget (bup (snd c), fst c) (wloc x') = Some it /\ ceq it (snd c))
  /\ forall k, k <> (bup (snd c), fst c) -> lget k (wloc x') = lget k (wloc x).
Proof.
  unfold do_save. destruct c as [nm b]; simpl.
  destruct (shard_of n (bup b) =? sh); simpl; [|discriminate].
  destruct w.
  - destruct (cou 5 (wapi x) (wpl x) nm b (Some b)) as [[a pl] cr] eqn:EC.
    apply cou_spec in EC; [|intros it X; inversion X; subst; apply ceq_refl].
    destruct EC as [[EC1 EC2]|[it [EC1 [EC2 EC3]]]]; subst.
    + destruct cr; [exfalso; eapply EC2; reflexivity|discriminate|discriminate].
    + intros H; inversion H; subst; simpl. split.
      * exists it; split; [apply lget_set_same|exact EC3].
      * intros k Hk. apply lget_set_other. congruence.
  - intros H; inversion H; subst; simpl. split.
    + exists b; split; [apply lget_set_same|apply ceq_refl].
    + intros k Hk. apply lget_set_other. congruence.
Qed.

(* ... and it stays there, whatever happens (faults, crashes, restarts on any shard and in any
   mode, flushes, loads), until an operation names that condition again *)
Lemma ack_durable n lk owner s c pl s' rs ops :
  NoDup (akeys (api s)) -> Owned owner (api s) (loc (sto s)) -> bup (snd c) = owner (fst c) ->
  wt (sto s) = true -> step n lk s (OFg (FSave c) pl) = (s', (ROk, rs)) ->
  Forall (no_touch (fst c)) ops ->
  exists b, aget (fst c) (api (run_state n lk s' ops)) = Some b /\ ceq b (snd c).
Proof.
  intros Hnd HO Hown Hwt H Hnt.
  assert (HD : Durable (fst c) (snd c) (api s') (loc (sto s'))).
  { split; [eapply ack_persisted; eassumption|].
    revert H. unfold step. destruct (dead (sto s)); [intros H; inversion H|].
    rewrite Hwt. simpl.
    destruct (do_save n (shard (sto s)) true c (mkW (api s) (loc (sto s)) pl)) as [x r] eqn:E.
    intros H; inversion H; subst r. apply do_save_ok_local in E. destruct E as [[it [E1 E2]] E3].
    unfold finish; simpl. intros u b Hb.
    destruct (key_eqb (u, fst c) (bup (snd c), fst c)) eqn:EK.
    - apply key_eqb_spec in EK. rewrite EK in Hb. rewrite E1 in Hb. inversion Hb; subst; exact E2.
    - assert (Hne : (u, fst c) <> (bup (snd c), fst c)).
      { intros X. rewrite X in EK. assert (key_eqb (bup (snd c), fst c) (bup (snd c), fst c) = true) by (apply key_eqb_spec; reflexivity). congruence. }
      rewrite (E3 _ Hne) in Hb. simpl in Hb. destruct HO as [_ O2]. destruct (O2 _ _ _ Hb) as [A _].
      exfalso. apply Hne. congruence. }
  assert (Hnd' : NoDup (akeys (api s'))) by (eapply NoDup_step; eassumption).
  destruct (Durable_run n lk (fst c) (snd c) ops s' Hnd' HD Hnt) as [X _]. exact X.
Qed.

Lemma delete_gone owner X x x' :
  Owned owner (wapi x) (wloc x) -> do_delete (owner X) X x = (x', ROk) -> Gone X (wapi x') (wloc x').
Proof.
  intros [_ O2] H. pose proof (do_delete_gone _ _ _ _ H) as [G1 G2].
  apply (do_delete_R 0 0) in H. destruct H as [_ [HL _]].
  split; [exact G1|]. intros u.
  destruct (lget (u, X) (wloc x')) as [b|] eqn:E; [|reflexivity].
  destruct (HL u X) as [E1|[[E1 _]|[it [_ [[] _]]]]].
  - rewrite E in E1. symmetry in E1. destruct (O2 _ _ _ E1) as [A _]. subst u. congruence.
  - congruence.
Qed.

(* a condition whose deletion was acknowledged is in neither the API nor any store afterwards,
   through any later operations, faults, crashes and restarts, until it is saved again *)
Lemma deleted_stay_deleted n lk owner s0 ops1 X pl ops2 s1 rs :
  Inv n owner s0 -> Forall (wf_op owner) ops1 ->
  step n lk (run_state n lk s0 ops1) (OFg (FDelete (owner X) X) pl) = (s1, (ROk, rs)) ->
  Forall (no_save X) ops2 ->
  Gone X (api (run_state n lk s1 ops2)) (loc (sto (run_state n lk s1 ops2))).
Proof.
  intros HI Hwf H Hns.
  pose proof (Inv_run n lk owner ops1 s0 HI Hwf) as [I1 [I2 _]].
  set (s := run_state n lk s0 ops1) in *.
  assert (Hnd' : NoDup (akeys (api s1))) by (eapply NoDup_step; eassumption).
  apply Gone_run; [exact Hnd'| |exact Hns].
  revert H. unfold step. destruct (dead (sto s)); [intros H; inversion H|]. simpl.
  destruct (do_delete (owner X) X (mkW (api s) (loc (sto s)) pl)) as [x r] eqn:E.
  intros H; inversion H; subst r. apply (delete_gone owner) in E; [|exact I2].
  unfold finish; simpl. exact E.
Qed.

(* Save of a condition of another shard is refused and changes nothing *)
Lemma save_other_shard_refused n lk s c pl :
  dead (sto s) = false -> shard_of n (bup (snd c)) <> shard (sto s) ->
  snd (step n lk s (OFg (FSave c) pl)) = (RRefused, [])
  /\ api (fst (step n lk s (OFg (FSave c) pl))) = api s
  /\ loc (sto (fst (step n lk s (OFg (FSave c) pl)))) = loc (sto s).
Proof.
  intros Hd Hs. unfold step. rewrite Hd. simpl. rewrite do_save_refused; [|exact Hs].
  unfold finish; simpl. tauto.
Qed.

(* Load on a new store *)
Definition load_step (n sh : Z) (l : localst) (p : string * body) : localst :=
  if shard_of n (bup (snd p)) =? sh then aset key_eqb (bup (snd p), fst p) (snd p) l else l.

Lemma load_fold_exact n sh (items : apist) : NoDup (akeys items) ->
  forall u m b, lget (u, m) (fold_left (load_step n sh) items []) = Some b
                <-> (In (m, b) items /\ u = bup b /\ shard_of n (bup b) = sh).
Proof.
  induction items as [|[m0 b0] r IH] using rev_ind; intros Hnd u m b.
  - simpl. split; [discriminate|tauto].
  - rewrite fold_left_app. simpl. unfold load_step at 1. simpl.
    rewrite map_app in Hnd. simpl in Hnd.
    assert (Hnd1 : NoDup (akeys r)).
    { clear IH. induction (akeys r) as [|y t IHt]; [constructor|].
      simpl in Hnd. inversion Hnd; subst. constructor; [|apply IHt; assumption].
      intros X. apply H1. apply in_app_iff; left; exact X. }
    assert (Hm0 : ~ In m0 (akeys r)).
    { clear IH Hnd1. induction (akeys r) as [|y t IHt]; [tauto|].
      simpl in Hnd. inversion Hnd; subst. intros [X|X].
      - subst y. apply H1. apply in_app_iff; right; left; reflexivity.
      - exact (IHt H2 X). }
    specialize (IH Hnd1).
    destruct (shard_of n (bup b0) =? sh) eqn:Es.
    + destruct (key_eqb (bup b0, m0) (u, m)) eqn:EK.
      * apply key_eqb_spec in EK. inversion EK; subst. rewrite lget_set_same. split.
        -- intros H; inversion H; subst. split; [apply in_app_iff; right; left; reflexivity|].
           split; [reflexivity|apply shard_test; exact Es].
        -- intros [H _]. apply in_app_iff in H. destruct H as [H|[H|[]]].
           ++ exfalso. apply Hm0. change m with (fst (m, b)). apply in_map; exact H.
           ++ inversion H; reflexivity.
      * assert (Hne : (bup b0, m0) <> (u, m)).
        { intros X. rewrite X in EK. assert (key_eqb (u, m) (u, m) = true) by (apply key_eqb_spec; reflexivity). congruence. }
        rewrite (lget_set_other _ _ _ _ Hne). rewrite IH. split.
        -- intros [H1 H2]. split; [apply in_app_iff; left; exact H1|exact H2].
        -- intros [H1 [H2 H3]]. split; [|tauto]. apply in_app_iff in H1. destruct H1 as [H1|[H1|[]]]; [exact H1|].
           inversion H1; subst. exfalso; apply Hne; reflexivity.
    + rewrite IH. split.
      * intros [H1 H2]. split; [apply in_app_iff; left; exact H1|exact H2].
      * intros [H1 [H2 H3]]. split; [|tauto]. apply in_app_iff in H1. destruct H1 as [H1|[H1|[]]]; [exact H1|].
        apply shard_test in H3. inversion H1; subst. congruence.
Qed.

Lemma load_exact n lk s sh w :
  NoDup (akeys (api s)) ->
  let s1 := fst (step n lk s (ORestart sh w)) in
  let r2 := step n lk s1 (OLoad OOk) in
  snd r2 = (ROk, []) /\ api (fst r2) = api s
  /\ forall u m b, lget (u, m) (loc (sto (fst r2))) = Some b
                   <-> (aget m (api s) = Some b /\ u = bup b /\ shard_of n (bup b) = sh).
Proof.
  intros Hnd. simpl. unfold finish; simpl. split; [reflexivity|]. split; [reflexivity|].
  intros u m b.
  change (fold_left _ (api s) []) with (fold_left (load_step n sh) (api s) []).
  rewrite (load_fold_exact n sh (api s) Hnd). split.
  - intros [H1 H2]. split; [apply In_aget; assumption|exact H2].
  - intros [H1 H2]. split; [apply (alookup_In String.eqb String.eqb_eq); exact H1|exact H2].
Qed.

(* ------------------------------------------------------------------ graceful stop *)
Lemma key_mem_In k l : key_mem k l = true <-> In k l.
Proof.
  induction l as [|y r IH]; simpl; [split; [discriminate|tauto]|].
  destruct (key_eqb k y) eqn:E.
  - apply key_eqb_spec in E; subst. tauto.
  - rewrite IH. split; [tauto|]. intros [H|H]; [subst; assert (key_eqb k k = true) by (apply key_eqb_spec; reflexivity); congruence|exact H].
Qed.

Lemma flush_plain_frame n lk sh w snap ord : forall x dq rs x' dq' rs' out,
  flush_go n lk sh w snap ord [] x dq rs = (x', dq', rs', out) ->
  (forall m, ~ In m (map snd ord) -> aget m (wapi x') = aget m (wapi x)) /\ dq' = dq.
Proof.
  induction ord as [|k r IH]; intros x dq rs x' dq' rs' out; simpl.
  - intros H; inversion H; subst. tauto.
  - destruct (lget k snap) as [b|]; [|intros H; inversion H; subst; tauto].
    destruct (negb (shard_of n (bup b) =? sh)); [intros H; inversion H; subst; tauto|].
    destruct (cou 5 (wapi x) (wpl x) (snd k) b (Some b)) as [[a pl] cr] eqn:EC.
    apply cou_spec in EC; [|intros it X; inversion X; subst; apply ceq_refl].
    assert (HF : forall m, m <> snd k -> aget m a = aget m (wapi x)).
    { intros m Hm. destruct EC as [[-> _]|[it [-> _]]]; [reflexivity|apply aget_set_other; congruence]. }
    destruct cr.
    + intros H. apply IH in H. destruct H as [H1 H2]. split; [|exact H2].
      intros m Hm. rewrite H1; [|tauto]. simpl. apply HF. intros X; apply Hm; left; congruence.
    + intros H; inversion H; subst. split; [|reflexivity]. intros m Hm. simpl. apply HF. intros X; apply Hm; left; congruence.
    + intros H; inversion H; subst. split; [|reflexivity]. intros m Hm. simpl. apply HF. intros X; apply Hm; left; congruence.
Qed.

Lemma flush_plain_ok n lk sh w snap ord : forall x dq rs x' dq' rs',
  (forall k1 k2 b1 b2, lget k1 snap = Some b1 -> lget k2 snap = Some b2 -> snd k1 = snd k2 -> k1 = k2) ->
  key_nodup ord = true ->
  flush_go n lk sh w snap ord [] x dq rs = (x', dq', rs', ROk) ->
  forall k, In k ord -> exists b it, lget k snap = Some b /\ aget (snd k) (wapi x') = Some it /\ ceq it b.
Proof.
  induction ord as [|k0 r IH]; intros x dq rs x' dq' rs' Huniq Hnd; simpl.
  - intros _ k [].
  - simpl in Hnd. apply Bool.andb_true_iff in Hnd. destruct Hnd as [Hk0 Hnd].
    destruct (lget k0 snap) as [b0|] eqn:EL; [|discriminate].
    destruct (negb (shard_of n (bup b0) =? sh)); [discriminate|].
    destruct (cou 5 (wapi x) (wpl x) (snd k0) b0 (Some b0)) as [[a pl] cr] eqn:EC.
    apply cou_spec in EC; [|intros it X; inversion X; subst; apply ceq_refl].
    destruct cr as [it| |]; [|discriminate|discriminate].
    destruct EC as [[_ EC]|[it' [EC1 [EC2 EC3]]]]; [exfalso; eapply EC; reflexivity|].
    inversion EC2; subst it'. intros H.
    pose proof (IH _ _ _ _ _ _ Huniq Hnd H) as HR.
    intros k [->|Hin]; [|apply HR; exact Hin].
    exists b0, it. split; [exact EL|]. split; [|exact EC3].
    apply flush_plain_frame in H. destruct H as [H _]. rewrite H.
    + simpl. rewrite EC1. apply aget_set_same.
    + intros X. apply in_map_iff in X. destruct X as [k2 [X1 X2]].
      destruct (HR k2 X2) as [b2 [_ [E2 _]]].
      assert (k2 = k) by (eapply Huniq; eassumption). subst k2.
      apply key_mem_In in X2. rewrite X2 in Hk0. discriminate.
Qed.

Lemma run_inter_nil n lk sh w x dq rs : run_inter n lk sh w [] x dq rs = (x, dq, rs, false).
Proof. reflexivity. Qed.

(* Stop returned ok on a store that was not stopped => every condition the store holds is in the API *)
Lemma stop_flushes n lk owner s ord pl s' rs :
  Inv n owner s -> stopped (sto s) = false ->
  step n lk s (OStop ord pl) = (s', (ROk, rs)) ->
  forall k b, lget k (loc (sto s)) = Some b -> exists it, aget (snd k) (api s') = Some it /\ ceq it b.
Proof.
  intros [I1 [[_ O2] I3]] Hst. unfold step. destruct (dead (sto s)); [intros H; inversion H|]. rewrite Hst.
  unfold do_flush. simpl wloc.
  destruct (key_nodup ord) eqn:End; simpl negb; cbv iota; [|intros H; inversion H].
  destruct (flush_go n lk (shard (sto s)) (wt (sto s)) (loc (sto s)) ord [] (mkW (api s) (loc (sto s)) pl) [] [])
    as [[[x1 dq] rs1] out] eqn:EF.
  pose proof (flush_plain_frame _ _ _ _ _ _ _ _ _ _ _ _ _ EF) as [_ Hdq]. subst dq.
  destruct (res_eqb out RCrash) eqn:Ecr; [intros H; inversion H|].
  rewrite run_inter_nil.
  destruct (res_eqb out ROk) eqn:Eok.
  2:{ intros H; inversion H; subst. simpl in Eok; discriminate. }
  apply res_eqb_eq in Eok. subst out.
  destruct (forallb _ (loc (sto s))) eqn:Eall; [|intros H; inversion H].
  intros H; inversion H; subst. unfold finish; simpl.
  intros k b Hb.
  assert (Hin : In k ord).
  { pose proof Hb as Hb'. apply (alookup_In key_eqb key_eqb_spec) in Hb'.
    rewrite forallb_forall in Eall. specialize (Eall _ Hb'). simpl in Eall.
    destruct k as [u m]. rewrite (I3 u m b Hb) in Eall.
    rewrite Z.eqb_refl in Eall. simpl in Eall. apply key_mem_In; exact Eall. }
  eapply flush_plain_ok in EF; [| |exact End|exact Hin].
  - destruct EF as [b' [it [E1 [E2 E3]]]]. rewrite Hb in E1; inversion E1; subst. exists it; tauto.
  - intros [u1 m1] [u2 m2] b1 b2 H1 H2 Hm. simpl in Hm. subst m2.
    destruct (O2 _ _ _ H1) as [A1 _]. destruct (O2 _ _ _ H2) as [A2 _]. congruence.
Qed.

(* ------------------------------------------------------------------ graceful stop by the limiter *)
Lemma flush_plain_loc n lk sh w snap ord : forall x dq rs x' dq' rs' out,
  flush_go n lk sh w snap ord [] x dq rs = (x', dq', rs', out) -> wloc x' = wloc x.
Proof.
  induction ord as [|k r IH]; intros x dq rs x' dq' rs' out; simpl.
  - intros H; inversion H; subst. reflexivity.
  - destruct (lget k snap) as [b|]; [|intros H; inversion H; subst; reflexivity].
    destruct (negb (shard_of n (bup b) =? sh)); [intros H; inversion H; subst; reflexivity|].
    destruct (cou 5 (wapi x) (wpl x) (snd k) b (Some b)) as [[a pl] cr]. destruct cr.
    + intros H. apply IH in H. exact H.
    + intros H; inversion H; subst. reflexivity.
    + intros H; inversion H; subst. reflexivity.
Qed.

Lemma do_flush_plain_loc n lk sh w ord x x1 rs r : do_flush n lk sh w ord [] x = (x1, rs, r) -> wloc x1 = wloc x.
Proof.
  unfold do_flush. destruct (negb (key_nodup ord)); [intros H; inversion H; subst; reflexivity|].
  destruct (flush_go n lk sh w (wloc x) ord [] x [] []) as [[[x0 dq] rs1] out] eqn:EF.
  pose proof (flush_plain_frame _ _ _ _ _ _ _ _ _ _ _ _ _ EF) as [_ Hdq]. subst dq.
  apply flush_plain_loc in EF.
  destruct (res_eqb out RCrash); [intros H; inversion H; subst; exact EF|].
  rewrite run_inter_nil. intros H; inversion H; subst. exact EF.
Qed.

Definition UniqNames (l : localst) : Prop :=
  forall k1 k2 b1 b2, lget k1 l = Some b1 -> lget k2 l = Some b2 -> snd k1 = snd k2 -> k1 = k2.

Lemma do_flush_plain_ok n lk sh w ord x x1 rs :
  UniqNames (wloc x) -> LocOwn n sh (wloc x) ->
  do_flush n lk sh w ord [] x = (x1, rs, ROk) ->
  forall k b, lget k (wloc x) = Some b -> exists it, aget (snd k) (wapi x1) = Some it /\ ceq it b.
Proof.
  intros Huniq Hown. unfold do_flush.
  destruct (key_nodup ord) eqn:End; simpl negb; cbv iota; [|intros H; inversion H].
  destruct (flush_go n lk sh w (wloc x) ord [] x [] []) as [[[x0 dq] rs1] out] eqn:EF.
  pose proof (flush_plain_frame _ _ _ _ _ _ _ _ _ _ _ _ _ EF) as [_ Hdq]. subst dq.
  destruct (res_eqb out RCrash) eqn:Ecr; [intros H; inversion H|].
  rewrite run_inter_nil.
  destruct (res_eqb out ROk) eqn:Eok.
  2:{ intros H; inversion H; subst. simpl in Eok; discriminate. }
  apply res_eqb_eq in Eok. subst out.
  destruct (forallb _ (wloc x)) eqn:Eall; [|intros H; inversion H].
  intros H; inversion H; subst. intros k b Hb.
  assert (Hin : In k ord).
  { pose proof Hb as Hb'. apply (alookup_In key_eqb key_eqb_spec) in Hb'.
    rewrite forallb_forall in Eall. specialize (Eall _ Hb'). simpl in Eall.
    destruct k as [u m]. rewrite (Hown u m b Hb) in Eall.
    rewrite Z.eqb_refl in Eall. simpl in Eall. apply key_mem_In; exact Eall. }
  eapply flush_plain_ok in EF; [|exact Huniq|exact End|exact Hin].
  destruct EF as [b' [it [E1 [E2 E3]]]]. rewrite Hb in E1; inversion E1; subst. exists it; tauto.
Qed.

Lemma gstop_ok fuel n lk sh w : forall ords x x1,
  UniqNames (wloc x) -> LocOwn n sh (wloc x) ->
  gstop_go fuel n lk sh w ords x = (x1, ROk) ->
  forall k b, lget k (wloc x) = Some b -> exists it, aget (snd k) (wapi x1) = Some it /\ ceq it b.
Proof.
  induction fuel as [|f IH]; intros ords x x1 Hu Ho; [rewrite gstop_go_O; intros H; inversion H|].
  rewrite gstop_go_S.
  destruct (do_flush n lk sh w (hd [] ords) [] x) as [[x0 rs] r] eqn:EF.
  pose proof (do_flush_plain_loc _ _ _ _ _ _ _ _ _ EF) as Hloc.
  destruct r; try (intros H; inversion H; fail);
    try (intros H; intros k b Hb; eapply IH; [rewrite Hloc; exact Hu|rewrite Hloc; exact Ho|exact H|rewrite Hloc; exact Hb]).
  intros H; inversion H; subst. eapply do_flush_plain_ok; eassumption.
Qed.

(* number of Stop() attempts the limiter makes *)
Fixpoint gstop_attempts (fuel : nat) (n : Z) (lk : locks) (sh : Z) (w : bool) (ords : list (list key)) (x : world) : nat :=
  match fuel with
  | O => O
  | S f =>
      let '(x1, _, r) := do_flush n lk sh w (hd [] ords) [] x in
      match r with
      | ROk | RCrash => 1%nat
      | _ => S (gstop_attempts f n lk sh w (tl ords) x1)
      end
  end.

Lemma gstop_gives_up_only_after_all fuel n lk sh w : forall ords x x1,
  gstop_go fuel n lk sh w ords x = (x1, RErr) -> gstop_attempts fuel n lk sh w ords x = fuel.
Proof.
  induction fuel as [|f IH]; intros ords x x1; [reflexivity|].
  rewrite gstop_go_S. simpl gstop_attempts.
  destruct (do_flush n lk sh w (hd [] ords) [] x) as [[x0 rs] r].
  destruct r; try (intros H; inversion H; fail); intros H; f_equal; eapply IH; exact H.
Qed.

(* a graceful stop by the limiter (retry around Stop, bound 10): if it reports success — which it does
   unless ten flush attempts in a row fail — every condition the store holds is in the API; it only
   gives up after exactly ten failed attempts *)
Lemma graceful_stop_survives n lk owner s ords pl s' rs :
  Inv n owner s -> stopped (sto s) = false ->
  step n lk s (OGStop ords pl) = (s', (ROk, rs)) ->
  forall k b, lget k (loc (sto s)) = Some b -> exists it, aget (snd k) (api s') = Some it /\ ceq it b.
Proof.
  intros [I1 [[_ O2] I3]] Hst. unfold step. destruct (dead (sto s)); [intros H; inversion H|]. rewrite Hst.
  destruct (gstop_go 10 n lk (shard (sto s)) (wt (sto s)) ords (mkW (api s) (loc (sto s)) pl)) as [x r] eqn:EG.
  intros H; inversion H; subst r. unfold finish; simpl.
  intros k b Hb. eapply (gstop_ok 10 n lk (shard (sto s)) (wt (sto s)) ords (mkW (api s) (loc (sto s)) pl) x); [|exact I3|exact EG|exact Hb].
  simpl. intros [u1 m1] [u2 m2] b1 b2 H1' H2' Hm. simpl in Hm. subst m2.
  destruct (O2 _ _ _ H1') as [A1 _]. destruct (O2 _ _ _ H2') as [A2 _]. congruence.
Qed.

Lemma graceful_stop_gives_up_late n lk s ords pl s' rs :
  dead (sto s) = false -> stopped (sto s) = false ->
  step n lk s (OGStop ords pl) = (s', (RErr, rs)) ->
  gstop_attempts 10 n lk (shard (sto s)) (wt (sto s)) ords (mkW (api s) (loc (sto s)) pl) = 10%nat.
Proof.
  intros Hd Hst. unfold step. rewrite Hd, Hst.
  destruct (gstop_go 10 n lk (shard (sto s)) (wt (sto s)) ords (mkW (api s) (loc (sto s)) pl)) as [x r] eqn:EG.
  intros H; inversion H; subst r. eapply gstop_gives_up_only_after_all. exact EG.
Qed.

(* ------------------------------------------------------------------ Delete racing a flush *)
Lemma defers_nolocks w f : defers nolocks w f = false.
Proof. destruct f; reflexivity. Qed.

Lemma run_inter_prefix n sh w fs : forall x dq rs x' dq' rs' cr,
  run_inter n nolocks sh w fs x dq rs = (x', dq', rs', cr) ->
  exists t, rs' = rs ++ t /\ (fs <> [] -> t <> []).
Proof.
  induction fs as [|f r IH]; intros x dq rs x' dq' rs' cr; simpl.
  - intros H; inversion H; subst. exists []; rewrite app_nil_r; tauto.
  - rewrite defers_nolocks. destruct (do_fop n sh w f x) as [x1 q]. destruct (res_eqb q RCrash).
    + intros H; inversion H; subst. exists [q]; split; [reflexivity|discriminate].
    + intros H. apply IH in H. destruct H as [t [H1 _]]. exists (q :: t). rewrite H1, <- app_assoc. simpl.
      split; [reflexivity|discriminate].
Qed.

Lemma flush_locked_del n lk sh w snap k0 f ord : defers lk w f = true -> forall x dq rs x' dq' rs' out,
  flush_go n lk sh w snap ord [(k0, [f])] x dq rs = (x', dq', rs', out) ->
  rs' = rs /\ exists j, dq' = dq ++ repeat f j.
Proof.
  intros Hf. induction ord as [|k r IH]; intros x dq rs x' dq' rs' out; simpl.
  - intros H; inversion H; subst. split; [reflexivity|exists O; simpl; rewrite app_nil_r; reflexivity].
  - destruct (lget k snap) as [b|].
    2:{ intros H; inversion H; subst. split; [reflexivity|exists O; simpl; rewrite app_nil_r; reflexivity]. }
    destruct (negb (shard_of n (bup b) =? sh)).
    { intros H; inversion H; subst. split; [reflexivity|exists O; simpl; rewrite app_nil_r; reflexivity]. }
    destruct (key_eqb k k0); simpl; rewrite ?Hf; simpl.
    + destruct (cou 5 (wapi x) (wpl x) (snd k) b (Some b)) as [[a pl] cr]. destruct cr.
      * intros H. apply IH in H. destruct H as [H1 [j H2]]. split; [exact H1|].
        exists (S j). rewrite H2, <- app_assoc. reflexivity.
      * intros H; inversion H; subst. split; [reflexivity|exists 1%nat; reflexivity].
      * intros H; inversion H; subst. split; [reflexivity|exists 1%nat; reflexivity].
    + destruct (cou 5 (wapi x) (wpl x) (snd k) b (Some b)) as [[a pl] cr]. destruct cr.
      * intros H. apply IH in H. exact H.
      * intros H; inversion H; subst. split; [reflexivity|exists O; simpl; rewrite app_nil_r; reflexivity].
      * intros H; inversion H; subst. split; [reflexivity|exists O; simpl; rewrite app_nil_r; reflexivity].
Qed.

(* with the mutex taken by Delete (lk = true): a Delete issued while a flush is running, at any
   position, and acknowledged, leaves the condition deleted when both have returned *)
Lemma deleted_race_locked n lk owner s ord k0 X pl s' r ops2 :
  lk_del lk = true -> Inv n owner s ->
  step n lk s (OFlush ord [(k0, [FDelete (owner X) X])] pl) = (s', (r, [ROk])) ->
  Forall (no_save X) ops2 ->
  Gone X (api (run_state n lk s' ops2)) (loc (sto (run_state n lk s' ops2))).
Proof.
  intros Hlk [I1 [I2 I3]] H Hns.
  assert (Hnd' : NoDup (akeys (api s'))) by (eapply NoDup_step; eassumption).
  apply Gone_run; [exact Hnd'| |exact Hns].
  revert H. unfold step. destruct (dead (sto s)); [intros H; inversion H|].
  unfold do_flush. simpl wloc.
  destruct (negb (key_nodup ord)); [intros H; inversion H|].
  destruct (flush_go n lk (shard (sto s)) (wt (sto s)) (loc (sto s)) ord [(k0, [FDelete (owner X) X])]
              (mkW (api s) (loc (sto s)) pl) [] []) as [[[x1 dq] rs1] out] eqn:EF.
  pose proof (flush_locked_del n lk (shard (sto s)) (wt (sto s)) (loc (sto s)) k0 (FDelete (owner X) X) ord Hlk _ _ _ _ _ _ _ EF) as [Hrs [j Hdq]]. simpl in Hdq. subst rs1 dq.
  apply flush_go_R in EF. destruct EF as [[EF1 [EF2 _]] _].
  assert (HO1 : Owned owner (wapi x1) (wloc x1)).
  { eapply (Owned_pres n (shard (sto s))); [exact I2|exact EF1|right; exact EF2|].
    intros m it [[u [b [E1 E2]]]|[f [[F|[]] F2]]].
    - rewrite (ceq_bup _ _ E2). destruct I2 as [_ O2]. destruct (O2 _ _ _ E1). congruence.
    - subst f. simpl in F2. contradiction. }
  destruct (res_eqb out RCrash); [intros H; inversion H|].
  destruct j as [|j]; simpl repeat.
  { rewrite run_inter_nil. intros H; inversion H. }
  simpl run_inter.
  destruct (do_delete (owner X) X x1) as [x1' q] eqn:ED.
  destruct (res_eqb q RCrash) eqn:Eq.
  { intros H; inversion H; subst. simpl in Eq; discriminate. }
  destruct (run_inter n nolocks (shard (sto s)) (wt (sto s)) (repeat (FDelete (owner X) X) j) x1' [] [q])
    as [[[x2 dq2] rs2] crashed] eqn:ER.
  pose proof (run_inter_prefix _ _ _ _ _ _ _ _ _ _ _ ER) as [t [Ht1 Ht2]].
  intros H; inversion H; subst. simpl in H3. inversion H3; subst.
  destruct j as [|j]; [|exfalso; apply Ht2; [simpl; discriminate|reflexivity]].
  simpl in ER. inversion ER; subst.
  apply (delete_gone owner) in ED; [|exact HO1].
  destruct ED as [G1 G2]. unfold finish.
  match goal with |- context [res_eqb ?o RCrash] => destruct (res_eqb o RCrash) end; simpl; split; auto.
Qed.

(* the pinned code (lk = false): the same interleaving re-creates the deleted condition *)
Definition race_ops : list op :=
  [ORestart 0 false;
   OFg (FSave ("a.g1"%string, mkBody "a"%string 1 2 3)) [];
   OFlush [("a"%string, "a.g1"%string)] [(("a"%string, "a.g1"%string), [FDelete "a"%string "a.g1"%string])] [];
   ORestart 0 false;
   OLoad OOk].

Open Scope string_scope.
Lemma deleted_race_refuted :
  let s := run_state 1 nolocks (init []) (firstn 2 race_ops) in
  exists s' r,
    step 1 nolocks s (OFlush [("a", "a.g1")] [(("a", "a.g1"), [FDelete "a" "a.g1"])] []) = (s', (r, [ROk]))
    /\ aget "a.g1" (api s') = Some (mkBody "a" 1 2 3)
    /\ lget ("a", "a.g1") (loc (sto s')) = None
    /\ lget ("a", "a.g1") (loc (sto (run_state 1 nolocks s' [ORestart 0 false; OLoad OOk]))) = Some (mkBody "a" 1 2 3).
Proof.
  intros s.
  exists (fst (step 1 nolocks s (OFlush [("a", "a.g1")] [(("a", "a.g1"), [FDelete "a" "a.g1"])] []))), ROk.
  vm_compute. repeat split; reflexivity.
Qed.

(* ------------------------------------------------------------------ Save racing a flush (write-through) *)
(* with the mutex taken by a write-through Save: a Save issued while a flush is running, at any
   position, and acknowledged, is what the API holds when both have returned — the flush cannot
   overwrite it with the older version it listed *)
Lemma save_race_locked n lk s ord k0 c pl s' r :
  lk_save lk = true -> wt (sto s) = true ->
  step n lk s (OFlush ord [(k0, [FSave c])] pl) = (s', (r, [ROk])) ->
  exists b, aget (fst c) (api s') = Some b /\ ceq b (snd c).
Proof.
  intros Hlk Hwt. unfold step. destruct (dead (sto s)); [intros H; inversion H|].
  unfold do_flush. simpl wloc. rewrite Hwt.
  destruct (negb (key_nodup ord)); [intros H; inversion H|].
  destruct (flush_go n lk (shard (sto s)) true (loc (sto s)) ord [(k0, [FSave c])]
              (mkW (api s) (loc (sto s)) pl) [] []) as [[[x1 dq] rs1] out] eqn:EF.
  assert (Hd : defers lk true (FSave c) = true) by (simpl; rewrite Hlk; reflexivity).
  pose proof (flush_locked_del n lk (shard (sto s)) true (loc (sto s)) k0 (FSave c) ord Hd _ _ _ _ _ _ _ EF) as [Hrs [j Hdq]].
  simpl in Hdq. subst rs1 dq.
  destruct (res_eqb out RCrash); [intros H; inversion H|].
  destruct j as [|j]; simpl repeat.
  { rewrite run_inter_nil. intros H; inversion H. }
  simpl run_inter.
  destruct (do_save n (shard (sto s)) true c x1) as [x1' q] eqn:ED.
  destruct (res_eqb q RCrash) eqn:Eq.
  { intros H; inversion H; subst. simpl in Eq; discriminate. }
  destruct (run_inter n nolocks (shard (sto s)) true (repeat (FSave c) j) x1' [] [q])
    as [[[x2 dq2] rs2] crashed] eqn:ER.
  pose proof (run_inter_prefix _ _ _ _ _ _ _ _ _ _ _ ER) as [t [Ht1 Ht2]].
  intros H; inversion H; subst. simpl in H3. inversion H3; subst.
  destruct j as [|j]; [|exfalso; apply Ht2; [simpl; discriminate|reflexivity]].
  simpl in ER. inversion ER; subst.
  apply do_save_ack in ED. unfold finish.
  match goal with |- context [res_eqb ?o RCrash] => destruct (res_eqb o RCrash) end; simpl; exact ED.
Qed.

(* without it (Delete locks, Save does not): the acknowledged version 2 is overwritten by the listed
   version 1, the store holds 2, the API holds 1, and the next holder of the shard loads 1 *)
Lemma save_race_refuted :
  let lk := mkLocks true false in
  let c1 := ("a.g1", mkBody "a" 1 1 1) in let c2 := ("a.g1", mkBody "a" 2 2 2) in
  let s := run_state 1 lk (init []) [ORestart 0 true; OFg (FSave c1) []] in
  exists s' r,
    step 1 lk s (OFlush [("a", "a.g1")] [(("a", "a.g1"), [FSave c2])] []) = (s', (r, [ROk]))
    /\ aget "a.g1" (api s') = Some (snd c1)
    /\ lget ("a", "a.g1") (loc (sto s')) = Some (snd c2)
    /\ lget ("a", "a.g1") (loc (sto (run_state 1 lk s' [ORestart 0 true; OLoad OOk]))) = Some (snd c1).
Proof.
  intros lk c1 c2 s.
  exists (fst (step 1 lk s (OFlush [("a", "a.g1")] [(("a", "a.g1"), [FSave c2])] []))), ROk.
  vm_compute. repeat split; reflexivity.
Qed.
