(* C02 — the defect repaired by 473834c (C02_empty_username.diff), kept as a refutation of the
   UNREPAIRED model: WrapRequest without the empty-name refusal forwards a request of an authenticated
   identity with an empty name; the upstream then sees an empty Impersonate-User, which a kube-apiserver
   reads as "no impersonation": it acts as the bearer of the credential, i.e. as the gateway. *)
From KG Require Import Prelude C02_Model C02_Spec C02_HistModel C02_HistSpec.
Open Scope Z_scope.
Open Scope string_scope.
Open Scope list_scope.

Definition wrap_request_unrepaired (id : identity) (h : headers) : option headers :=
  if negb (String.eqb (h_get H_USER h) EmptyString) then Some h
  else
    let h1 := h_set H_USER (uname id) h in
    let h2 := fold_left (fun acc g => h_add H_GROUP g acc) (ugroups id) h1 in
    Some (fold_left add_extra (uextra id) h2).

Definition send_unrepaired (token client_ip : string) (id : identity) (h : headers) : outcome :=
  let h3 := bearer_wrapper token (user_agent_wrapper (reverse_proxy_headers client_ip h)) in
  match wrap_request_unrepaired id h3 with
  | None => Answered 502
  | Some h4 => if all_values_valid h4 then Forwarded (wire h4) else Answered 502
  end.

Definition pipeline_unrepaired (token client_ip : string) (h : headers) (id : identity) (authz : imp_item -> bool) : outcome :=
  match filters h id authz with
  | Pass h1 id1 => send_unrepaired token client_ip id1 h1
  | Refuse code => Answered code
  | Upgrade => NotModelled
  end.

(* the full-strength clause "whatever is forwarded tells the upstream the expected identity" is false of the
   unrepaired code: witness = the identity ("", ["system:masters"], no extras) and no client header *)
Theorem C02_identity_exact_refuted_unrepaired :
  exists token ip h id authz h',
    pipeline_unrepaired token ip h id authz = Forwarded h' /\
    told_clean (expected h id) = true /\
    told_identity h' = None /\                      (* the upstream acts as the gateway itself *)
    told_matches (told_identity h') (expected h id) = false.
Proof.
  exists "tok", "10.0.0.9", [], (mkId "" ["system:masters"] []), (fun _ => true).
  eexists. vm_compute. repeat split.
Qed.
Print Assumptions C02_identity_exact_refuted_unrepaired.

(* The defect repaired by 95b80b4, kept as a refutation of the UNREPAIRED model: the decision cache was keyed
   by HOST alone and dropped only when the cluster that created it stopped.  A server name moving between two
   live clusters kept the previous owner's cached decisions (history H1). *)
Definition hcaches_u := list (string * (Z * entries)).
Definition do_request_unrepaired (attl dttl : Z) (w : world) (cs : hcaches_u) (host requestor imp : string) : hcaches_u * hobs :=
  match owner w host with
  | None => (cs, mkHObs true 503 [] [])
  | Some (id, p) =>
      let q := (requestor, imp) in
      let ce := match aget host cs with Some ce => ce | None => (id, []) end in
      match (match eget q (snd ce) with
             | Some (allowed, exp) => if Z.leb (w_now w) exp then Some allowed else None
             | None => None end) with
      | Some allowed => (aset host ce cs, if allowed then mkHObs true 200 [(id, [imp])] [] else mkHObs true 403 [] [])
      | None =>
          match answer_of p q with
          | AAllow => (aset host (fst ce, eset q (true, w_now w + attl) (snd ce)) cs, mkHObs true 200 [(id, [imp])] [(id, q, AAllow)])
          | ADeny => (aset host (fst ce, eset q (false, w_now w + dttl) (snd ce)) cs, mkHObs true 403 [] [(id, q, ADeny)])
          | AError => (aset host (fst ce, edel q (snd ce)) cs, mkHObs true 403 [] [(id, q, AError)])
          end
      end
  end.
Fixpoint hrun_unrepaired (attl dttl : Z) (w : world) (cs : hcaches_u) (ops : list hop) : list hobs :=
  match ops with
  | [] => []
  | HReq host requestor imp :: r =>
      let (cs', b) := do_request_unrepaired attl dttl w cs host requestor imp in b :: hrun_unrepaired attl dttl w cs' r
  | HDelete c :: r =>
      let cs' := match aget c (w_live w) with
                 | Some (id, _) => filter (fun hc => negb (Z.eqb (fst (snd hc)) id)) cs
                 | None => cs end in
      mkHObs (snd (wstep w (HDelete c))) 0 [] [] :: hrun_unrepaired attl dttl (fst (wstep w (HDelete c))) cs' r
  | o :: r => mkHObs (snd (wstep w o)) 0 [] [] :: hrun_unrepaired attl dttl (fst (wstep w o)) cs r
  end.

Theorem C02_decision_of_current_cluster_refuted_host_keyed :
  exists attl dttl ops,
    hcheck attl world0 [] (combine ops (hrun_unrepaired attl dttl world0 [] ops)) <> (true, true).
Proof.
  exists 300, 30, [HCreate "a" ["h"] [(("alice", "bob"), AAllow)]; HCreate "b" [] [(("alice", "bob"), ADeny)];
                   HReq "h" "alice" "bob"; HMove "h" "a" "b"; HReq "h" "alice" "bob"].
  vm_compute. discriminate.
Qed.
Print Assumptions C02_decision_of_current_cluster_refuted_host_keyed.
