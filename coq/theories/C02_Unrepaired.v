(* C02 — the defect repaired by 473834c (C02_empty_username.diff), kept as a refutation of the
   UNREPAIRED model: WrapRequest without the empty-name refusal forwards a request of an authenticated
   identity with an empty name; the upstream then sees an empty Impersonate-User, which a kube-apiserver
   reads as "no impersonation": it acts as the bearer of the credential, i.e. as the gateway. *)
From KG Require Import Prelude C02_Model C02_Spec C02_HistModel C02_HistSpec.
Open Scope Z_scope.
Open Scope string_scope.
Open Scope list_scope.

Definition wrap_request_unrepaired (id : identity) (h : headers) : option headers :=
  if negb (String.eqb (h_get H_USER h) EmptyString) then Some h
  else
    let h1 := h_set H_USER (uname id) h in
    let h2 := fold_left (fun acc g => h_add H_GROUP g acc) (ugroups id) h1 in
    Some (fold_left add_extra (uextra id) h2).

Definition send_unrepaired (token client_ip : string) (id : identity) (h : headers) : outcome :=
  let h3 := bearer_wrapper token (user_agent_wrapper (reverse_proxy_headers client_ip h)) in
  match wrap_request_unrepaired id h3 with
  | None => Answered 502
  | Some h4 => if all_values_valid h4 then Forwarded (wire h4) else Answered 502
  end.

Definition pipeline_unrepaired (token client_ip : string) (h : headers) (id : identity) (authz : imp_item -> bool) : outcome :=
  match filters h id authz with
  | Pass h1 id1 => send_unrepaired token client_ip id1 h1
  | Refuse code => Answered code
  | Upgrade => NotModelled
  end.

(* the full-strength clause "whatever is forwarded tells the upstream the expected identity" is false of the
   unrepaired code: witness = the identity ("", ["system:masters"], no extras) and no client header *)
Theorem C02_identity_exact_refuted_unrepaired :
  exists token ip h id authz h',
    pipeline_unrepaired token ip h id authz = Forwarded h' /\
    told_clean (expected h id) = true /\
    told_identity h' = None /\                      (* the upstream acts as the gateway itself *)
    told_matches (told_identity h') (expected h id) = false.
Proof.
  exists "tok", "10.0.0.9", [], (mkId "" ["system:masters"] []), (fun _ => true).
  eexists. vm_compute. repeat split.
Qed.
Print Assumptions C02_identity_exact_refuted_unrepaired.

(* The CURRENT code (not repaired; reported): a server name that moves between two LIVE clusters keeps the
   decision cache of its previous owner (the cache is keyed by host, its lifetime is tied to the cluster
   that created it).  History H1: alias h of cluster a (allows alice>bob) is given to cluster b (denies);
   within the allow-TTL the request via h is forwarded to b without b's authorizer being asked.  So the
   hypothesis "no live move" of C02_decision_of_current_cluster cannot be dropped. *)
Theorem C02_live_move_refuted :
  exists attl dttl ops,
    hcheck attl world0 [] (combine ops (hrun attl dttl hstate0 ops)) <> (true, true).
Proof.
  exists 300, 30, [HCreate "a" ["h"] [(("alice", "bob"), AAllow)]; HCreate "b" [] [(("alice", "bob"), ADeny)];
                   HReq "h" "alice" "bob"; HMove "h" "a" "b"; HReq "h" "alice" "bob"].
  vm_compute. discriminate.
Qed.
Print Assumptions C02_live_move_refuted.
