(* C20 — property theorems (statements only; proofs live in C20_Proofs.v). *)
From KG Require Import Prelude C20_Model C20_Spec C20_Check C20_Proofs.
Open Scope Z_scope.

(* updating the status subresource of any kind served with one never changes spec, labels or generation
   (and does take status, annotations and the remaining metadata from the submitted object) *)
Theorem C20_status_update_keeps_spec_labels : forall k old new,
  served_sub (cfg k) = true -> 0 <= gen old ->
  exists r, before_update_status (cfg k) old new = Stored r
    /\ spec r = spec old /\ labels r = labels old /\ gen r = gen old
    /\ status r = status new /\ annotations r = annotations new /\ meta_rest r = meta_rest new.
Proof. exact status_update_keeps. Qed.
Print Assumptions C20_status_update_keeps_spec_labels.

(* updating the main resource of any kind served with a status subresource never changes status *)
Theorem C20_main_update_keeps_status : forall k old new r,
  served_sub (cfg k) = true -> before_update_main (cfg k) old new = Stored r -> status r = status old.
Proof. exact main_update_keeps_status. Qed.
Print Assumptions C20_main_update_keeps_status.

(* creation sets generation 1 and clears status for every kind served with a status subresource *)
Theorem C20_create : forall k new,
  exists r, before_create (cfg k) new = Stored r
    /\ gen r = 1 /\ spec r = spec new /\ labels r = labels new /\ annotations r = annotations new
    /\ (served_sub (cfg k) = true -> status r = zero_payload).
Proof. exact create_shape. Qed.
Print Assumptions C20_create.

(* main-resource update of a stored object whose generation can still grow: the update is accepted, and the
   generation is +1 exactly when the observable spec or annotations differ from the stored ones, unchanged
   otherwise ([unchanged] identifies a nil and an empty collection: they have the same wire form) *)
Theorem C20_generation_iff : forall k old new,
  0 <= gen old < max_int64 ->
  exists r, before_update_main (cfg k) old new = Stored r
    /\ spec r = spec new /\ annotations r = annotations new
    /\ (gen r = gen old + 1 <-> ~ unchanged old new)
    /\ (unchanged old new -> gen r = gen old)
    /\ (gen r = gen old \/ gen r = gen old + 1).
Proof. exact generation_iff. Qed.
Print Assumptions C20_generation_iff.

(* the executable specification of C20_Spec.v holds of the model for every kind, operation and pair *)
Theorem C20_model_meets_spec : forall k op old new,
  0 <= gen old < max_int64 ->
  clauses op (served_sub (cfg k)) old (model_out k op old new) = [true; true; true; true].
Proof. exact model_meets_spec. Qed.
Print Assumptions C20_model_meets_spec.

(* the comparison left by commit 1d76359 (reflect.DeepEqual of the .Interface() values) does NOT satisfy the
   generation clause: stored object without annotations, submitted "annotations": {} -> 5 becomes 6 *)
Theorem C20_generation_refuted_for_representation_equality :
  exists k old new r,
    0 <= gen old < max_int64 /\ before_update_main_mode Representation (cfg k) old new = Stored r
    /\ unchanged old new /\ gen r = gen old + 1.
Proof. exact generation_refuted_for_representation_equality. Qed.
Print Assumptions C20_generation_refuted_for_representation_equality.

(* non-vacuity: a spec change bumps 5 -> 6, a label-only change and the no-change pair keep 5, and a
   kind served with a status subresource exists *)
Example C20_generation_nonvacuous :
  let old := {| gen := 5; labels := CList [(1, 1)]; annotations := CNil; meta_rest := CNil;
                spec := {| ps := 1; pc := CList [1; 2] |}; status := zero_payload |} in
  let chg := set_spec old {| ps := 1; pc := CList [1; 3] |} in
  let lab := set_labels old (CList [(1, 2)]) in
  0 <= gen old < max_int64
  /\ option_map gen (match before_update_main (cfg KUpstreamCluster) old chg with Stored r => Some r | _ => None end) = Some 6
  /\ option_map gen (match before_update_main (cfg KUpstreamCluster) old lab with Stored r => Some r | _ => None end) = Some 5
  /\ option_map gen (match before_update_main (cfg KUpstreamCluster) old old with Stored r => Some r | _ => None end) = Some 5
  /\ served_sub (cfg KUpstreamCluster) = true.
Proof. vm_compute. repeat split; try reflexivity; discriminate. Qed.

(* ---------- the whole step (PrepareFor*, validation, Canonicalize): STORED object before vs STORED object after ---------- *)
(* main-resource update: the stored generation is +1 exactly when the stored (observable) spec or the stored
   annotations differ from what was stored before, unchanged otherwise; the stored status never changes for kinds
   served with a status subresource.  [r] is the object the store persists and serves, not the submitted one. *)
Theorem C20_stored_generation_iff_stored_change : forall k old new,
  0 <= gen old < max_int64 ->
  exists r, step_update_main (cfg k) old new = Stored r
    /\ (gen r = gen old + 1 <-> ~ stored_unchanged old r)
    /\ (stored_unchanged old r -> gen r = gen old)
    /\ (gen r = gen old \/ gen r = gen old + 1)
    /\ (served_sub (cfg k) = true -> status r = status old).
Proof. exact stored_generation_iff_stored_change. Qed.
Print Assumptions C20_stored_generation_iff_stored_change.

(* status update: the stored spec, labels and generation are the previous ones *)
Theorem C20_stored_status_update : forall k old new,
  served_sub (cfg k) = true -> 0 <= gen old ->
  exists r, step_update_status (cfg k) old new = Stored r
    /\ spec r = spec old /\ labels r = labels old /\ gen r = gen old
    /\ status r = status new /\ annotations r = annotations new /\ meta_rest r = meta_rest new.
Proof. exact stored_status_update. Qed.
Print Assumptions C20_stored_status_update.

(* create: stored generation 1, status cleared; the stored annotations are the submitted ones (so that a re-apply of
   the same manifest is a no-change update, see the example) *)
Theorem C20_stored_create : forall k new,
  exists r, step_create (cfg k) new = Stored r
    /\ gen r = 1 /\ spec r = spec new /\ labels r = labels new /\ annotations r = annotations new
    /\ (served_sub (cfg k) = true -> status r = zero_payload).
Proof. exact stored_create. Qed.
Print Assumptions C20_stored_create.

(* non-vacuity, with the annotation key 7 = kubectl.kubernetes.io/last-applied-configuration: create a manifest that
   carries it -> stored with it, generation 1; re-apply the identical manifest -> generation stays 1; a label-only
   change of the stored object -> stored annotations still carry it, generation stays 1; dropping it -> 2 *)
Example C20_stored_reapply_nonvacuous :
  let manifest := {| gen := 0; labels := CList [(1, 1)]; annotations := CList [(7, 1)]; meta_rest := CNil;
                     spec := {| ps := 1; pc := CList [1] |}; status := zero_payload |} in
  let gen_of out := match out with Stored r => Some (gen r, annotations r) | _ => None end in
  match step_create (cfg KUpstreamCluster) manifest with
  | Stored s1 =>
      gen_of (Stored s1) = Some (1, CList [(7, 1)])
      /\ gen_of (step_update_main (cfg KUpstreamCluster) s1 manifest) = Some (1, CList [(7, 1)])
      /\ gen_of (step_update_main (cfg KUpstreamCluster) s1 (set_labels manifest (CList [(1, 2)]))) = Some (1, CList [(7, 1)])
      /\ gen_of (step_update_main (cfg KUpstreamCluster) s1
                   {| gen := 0; labels := labels manifest; annotations := CNil; meta_rest := CNil;
                      spec := spec manifest; status := zero_payload |}) = Some (2, CNil)
  | _ => False
  end.
Proof. vm_compute. repeat split; reflexivity. Qed.
