(* C05 — proofs.  Part (a): the golib counter under every interleaving. *)
From KG Require Import Prelude Sched C05_Model C05_Spec.
From Coq Require Import ZifyBool ZifyNat.
Open Scope Z_scope.
Arguments Z.add : simpl never.
Arguments Z.sub : simpl never.
Arguments Z.leb : simpl never.
Arguments Z.ltb : simpl never.
Arguments Z.gtb : simpl never.
Arguments Z.geb : simpl never.
Arguments Z.eqb : simpl never.
Arguments Z.max : simpl never.

(* ------------------------------------------------------------------------- *)
(* invariant 1: shape of the counter — independent of what max does            *)
(* ------------------------------------------------------------------------- *)

Definition local1 (t : thread) : Prop :=
  match tpc t with
  | PAcq1 c => 0 <= c
  | PCas _ _ => False
  | PRel2 => False
  | _ => True
  end.

Definition Inv1 (st : cfg) : Prop :=
  count (fst st) = sumT weight (snd st) /\ Forall local1 (snd st).

Lemma weight_nonneg t : 0 <= weight t.
Proof. unfold weight; destruct (tpc t); lia. Qed.
Lemma holds_nonneg t : 0 <= holds t.
Proof. unfold holds; destruct (tpc t); lia. Qed.
Lemma holds_le_weight t : holds t <= weight t.
Proof. unfold holds, weight; destruct (tpc t); lia. Qed.
Lemma weight_le_1 t : weight t <= 1.
Proof. unfold weight; destruct (tpc t); lia. Qed.

Lemma start_local1 r : local1 {| tpc := fst (start r); rest := snd (start r); results := [] |}.
Proof. destruct r as [|[|n] r]; simpl; exact I. Qed.

Lemma finish_pc t r : tpc (finish t r) = fst (start (rest t)).
Proof. reflexivity. Qed.
Lemma finish_weight t r : weight (finish t r) = 0.
Proof. unfold weight; rewrite finish_pc. destruct (rest t) as [|[|n] l]; reflexivity. Qed.
Lemma finish_holds t r : holds (finish t r) = 0.
Proof. unfold holds; rewrite finish_pc. destruct (rest t) as [|[|n] l]; reflexivity. Qed.
Lemma finish_local1 t r : local1 (finish t r).
Proof. unfold local1; rewrite finish_pc. destruct (rest t) as [|[|n] l]; exact I. Qed.

Ltac fin_simpl :=
  rewrite ?finish_weight, ?finish_holds in *; unfold weight, holds, goto, grant in *; simpl in *.

Ltac loc1 :=
  apply Forall_upd; auto;
  repeat match goal with |- context [if ?b then _ else _] => destruct b eqn:? end;
  try apply finish_local1; try (unfold local1; simpl; first [exact I | lia]).

Lemma Inv1_step s ts i t :
  Inv1 (s, ts) -> nth_error ts i = Some t -> Inv1 (fst (step s t), upd ts i (snd (step s t))).
Proof.
  intros [Hc Hl] E; simpl in *.
  pose proof (Forall_nth _ _ _ _ Hl E) as Lt.
  pose proof (sumT_nth_le weight ts i t weight_nonneg E) as Wt.
  pose proof (sumT_nonneg weight ts weight_nonneg) as Wn.
  unfold Inv1, step; simpl.
  unfold local1 in Lt.
  destruct (tpc t) eqn:P; try contradiction.
  - (* PAcq0 *) simpl. split; [|loc1].
    rewrite (sumT_upd _ _ _ _ _ E). unfold weight at 2 3; rewrite P; simpl. lia.
  - (* PAcq1 *) simpl. split; [|loc1].
    rewrite (sumT_upd _ _ _ _ _ E). unfold weight at 2; rewrite P.
    destruct (c <? 0) eqn:C0; [lia|]. destruct (c >=? max s); fin_simpl; lia.
  - (* PAdd *) destruct (count s + 1 >? m) eqn:C; simpl; (split; [|loc1]).
    + rewrite (sumT_upd _ _ _ _ _ E). unfold weight at 2 3; rewrite P; simpl. lia.
    + rewrite (sumT_upd _ _ _ _ _ E). unfold weight at 2 3; rewrite P; simpl. lia.
  - (* PUndo *) simpl; split; [|loc1].
    rewrite (sumT_upd _ _ _ _ _ E), finish_weight. unfold weight at 2; rewrite P. lia.
  - (* PHold *) unfold weight at 1 in Wt; rewrite P in Wt; simpl in Wt.
    destruct (count s <=? 0) eqn:C; [lia|]. simpl; split; [|loc1].
    rewrite (sumT_upd _ _ _ _ _ E). unfold weight at 2 3; rewrite P; simpl. lia.
  - (* PRel1 *) unfold weight at 1 in Wt; rewrite P in Wt; simpl in Wt.
    destruct (count s - 1 <? 0) eqn:C; [lia|]. simpl; split; [|loc1].
    rewrite (sumT_upd _ _ _ _ _ E), finish_weight. unfold weight at 2; rewrite P. lia.
  - (* PRsz0 *) destruct (max s =? n); simpl; (split; [|loc1]).
    + rewrite (sumT_upd _ _ _ _ _ E), finish_weight. unfold weight at 2; rewrite P. lia.
    + rewrite (sumT_upd _ _ _ _ _ E). unfold weight at 2 3; rewrite P; simpl. lia.
  - (* PRsz1 *) simpl; split; [|loc1].
    rewrite (sumT_upd _ _ _ _ _ E), finish_weight. unfold weight at 2; rewrite P. lia.
  - (* PDone *) simpl; split.
    + rewrite (sumT_upd _ _ _ _ _ E). lia.
    + apply Forall_upd; auto. unfold local1; rewrite P; exact I.
Qed.

Lemma spawn_weight p : weight (spawn p) = 0.
Proof. destruct p as [|[|n] l]; reflexivity. Qed.
Lemma spawn_holds p : holds (spawn p) = 0.
Proof. destruct p as [|[|n] l]; reflexivity. Qed.

Lemma Inv1_init m0 progs : Inv1 (init m0 progs).
Proof.
  unfold Inv1, init; simpl. split.
  - induction progs as [|p r IH]; simpl; [reflexivity|]. rewrite spawn_weight. lia.
  - induction progs as [|p r IH]; simpl; constructor; auto. apply start_local1.
Qed.

Lemma Inv1_reachable m0 progs st : reachable step (init m0 progs) st -> Inv1 st.
Proof.
  intros R. eapply (invariant_reachable step Inv1); [|apply Inv1_init|exact R].
  intros s ts i t H E. apply Inv1_step; auto.
Qed.

(* count = holders + transient failers, 0 <= count <= number of goroutines: an int64 never wraps *)
Lemma counter_shape m0 progs sched :
  let st := crun (init m0 progs) sched in
  count (fst st) = sumT weight (snd st) /\
  0 <= holders st <= count (fst st) /\ count (fst st) <= Z.of_nat (List.length progs).
Proof.
  intros st. assert (I : Inv1 st) by (apply (Inv1_reachable m0 progs); exists sched; reflexivity).
  destruct I as [Hc _]. split; [exact Hc|]. rewrite Hc. unfold holders. split; [split|].
  - apply sumT_nonneg, holds_nonneg.
  - apply sumT_le, holds_le_weight.
  - pose proof (sumT_le_length weight (snd st) weight_le_1) as H.
    assert (L : List.length (snd st) = List.length progs).
    { unfold st, crun. clear. set (s0 := init m0 progs).
      assert (G : forall sc s1, List.length (snd (run step s1 sc)) = List.length (snd s1)).
      { induction sc as [|i r IH]; intros s1; simpl; auto. rewrite IH. unfold run1.
        destruct (nth_error (snd s1) i); auto. destruct (step (fst s1) t). simpl. apply upd_length. }
      rewrite G. unfold s0, init; simpl. apply map_length. }
    rewrite L in H. exact H.
Qed.

(* ------------------------------------------------------------------------- *)
(* invariant 2: holders <= M when no limit above M is ever configured         *)
(* ------------------------------------------------------------------------- *)

Definition cmd_ok (M : Z) (c : cmd) : Prop := match c with CRes n => n <= M | CAcq => True end.

Definition local2 (M : Z) (t : thread) : Prop :=
  match tpc t with
  | PAdd m => m <= M
  | PCas _ m => m <= M
  | PRsz0 n | PRsz1 n => n <= M
  | _ => True
  end /\ Forall (cmd_ok M) (rest t).

Definition Inv2 (M : Z) (st : cfg) : Prop :=
  Inv1 st /\ holders st <= M /\ max (fst st) <= M /\ Forall (local2 M) (snd st).

Lemma finish_local2 M t r : Forall (cmd_ok M) (rest t) -> local2 M (finish t r).
Proof.
  intros H. unfold local2, finish; simpl. destruct (rest t) as [|[|n] l]; simpl; auto.
  - inversion H; subst; auto.
  - inversion H; subst; auto.
Qed.

Lemma Inv2_step M s ts i t :
  Inv2 M (s, ts) -> nth_error ts i = Some t -> Inv2 M (fst (step s t), upd ts i (snd (step s t))).
Proof.
  intros (I1 & Hh & Hm & Hl) E.
  pose proof (Inv1_step s ts i t I1 E) as I1'.
  split; [exact I1'|].
  destruct I1 as [Hc Hl1]; simpl in *.
  pose proof (Forall_nth _ _ _ _ Hl E) as [Lt Lr].
  pose proof (Forall_nth _ _ _ _ Hl1 E) as L1.
  pose proof (sumT_le holds weight ts holds_le_weight) as HW.
  pose proof (sumT_nth_le holds ts i t holds_nonneg E) as Ht.
  unfold holders in *; simpl in *. unfold step. unfold local1 in L1.
  destruct (tpc t) eqn:P; try contradiction; simpl.
  - (* PAcq0 *) repeat split; auto.
    + rewrite (sumT_upd _ _ _ _ _ E). unfold holds at 2 3; rewrite P; simpl. lia.
    + apply Forall_upd; auto. split; simpl; auto.
  - (* PAcq1 *) repeat split; auto.
    + rewrite (sumT_upd _ _ _ _ _ E). unfold holds at 2; rewrite P.
      destruct (c <? 0); [|destruct (c >=? max s)]; fin_simpl; lia.
    + apply Forall_upd; auto. destruct (c <? 0); [|destruct (c >=? max s)].
      * split; simpl; auto.
      * apply finish_local2; auto.
      * split; simpl; auto.
  - (* PAdd *) destruct (count s + 1 >? m) eqn:C; simpl; repeat split; auto.
    + rewrite (sumT_upd _ _ _ _ _ E). unfold holds at 2 3; rewrite P; simpl. lia.
    + apply Forall_upd; auto. split; simpl; auto.
    + rewrite (sumT_upd _ _ _ _ _ E). unfold holds at 2 3; rewrite P; simpl. lia.
    + apply Forall_upd; auto. split; simpl; auto.
  - (* PUndo *) repeat split; auto.
    + rewrite (sumT_upd _ _ _ _ _ E), finish_holds. unfold holds at 2; rewrite P. lia.
    + apply Forall_upd; auto. apply finish_local2; auto.
  - (* PHold *) destruct (count s <=? 0); simpl; repeat split; auto.
    + rewrite (sumT_upd _ _ _ _ _ E), finish_holds. unfold holds at 2; rewrite P. lia.
    + apply Forall_upd; auto. apply finish_local2; auto.
    + rewrite (sumT_upd _ _ _ _ _ E). unfold holds at 2 3; rewrite P; simpl. lia.
    + apply Forall_upd; auto. split; simpl; auto.
  - (* PRel1 *) unfold holds at 1 in Ht; rewrite P in Ht; simpl in Ht.
    destruct (count s - 1 <? 0); simpl; repeat split; auto.
    + rewrite (sumT_upd _ _ _ _ _ E). unfold holds at 2 3; rewrite P; simpl. lia.
    + apply Forall_upd; auto. split; simpl; auto.
    + rewrite (sumT_upd _ _ _ _ _ E), finish_holds. unfold holds at 2; rewrite P. lia.
    + apply Forall_upd; auto. apply finish_local2; auto.
  - (* PRsz0 *) destruct (max s =? n); simpl; repeat split; auto.
    + rewrite (sumT_upd _ _ _ _ _ E), finish_holds. unfold holds at 2; rewrite P. lia.
    + apply Forall_upd; auto. apply finish_local2; auto.
    + rewrite (sumT_upd _ _ _ _ _ E). unfold holds at 2 3; rewrite P; simpl. lia.
    + apply Forall_upd; auto. split; simpl; auto.
  - (* PRsz1 *) repeat split; auto.
    + rewrite (sumT_upd _ _ _ _ _ E), finish_holds. unfold holds at 2; rewrite P. lia.
    + apply Forall_upd; auto. apply finish_local2; auto.
  - (* PDone *) repeat split; auto.
    + rewrite (sumT_upd _ _ _ _ _ E). lia.
    + apply Forall_upd; auto. split; [rewrite P; exact I|auto].
Qed.

Lemma Inv2_init M m0 progs :
  0 <= m0 <= M -> Forall (Forall (cmd_ok M)) progs -> Inv2 M (init m0 progs).
Proof.
  intros Hm Hp. split; [apply Inv1_init|]. unfold holders, init; simpl. repeat split.
  - assert (Z0 : sumT holds (map spawn progs) = 0).
    { clear. induction progs as [|p r IH]; simpl; [reflexivity|]. rewrite spawn_holds. lia. }
    lia.
  - lia.
  - induction Hp as [|p r Hp1 _ IH]; simpl; constructor; auto.
    unfold local2, spawn; simpl. destruct p as [|[|n] l]; simpl; auto.
    + inversion Hp1; subst; auto.
    + inversion Hp1; subst; auto.
Qed.

(* C05_counter_inv: for every number of goroutines, every program of TryAcquire/Release/Resize calls
   and every schedule: never more than M holders, provided no limit above M is ever configured
   (initial limit m0 <= M, every Resize argument <= M).  With no Resize: M = m0. *)
Theorem counter_inv M m0 progs sched :
  0 <= m0 <= M -> Forall (Forall (cmd_ok M)) progs ->
  holders (crun (init m0 progs) sched) <= M.
Proof.
  intros Hm Hp.
  assert (I : Inv2 M (crun (init m0 progs) sched)).
  { apply (invariant_lifting step (Inv2 M)); [|apply Inv2_init; auto].
    intros s ts i t H E. apply Inv2_step; auto. }
  destruct I as (_ & H & _). exact H.
Qed.

Lemma no_resize_cmd_ok M p : Forall (fun c => c = CAcq) p -> Forall (cmd_ok M) p.
Proof. induction 1 as [|c r Hc _ IH]; constructor; auto. subst; exact I. Qed.

Corollary counter_inv_static m0 progs sched :
  0 <= m0 -> Forall (Forall (fun c => c = CAcq)) progs ->
  holders (crun (init m0 progs) sched) <= m0.
Proof.
  intros Hm Hp. apply counter_inv; [lia|].
  induction Hp as [|p r Hp1 _ IH]; constructor; auto. apply no_resize_cmd_ok; auto.
Qed.

(* an admission at its Add step: holders (including the new one) <= the max this TryAcquire read *)
Theorem admit_le_read m0 progs sched i t m :
  let st := crun (init m0 progs) sched in
  nth_error (snd st) i = Some t -> tpc t = PAdd m ->
  tpc (snd (step (fst st) t)) = PHold ->
  holders (crun1 st i) <= m /\ holders st < m.
Proof.
  intros st E P A.
  assert (I : Inv1 st) by (apply (Inv1_reachable m0 progs); exists sched; reflexivity).
  destruct I as [Hc _].
  pose proof (sumT_le holds weight (snd st) holds_le_weight) as HW.
  assert (H1 : holders (crun1 st i) = holders st + 1 /\ count (fst st) + 1 <= m).
  { unfold crun1, run1, holders. rewrite E. unfold step in *. rewrite P in *.
    destruct (count (fst st) + 1 >? m) eqn:C; simpl in *; [discriminate|].
    rewrite (sumT_upd _ _ _ _ _ E). unfold holds at 2 3; rewrite P; simpl. lia. }
  unfold holders in *. lia.
Qed.

(* ---- Resize ---- *)
Definition carries (t : thread) (m : Z) : Prop := tpc t = PAdd m \/ exists c, tpc t = PCas c m.
Definition no_resize_left (t : thread) : Prop :=
  match tpc t with PRsz0 _ | PRsz1 _ => False | _ => True end /\ Forall (fun c => c = CAcq) (rest t).

Lemma finish_no_resize t r : Forall (fun c => c = CAcq) (rest t) -> no_resize_left (finish t r).
Proof.
  intros H. unfold no_resize_left, finish; simpl. destruct (rest t) as [|c l]; simpl; auto.
  inversion H; subst; simpl; auto.
Qed.

Definition InvR (M' : Z) (st0 st : cfg) : Prop :=
  max (fst st) = M' /\ Forall no_resize_left (snd st) /\
  forall i t m, nth_error (snd st) i = Some t -> carries t m ->
                m = M' \/ exists t0, nth_error (snd st0) i = Some t0 /\ carries t0 m.

Lemma InvR_step M' st0 st i : InvR M' st0 st -> InvR M' st0 (crun1 st i).
Proof.
  intros (Hm & Hn & Hc). unfold crun1, run1. destruct st as [s ts]; simpl in *.
  destruct (nth_error ts i) as [t|] eqn:E; [|repeat split; auto].
  pose proof (Forall_nth _ _ _ _ Hn E) as [Np Nr].
  assert (G : max (fst (step s t)) = M' /\ no_resize_left (snd (step s t)) /\
              forall m, carries (snd (step s t)) m -> m = M' \/ carries t m).
  { unfold step. destruct (tpc t) eqn:P; try contradiction; simpl.
    - repeat split; auto. intros m [H|[c H]]; simpl in H; discriminate.
    - split; [auto|]. destruct (c <? 0); [|destruct (c >=? max s)].
      + repeat split; auto. intros m0 [H|[c0 H]]; simpl in H; [discriminate|]. injection H as _ <-. auto.
      + split; [apply finish_no_resize; auto|]. intros m0 [H|[c0 H]]; rewrite finish_pc in H;
          destruct (rest t) as [|[|n] l]; simpl in H; discriminate.
      + repeat split; auto. intros m0 [H|[c0 H]]; simpl in H; [|discriminate]. injection H as <-. auto.
    - destruct (count s =? c); simpl.
      + repeat split; auto. intros m0 [H|[c0 H]]; simpl in H; discriminate.
      + repeat split; auto. intros m0 [H|[c0 H]]; simpl in H; [|discriminate]. injection H as <-.
        right. right. exists c. exact P.
    - destruct (count s + 1 >? m); simpl; repeat split; auto;
        intros m0 [H|[c0 H]]; simpl in H; discriminate.
    - split; [auto|]. split; [apply finish_no_resize; auto|]. intros m0 [H|[c0 H]]; rewrite finish_pc in H;
        destruct (rest t) as [|[|n] l]; simpl in H; discriminate.
    - destruct (count s <=? 0); simpl.
      + split; [auto|]. split; [apply finish_no_resize; auto|]. intros m0 [H|[c0 H]]; rewrite finish_pc in H;
          destruct (rest t) as [|[|n] l]; simpl in H; discriminate.
      + repeat split; auto. intros m0 [H|[c0 H]]; simpl in H; discriminate.
    - destruct (count s - 1 <? 0); simpl.
      + repeat split; auto. intros m0 [H|[c0 H]]; simpl in H; discriminate.
      + split; [auto|]. split; [apply finish_no_resize; auto|]. intros m0 [H|[c0 H]]; rewrite finish_pc in H;
          destruct (rest t) as [|[|n] l]; simpl in H; discriminate.
    - split; [auto|]. split; [apply finish_no_resize; auto|]. intros m0 [H|[c0 H]]; rewrite finish_pc in H;
        destruct (rest t) as [|[|n] l]; simpl in H; discriminate.
    - split; [auto|]. split; [split; [rewrite P; exact I|auto]|]. intros m0 [H|[c0 H]]; simpl in H; rewrite P in H; discriminate. }
  destruct (step s t) as [s' t'] eqn:S; simpl in *. destruct G as (G1 & G2 & G3).
  split; [exact G1|]. split; [apply Forall_upd; auto|].
  intros j tj m Ej Cj. simpl in Ej. destruct (Nat.eq_dec i j) as [->|Ne].
  - rewrite (nth_error_upd_eq _ _ _ _ E) in Ej. injection Ej as <-.
    destruct (G3 m Cj) as [->|Ct]; [auto|]. apply (Hc j t m E Ct).
  - rewrite nth_error_upd_neq in Ej by exact Ne. apply (Hc j tj m Ej Cj).
Qed.

(* C05_resize: once a Resize to M' has completed (no resize pending or left), max stays M', and a
   TryAcquire that loads max afterwards is admitted only while fewer than M' hold a slot.  The only
   admissions that may still use an older limit are those of goroutines that had ALREADY loaded it
   before the resize completed (they are bounded by the limit they read: admit_le_read). *)
Theorem resize_bound m0 progs sched0 M' sched i t0 t m :
  let st0 := crun (init m0 progs) sched0 in
  let st := crun st0 sched in
  max (fst st0) = M' -> Forall no_resize_left (snd st0) ->
  nth_error (snd st0) i = Some t0 -> (forall m', ~ carries t0 m') ->
  nth_error (snd st) i = Some t -> tpc t = PAdd m ->
  tpc (snd (step (fst st) t)) = PHold ->
  max (fst st) = M' /\ m = M' /\ holders st < M' /\ holders (crun1 st i) <= M'.
Proof.
  intros st0 st Hm Hn E0 Nc E P A.
  assert (I : InvR M' st0 st).
  { apply (invariant_lifting step (InvR M' st0)).
    - intros s ts j tj H Ej. pose proof (InvR_step M' st0 (s, ts) j H) as H'.
      unfold crun1, run1 in H'; simpl in H'. rewrite Ej in H'. destruct (step s tj); exact H'.
    - repeat split; auto. intros j tj mj Ej Cj. right. exists tj; auto. }
  destruct I as (I1 & _ & I3).
  assert (Em : m = M').
  { destruct (I3 i t m E (or_introl P)) as [->|[t0' [E0' C0]]]; auto.
    rewrite E0 in E0'. injection E0' as <-. exfalso. apply (Nc m C0). }
  subst m.
  assert (Est : st = crun (init m0 progs) (sched0 ++ sched)).
  { unfold st, st0, crun. rewrite run_app. reflexivity. }
  pose proof (admit_le_read m0 progs (sched0 ++ sched) i t M') as AL. simpl in AL.
  rewrite <- Est in AL. destruct (AL E P A) as [H1 H2]. auto.
Qed.

(* ---- Release gives the slot back exactly once ---- *)
Theorem release_once m0 progs sched i t :
  let st := crun (init m0 progs) sched in
  nth_error (snd st) i = Some t ->
  tpc t <> PRel2 /\
  (tpc t = PHold -> 0 < count (fst st) /\
                    fst (step (fst st) t) = fst st /\ tpc (snd (step (fst st) t)) = PRel1) /\
  (tpc t = PRel1 -> count (fst (step (fst st) t)) = count (fst st) - 1 /\
                    0 <= count (fst st) - 1 /\
                    snd (step (fst st) t) = finish t None).
Proof.
  intros st E.
  assert (I : Inv1 st) by (apply (Inv1_reachable m0 progs); exists sched; reflexivity).
  destruct I as [Hc Hl].
  pose proof (Forall_nth _ _ _ _ Hl E) as Lt. unfold local1 in Lt.
  pose proof (sumT_nth_le weight (snd st) i t weight_nonneg E) as Wt.
  split; [intros P; rewrite P in Lt; exact Lt|]. split; intros P.
  - unfold weight at 1 in Wt; rewrite P in Wt; simpl in Wt. unfold step; rewrite P.
    destruct (count (fst st) <=? 0) eqn:C; [lia|]. simpl. repeat split; auto. lia.
  - unfold weight at 1 in Wt; rewrite P in Wt; simpl in Wt. unfold step; rewrite P.
    destruct (count (fst st) - 1 <? 0) eqn:C; [lia|]. simpl. repeat split; auto. lia.
Qed.

Theorem quiescent_zero m0 progs sched :
  let st := crun (init m0 progs) sched in
  Forall (fun t => tpc t = PDone) (snd st) -> count (fst st) = 0 /\ holders st = 0.
Proof.
  intros st H.
  assert (I : Inv1 st) by (apply (Inv1_reachable m0 progs); exists sched; reflexivity).
  destruct I as [Hc _]. unfold holders. rewrite Hc. split; apply sumT_zero.
  - eapply Forall_impl; [|exact H]. intros t P; unfold weight; rewrite P; reflexivity.
  - eapply Forall_impl; [|exact H]. intros t P; unfold holds; rewrite P; reflexivity.
Qed.

(* ---- sequential behaviour (used by the wrapper layer) = solo runs of the interleaving model ---- *)
Fixpoint steps (k : nat) (s : sh) (t : thread) : sh * thread :=
  match k with O => (s, t) | S k' => let '(s', t') := step s t in steps k' s' t' end.

Definition solo_len_try (s : sh) : nat := if (0 <=? count s) && (count s >=? max s) then 2%nat else 3%nat.

Theorem seq_try_refines_solo s t :
  tpc t = PAcq0 -> 0 <= max s ->
  let '(s', t') := steps (solo_len_try s) s t in
  s' = fst (seq_try s) /\
  (if snd (seq_try s) then t' = grant t else t' = finish t (Some false)).
Proof.
  intros P Hm. unfold solo_len_try, seq_try.
  destruct (count s <? 0) eqn:C0.
  - replace ((0 <=? count s) && (count s >=? max s)) with false by lia.
    simpl. unfold step at 1. rewrite P. simpl. unfold step at 1; simpl. rewrite C0. simpl.
    unfold step; simpl. rewrite Z.eqb_refl. simpl. split; reflexivity.
  - destruct (count s >=? max s) eqn:C1.
    + replace ((0 <=? count s) && true) with true by lia.
      simpl. unfold step at 1. rewrite P. simpl. unfold step; simpl. rewrite C0, C1. simpl.
      split; reflexivity.
    + replace ((0 <=? count s) && false) with false by lia.
      replace (count s + 1 >? max s) with false by lia.
      simpl. unfold step at 1. rewrite P. simpl. unfold step at 1; simpl. rewrite C0, C1. simpl.
      unfold step; simpl. replace (count s + 1 >? max s) with false by lia. simpl. split; reflexivity.
Qed.

Definition solo_len_rel (s : sh) : nat := if count s <=? 0 then 1%nat else 2%nat.

Theorem seq_release_refines_solo s t :
  tpc t = PHold ->
  let '(s', t') := steps (solo_len_rel s) s t in
  s' = seq_release s /\ (0 < count s -> t' = finish t None).
Proof.
  intros P. unfold solo_len_rel, seq_release. destruct (count s <=? 0) eqn:C0.
  - simpl. unfold step. rewrite P, C0. split; [reflexivity|lia].
  - simpl. unfold step at 1. rewrite P, C0. simpl. unfold step; simpl.
    destruct (count s - 1 <? 0) eqn:C1; [lia|]. simpl. split; reflexivity.
Qed.

Lemma seq_try_spec s :
  0 <= count s ->
  (count s < max s -> seq_try s = (set_count s (count s + 1), true)) /\
  (max s <= count s -> seq_try s = (s, false)).
Proof.
  intros H0. unfold seq_try. split; intros H.
  - replace (count s <? 0) with false by lia. replace (count s >=? max s) with false by lia.
    replace (count s + 1 >? max s) with false by lia. reflexivity.
  - replace (count s <? 0) with false by lia. replace (count s >=? max s) with true by lia. reflexivity.
Qed.

Lemma seq_release_spec s : 0 < count s -> seq_release s = set_count s (count s - 1).
Proof.
  intros H. unfold seq_release. replace (count s <=? 0) with false by lia.
  replace (count s - 1 <? 0) with false by lia. reflexivity.
Qed.

(* k fresh requests in a row *)
Fixpoint try_n (k : nat) (s : sh) : sh * list bool :=
  match k with
  | O => (s, [])
  | S k' => let '(s1, b) := seq_try s in let '(s2, l) := try_n k' s1 in (s2, b :: l)
  end.

(* once nothing is in flight (count = 0), exactly M new requests are admitted and the next is not *)
Theorem refill (M : nat) s :
  count s = 0 -> max s = Z.of_nat M ->
  snd (try_n (M + 1) s) = repeat true M ++ [false].
Proof.
  intros Hc Hm.
  assert (G : forall k j s1, count s1 = Z.of_nat j -> max s1 = Z.of_nat (j + k) ->
                snd (try_n (k + 1) s1) = repeat true k ++ [false]).
  { induction k as [|k IH]; intros j s1 H1 H2.
    - simpl. destruct (seq_try_spec s1 ltac:(lia)) as [_ Hf]. rewrite Hf by lia. reflexivity.
    - simpl. destruct (seq_try_spec s1 ltac:(lia)) as [Ht _]. rewrite Ht by lia.
      specialize (IH (S j) (set_count s1 (count s1 + 1))).
      destruct (try_n (k + 1) (set_count s1 (count s1 + 1))) as [s2 l] eqn:T. simpl in *.
      f_equal. apply IH; simpl; lia. }
  apply (G M 0%nat s); simpl; lia.
Qed.

(* ------------------------------------------------------------------------- *)
(* the model's traces satisfy the executable schedule spec (C05_Spec)          *)
(* ------------------------------------------------------------------------- *)

Record Rel (ss : sst) (st : cfg) : Prop := {
  r_inv : Inv1 st;
  r_infl : s_inflight ss = holders st;
  r_max : s_max ss = max (fst st);
  r_me1 : max (fst st) <= s_maxever ss;
  r_me2 : holders st <= s_maxever ss;
  r_read : forall i t m, nth_error (snd st) i = Some t -> tpc t = PAdd m ->
                         zlookup (Z.of_nat i) (s_read ss) = Some m /\ m <= s_maxever ss;
}.

Lemma sched_walk_app ss a b :
  sched_walk ss (a ++ b) =
  let '(s1, b1, a1) := sched_walk ss a in
  let '(s2, b2, a2) := sched_walk s1 b in (s2, b1 && b2, a1 && a2).
Proof.
  revert ss; induction a as [|e r IH]; intros ss; simpl.
  - destruct (sched_walk ss b) as [[s2 b2] a2]. reflexivity.
  - destruct (sched_step ss e) as [[s1 b1] a1]. rewrite IH.
    destruct (sched_walk s1 r) as [[s2 b2] a2]. destruct (sched_walk s2 b) as [[s3 b3] a3].
    rewrite !andb_assoc. reflexivity.
Qed.

Lemma finish_not_add t r m : tpc (finish t r) <> PAdd m.
Proof. rewrite finish_pc. destruct (rest t) as [|[|n] l]; simpl; discriminate. Qed.

Ltac solve_inv1 Ri P :=
  let Q := fresh "Q" in
  pose proof Ri as Q; unfold step in Q; rewrite P in Q; simpl in Q;
  repeat match goal with
         | H : _ = true |- _ => rewrite H in Q
         | H : _ = false |- _ => rewrite H in Q
         end; exact Q.

Lemma rel_step ss s ts i t :
  Rel ss (s, ts) -> nth_error ts i = Some t -> live t = true ->
  let e := (Z.of_nat i, label (tpc t), fst (event s t), snd (event s t)) in
  exists ss', sched_step ss e = (ss', true, true) /\ Rel ss' (crun1 (s, ts) i).
Proof.
  intros R E Lv e.
  destruct R as [Ri Rf Rm R1 R2 Rr]; simpl in *.
  pose proof (Inv1_step s ts i t Ri E) as Ri'.
  destruct Ri as [Hc Hl]; simpl in *.
  pose proof (Forall_nth _ _ _ _ Hl E) as L1. unfold local1 in L1.
  pose proof (sumT_le holds weight ts holds_le_weight) as HW.
  pose proof (sumT_nth_le weight ts i t weight_nonneg E) as Wt.
  pose proof (sumT_nth_le holds ts i t holds_nonneg E) as Ht.
  unfold holders in *; simpl in *.
  assert (OTH : forall j tj x, i <> j -> nth_error (upd ts i x) j = Some tj -> nth_error ts j = Some tj).
  { intros j tj x Ne H. rewrite nth_error_upd_neq in H; auto. }
  unfold crun1, run1; simpl. rewrite E.
  unfold e, sched_step, event, label, step. unfold live in Lv.
  destruct (tpc t) eqn:P; try contradiction; try discriminate; simpl.
  - (* PAcq0 *) eexists; split; [repeat f_equal; lia|].
    constructor; simpl; auto; unfold holders; simpl; try (solve_inv1 Ri' P).
    + rewrite (sumT_upd _ _ _ _ _ E). unfold holds at 2 3; rewrite P; simpl. lia.
    + lia.
    + rewrite (sumT_upd _ _ _ _ _ E). unfold holds at 2 3; rewrite P; simpl. lia.
    + intros j tj m Ej Pj. destruct (Nat.eq_dec i j) as [<-|Ne].
      * rewrite (nth_error_upd_eq _ _ _ _ E) in Ej. injection Ej as <-. simpl in Pj. discriminate.
      * destruct (Rr j tj m (OTH _ _ _ Ne Ej) Pj). split; [auto|lia].
  - (* PAcq1 *) destruct (c <? 0) eqn:C0; [lia|].
    destruct (c >=? max s) eqn:C1; simpl.
    + eexists; split; [repeat f_equal; lia|].
      constructor; simpl; auto; unfold holders; simpl; try (solve_inv1 Ri' P).
      * rewrite (sumT_upd _ _ _ _ _ E), finish_holds. unfold holds at 2; rewrite P; simpl. lia.
      * lia.
      * rewrite (sumT_upd _ _ _ _ _ E), finish_holds. unfold holds at 2; rewrite P; simpl. lia.
      * intros j tj m Ej Pj. destruct (Nat.eq_dec i j) as [<-|Ne].
        -- rewrite (nth_error_upd_eq _ _ _ _ E) in Ej. injection Ej as <-. exfalso. eapply finish_not_add; eauto.
        -- destruct (Rr j tj m (OTH _ _ _ Ne Ej) Pj) as [Z1 Z2]. split; [|lia].
           replace (Z.of_nat j =? Z.of_nat i) with false by lia. exact Z1.
    + eexists; split; [repeat f_equal; lia|].
      constructor; simpl; auto; unfold holders; simpl; try (solve_inv1 Ri' P).
      * rewrite (sumT_upd _ _ _ _ _ E). unfold holds at 2 3; rewrite P; simpl. lia.
      * lia.
      * rewrite (sumT_upd _ _ _ _ _ E). unfold holds at 2 3; rewrite P; simpl. lia.
      * intros j tj m Ej Pj. destruct (Nat.eq_dec i j) as [<-|Ne].
        -- rewrite (nth_error_upd_eq _ _ _ _ E) in Ej. injection Ej as <-. simpl in Pj. injection Pj as <-.
           rewrite Z.eqb_refl. split; [congruence|lia].
        -- destruct (Rr j tj m (OTH _ _ _ Ne Ej) Pj) as [Z1 Z2]. split; [|lia].
           replace (Z.of_nat j =? Z.of_nat i) with false by lia. exact Z1.
  - (* PAdd *) destruct (Rr i t m E P) as [Z1 Z2].
    destruct (count s + 1 >? m) eqn:C; simpl.
    + eexists; split; [repeat f_equal; lia|].
      constructor; simpl; auto; unfold holders; simpl; try (solve_inv1 Ri' P).
      * rewrite (sumT_upd _ _ _ _ _ E). unfold holds at 2 3; rewrite P; simpl. lia.
      * lia.
      * rewrite (sumT_upd _ _ _ _ _ E). unfold holds at 2 3; rewrite P; simpl. lia.
      * intros j tj m' Ej Pj. destruct (Nat.eq_dec i j) as [<-|Ne].
        -- rewrite (nth_error_upd_eq _ _ _ _ E) in Ej. injection Ej as <-. simpl in Pj. discriminate.
        -- destruct (Rr j tj m' (OTH _ _ _ Ne Ej) Pj). split; [auto|lia].
    + rewrite Z1. eexists; split; [repeat f_equal; lia|].
      constructor; simpl; auto; unfold holders; simpl; try (solve_inv1 Ri' P).
      * rewrite (sumT_upd _ _ _ _ _ E). unfold holds at 2 3; rewrite P; simpl. lia.
      * lia.
      * rewrite (sumT_upd _ _ _ _ _ E). unfold holds at 2 3; rewrite P; simpl. lia.
      * intros j tj m' Ej Pj. destruct (Nat.eq_dec i j) as [<-|Ne].
        -- rewrite (nth_error_upd_eq _ _ _ _ E) in Ej. injection Ej as <-. simpl in Pj. discriminate.
        -- destruct (Rr j tj m' (OTH _ _ _ Ne Ej) Pj). split; [auto|lia].
  - (* PUndo *) eexists; split; [repeat f_equal; lia|].
    constructor; simpl; auto; unfold holders; simpl; try (solve_inv1 Ri' P).
    + rewrite (sumT_upd _ _ _ _ _ E), finish_holds. unfold holds at 2; rewrite P; simpl. lia.
    + lia.
    + rewrite (sumT_upd _ _ _ _ _ E), finish_holds. unfold holds at 2; rewrite P; simpl. lia.
    + intros j tj m' Ej Pj. destruct (Nat.eq_dec i j) as [<-|Ne].
      * rewrite (nth_error_upd_eq _ _ _ _ E) in Ej. injection Ej as <-. exfalso. eapply finish_not_add; eauto.
      * destruct (Rr j tj m' (OTH _ _ _ Ne Ej) Pj). split; [auto|lia].
  - (* PHold *) unfold weight at 1 in Wt; rewrite P in Wt; simpl in Wt.
    destruct (count s <=? 0) eqn:C0; [lia|]. simpl.
    eexists; split; [repeat f_equal; lia|].
    constructor; simpl; auto; unfold holders; simpl; try (solve_inv1 Ri' P).
    + rewrite (sumT_upd _ _ _ _ _ E). unfold holds at 2 3; rewrite P; simpl. lia.
    + lia.
    + rewrite (sumT_upd _ _ _ _ _ E). unfold holds at 2 3; rewrite P; simpl. lia.
    + intros j tj m' Ej Pj. destruct (Nat.eq_dec i j) as [<-|Ne].
      * rewrite (nth_error_upd_eq _ _ _ _ E) in Ej. injection Ej as <-. simpl in Pj. discriminate.
      * destruct (Rr j tj m' (OTH _ _ _ Ne Ej) Pj). split; [auto|lia].
  - (* PRel1 *) unfold weight at 1 in Wt; rewrite P in Wt; simpl in Wt.
    unfold holds at 1 in Ht; rewrite P in Ht; simpl in Ht.
    destruct (count s - 1 <? 0) eqn:C0; [lia|]. simpl.
    eexists; split; [repeat f_equal; lia|].
    constructor; simpl; auto; unfold holders; simpl; try (solve_inv1 Ri' P).
    + rewrite (sumT_upd _ _ _ _ _ E), finish_holds. unfold holds at 2; rewrite P; simpl. lia.
    + lia.
    + rewrite (sumT_upd _ _ _ _ _ E), finish_holds. unfold holds at 2; rewrite P; simpl. lia.
    + intros j tj m' Ej Pj. destruct (Nat.eq_dec i j) as [<-|Ne].
      * rewrite (nth_error_upd_eq _ _ _ _ E) in Ej. injection Ej as <-. exfalso. eapply finish_not_add; eauto.
      * destruct (Rr j tj m' (OTH _ _ _ Ne Ej) Pj). split; [auto|lia].
  - (* PRsz0 *) destruct (max s =? n) eqn:C; simpl.
    + eexists; split; [repeat f_equal; lia|].
      constructor; simpl; auto; unfold holders; simpl; try (solve_inv1 Ri' P).
      * rewrite (sumT_upd _ _ _ _ _ E), finish_holds. unfold holds at 2; rewrite P; simpl. lia.
      * lia.
      * lia.
      * rewrite (sumT_upd _ _ _ _ _ E), finish_holds. unfold holds at 2; rewrite P; simpl. lia.
      * intros j tj m' Ej Pj. destruct (Nat.eq_dec i j) as [<-|Ne].
        -- rewrite (nth_error_upd_eq _ _ _ _ E) in Ej. injection Ej as <-. exfalso. eapply finish_not_add; eauto.
        -- destruct (Rr j tj m' (OTH _ _ _ Ne Ej) Pj). split; [auto|lia].
    + eexists; split; [repeat f_equal; lia|].
      constructor; simpl; auto; unfold holders; simpl; try (solve_inv1 Ri' P).
      * rewrite (sumT_upd _ _ _ _ _ E). unfold holds at 2 3; rewrite P; simpl. lia.
      * lia.
      * rewrite (sumT_upd _ _ _ _ _ E). unfold holds at 2 3; rewrite P; simpl. lia.
      * intros j tj m' Ej Pj. destruct (Nat.eq_dec i j) as [<-|Ne].
        -- rewrite (nth_error_upd_eq _ _ _ _ E) in Ej. injection Ej as <-. simpl in Pj. discriminate.
        -- destruct (Rr j tj m' (OTH _ _ _ Ne Ej) Pj). split; [auto|lia].
  - (* PRsz1 *) eexists; split; [repeat f_equal; lia|].
    constructor; simpl; auto; unfold holders; simpl; try (solve_inv1 Ri' P).
    + rewrite (sumT_upd _ _ _ _ _ E), finish_holds. unfold holds at 2; rewrite P; simpl. lia.
    + lia.
    + rewrite (sumT_upd _ _ _ _ _ E), finish_holds. unfold holds at 2; rewrite P; simpl. lia.
    + intros j tj m' Ej Pj. destruct (Nat.eq_dec i j) as [<-|Ne].
      * rewrite (nth_error_upd_eq _ _ _ _ E) in Ej. injection Ej as <-. exfalso. eapply finish_not_add; eauto.
      * destruct (Rr j tj m' (OTH _ _ _ Ne Ej) Pj). split; [auto|lia].
Qed.

Lemma exec_rel sched : forall st ss, Rel ss st ->
  exists ss', sched_walk ss (snd (exec st sched)) = (ss', true, true) /\ Rel ss' (fst (exec st sched)).
Proof.
  induction sched as [|i r IH]; intros st ss R; simpl.
  - exists ss. split; auto.
  - destruct (nth_error (snd st) i) as [t|] eqn:E; [|apply IH; auto].
    destruct (live t) eqn:Lv; [|apply IH; auto].
    destruct st as [s ts]; cbn [fst snd] in *.
    destruct (rel_step ss s ts i t R E Lv) as [ss1 [S1 R1]].
    destruct (IH _ _ R1) as [ss2 [S2 R2]].
    destruct (exec (crun1 (s, ts) i) r) as [st' tr] eqn:X. cbn [fst snd] in *.
    exists ss2. cbn [sched_walk]. rewrite S1, S2. split; auto.
Qed.

Lemma drain_rel fuel : forall st ss, Rel ss st ->
  exists ss', sched_walk ss (snd (drain fuel st)) = (ss', true, true) /\ Rel ss' (fst (drain fuel st)).
Proof.
  induction fuel as [|f IH]; intros st ss R; cbn [drain].
  - exists ss; split; auto.
  - destruct (first_live (snd st) 0) as [i|]; [|exists ss; split; auto].
    destruct (exec_rel [i] st ss R) as [ss1 [S1 R1]].
    destruct (exec st [i]) as [st1 tr1] eqn:X1. cbn [fst snd] in *.
    destruct (IH _ _ R1) as [ss2 [S2 R2]].
    destruct (drain f st1) as [st2 tr2] eqn:X2. cbn [fst snd] in *.
    exists ss2. rewrite sched_walk_app, S1, S2. split; auto.
Qed.

Lemma Rel_init m0 progs : 0 <= m0 -> Rel (sst0 m0) (init m0 progs).
Proof.
  intros H.
  assert (Z0 : sumT holds (map spawn progs) = 0).
  { clear. induction progs as [|p r IH]; simpl; [reflexivity|]. rewrite spawn_holds. lia. }
  constructor; simpl; unfold holders; simpl; try lia.
  - apply Inv1_init.
  - intros i t m E P. exfalso. apply nth_error_In in E. apply in_map_iff in E as [p [<- _]].
    destruct p as [|[|n] l]; simpl in P; discriminate.
Qed.

Lemma first_live_none ts k : first_live ts k = None -> Forall (fun t => tpc t = PDone) ts.
Proof.
  revert k; induction ts as [|t r IH]; intros k H; simpl in *; [constructor|].
  unfold live in H. destruct (tpc t) eqn:P; try discriminate. constructor; eauto.
Qed.

(* for every initial limit, every set of programs and every schedule, the trace of the model
   passes the schedule clauses of the executable spec *)
Theorem sched_spec m0 progs sched :
  0 <= m0 ->
  let o := model_sched m0 progs sched in
  sched_bound_ok m0 (o_trace o) = true /\
  sched_admit_ok m0 (o_trace o) = true /\
  refill_ok m0 (o_trace o) (o_max o) (-1) = true /\
  (first_live (snd (fst (drain (drain_fuel progs) (fst (exec (init m0 progs) sched))))) 0 = None ->
   quiescent_ok m0 (o_trace o) (o_count o) = true).
Proof.
  intros H0 o. unfold o, model_sched.
  destruct (exec_rel sched _ _ (Rel_init m0 progs H0)) as [ss1 [S1 R1]].
  destruct (exec (init m0 progs) sched) as [st1 tr1] eqn:X1. cbn [fst snd] in *.
  destruct (drain_rel (drain_fuel progs) _ _ R1) as [ss2 [S2 R2]].
  destruct (drain (drain_fuel progs) st1) as [st2 tr2] eqn:X2. cbn [fst snd] in *.
  unfold sched_bound_ok, sched_admit_ok, refill_ok, quiescent_ok. cbn [o_trace o_max o_count o_results].
  rewrite sched_walk_app, S1, S2. cbn [fst snd andb].
  destruct R2 as [Ri Rf Rm _ _ _].
  repeat split.
  - rewrite Rm. lia.
  - intros FL. apply first_live_none in FL.
    destruct Ri as [Hc _]. rewrite Rf, Hc. unfold holders.
    rewrite (sumT_zero holds), (sumT_zero weight); [reflexivity| |].
    + eapply Forall_impl; [|exact FL]. intros t P; unfold weight; rewrite P; reflexivity.
    + eapply Forall_impl; [|exact FL]. intros t P; unfold holds; rewrite P; reflexivity.
Qed.

(* ========================================================================= *)
(* Part (b): reconfiguration histories through the wrapper                     *)
(* ========================================================================= *)

Lemma kind_eqb_eq a b : kind_eqb a b = true <-> a = b.
Proof. destruct a, b; simpl; split; intros H; try discriminate; auto. Qed.
Lemma kind_eqb_refl a : kind_eqb a a = true.
Proof. destruct a; reflexivity. Qed.
Lemma schema_eqb_eq a b : schema_eqb a b = true -> a = b.
Proof.
  destruct a, b; simpl; intros H; try discriminate; auto; f_equal; lia.
Qed.
Lemma schema_eqb_refl a : schema_eqb a a = true.
Proof. destruct a; simpl; auto; lia. Qed.

Lemma spec_eqb_eq a b : spec_eqb a b = true -> a = b.
Proof.
  unfold spec_eqb. revert b; induction a as [|[n s] a IH]; intros [|[n' s'] b]; simpl; intros H;
    try discriminate; auto.
  apply andb_true_iff in H as [H1 H2]. apply andb_true_iff in H1 as [Hn Hs].
  apply String.eqb_eq in Hn. apply schema_eqb_eq in Hs. subst. f_equal. apply IH; auto.
Qed.

Lemma zmem_In x l : zmem x l = true <-> In x l.
Proof.
  unfold zmem. rewrite existsb_exists. split.
  - intros [y [Hy E]]. apply Z.eqb_eq in E. subst; auto.
  - intros H. exists x. split; auto. apply Z.eqb_refl.
Qed.

Lemma zremove_notin x l : ~ In x l -> zremove x l = l.
Proof.
  induction l as [|y r IH]; simpl; intros H; auto.
  destruct (x =? y) eqn:E; [exfalso; apply H; left; lia|]. f_equal. apply IH. tauto.
Qed.

Lemma In_zremove x y l : NoDup l -> (In y (zremove x l) <-> In y l /\ y <> x).
Proof.
  induction l as [|z r IH]; simpl; intros N; [tauto|].
  inversion N as [|? ? Nz Nr]; subst.
  destruct (x =? z) eqn:E.
  - assert (Exz : x = z) by lia. subst z. split.
    + intros H. split; auto. intros ->. contradiction.
    + intros [[H|H] Hne]; [congruence|auto].
  - simpl. rewrite (IH Nr). assert (Nxz : x <> z) by lia. split.
    + intros [H|[H1 H2]]; [subst; split; auto|split; auto].
    + intros [[H|H] Hne]; auto.
Qed.

Lemma NoDup_zremove x l : NoDup l -> NoDup (zremove x l).
Proof.
  induction l as [|z r IH]; simpl; intros N; [constructor|].
  inversion N as [|? ? Nz Nr]; subst.
  destruct (x =? z); auto. constructor; auto. intros H. apply (In_zremove x z r Nr) in H. tauto.
Qed.

Lemma length_zremove x l : In x l -> Z.of_nat (List.length (zremove x l)) = Z.of_nat (List.length l) - 1.
Proof.
  induction l as [|z r IH]; simpl List.length; simpl zremove; intros H; [contradiction|].
  destruct (x =? z) eqn:E; [lia|]. simpl List.length. destruct H as [H|H]; [lia|]. specialize (IH H). lia.
Qed.

Lemma map_fst_remove_req r l : map fst (remove_req r l) = zremove r (map fst l).
Proof.
  induction l as [|[r' p] t IH]; simpl; auto. destruct (r =? r'); simpl; auto. f_equal; auto.
Qed.

Lemma lookup_req_none r l : lookup_req r l = None <-> ~ In r (map fst l).
Proof.
  induction l as [|[r' p] t IH]; simpl; [tauto|].
  destruct (r =? r') eqn:E.
  - split; [discriminate|]. intros H. exfalso. apply H. left. lia.
  - rewrite IH. split; intros H; [intros [H1|H1]; [lia|auto]|tauto].
Qed.

Lemma lookup_req_In r p l : lookup_req r l = Some p -> In (r, p) l.
Proof.
  induction l as [|[r' p'] t IH]; simpl; [discriminate|].
  destruct (r =? r') eqn:E; intros H.
  - injection H as <-. left. f_equal. lia.
  - right; auto.
Qed.

Lemma In_lookup_req r p l : NoDup (map fst l) -> In (r, p) l -> lookup_req r l = Some p.
Proof.
  induction l as [|[r' p'] t IH]; simpl; intros N H; [contradiction|].
  inversion N as [|? ? Nz Nr]; subst.
  destruct H as [H|H].
  - injection H as -> ->. rewrite Z.eqb_refl. reflexivity.
  - destruct (r =? r') eqn:E.
    + exfalso. apply Nz. assert (r = r') by lia. subst. apply (in_map fst) in H. exact H.
    + apply IH; auto.
Qed.

Lemma In_remove_req x p r l : NoDup (map fst l) -> (In (x, p) (remove_req r l) <-> In (x, p) l /\ x <> r).
Proof.
  induction l as [|[r' p'] t IH]; simpl; intros N; [tauto|].
  inversion N as [|? ? Nz Nr]; subst.
  destruct (r =? r') eqn:E.
  - assert (Err : r = r') by lia. subst r'. split.
    + intros H. split; auto. intros ->. apply Nz. apply (in_map fst) in H. exact H.
    + intros [[H|H] Hne]; [congruence|auto].
  - simpl. rewrite (IH Nr). assert (Nrr : r <> r') by lia. split.
    + intros [H|[H1 H2]]; [injection H as -> ->; split; auto|split; auto].
    + intros [[H|H] Hne]; auto.
Qed.

Lemma lookup_schema_In n s sp : lookup_schema n sp = Some s -> In (n, s) sp.
Proof.
  induction sp as [|[n' s'] r IH]; simpl; [discriminate|].
  destruct (String.eqb_spec n n'); intros H.
  - injection H as <-. subst. auto.
  - right; auto.
Qed.
Lemma lookup_schema_none n sp : lookup_schema n sp = None <-> ~ In n (map fst sp).
Proof.
  induction sp as [|[n' s'] r IH]; simpl; [tauto|].
  destruct (String.eqb_spec n n').
  - split; [discriminate|]. intros H; exfalso; apply H; auto.
  - rewrite IH. split; intros H; [intros [H1|H1]; [congruence|auto]|tauto].
Qed.
Lemma In_lookup_schema n s sp : NoDup (map fst sp) -> In (n, s) sp -> lookup_schema n sp = Some s.
Proof.
  induction sp as [|[n' s'] r IH]; simpl; intros N H; [contradiction|].
  inversion N as [|? ? Nz Nr]; subst.
  destruct H as [H|H].
  - injection H as -> ->. rewrite String.eqb_refl. reflexivity.
  - destruct (String.eqb_spec n n') as [->|Ne].
    + exfalso. apply Nz. apply (in_map fst) in H. exact H.
    + apply IH; auto.
Qed.

(* ---- the simulation relation between the wrapper model and the spec's bookkeeping ---- *)
Definition key_rel (w : world) (h : hst) (c n : string) : Prop :=
  match caches w c n, ents h c n with
  | None, None => True
  | Some ca, Some e =>
      ckind ca = kind_of (ccfg ca) /\ ekind e = ckind ca /\ elimit e = limit_of (ccfg ca) /\
      cgen ca < nextgen w /\
      match ckind ca with
      | KMif => 0 <= elimit e < two32 /\
                max (cst ca) = wrapu32 (elimit e) /\ count (cst ca) = Z.of_nat (List.length (eunf e)) /\
                NoDup (eunf e) /\ forall r, In r (eunf e) <-> In (r, PinObj c n (cgen ca)) (reqs w)
      | _ => eunf e = []
      end
  | _, _ => False
  end.

Record Core (w : world) (h : hst) : Prop := {
  co_key : forall c n, key_rel w h c n;
  co_infl : map fst (reqs w) = infl h;
  co_nodup : NoDup (map fst (reqs w));
  co_gen : forall r c n g, In (r, PinObj c n g) (reqs w) -> g < nextgen w;
}.

(* the cache map of a cluster mirrors its current spec *)
Definition cfg_rel (w : world) : Prop :=
  forall c n, match caches w c n with
              | Some ca => lookup_schema n (specs w c) = Some (ccfg ca)
              | None => lookup_schema n (specs w c) = None
              end.

Lemma Core_ext w h h' :
  (forall c n, ents h c n = ents h' c n) -> infl h = infl h' -> Core w h -> Core w h'.
Proof.
  intros He Hi [K I N G]. constructor; auto; [|congruence].
  intros c n. specialize (K c n). unfold key_rel in *. rewrite <- He. exact K.
Qed.

Lemma caches_set_eq w c n v : caches (set_cache w c n v) c n = v.
Proof. simpl. rewrite !String.eqb_refl. reflexivity. Qed.
Lemma caches_set_neq w c n v c' n' : (c, n) <> (c', n') -> caches (set_cache w c n v) c' n' = caches w c' n'.
Proof.
  intros H. simpl. destruct (String.eqb_spec c c'); destruct (String.eqb_spec n n'); simpl; auto.
  subst. congruence.
Qed.

Lemma key_rel_frame w h w' h' c n :
  caches w' c n = caches w c n -> ents h' c n = ents h c n ->
  (forall x, In x (reqs w') <-> In x (reqs w)) -> nextgen w <= nextgen w' ->
  key_rel w h c n -> key_rel w' h' c n.
Proof.
  intros Hc He Hr Hn K. unfold key_rel in *. rewrite Hc, He.
  destruct (caches w c n) as [ca|]; destruct (ents h c n) as [e|]; auto.
  destruct K as (K1 & K2 & K3 & K4 & K5). repeat split; auto; [lia|].
  destruct (ckind ca); auto. destruct K5 as (A0 & A & B & C & D). repeat split; auto; try lia.
  - intros H. apply Hr, D, H.
  - intros H. apply D, Hr, H.
Qed.

Definition upd_ent (o : option ent) (s : schema) : option ent :=
  match o with
  | Some e => if kind_eqb (ekind e) (kind_of s)
              then Some {| ekind := ekind e; elimit := limit_of s; eunf := eunf e |}
              else Some {| ekind := kind_of s; elimit := limit_of s; eunf := [] |}
  | None => Some {| ekind := kind_of s; elimit := limit_of s; eunf := [] |}
  end.

Definition spec_sync1 (h : hst) (c n : string) (s : schema) : hst :=
  {| ents := fun c' n' => if (String.eqb c c' && String.eqb n n')%bool then upd_ent (ents h c n) s
                          else ents h c' n';
     infl := infl h |}.

Lemma ents_sync1_eq h c n s : ents (spec_sync1 h c n s) c n = upd_ent (ents h c n) s.
Proof. simpl. rewrite !String.eqb_refl. reflexivity. Qed.
Lemma ents_sync1_neq h c n s c' n' : (c, n) <> (c', n') -> ents (spec_sync1 h c n s) c' n' = ents h c' n'.
Proof.
  intros H. simpl. destruct (String.eqb_spec c c'); destruct (String.eqb_spec n n'); simpl; auto.
  subst. congruence.
Qed.

Lemma key_dec (c n c' n' : string) : {(c, n) = (c', n')} + {(c, n) <> (c', n')}.
Proof.
  destruct (string_dec c c'); destruct (string_dec n n'); subst; auto; right; congruence.
Qed.

Lemma local_sync_frame w c n s :
  specs (local_sync w c n s) = specs w /\ reqs (local_sync w c n s) = reqs w /\
  nextgen w <= nextgen (local_sync w c n s) /\
  (forall c' n', (c, n) <> (c', n') -> caches (local_sync w c n s) c' n' = caches w c' n') /\
  (exists ca, caches (local_sync w c n s) c n = Some ca /\ ccfg ca = s).
Proof.
  unfold local_sync. destruct (caches w c n) as [ca|] eqn:E.
  - destruct (schema_eqb s (ccfg ca)) eqn:Q.
    + repeat split; auto; [lia|]. exists ca. split; auto. symmetry. apply schema_eqb_eq; auto.
    + destruct (negb (kind_eqb (ckind ca) (kind_of s))) eqn:K.
      * simpl. repeat split; auto; [lia| |].
        -- intros c' n' Hne. apply (caches_set_neq w c n _ c' n' Hne).
        -- rewrite !String.eqb_refl. simpl. eexists; split; reflexivity.
      * destruct s; simpl; (repeat split; auto; [lia| |]);
          try (intros c' n' Hne; apply (caches_set_neq w c n _ c' n' Hne));
          rewrite !String.eqb_refl; simpl; eexists; split; reflexivity.
  - simpl. repeat split; auto; [lia| |].
    + intros c' n' Hne. apply (caches_set_neq w c n _ c' n' Hne).
    + rewrite !String.eqb_refl. simpl. eexists; split; reflexivity.
Qed.

Definition schema_ok (s : schema) : Prop := match s with SMif m _ => 0 <= m < two32 | _ => True end.

Lemma local_sync_core w h c n s : schema_ok s -> Core w h -> Core (local_sync w c n s) (spec_sync1 h c n s).
Proof.
  intros OK [K I N G].
  destruct (local_sync_frame w c n s) as (Fs & Fr & Fn & Fc & _).
  constructor.
  - intros c' n'. destruct (key_dec c n c' n') as [Eq|Ne].
    + injection Eq as <- <-. specialize (K c n). unfold key_rel in *.
      rewrite ents_sync1_eq. unfold local_sync in *.
      destruct (caches w c n) as [ca|] eqn:E; destruct (ents h c n) as [e|] eqn:Ee; try contradiction.
      * destruct K as (K1 & K2 & K3 & K4 & K5).
        destruct (schema_eqb s (ccfg ca)) eqn:Q.
        -- apply schema_eqb_eq in Q. subst s. rewrite E. simpl.
           replace (kind_eqb (ekind e) (kind_of (ccfg ca))) with true
             by (rewrite K2, K1; symmetry; apply kind_eqb_refl).
           rewrite <- K3.
           replace {| ekind := ekind e; elimit := elimit e; eunf := eunf e |} with e
             by (destruct e; reflexivity).
           repeat split; auto.
        -- destruct (kind_eqb (ckind ca) (kind_of s)) eqn:KK; simpl negb; cbv iota.
           ++ (* same type: resize in place *)
              apply kind_eqb_eq in KK. simpl. rewrite K2, KK, kind_eqb_refl.
              destruct s as [m sg|q b sg|sg]; simpl in *; rewrite !String.eqb_refl; simpl.
              ** rewrite KK in *. destruct K5 as (A0 & A & B & C & D). repeat split; auto; try lia; apply D.
              ** rewrite KK in *. repeat split; auto.
              ** rewrite KK in *. repeat split; auto.
           ++ (* type change: new limiter object *)
              simpl. rewrite K2, KK. rewrite !String.eqb_refl. simpl.
              repeat split; auto; [lia|]. destruct s as [m sg|q b sg|sg]; simpl in *; auto.
              repeat split; auto; try lia; try apply NoDup_nil; try (intros []);
                try (intros H; apply G in H; lia).
      * (* first Sync of this name: NewFlowControlCache *)
        simpl. rewrite !String.eqb_refl. simpl.
        repeat split; auto; [lia|]. destruct s as [m sg|q b sg|sg]; simpl in *; auto.
        repeat split; auto; try lia; try apply NoDup_nil; try (intros []);
          try (intros H; apply G in H; lia).
    + apply (key_rel_frame w h); auto.
      * apply ents_sync1_neq; auto.
      * rewrite Fr. tauto.
  - rewrite Fr. exact I.
  - rewrite Fr. exact N.
  - intros r c' n' g H. rewrite Fr in H. apply G in H. lia.
Qed.

Definition msync_loop (c : string) (sp : spec) (w : world) : world :=
  fold_left (fun acc ns => local_sync acc c (fst ns) (snd ns)) sp w.
Definition ssync_loop (c : string) (sp : spec) (h : hst) : hst :=
  fold_left (fun acc ns => spec_sync1 acc c (fst ns) (snd ns)) sp h.

Lemma sync_loop c : forall sp w h, NoDup (map fst sp) -> Forall (fun ns => schema_ok (snd ns)) sp -> Core w h ->
  Core (msync_loop c sp w) (ssync_loop c sp h) /\
  specs (msync_loop c sp w) = specs w /\ reqs (msync_loop c sp w) = reqs w /\
  infl (ssync_loop c sp h) = infl h /\
  (forall c' n', (c' <> c \/ ~ In n' (map fst sp)) ->
     caches (msync_loop c sp w) c' n' = caches w c' n' /\ ents (ssync_loop c sp h) c' n' = ents h c' n') /\
  (forall n' s, In (n', s) sp ->
     (exists ca, caches (msync_loop c sp w) c n' = Some ca /\ ccfg ca = s) /\
     ents (ssync_loop c sp h) c n' = upd_ent (ents h c n') s).
Proof.
  induction sp as [|[n s] r IH]; intros w h ND SO C; simpl.
  - split; [exact C|]. do 3 (split; [reflexivity|]). split; [intros; split; reflexivity|].
    intros n' s' [].
  - inversion ND as [|? ? Nn Nr]; subst.
    destruct (local_sync_frame w c n s) as (Fs & Fr & Fn & Fc & Fe).
    inversion SO as [|? ? So1 So2]; subst. simpl in So1.
    pose proof (local_sync_core w h c n s So1 C) as C1.
    destruct (IH (local_sync w c n s) (spec_sync1 h c n s) Nr So2 C1) as (I1 & I2 & I3 & I4 & I5 & I6).
    unfold msync_loop, ssync_loop in *. simpl.
    split; [exact I1|]. split; [congruence|]. split; [congruence|]. split; [exact I4|]. split.
    + intros c' n' H.
      assert (Hne : (c, n) <> (c', n')) by (intros Q; injection Q as <- <-; destruct H as [H|H]; [congruence|apply H; left; reflexivity]).
      destruct (I5 c' n') as [A B]; [destruct H as [H|H]; [left; auto|right; intros Q; apply H; right; exact Q]|].
      rewrite A, B. split; [apply Fc; auto|apply ents_sync1_neq; auto].
    + intros n' s' [H|H].
      * injection H as <- <-. destruct (I5 c n) as [A B]; [right; exact Nn|].
        rewrite A, B. split; [exact Fe|apply ents_sync1_eq].
      * destruct (I6 n' s' H) as [A B]. split; [exact A|]. rewrite B.
        rewrite ents_sync1_neq; auto. intros Q. injection Q as <-. apply Nn.
        apply (in_map fst) in H. exact H.
Qed.

Definition del_loop (c : string) (dl : list string) (w : world) : world :=
  fold_left (fun acc n => set_cache acc c n None) dl w.

Lemma del_loop_spec c : forall dl w,
  specs (del_loop c dl w) = specs w /\ reqs (del_loop c dl w) = reqs w /\
  nextgen (del_loop c dl w) = nextgen w /\
  forall c' n', caches (del_loop c dl w) c' n' =
                if (String.eqb c c' && str_mem n' dl)%bool then None else caches w c' n'.
Proof.
  induction dl as [|n r IH]; intros w; simpl.
  - repeat split; auto. intros c' n'. rewrite andb_false_r. reflexivity.
  - destruct (IH (set_cache w c n None)) as (A & B & C & D). unfold del_loop in *.
    repeat split; auto. intros c' n'. rewrite D. simpl.
    destruct (String.eqb_spec c c'); simpl; auto.
    destruct (String.eqb_spec n' n); simpl.
    + subst. rewrite String.eqb_refl. destruct (str_mem n r); reflexivity.
    + destruct (str_mem n' r); auto. destruct (String.eqb_spec n n'); [congruence|reflexivity].
Qed.

Lemma spec_sync_ents h c sp c' n' :
  ents (spec_sync h c sp) c' n' =
  if String.eqb c c' then match lookup_schema n' sp with
                          | None => None
                          | Some s => upd_ent (ents h c' n') s
                          end
  else ents h c' n'.
Proof. reflexivity. Qed.

Definition Sim (w : world) (h : hst) : Prop := Core w h /\ cfg_rel w.

Lemma str_mem_iff x l : str_mem x l = true <-> In x l.
Proof. apply str_mem_In. Qed.

Lemma sync_sim w h c sp :
  NoDup (map fst sp) -> Forall (fun ns => schema_ok (snd ns)) sp ->
  Sim w h -> Sim (sync w c sp) (spec_sync h c sp).
Proof.
  intros ND SO [C F]. unfold sync.
  destruct (spec_eqb (specs w c) sp) eqn:Q.
  - (* nothing changed: DeepEqual *)
    apply spec_eqb_eq in Q. split; [|exact F].
    apply (Core_ext w h); auto. intros c' n'. rewrite spec_sync_ents.
    destruct (String.eqb_spec c c') as [<-|Ne]; auto.
    specialize (F c n'). pose proof (co_key w h C c n') as K. unfold key_rel in K.
    rewrite Q in F.
    destruct (caches w c n') as [ca|]; destruct (ents h c n') as [e|] eqn:Ee; try contradiction.
    + rewrite F. destruct K as (K1 & K2 & K3 & _). simpl.
      replace (kind_eqb (ekind e) (kind_of (ccfg ca))) with true
        by (rewrite K2, K1; symmetry; apply kind_eqb_refl).
      rewrite <- K3. destruct e; reflexivity.
    + rewrite F. reflexivity.
  - destruct (sync_loop c sp w h ND SO C) as (L1 & L2 & L3 & L4 & L5 & L6).
    fold (msync_loop c sp w) in *.
    set (w1 := msync_loop c sp w) in *.
    set (dl := filter (fun n => negb (str_mem n (map fst sp))) (map fst (specs w c))).
    fold (del_loop c dl w1).
    destruct (del_loop_spec c dl w1) as (D1 & D2 & D3 & D4).
    set (w2 := del_loop c dl w1) in *.
    assert (DL : forall n', str_mem n' dl = true <-> (In n' (map fst (specs w c)) /\ ~ In n' (map fst sp))).
    { intros n'. rewrite str_mem_iff. unfold dl. rewrite filter_In. rewrite negb_true_iff.
      split; intros [A B]; split; auto.
      - intros H. apply str_mem_iff in H. congruence.
      - destruct (str_mem n' (map fst sp)) eqn:M; auto. apply str_mem_iff in M. contradiction. }
    assert (CACHE : forall c' n',
              caches w2 c' n' =
              if String.eqb c c' then match lookup_schema n' sp with
                                      | Some s => caches w1 c' n'
                                      | None => None end
              else caches w c' n').
    { intros c' n'. rewrite D4. destruct (String.eqb_spec c c') as [<-|Ne]; simpl.
      - destruct (lookup_schema n' sp) as [s|] eqn:LS.
        + replace (str_mem n' dl) with false; auto. symmetry. apply not_true_iff_false. intros M.
          apply DL in M as [_ M]. apply M. apply lookup_schema_In in LS. apply (in_map fst) in LS. exact LS.
        + apply lookup_schema_none in LS. destruct (str_mem n' dl) eqn:M; auto.
          destruct (L5 c n') as [A _]; [right; exact LS|]. rewrite A.
          specialize (F c n'). destruct (caches w c n') as [ca|]; auto.
          exfalso. apply lookup_schema_In in F. apply (in_map fst) in F. simpl in F.
          assert (M' : str_mem n' dl = true) by (apply DL; split; auto). congruence.
      - destruct (L5 c' n') as [A _]; [left; congruence|]. exact A. }
    split.
    + (* Core *)
      constructor; cbn [caches nextgen reqs specs].
      * intros c' n'. unfold key_rel. cbn [caches nextgen reqs specs]. rewrite CACHE. rewrite spec_sync_ents.
        destruct (String.eqb_spec c c') as [<-|Ne].
        -- destruct (lookup_schema n' sp) as [s|] eqn:LS; auto.
           apply lookup_schema_In in LS. destruct (L6 n' s LS) as [_ B]. rewrite <- B.
           pose proof (co_key _ _ L1 c n') as K. unfold key_rel in K. fold w1 in K.
           rewrite D3, D2. exact K.
        -- destruct (L5 c' n') as [A B]; [left; congruence|].
           pose proof (co_key _ _ L1 c' n') as K. unfold key_rel in K. fold w1 in K.
           rewrite A, B in K. rewrite D3, D2. exact K.
      * rewrite D2, L3. apply (co_infl _ _ C).
      * rewrite D2, L3. apply (co_nodup _ _ C).
      * intros r c' n' g H. rewrite D2 in H. rewrite D3. apply (co_gen _ _ L1 r c' n' g H).
    + (* cfg_rel *)
      intros c' n'. cbn [caches nextgen reqs specs]. rewrite CACHE.
      destruct (String.eqb_spec c c') as [<-|Ne].
      * destruct (lookup_schema n' sp) as [s|] eqn:LS; auto.
        pose proof LS as LS'. apply lookup_schema_In in LS'. destruct (L6 n' s LS') as [[ca [A B]] _].
        fold w1 in A. rewrite A. congruence.
      * rewrite D1, L2. apply (F c' n').
Qed.

Lemma wrapu32_small m : 0 <= m < two32 -> wrapu32 m = m.
Proof. intros H. unfold wrapu32. apply Z.mod_small; exact H. Qed.

Lemma core_add_req w h r p :
  Core w h -> lookup_req r (reqs w) = None ->
  (forall c n g, p = PinObj c n g ->
     g < nextgen w /\ exists ca, caches w c n = Some ca /\ ckind ca <> KMif) ->
  Core {| specs := specs w; caches := caches w; nextgen := nextgen w; reqs := (r, p) :: reqs w |}
       {| ents := ents h; infl := r :: infl h |}.
Proof.
  intros [K I N G] LR HP. apply lookup_req_none in LR. constructor; simpl.
  - intros c n. specialize (K c n). unfold key_rel in *; simpl.
    destruct (caches w c n) as [ca|] eqn:E; destruct (ents h c n) as [e|]; auto.
    destruct K as (K1 & K2 & K3 & K4 & K5). repeat split; auto.
    destruct (ckind ca) eqn:KC; auto. destruct K5 as (A0 & A & B & C & D). repeat split; auto; try lia.
    + intros H. right. apply D, H.
    + intros [H|H]; [|apply D, H]. injection H as _ Hp.
      destruct (HP _ _ _ Hp) as [_ [ca' [E' KC']]]. rewrite E in E'. injection E' as <-. congruence.
  - f_equal; auto.
  - constructor; auto.
  - intros r' c n g [H|H]; [|eapply G; eauto]. injection H as _ Hp.
    destruct (HP _ _ _ Hp) as [Hg _]. exact Hg.
Qed.

Lemma cfg_rel_same_cfg w c n ca ca' rq :
  cfg_rel w -> caches w c n = Some ca -> ccfg ca' = ccfg ca ->
  cfg_rel {| specs := specs w;
             caches := caches (set_cache w c n (Some ca'));
             nextgen := nextgen w; reqs := rq |}.
Proof.
  intros F E Q c' n'. cbn [caches specs]. destruct (key_dec c n c' n') as [Eq|Ne].
  - injection Eq as <- <-. rewrite caches_set_eq. rewrite Q. specialize (F c n). rewrite E in F. exact F.
  - rewrite caches_set_neq by exact Ne. apply F.
Qed.

Lemma acquire_sim w h c n r :
  Sim w h ->
  exists h', hist_step h (WAcq c n r) (snd (acquire w c n r)) = (h', true, true) /\
             Sim (fst (acquire w c n r)) h'.
Proof.
  intros [C F]. pose proof C as [K I N G]. unfold acquire. cbn [hist_step].
  destruct (lookup_req r (reqs w)) as [p|] eqn:LR.
  - (* r is still in flight *)
    assert (Z1 : zmem r (infl h) = true).
    { apply zmem_In. rewrite <- I. apply lookup_req_In in LR. apply (in_map fst) in LR. exact LR. }
    rewrite Z1. exists h. split; [reflexivity|split; auto].
  - assert (Z0 : zmem r (infl h) = false).
    { apply not_true_iff_false. intros H. apply zmem_In in H. rewrite <- I in H.
      apply lookup_req_none in LR. contradiction. }
    rewrite Z0.
    assert (TG : match (if String.eqb n "" then None else caches w c n),
                       (if String.eqb n "" then None else ents h c n) with
                 | None, None => True
                 | Some ca, Some e => caches w c n = Some ca /\ ents h c n = Some e
                 | _, _ => False end).
    { destruct (String.eqb n ""); auto. specialize (K c n). unfold key_rel in K.
      destruct (caches w c n); destruct (ents h c n); auto. }
    destruct (if String.eqb n "" then None else caches w c n) as [ca|];
      destruct (if String.eqb n "" then None else ents h c n) as [e|]; try contradiction.
    + destruct TG as [E Ee]. pose proof (K c n) as Kc. unfold key_rel in Kc. rewrite E, Ee in Kc.
      destruct Kc as (K1 & K2 & K3 & K4 & K5). rewrite K2.
      destruct (ckind ca) eqn:KC.
      * (* max-in-flight *)
        destruct K5 as (A0 & A & B & Cn & D). rewrite (wrapu32_small _ A0) in A.
        replace (elimit e <? 0) with false by lia.
        assert (Hc0 : 0 <= count (cst ca)) by lia.
        destruct (seq_try_spec (cst ca) Hc0) as [Ht Hf].
        destruct (Z_lt_le_dec (count (cst ca)) (max (cst ca))) as [Lt|Ge].
        -- rewrite (Ht Lt). cbn [fst snd]. replace (2 =? 2) with true by lia.
           eexists. split.
           { replace (Z.of_nat (List.length (eunf e)) <? elimit e) with true by lia. reflexivity. }
           assert (NI : ~ In r (eunf e)).
           { intros H. apply D in H. apply (in_map fst) in H. apply lookup_req_none in LR. contradiction. }
           split.
           ++ constructor; cbn [caches nextgen reqs specs ents infl].
              ** intros c' n'. destruct (key_dec c n c' n') as [Eq|Ne].
                 --- injection Eq as <- <-. unfold key_rel. cbn [caches nextgen reqs ents].
                     rewrite caches_set_eq. rewrite !String.eqb_refl. cbn [andb ccfg ckind cst cgen ekind elimit eunf].
                     repeat split; auto; simpl; try lia;
                       try (rewrite wrapu32_small by lia; lia);
                       try (constructor; auto; fail);
                       try (intros [H|H]; [left; congruence|right; apply D, H]).
                 --- pose proof (K c' n') as K'. unfold key_rel in *. cbn [caches nextgen reqs ents].
                     rewrite caches_set_neq by exact Ne.
                     replace ((c =? c')%string && (n =? n')%string) with false
                       by (symmetry; destruct (String.eqb_spec c c'); destruct (String.eqb_spec n n'); simpl; auto; subst; congruence).
                     destruct (caches w c' n') as [ca'|]; destruct (ents h c' n') as [e'|]; auto.
                     destruct K' as (Q1 & Q2 & Q3 & Q4 & Q5). repeat split; auto.
                     destruct (ckind ca'); auto. destruct Q5 as (B0 & B1 & B2 & B3 & B4). repeat split; auto; try lia.
                     +++ intros H. right. apply B4, H.
                     +++ intros [H|H]; [|apply B4, H]. exfalso. apply Ne. congruence.
              ** simpl. f_equal; auto.
              ** simpl. constructor; auto. apply lookup_req_none in LR. exact LR.
              ** simpl. intros r' c' n' g [H|H]; [|eapply G; eauto]. injection H as _ <- <- <-. exact K4.
           ++ apply (cfg_rel_same_cfg w c n ca); auto.
        -- rewrite (Hf Ge). cbn [fst snd]. replace (1 =? 2) with false by lia.
           exists h. split; [|split; auto].
           replace (1 =? 1) with true by lia. replace (elimit e <=? Z.of_nat (List.length (eunf e))) with true by lia.
           reflexivity.
      * (* token bucket *)
        cbn [fst snd]. replace (2 =? 2) with true by lia. eexists. split; [reflexivity|]. split.
        -- apply core_add_req; auto. intros c' n' g Hp. injection Hp as <- <- <-. split; auto.
           exists ca. split; auto. congruence.
        -- exact F.
      * (* exempt *)
        cbn [fst snd]. replace (2 =? 2) with true by lia. eexists. split; [reflexivity|]. split.
        -- apply core_add_req; auto. intros c' n' g Hp. injection Hp as <- <- <-. split; auto.
           exists ca. split; auto. congruence.
        -- exact F.
    + (* no schema of that name: default flow control *)
      cbn [fst snd]. replace (2 =? 2) with true by lia. eexists. split; [reflexivity|]. split.
      * apply core_add_req; auto. intros c' n' g Hp. discriminate.
      * exact F.
Qed.

Definition pin_hits (p : pin) (c' n' : string) (ca' : cache) : bool :=
  match p with
  | PinObj c n g => String.eqb c c' && String.eqb n n' && (cgen ca' =? g) && kind_eqb (ckind ca') KMif
  | PinDefault => false
  end.

Lemma release_shape w r p :
  lookup_req r (reqs w) = Some p ->
  reqs (release w r) = remove_req r (reqs w) /\ nextgen (release w r) = nextgen w /\
  specs (release w r) = specs w /\
  forall c' n', caches (release w r) c' n' =
    match caches w c' n' with
    | Some ca' => if pin_hits p c' n' ca'
                  then Some {| ccfg := ccfg ca'; ckind := ckind ca'; cst := seq_release (cst ca'); cgen := cgen ca' |}
                  else Some ca'
    | None => None
    end.
Proof.
  intros LR. unfold release. rewrite LR. destruct p as [|c n g].
  - cbn [reqs nextgen specs caches]. repeat split; auto. intros c' n'. simpl.
    destruct (caches w c' n'); reflexivity.
  - destruct (caches w c n) as [ca|] eqn:E.
    + destruct ((cgen ca =? g) && kind_eqb (ckind ca) KMif) eqn:H.
      * cbn [reqs nextgen specs set_cache]. repeat split; auto. intros c' n'. cbn [caches set_cache pin_hits].
        destruct (String.eqb_spec c c') as [<-|Nc]; destruct (String.eqb_spec n n') as [<-|Nn]; cbn [andb].
        -- rewrite E. rewrite H. reflexivity.
        -- destruct (caches w c n'); reflexivity.
        -- destruct (caches w c' n); reflexivity.
        -- destruct (caches w c' n'); reflexivity.
      * cbn [reqs nextgen specs caches]. repeat split; auto. intros c' n'. cbn [pin_hits].
        destruct (String.eqb_spec c c') as [<-|Nc]; destruct (String.eqb_spec n n') as [<-|Nn]; cbn [andb].
        -- rewrite E. rewrite H. reflexivity.
        -- destruct (caches w c n'); reflexivity.
        -- destruct (caches w c' n); reflexivity.
        -- destruct (caches w c' n'); reflexivity.
    + cbn [reqs nextgen specs caches]. repeat split; auto. intros c' n'. cbn [pin_hits].
      destruct (String.eqb_spec c c') as [<-|Nc]; destruct (String.eqb_spec n n') as [<-|Nn]; cbn [andb].
      -- rewrite E. reflexivity.
      -- destruct (caches w c n'); reflexivity.
      -- destruct (caches w c' n); reflexivity.
      -- destruct (caches w c' n'); reflexivity.
Qed.

Definition spec_release (h : hst) (r : Z) : hst :=
  {| ents := fun c n => match ents h c n with
                        | Some e => Some {| ekind := ekind e; elimit := elimit e; eunf := zremove r (eunf e) |}
                        | None => None end;
     infl := zremove r (infl h) |}.

Lemma unf_pin w h c n ca e r :
  Core w h -> caches w c n = Some ca -> ents h c n = Some e -> ckind ca = KMif ->
  In r (eunf e) -> lookup_req r (reqs w) = Some (PinObj c n (cgen ca)).
Proof.
  intros [K I N G] E Ee KC H. specialize (K c n). unfold key_rel in K. rewrite E, Ee in K.
  destruct K as (_ & _ & _ & _ & K5). rewrite KC in K5. destruct K5 as (_ & _ & _ & _ & D).
  apply In_lookup_req; auto. apply D, H.
Qed.

Lemma release_sim w h r : Sim w h -> Sim (release w r) (spec_release h r).
Proof.
  intros [C F]. pose proof C as [K I N G].
  destruct (lookup_req r (reqs w)) as [p|] eqn:LR.
  - destruct (release_shape w r p LR) as (R1 & R2 & R3 & R4). split.
    + constructor.
      * intros c n. pose proof (K c n) as Kc. unfold key_rel in *. rewrite R4, R2, R1. cbn [ents spec_release].
        destruct (caches w c n) as [ca|] eqn:E; destruct (ents h c n) as [e|] eqn:Ee; try contradiction; auto.
        destruct Kc as (K1 & K2 & K3 & K4 & K5).
        destruct (pin_hits p c n ca) eqn:PH.
        -- (* the request gives its slot back to the limiter that admitted it *)
           destruct p as [|pc pn g]; [discriminate|]. cbn [pin_hits] in PH.
           apply andb_true_iff in PH as [PH PH4]. apply andb_true_iff in PH as [PH PH3].
           apply andb_true_iff in PH as [PH1 PH2].
           apply String.eqb_eq in PH1. apply String.eqb_eq in PH2. apply kind_eqb_eq in PH4.
           assert (g = cgen ca) by lia. subst pc pn g.
           cbn [ccfg ckind cst cgen ekind elimit eunf]. rewrite PH4 in *.
           destruct K5 as (A0 & A & B & Cn & D).
           assert (Hin : In r (eunf e)) by (apply D; apply lookup_req_In; exact LR).
           assert (Hpos : 0 < count (cst ca)).
           { rewrite B. destruct (eunf e); [contradiction|simpl List.length; lia]. }
           rewrite (seq_release_spec _ Hpos). repeat split; auto; try lia.
           ++ simpl. rewrite length_zremove by exact Hin. lia.
           ++ apply NoDup_zremove; auto.
           ++ intros H. apply In_zremove in H as [H1 H2]; auto. apply In_remove_req; auto. split; auto. apply D, H1.
           ++ intros H. apply In_remove_req in H as [H1 H2]; auto. apply In_zremove; auto. split; auto. apply D, H1.
        -- repeat split; auto. destruct (ckind ca) eqn:KC; auto.
           ++ destruct K5 as (A0 & A & B & Cn & D). cbn [ekind elimit eunf].
              assert (NI : ~ In r (eunf e)).
              { intros H. pose proof (unf_pin w h c n ca e r C E Ee KC H) as U. rewrite LR in U.
                injection U as ->. cbn [pin_hits] in PH. rewrite !String.eqb_refl, Z.eqb_refl, KC in PH.
                discriminate. }
              rewrite (zremove_notin _ _ NI). repeat split; auto; try lia.
              ** intros H. apply In_remove_req; auto. split; [apply D, H|]. intros ->. contradiction.
              ** intros H. apply In_remove_req in H as [H1 H2]; auto. apply D, H1.
           ++ cbn [eunf]. rewrite K5. reflexivity.
           ++ cbn [eunf]. rewrite K5. reflexivity.
      * rewrite R1. cbn [infl spec_release]. rewrite map_fst_remove_req. f_equal. exact I.
      * rewrite R1. rewrite map_fst_remove_req. apply NoDup_zremove; auto.
      * intros r' c n g H. rewrite R1 in H. rewrite R2. apply In_remove_req in H as [H _]; auto. eapply G; eauto.
    + intros c n. rewrite R4, R3. specialize (F c n). destruct (caches w c n) as [ca|]; auto.
      destruct (pin_hits p c n ca); auto.
  - (* r is not in flight: nothing happens *)
    unfold release. rewrite LR. split; [|exact F].
    apply (Core_ext w h); auto.
    + intros c n. cbn [ents spec_release]. destruct (ents h c n) as [e|] eqn:Ee; auto.
      pose proof (K c n) as Kc. unfold key_rel in Kc. rewrite Ee in Kc.
      destruct (caches w c n) as [ca|] eqn:E; try contradiction.
      destruct Kc as (K1 & K2 & K3 & K4 & K5).
      assert (NI : ~ In r (eunf e)).
      { destruct (ckind ca) eqn:KC; try (rewrite K5; intros []).
        intros H. pose proof (unf_pin w h c n ca e r C E Ee KC H) as U. congruence. }
      rewrite (zremove_notin _ _ NI). destruct e; reflexivity.
    + cbn [infl spec_release]. rewrite zremove_notin; auto. rewrite <- I. apply lookup_req_none; auto.
Qed.

Definition wf_op (o : wop) : Prop :=
  match o with
  | WSync _ sp => NoDup (map fst sp) /\ Forall (fun ns => schema_ok (snd ns)) sp
  | _ => True
  end.

(* the history as the model answers it *)
Fixpoint model_hist (w : world) (ops : list wop) : list (wop * Z) :=
  match ops with
  | [] => []
  | o :: r => (o, snd (wstep w o)) :: model_hist (fst (wstep w o)) r
  end.

Lemma Sim0 : Sim world0 hst0.
Proof.
  split.
  - constructor; simpl; auto.
    + intros c n. unfold key_rel; simpl. exact I.
    + constructor.
    + intros r c n g [].
  - intros c n. simpl. reflexivity.
Qed.

Lemma hist_spec_gen : forall ops w h, Sim w h -> Forall wf_op ops ->
  hist_walk h (model_hist w ops) = (true, true).
Proof.
  induction ops as [|o r IH]; intros w h S WF; [reflexivity|].
  inversion WF as [|? ? W1 W2]; subst. cbn [model_hist hist_walk].
  destruct o as [c sp|c n rq|rq].
  - destruct W1 as [ND SO]. cbn [wstep fst snd hist_step].
    rewrite (IH _ _ (sync_sim w h c sp ND SO S) W2). reflexivity.
  - cbn [wstep]. destruct (acquire_sim w h c n rq S) as [h' [HS S']].
    rewrite HS. rewrite (IH _ _ S' W2). reflexivity.
  - cbn [wstep fst snd hist_step]. fold (spec_release h rq).
    rewrite (IH _ _ (release_sim w h rq S) W2). reflexivity.
Qed.

(* C05_reconfig_bound + no spurious rejection: over every history of resize / type change / delete /
   re-add / acquire / release (schema names unique per Sync, limits in [0, 2^32)), every admission
   under a max-in-flight schema with limit M happens while fewer than M of the requests admitted
   since it last became a max-in-flight schema are unfinished, and a rejection happens only when M of
   its own are. *)
Theorem hist_spec ops :
  Forall wf_op ops ->
  hist_bound_ok (model_hist world0 ops) = true /\ hist_noleak_ok (model_hist world0 ops) = true.
Proof.
  intros WF. unfold hist_bound_ok, hist_noleak_ok. rewrite (hist_spec_gen ops world0 hst0 Sim0 WF).
  split; reflexivity.
Qed.

(* ---- isolation: ops on one (cluster, name) never change another's limiter ---- *)
Lemma msync_loop_other c : forall sp w c' n', c' <> c ->
  caches (msync_loop c sp w) c' n' = caches w c' n' /\ specs (msync_loop c sp w) = specs w.
Proof.
  induction sp as [|[n s] r IH]; intros w c' n' Ne; [split; reflexivity|].
  unfold msync_loop in *. simpl.
  destruct (local_sync_frame w c n s) as (Fs & _ & _ & Fc & _).
  destruct (IH (local_sync w c n s) c' n' Ne) as [A B]. rewrite A, B. split; auto.
  apply Fc. congruence.
Qed.

Theorem isolation :
  (forall w c sp c' n', c' <> c ->
     caches (sync w c sp) c' n' = caches w c' n' /\ specs (sync w c sp) c' = specs w c') /\
  (forall w c n r c' n', (c, n) <> (c', n') ->
     caches (fst (acquire w c n r)) c' n' = caches w c' n') /\
  (forall w r c' n',
     (forall g, lookup_req r (reqs w) <> Some (PinObj c' n' g)) ->
     caches (release w r) c' n' = caches w c' n').
Proof.
  split; [|split].
  - intros w c sp c' n' Ne. unfold sync. destruct (spec_eqb (specs w c) sp); [split; reflexivity|].
    fold (msync_loop c sp w).
    set (dl := filter (fun n => negb (str_mem n (map fst sp))) (map fst (specs w c))).
    fold (del_loop c dl (msync_loop c sp w)).
    destruct (del_loop_spec c dl (msync_loop c sp w)) as (D1 & _ & _ & D4).
    destruct (msync_loop_other c sp w c' n' Ne) as [A B].
    cbn [caches specs]. rewrite D4, D1, B.
    destruct (String.eqb_spec c c'); [congruence|]. simpl. split; [exact A|reflexivity].
  - intros w c n r c' n' Ne. unfold acquire.
    destruct (lookup_req r (reqs w)); [reflexivity|].
    destruct (if String.eqb n "" then None else caches w c n) as [ca|]; [|reflexivity].
    destruct (ckind ca); try reflexivity.
    destruct (seq_try (cst ca)) as [s' [|]]; [|reflexivity].
    cbn [fst caches]. apply caches_set_neq; auto.
  - intros w r c' n' NP. destruct (lookup_req r (reqs w)) as [p|] eqn:LR.
    + destruct (release_shape w r p LR) as (_ & _ & _ & R4). rewrite R4.
      destruct (caches w c' n') as [ca|]; auto.
      destruct (pin_hits p c' n' ca) eqn:PH; auto.
      destruct p as [|pc pn g]; [discriminate|]. cbn [pin_hits] in PH.
      apply andb_true_iff in PH as [PH _]. apply andb_true_iff in PH as [PH _].
      apply andb_true_iff in PH as [PH1 PH2].
      apply String.eqb_eq in PH1. apply String.eqb_eq in PH2. subst. exfalso. apply (NP g). reflexivity.
    + unfold release. rewrite LR. reflexivity.
Qed.

(* ---- exits of dispatcher.ServeHTTP ---- *)
Theorem every_exit_releases ok x :
  exit_ok (serve ok x) = true /\
  (admitted (serve ok x) = true -> releases (serve ok x) = 1%nat) /\
  (admitted (serve ok x) = false -> releases (serve ok x) = 0%nat).
Proof. destruct ok, x; vm_compute; repeat split; auto; discriminate. Qed.
