(* C09 — the property as an executable checker over what was OBSERVED after
   every event of a history (never over the model's state):

   All clauses refer to the schema CURRENTLY configured (type, strategy, limits): a schema update
   (ESchema, EStrategy) takes effect with the first observation after it — there is no grace period
   until the next server answer.  While the schema name is deleted (EDelete) a request gets the
   default (exempt) flow control, which is what "unknown schema" means; nothing else is required then.

   (bound)    the limiter a request meets is of the schema's type and is sized within
              the configured global limit: max-in-flight size <= global max (and no more
              than that many back-to-back admissions), token bucket qps <= global qps and
              burst <= global burst; never the exempt default for a known schema;
   (fallback) unless the limiter is in mode remote, the strategy global, the client set
              present, the server ready and a server quota synced, the request meets the
              LOCAL limiter sized exactly by the schema's local limit;
   (inforce)  conversely, when all of these hold the request meets the remote limiter;
   (failing)  a global-count error reply on an available remote limiter switches it to
              min(max(observed, local), granted maximum) — at least the local limit whenever the
              granted maximum is;
   (recovery) a server quota of the right type becomes the size of the remote limiter
              (bounded by the global limit); an accepted fresh global-count reply ends the
              unavailable state and its limit (raised to the burst reserve, bounded by the
              granted maximum) becomes the size;
   (nopanic)  neither the reconcile step nor the request path panics.

   Replies reach the limiter through the counter manager as well (EWorker rounds against the limiter
   server); (failing) and (recovery) apply to them in the same way.  SILENCE: when, at a tick of the
   counter's watchdog (EWatchdog), more than 4 s have passed since the last reply that was delivered
   for the schema (an omitted result is not a reply) and since the schema or a quota last changed,
   an available global-count limiter must fall back exactly as on an error reply.  The time of the
   last reply is computed here from the events and from what the limiter server saw (o_sent), never
   from the implementation's own bookkeeping. *)
From KG Require Import Prelude C09_Model.
Open Scope Z_scope.

Definition lim_eqb (a b : lim) : bool :=
  match a, b with
  | LMI x, LMI y => x =? y
  | LTB q b, LTB q' b' => (q =? q') && (b =? b')
  | LInf, LInf => true
  | _, _ => false
  end.
Definition sel_eqb (a b : sel) : bool :=
  match a, b with
  | SelLocal, SelLocal | SelRemote, SelRemote | SelDefault, SelDefault | SelPanic, SelPanic => true
  | _, _ => false
  end.
Definition wk_eqb (a b : wk) : bool :=
  match a, b with WEmpty, WEmpty | WMI, WMI | WTB, WTB => true | _, _ => false end.

Definition in_range (lo v hi : Z) : bool := (lo <=? v) && (v <=? hi).

(* sized within the configured global limit, and of the schema's type *)
Definition lim_bounded (c : config) (l : lim) : bool :=
  match ck c, l with
  | KMI, LMI n => in_range 0 n (g1 c)
  | KTB, LTB q b => in_range 0 q (g1 c) && in_range 0 b (g2 c)
  | _, _ => false
  end.

(* the schema's local limiter *)
Definition local_spec (c : config) : lim :=
  match ck c with KMI => LMI (l1 c) | KTB => LTB (l1 c) (l2 c) end.

Definition global_strategy (s : strategy) : bool :=
  match s with SAlloc | SCount => true | _ => false end.

Definition synced (o : obs) : bool :=
  match o_rem o with
  | Some r => match r_inner r with Some _ => true | None => false end
  | None => false
  end.

(* every condition under which the server's quota may be used *)
Definition eligible (st : static) (str : strategy) (o : obs) : bool :=
  match md st, cs st with
  | MRemote, CSOk => global_strategy str && o_ready o && synced o
  | _, _ => false
  end.

Definition bound_ok (c : config) (o : obs) : bool :=
  if o_evp o then true else
  match o_sel o with
  | SelPanic => true                       (* judged by nopanic *)
  | SelDefault => false
  | _ => match o_lim o with
         | Some l => lim_bounded c l && match ck c with KMI => o_adm o <=? g1 c | KTB => true end
         | None => false
         end
  end.

Definition fallback_ok (st : static) (c : config) (str : strategy) (o : obs) : bool :=
  if o_evp o then true else
  if eligible st str o then true
  else match o_sel o with
       | SelPanic => true
       | SelLocal => match o_lim o with Some l => lim_eqb l (local_spec c) | None => false end
       | _ => false
       end.

Definition inforce_ok (st : static) (str : strategy) (o : obs) : bool :=
  if o_evp o then true else
  if eligible st str o then
    match o_sel o with
    | SelPanic => true
    | SelRemote => match o_lim o, o_rem o with
                   | Some l, Some r => match r_lim r with Some l' => lim_eqb l l' | None => false end
                   | _, _ => false
                   end
    | _ => false
    end
  else true.

Definition nopanic_ok (o : obs) : bool := negb (o_evp o) && negb (sel_eqb (o_sel o) SelPanic).

(* a reply that the staleness filter of the max-in-flight wrapper cannot drop *)
Definition fresh (maxrt rt : Z) : bool := (rt <=? 0) || (maxrt <? rt).

Definition zmin (a b : Z) := if a <? b then a else b.
Definition zmax (a b : Z) := if a <? b then b else a.

(* the quota an answer of the schema's type grants: the answered value within [0, global] *)
Definition granted (c : config) (d : detail) : option lim :=
  match ck c, d with
  | KMI, DMI m | KMI, DBoth m _ _ => Some (LMI (clamp m 0 (g1 c)))
  | KTB, DTB q b | KTB, DBoth _ q b => Some (LTB (clamp q 0 (g1 c)) (clamp b 0 (g2 c)))
  | _, _ => None
  end.

Definition rem_of (o : obs) : robs :=
  match o_rem o with
  | Some r => r
  | None => {| r_inner := None; r_lim := None; r_unavail := false; r_over := false; r_cfg := None |}
  end.
Definition inner_is (o : obs) (w : wk) : bool :=
  match r_inner (rem_of o) with Some x => wk_eqb x w | None => false end.
Definition rlim_is (o : obs) (l : lim) : bool :=
  match r_lim (rem_of o) with Some x => lim_eqb x l | None => false end.
Definition rcfg_det (o : obs) : detail :=
  match r_cfg (rem_of o) with Some it => idet it | None => DNone end.

(* the clock of the specification: now (ms), worker rounds so far, and the time (ms) of the last event that
   delivered a reply for the schema or changed the schema / its quota *)
Record clk := { k_now : Z; k_rounds : Z; k_quiet : Z;
                k_fail : option Z    (* the time of the first of the heartbeats that have been failing in a row, if any *) }.

(* NOT READY: a heartbeat that fails more than ServerHeartBeatTimeout (5 s) after the first of an uninterrupted
   run of failed heartbeats leaves the server not ready — whatever the server info lists in between (an info
   round that lists the same leader is not an event for the readiness; only a leader CHANGE or a successful
   heartbeat ends the run).  With (fallback) this means: the local limiter, sized by the local limit. *)
Definition notready_ok (k : clk) (e : ev) (o : obs) : bool :=
  match e, k_fail k with
  | EHb false, Some t0 => if 5000 <? k_now k - t0 then negb (o_ready o) else true
  | _, _ => true
  end.
Definition next_fail (k : clk) (e : ev) : option Z :=
  match e with
  | EHb true | ELeader => None
  | EHb false => match k_fail k with Some t0 => Some t0 | None => Some (k_now k) end
  | _ => k_fail k
  end.

Definition has_counter_obs (o : obs) : bool := inner_is o WMI || inner_is o WTB.
Definition is_omit (sv : sreply) : bool := match sv with SvOmit => true | _ => false end.
Definition worker_rt (k : clk) : Z := k_now k * 1000000 + k_rounds k + 1.

(* the reply (and its request time) that an event delivers to the global-count limiter, if any *)
Definition as_reply (k : clk) (e : ev) (o : obs) : option (reply * Z) :=
  match e with
  | ECount r rt => Some (r, rt)
  | EWorker _ sv mx rate =>
      if o_sent o && negb (is_omit sv) then Some (reply_of sv mx rate, worker_rt k) else None
  | EWatchdog mx rate =>
      if 4 <? k_now k / 1000 - k_quiet k / 1000 then Some (RErr mx rate, 0) else None   (* silence: a timeout *)
  | _ => None
  end.

(* global-count error reply on an available wrapper: fall back to max(observed, local), within the grant *)
Definition failing_body (c : config) (maxrt : Z) (prev : obs) (mx rate rt : Z) (o : obs) : bool :=
      if negb (r_unavail (rem_of prev)) then
        if inner_is prev WMI && fresh maxrt rt then
          match rcfg_det prev with
          | DMI m => r_unavail (rem_of o) && rlim_is o (LMI (zmin (zmax mx (l1 c)) m))
          | _ => false
          end
        else if inner_is prev WTB then
          match rcfg_det prev with
          | DTB q b => r_unavail (rem_of o) && rlim_is o (LTB (zmin (zmax rate (l1 c)) q) (zmin (zmax rate (l1 c)) b))
          | _ => false
          end
        else true
      else true.

Definition failing_ok (c : config) (maxrt : Z) (k : clk) (prev : obs) (e : ev) (o : obs) : bool :=
  if o_evp o then true else
  match as_reply k e o with
  | Some (RErr mx rate, rt) => failing_body c maxrt prev mx rate rt o
  | _ => true
  end.

Definition recovery_body (maxrt : Z) (prev : obs) (limit rt : Z) (o : obs) : bool :=
      if inner_is prev WMI && fresh maxrt rt then
        match rcfg_det prev with
        | DMI m => negb (r_unavail (rem_of o)) && negb (r_over (rem_of o))
                   && rlim_is o (LMI (zmin (zmax limit (reserve_of true m)) m))
        | _ => false
        end
      else if inner_is prev WTB then
        match rcfg_det prev with
        | DTB q b => negb (r_unavail (rem_of o)) && rlim_is o (LTB q b)
        | _ => false
        end
      else true.

Definition recovery_ok (p : bool) (c : config) (str : strategy) (maxrt : Z) (k : clk) (prev : obs) (e : ev) (o : obs) : bool :=
  if o_evp o then true else
  match e, as_reply k e o with
  | EQuota it, _ =>
      if p && global_strategy str && negb (strategy_eqb (istr it) SCount) then
        match granted c (idet it) with
        | Some l => inner_is o WEmpty && rlim_is o l
        | None => true
        end
      else true
  | _, Some (ROk true limit, rt) => recovery_body maxrt prev limit rt o
  | _, _ => true
  end.

(* clause layout: bound, fallback, inforce, failing, recovery, nopanic *)
(* the schema name is deleted: the request meets the default flow control *)
Definition absent_ok (o : obs) : bool := o_evp o || sel_eqb (o_sel o) SelDefault || sel_eqb (o_sel o) SelPanic.

Definition obs_ok (st : static) (c : config) (str : strategy) (o : obs) : list bool :=
  [bound_ok c o; fallback_ok st c str o; inforce_ok st str o; true; true; nopanic_ok o].

(* p, c, str: presence, configuration and strategy before the event; p', c', str': after it *)
Definition step_ok (st : static) (p p' : bool) (c c' : config) (str str' : strategy) (maxrt : Z) (k : clk)
                   (prev : obs) (e : ev) (o : obs) : list bool :=
  [if p' then bound_ok c' o else absent_ok o;
   (if p' then fallback_ok st c' str' o else true) && notready_ok k e o;
   if p' then inforce_ok st str' o else true;
   failing_ok c maxrt k prev e o; recovery_ok p c str maxrt k prev e o; nopanic_ok o].

Definition and_lists (a b : list bool) : list bool := map (fun p => (fst p && snd p)%bool) (combine a b).
Definition all_true : list bool := [true; true; true; true; true; true].

Definition next_str (str : strategy) (e : ev) : strategy :=
  match e with EStrategy x | ESchema _ x _ _ _ _ => x | _ => str end.
Definition next_present (p : bool) (e : ev) : bool :=
  match e with EStrategy _ | ESchema _ _ _ _ _ _ => true | EDelete => false | _ => p end.
Definition next_rt (maxrt : Z) (k : clk) (e : ev) : Z :=
  match e with
  | ECount _ rt => zmax maxrt rt
  | EWorker _ _ _ _ => zmax maxrt (worker_rt k)
  | _ => maxrt
  end.
(* events after which the silence starts anew: the schema or its quota changed, a counter appeared, or a
   reply for the schema was delivered *)
Definition noisy (prev : obs) (e : ev) (o : obs) : bool :=
  match e with
  | EQuota _ | EStrategy _ | ESchema _ _ _ _ _ _ | EDelete | EEnable => true
  | EWorker _ sv _ _ => o_sent o && negb (is_omit sv)
  | _ => false
  end || (negb (has_counter_obs prev) && has_counter_obs o).
Definition next_clk (k : clk) (prev : obs) (e : ev) (o : obs) : clk :=
  {| k_now := match e with EElapse ms => k_now k + (if ms <? 0 then 0 else ms) | _ => k_now k end;
     k_rounds := match e with EWorker _ _ _ _ => k_rounds k + 1 | _ => k_rounds k end;
     k_quiet := if noisy prev e o then k_now k else k_quiet k;
     k_fail := next_fail k e |}.
Definition next_cfg (c : config) (e : ev) : config :=
  match e with ESchema k _ a b g h => {| ck := k; l1 := a; l2 := b; g1 := g; g2 := h |} | _ => c end.

Fixpoint hist_ok (st : static) (p : bool) (c : config) (str : strategy) (maxrt : Z) (k : clk) (prev : obs)
                 (tr : list (ev * obs)) : list bool :=
  match tr with
  | [] => all_true
  | (e, o) :: r =>
      and_lists (step_ok st p (next_present p e) c (next_cfg c e) str (next_str str e) maxrt k prev e o)
                (hist_ok st (next_present p e) (next_cfg c e) (next_str str e) (next_rt maxrt k e)
                         (next_clk k prev e o) o r)
  end.

(* a whole recorded case: the observation right after the schema was created, then the trace *)
Definition case_ok (st : static) (str0 : strategy) (o0 : obs) (tr : list (ev * obs)) : list bool :=
  and_lists (obs_ok st (cfg st) str0 o0) (hist_ok st true (cfg st) str0 0 {| k_now := 0; k_rounds := 0; k_quiet := 0; k_fail := None |} o0 tr).
