(* C01 — proofs: the model of the matcher computes the documented semantics (C01_Spec) for every
   attribute tuple and every policy list; consequences for each documented clause. *)
From KG Require Import Prelude C01_Model C01_Spec.
Open Scope string_scope.
Open Scope bool_scope.
Local Arguments Ascii.eqb : simpl never.

(* ------------------------------------------------------------------ strings *)
Lemma sapp_assoc (a b c : string) : (a ++ b) ++ c = a ++ (b ++ c).
Proof. induction a as [|x a IH]; simpl; [reflexivity|now rewrite IH]. Qed.

Lemma sapp_nil_r (a : string) : a ++ "" = a.
Proof. induction a as [|x a IH]; simpl; [reflexivity|now rewrite IH]. Qed.

Lemma rev_aux_app s : forall acc, str_rev_aux s acc = str_rev s ++ acc.
Proof.
  induction s as [|c s IH]; intros acc; [reflexivity|].
  unfold str_rev; simpl. rewrite (IH (String c acc)), (IH (String c "")).
  rewrite sapp_assoc. reflexivity.
Qed.

Lemma rev_cons c s : str_rev (String c s) = str_rev s ++ String c "".
Proof. unfold str_rev at 1; simpl. apply rev_aux_app. Qed.

Lemma rev_app a b : str_rev (a ++ b) = str_rev b ++ str_rev a.
Proof.
  induction a as [|c a IH]; simpl.
  - change (str_rev "") with "". now rewrite sapp_nil_r.
  - rewrite !rev_cons, IH, sapp_assoc. reflexivity.
Qed.

Lemma rev_invol s : str_rev (str_rev s) = s.
Proof.
  induction s as [|c s IH]; [reflexivity|].
  rewrite rev_cons, rev_app, IH. reflexivity.
Qed.

Lemma all_stars_app a b : all_stars (a ++ b) = all_stars a && all_stars b.
Proof. induction a as [|c a IH]; simpl; [reflexivity|]. rewrite IH. now rewrite andb_assoc. Qed.

Lemma all_stars_rev s : all_stars (str_rev s) = all_stars s.
Proof.
  induction s as [|c s IH]; [reflexivity|].
  rewrite rev_cons, all_stars_app, IH. simpl. rewrite andb_true_r. apply andb_comm.
Qed.

Lemma drop_all s : all_stars s = true -> drop_leading "*"%char s = "".
Proof.
  induction s as [|c s IH]; simpl; [reflexivity|].
  intros H. apply andb_true_iff in H as [Hc Hs]. rewrite Hc. auto.
Qed.

Lemma drop_app a b :
  drop_leading "*"%char (a ++ b) =
  if all_stars a then drop_leading "*"%char b else drop_leading "*"%char a ++ b.
Proof.
  induction a as [|c a IH]; simpl; [reflexivity|].
  destruct (Ascii.eqb c "*"%char) eqn:Hc; simpl; [exact IH|reflexivity].
Qed.

Lemma trim_all s : all_stars s = true -> trim_right_char "*"%char s = "".
Proof.
  intros H. unfold trim_right_char. rewrite drop_all; [reflexivity|now rewrite all_stars_rev].
Qed.

Lemma trim_cons c p :
  all_stars (String c p) = false ->
  trim_right_char "*"%char (String c p) = String c (trim_right_char "*"%char p).
Proof.
  intros H. unfold trim_right_char. rewrite rev_cons, drop_app, all_stars_rev.
  destruct (all_stars p) eqn:Hp.
  - simpl in H. rewrite Hp, andb_true_r in H. simpl. rewrite H.
    rewrite drop_all by now rewrite all_stars_rev. reflexivity.
  - rewrite rev_app. reflexivity.
Qed.

Lemma has_prefix_nil s : has_prefix s "" = true.
Proof. destruct s; reflexivity. Qed.

Lemma rev_nonempty c p : exists x y, str_rev (String c p) = String x y.
Proof.
  rewrite rev_cons. destruct (str_rev p) as [|x y]; simpl; eauto.
Qed.

Lemma suffix_cons c p :
  has_suffix (String c p) "*" = match p with "" => Ascii.eqb "*"%char c | _ => has_suffix p "*" end.
Proof.
  unfold has_suffix. change (str_rev "*") with "*". rewrite rev_cons.
  destruct p as [|d p]; [cbn; destruct (Ascii.eqb "*"%char c); reflexivity|].
  destruct (rev_nonempty d p) as (x & y & E). rewrite E. simpl.
  destruct (Ascii.eqb "*"%char x); [now rewrite !has_prefix_nil|reflexivity].
Qed.

Lemma suffix_all_stars s : s <> "" -> all_stars s = true -> has_suffix s "*" = true.
Proof.
  induction s as [|c s IH]; [congruence|]. intros _ H. simpl in H.
  apply andb_true_iff in H as [Hc Hs]. rewrite suffix_cons.
  destruct s as [|d s]; [now rewrite Ascii.eqb_sym|]. apply IH; [discriminate|exact Hs].
Qed.

(* Go's HasSuffix/TrimRight/HasPrefix glob is the declarative trailing-star glob *)
Lemma go_glob_is_glob pat : forall req, go_glob pat req = glob pat req.
Proof.
  induction pat as [|c p IH]; intros req; [reflexivity|].
  unfold go_glob. cbn [glob].
  destruct (all_stars (String c p)) eqn:Hall.
  - rewrite suffix_all_stars by (congruence || exact Hall). rewrite trim_all by exact Hall.
    destruct req; reflexivity.
  - rewrite trim_cons by exact Hall. rewrite suffix_cons.
    destruct p as [|d p].
    + simpl in Hall. rewrite andb_true_r in Hall. rewrite Ascii.eqb_sym, Hall. simpl.
      destruct req; [reflexivity|]. now rewrite andb_false_r.
    + specialize (IH). unfold go_glob in IH.
      destruct req as [|e req]; simpl has_prefix.
      * now rewrite andb_false_r.
      * rewrite <- IH. destruct (Ascii.eqb c e); simpl; [reflexivity|now rewrite andb_false_r].
Qed.

Fixpoint stars (n : nat) : string := match n with O => "" | S k => String "*"%char (stars k) end.

Lemma all_stars_stars n : all_stars (stars n) = true.
Proof. induction n; simpl; auto. Qed.

Lemma all_stars_is_stars s : all_stars s = true -> exists n, s = stars n.
Proof.
  induction s as [|c s IH]; simpl; intros H; [exists O; reflexivity|].
  apply andb_true_iff in H as [Hc Hs]. destruct (IH Hs) as [n ->].
  apply Ascii.eqb_eq in Hc. subst c. exists (S n). reflexivity.
Qed.

(* relational reading of [glob]: pat = prefix ++ (one or more '*'), request begins with prefix *)
Lemma glob_iff pat req :
  glob pat req = true <-> exists p k, pat = p ++ stars (S k) /\ has_prefix req p = true.
Proof.
  revert req. induction pat as [|c pt IH]; intros req.
  - simpl. split; [discriminate|]. intros (p & k & E & _). destruct p; discriminate.
  - cbn [glob]. destruct (all_stars (String c pt)) eqn:Hall.
    + split; [intros _|reflexivity].
      destruct (all_stars_is_stars _ Hall) as [n En]. destruct n as [|n]; [discriminate|].
      exists "", n. split; [exact En|]. destruct req; reflexivity.
    + destruct req as [|d req].
      * split; [discriminate|]. intros (p & k & E & Hp).
        destruct p as [|x p]; [|discriminate].
        simpl in E. rewrite E in Hall. change (String "*"%char (stars k)) with (stars (S k)) in Hall.
        now rewrite all_stars_stars in Hall.
      * rewrite andb_true_iff, IH. split.
        -- intros [Hc (p & k & E & Hp)]. apply Ascii.eqb_eq in Hc. subst d.
           exists (String c p), k. split; [simpl; now rewrite E|]. simpl. now rewrite Ascii.eqb_refl.
        -- intros (p & k & E & Hp). destruct p as [|x p].
           ++ simpl in E. rewrite E in Hall. change (String "*"%char (stars k)) with (stars (S k)) in Hall.
              now rewrite all_stars_stars in Hall.
           ++ simpl in E. injection E as Ex Ept. subst x. simpl in Hp.
              destruct (Ascii.eqb c d) eqn:Hcd; [|discriminate].
              split; [reflexivity|]. exists p, k. split; assumption.
Qed.

Lemma glob_prefix p k req : has_prefix req p = true -> glob (p ++ stars (S k)) req = true.
Proof. intros H. apply glob_iff. exists p, k. split; [reflexivity|exact H]. Qed.

(* ------------------------------------------------------------------ lists *)
Lemma forallb_negb {A} (f : A -> bool) l : forallb (fun x => negb (f x)) l = negb (existsb f l).
Proof. induction l as [|x l IH]; simpl; [reflexivity|]. rewrite IH, negb_orb. reflexivity. Qed.

Lemma existsb_ext' {A} (f g : A -> bool) l : (forall x, f x = g x) -> existsb f l = existsb g l.
Proof. intros H. induction l as [|x l IH]; simpl; [reflexivity|]. now rewrite H, IH. Qed.

Lemma existsb_eqb_mem p l : existsb (String.eqb p) l = str_mem p l.
Proof.
  induction l as [|y l IH]; simpl; [reflexivity|]. rewrite IH. destruct (String.eqb p y); reflexivity.
Qed.

(* ------------------------------------------------------------------ filterRules *)
Lemma classify_cases r :
  (String.eqb r "*" = true /\ classify r = Star) \/
  (String.eqb r "*" = false /\ is_neg r = true /\ classify r = Neg (tail1 r)) \/
  (String.eqb r "*" = false /\ is_neg r = false /\ classify r = Pos r).
Proof.
  unfold classify. destruct (String.eqb r "*"); [left; split; reflexivity|right].
  destruct r as [|c t]; simpl; [right; repeat split; reflexivity|].
  destruct (Ascii.eqb c "-"%char); [left|right]; repeat split; reflexivity.
Qed.

Lemma split_spec rules :
  let es := map classify rules in
  let '(f, rv, all) := split_rules rules in
  all = existsb is_star es /\
  (all = false -> f = map (mkM false) (positives es) /\ rv = map (mkM true) (negatives es)).
Proof.
  induction rules as [|r rest IH]; simpl.
  - split; [reflexivity|]. intros _. split; reflexivity.
  - simpl in IH. destruct (split_rules rest) as [[f rv] all]. destruct IH as [Hall Hrest].
    destruct (classify_cases r) as [[Hs Hc]|[(Hs & Hn & Hc)|(Hs & Hn & Hc)]]; rewrite Hs, Hc; simpl.
    + split; [reflexivity|discriminate].
    + rewrite Hn. split; [exact Hall|]. intros Hf. destruct (Hrest Hf) as [-> ->]. split; reflexivity.
    + rewrite Hn. split; [exact Hall|]. intros Hf. destruct (Hrest Hf) as [-> ->]. split; reflexivity.
Qed.

Lemma simple_loop_map b l reqs extra inv :
  simple_loop (map (mkM b) l) reqs extra inv =
  if existsb (fun p => existsb (String.eqb p) reqs || extra (mkM false p)) l then negb inv else inv.
Proof.
  induction l as [|p l IH]; simpl; [reflexivity|].
  unfold matcher_match at 1; simpl.
  destruct (existsb (String.eqb p) reqs); simpl; [reflexivity|].
  destruct (extra (mkM false p)); simpl; [reflexivity|exact IH].
Qed.

Lemma simple_loop_hd b l reqs extra :
  simple_loop (map (mkM b) l) reqs extra
              (match map (mkM b) l with v :: _ => m_reverse v | [] => false end) =
  match l with
  | [] => false
  | _ :: _ => if existsb (fun p => existsb (String.eqb p) reqs || extra (mkM false p)) l
              then negb b else b
  end.
Proof. rewrite simple_loop_map. destruct l as [|x l]; [reflexivity|]. reflexivity. Qed.

Lemma simple_matches_sem rules reqs extra :
  simple_matches rules reqs extra =
  field_sem false (fun p => existsb (String.eqb p) reqs || extra (mkM false p)) rules.
Proof.
  unfold simple_matches, filter_rules, field_sem.
  pose proof (split_spec rules) as H. simpl in H.
  destruct (split_rules rules) as [[f rv] all]. destruct H as [Hall Hrest].
  rewrite <- Hall. destruct all.
  - destruct f; reflexivity.
  - destruct (Hrest eq_refl) as [-> ->].
    destruct (positives (map classify rules)) as [|p ps] eqn:Hp.
    + cbn [map]. etransitivity; [apply simple_loop_hd|].
      destruct (negatives (map classify rules)) as [|n ns] eqn:Hn; [reflexivity|].
      rewrite forallb_negb.
      match goal with |- (if ?c then _ else _) = _ => destruct c end; reflexivity.
    + change (mkM false p :: map (mkM false) ps) with (map (mkM false) (p :: ps)).
      cbv iota beta. etransitivity; [apply simple_loop_hd|].
      match goal with |- (if ?c then _ else _) = _ => destruct c end; reflexivity.
Qed.

Lemma field_sem_ext d f g rules : (forall p, f p = g p) -> field_sem d f rules = field_sem d g rules.
Proof.
  intros H. unfold field_sem.
  rewrite (existsb_ext' f g _ H).
  assert (E : forall l, forallb (fun n => negb (f n)) l = forallb (fun n => negb (g n)) l).
  { intros l. rewrite !forallb_negb. now rewrite (existsb_ext' f g _ H). }
  now rewrite E.
Qed.

Lemma field_sem_dflt d1 d2 f rules : rules <> [] -> field_sem d1 f rules = field_sem d2 f rules.
Proof.
  destruct rules as [|r rest]; [congruence|]. intros _.
  unfold field_sem. simpl map. destruct (classify r) eqn:Hc; simpl.
  - reflexivity.
  - destruct (positives (map classify rest)); reflexivity.
  - reflexivity.
Qed.

(* ------------------------------------------------------------------ per-field equivalences *)
Lemma verb_ok a r : verb_matches (r_verbs r) (a_verb a) = verbs_sem a r.
Proof.
  unfold verb_matches, verbs_sem. rewrite simple_matches_sem. apply field_sem_ext.
  intros p. unfold verb_pos, no_extra. simpl. now rewrite !orb_false_r.
Qed.

Lemma group_ok a r : apigroup_matches (r_groups r) (a_group a) = groups_sem a r.
Proof.
  unfold apigroup_matches, groups_sem. rewrite simple_matches_sem. apply field_sem_ext.
  intros p. unfold group_pos, no_extra. simpl. now rewrite !orb_false_r.
Qed.

Lemma combined_ok a : combined_resource a = combined a.
Proof. unfold combined_resource, combined. destruct (a_subresource a); reflexivity. Qed.

Lemma resource_extra_ok sub p :
  resource_extra sub (mkM false p) =
  match sub with "" => false | _ => String.eqb p ("*/" ++ sub) end.
Proof.
  unfold resource_extra. destruct sub as [|c s]; [reflexivity|]. cbn [str_len0 m_value m_reverse].
  destruct (String.eqb_spec p ("*/" ++ String c s)) as [->|Hne].
  - reflexivity.
  - destruct (has_prefix p "*/"); reflexivity.
Qed.

Lemma resource_ok a r :
  resource_matches (r_resources r) (combined_resource a) (a_subresource a) = resources_sem a r.
Proof.
  unfold resource_matches, resources_sem. rewrite simple_matches_sem. apply field_sem_ext.
  intros p. unfold resource_pos. rewrite resource_extra_ok, combined_ok. simpl.
  rewrite orb_false_r. destruct (a_subresource a); reflexivity.
Qed.

Lemma name_ok a r : resourcename_matches (r_names r) (a_name a) = names_sem a r.
Proof.
  unfold resourcename_matches, names_sem. destruct (r_names r) as [|n ns] eqn:E; [reflexivity|].
  cbn [list_len0]. rewrite simple_matches_sem.
  rewrite (field_sem_dflt false true) by discriminate. apply field_sem_ext.
  intros p. unfold name_pos, no_extra. simpl. now rewrite !orb_false_r.
Qed.

Lemma ugroup_ok a r : usergroup_matches (r_ugroups r) (a_groups a) = ugroups_sem a r.
Proof.
  unfold usergroup_matches, ugroups_sem. destruct (r_ugroups r) as [|n ns] eqn:E; [reflexivity|].
  cbn [list_len0]. rewrite simple_matches_sem.
  rewrite (field_sem_dflt false true) by discriminate. apply field_sem_ext.
  intros p. unfold ugroup_pos, no_extra. now rewrite orb_false_r, existsb_eqb_mem.
Qed.

Lemma sa_loop_ok a sas : sa_loop sas (a_user a) = existsb (sa_is a) sas.
Proof.
  induction sas as [|sa sas IH]; [reflexivity|].
  cbn [sa_loop existsb]. unfold sa_is at 1, sa_valid, make_sa_username, sa_prefix.
  rewrite IH.
  destruct (sa_ns sa) as [|c1 n1]; [reflexivity|].
  destruct (sa_name sa) as [|c2 n2]; [reflexivity|].
  cbn [str_len0 orb andb].
  rewrite (String.eqb_sym (a_user a)).
  match goal with |- (if ?c then _ else _) = _ => destruct c end; reflexivity.
Qed.

Lemma users_field_ok a users :
  simple_matches users [a_user a] (user_extra (a_user a)) = field_sem false (user_pos a) users.
Proof.
  rewrite simple_matches_sem. apply field_sem_ext.
  intros p. unfold user_pos, user_extra. simpl. now rewrite orb_false_r, go_glob_is_glob.
Qed.

Lemma user_ok a r : user_or_sa_matches (r_users r) (r_sas r) (a_user a) = users_sem a r.
Proof.
  unfold user_or_sa_matches, users_sem. rewrite users_field_ok, sa_loop_ok.
  destruct (r_users r) as [|u us]; destruct (r_sas r) as [|s ss]; cbn [list_len0 andb]; try reflexivity;
    match goal with |- (if ?c then _ else _) = _ => destruct c end; reflexivity.
Qed.

Lemma url_loop_pos l req :
  url_loop (map (mkM false) l) req = existsb (fun p => String.eqb p req || glob p req) l.
Proof.
  induction l as [|p l IH]; simpl; [reflexivity|].
  unfold matcher_match; simpl. rewrite go_glob_is_glob.
  destruct (String.eqb p req); simpl; [reflexivity|].
  destruct (glob p req); simpl; [reflexivity|exact IH].
Qed.

Lemma url_loop_neg l req : url_loop (map (mkM true) l) req = false.
Proof. induction l as [|p l IH]; simpl; [reflexivity|exact IH]. Qed.

Lemma url_ok a r : nonresource_url_matches (r_urls r) (a_path a) = urls_sem a r.
Proof.
  unfold nonresource_url_matches, urls_sem, filter_rules.
  pose proof (split_spec (r_urls r)) as H. simpl in H.
  destruct (split_rules (r_urls r)) as [[f rv] all]. destruct H as [Hall Hrest].
  rewrite <- Hall. destruct all.
  - destruct f; reflexivity.
  - destruct (Hrest eq_refl) as [-> ->]. cbn [orb].
    destruct (positives (map classify (r_urls r))) as [|p ps] eqn:Hp.
    + cbn [map existsb]. apply url_loop_neg.
    + change (mkM false p :: map (mkM false) ps) with (map (mkM false) (p :: ps)).
      cbv iota beta. apply url_loop_pos.
Qed.

Lemma rule_ok a r : rule_matches a r = rule_sem a r.
Proof.
  unfold rule_matches, rule_sem.
  rewrite verb_ok, user_ok, ugroup_ok, group_ok, resource_ok, name_ok, url_ok.
  destruct (verbs_sem a r), (users_sem a r), (ugroups_sem a r), (a_is_resource a); reflexivity.
Qed.

Lemma policy_ok a p : policy_matches a p = policy_sem a p.
Proof. unfold policy_matches, policy_sem. apply existsb_ext'. apply rule_ok. Qed.

Lemma find_index_from a ps : forall i,
  option_map (fun k => (i + k)%nat) (find_index (policy_matches a) ps) = first_from a i ps.
Proof.
  induction ps as [|p ps IH]; intros i; simpl; [reflexivity|].
  rewrite policy_ok. destruct (policy_sem a p); simpl.
  - now rewrite Nat.add_0_r.
  - rewrite <- (IH (S i)). destruct (find_index (policy_matches a) ps); simpl; [|reflexivity].
    now rewrite Nat.add_succ_r.
Qed.

(* main theorem: for ALL attribute tuples and policy lists the code's choice is the documented one *)
Lemma route_is_first_match a ps : match_policies a ps = first_match a ps.
Proof.
  unfold match_policies, first_match. rewrite <- (find_index_from a ps O).
  destruct (find_index (policy_matches a) ps); reflexivity.
Qed.

(* [first_match] really is the least index with a matching rule *)
Lemma first_from_some a ps : forall i k,
  first_from a i ps = Some k <->
  exists j p, k = (i + j)%nat /\ nth_error ps j = Some p /\ policy_sem a p = true /\
              forall j' p', (j' < j)%nat -> nth_error ps j' = Some p' -> policy_sem a p' = false.
Proof.
  induction ps as [|p ps IH]; intros i k; simpl.
  - split; [discriminate|]. intros (j & p & _ & H & _). destruct j; discriminate.
  - destruct (policy_sem a p) eqn:Hp.
    + split.
      * intros E. injection E as <-. exists O, p.
        split; [lia|]. split; [reflexivity|]. split; [exact Hp|]. intros j' p' Hlt. lia.
      * intros (j & q & -> & Hn & Hq & Hmin). destruct j as [|j]; [f_equal; lia|].
        specialize (Hmin O p ltac:(lia) eq_refl). congruence.
    + rewrite IH. split.
      * intros (j & q & -> & Hn & Hq & Hmin). exists (S j), q.
        split; [lia|]. split; [exact Hn|]. split; [exact Hq|].
        intros j' p' Hlt Hn'. destruct j' as [|j']; simpl in Hn'; [congruence|].
        apply (Hmin j' p'); [lia|exact Hn'].
      * intros (j & q & -> & Hn & Hq & Hmin). destruct j as [|j]; simpl in Hn; [congruence|].
        exists j, q. split; [lia|]. split; [exact Hn|]. split; [exact Hq|].
        intros j' p' Hlt Hn'. apply (Hmin (S j') p'); [lia|exact Hn'].
Qed.

Lemma first_match_least a ps k :
  first_match a ps = Some k <->
  exists p, nth_error ps k = Some p /\ (exists r, In r (p_rules p) /\ rule_sem a r = true) /\
            forall j q, (j < k)%nat -> nth_error ps j = Some q ->
                        forall r, In r (p_rules q) -> rule_sem a r = false.
Proof.
  unfold first_match. rewrite first_from_some. split.
  - intros (j & p & -> & Hn & Hp & Hmin). simpl. exists p. split; [exact Hn|]. split.
    + unfold policy_sem in Hp. apply existsb_exists in Hp. exact Hp.
    + intros j' q Hlt Hq r Hr. specialize (Hmin j' q Hlt Hq). unfold policy_sem in Hmin.
      destruct (rule_sem a r) eqn:E; [|reflexivity].
      assert (existsb (rule_sem a) (p_rules q) = true) by (apply existsb_exists; eauto). congruence.
  - intros (p & Hn & (r & Hr & Hrs) & Hmin). exists k, p.
    split; [reflexivity|]. split; [exact Hn|]. split.
    + unfold policy_sem. apply existsb_exists. eauto.
    + intros j' q Hlt Hq. unfold policy_sem.
      destruct (existsb (rule_sem a) (p_rules q)) eqn:E; [|reflexivity].
      apply existsb_exists in E as (r' & Hr' & Hrs'). rewrite (Hmin j' q Hlt Hq r' Hr') in Hrs'. discriminate.
Qed.

Lemma first_from_none a ps : forall i,
  first_from a i ps = None <-> forall p, In p ps -> policy_sem a p = false.
Proof.
  induction ps as [|p ps IH]; intros i; simpl.
  - split; [intros _ p []|reflexivity].
  - destruct (policy_sem a p) eqn:Hp.
    + split; [discriminate|]. intros H. specialize (H p (or_introl eq_refl)). congruence.
    + rewrite IH. split.
      * intros H q [<-|Hq]; auto.
      * intros H q Hq. apply H. now right.
Qed.

Lemma first_match_none a ps :
  first_match a ps = None <->
  forall p r, In p ps -> In r (p_rules p) -> rule_sem a r = false.
Proof.
  unfold first_match. rewrite first_from_none. split.
  - intros H p r Hp Hr. specialize (H p Hp). unfold policy_sem in H.
    destruct (rule_sem a r) eqn:E; [|reflexivity].
    assert (existsb (rule_sem a) (p_rules p) = true) by (apply existsb_exists; eauto). congruence.
  - intros H p Hp. unfold policy_sem.
    destruct (existsb (rule_sem a) (p_rules p)) eqn:E; [|reflexivity].
    apply existsb_exists in E as (r & Hr & Hrs). rewrite (H p r Hp Hr) in Hrs. discriminate.
Qed.

Lemma no_match_rejected a ps eps :
  first_match a ps = None -> route a ps = Reject /\ match_attributes a ps eps = None.
Proof.
  intros H. unfold route, match_attributes. rewrite route_is_first_match, H. split; reflexivity.
Qed.

Lemma forward_iff_first a ps i : route a ps = Forward i <-> first_match a ps = Some i.
Proof.
  unfold route. rewrite route_is_first_match. destruct (first_match a ps); split; intros H; try discriminate.
  - injection H as ->. reflexivity.
  - injection H as ->. reflexivity.
Qed.

Lemma find_index_nth {A} (f : A -> bool) l i : find_index f l = Some i -> exists x, nth_error l i = Some x.
Proof.
  revert i. induction l as [|x l IH]; intros i; simpl; [discriminate|].
  destruct (f x).
  - intros E. injection E as <-. exists x. reflexivity.
  - destruct (find_index f l) as [k|] eqn:E; simpl; [|discriminate]. intros E'. injection E' as <-.
    simpl. apply IH. reflexivity.
Qed.

(* the chosen flow control / upstream set are those of the first matching policy *)
Lemma chosen_policy a ps eps i :
  first_match a ps = Some i ->
  exists p, nth_error ps i = Some p /\
            match_attributes a ps eps =
            Some (match p_flow p with "" => "system-default" | f => f end,
                  match p_subset p with [] => eps | s => s end).
Proof.
  intros H. unfold match_attributes. rewrite route_is_first_match, H.
  rewrite <- route_is_first_match in H. destruct (find_index_nth _ _ _ H) as [p Hp].
  exists p. split; [exact Hp|]. rewrite Hp. unfold flow_name.
  destruct (p_flow p); destruct (p_subset p); reflexivity.
Qed.

(* the model satisfies every clause of the executable spec on its own observations *)
Lemma model_meets_spec a ps eps :
  let m := match match_attributes a ps eps with
           | None => mkMA true false "" []
           | Some (f, ups) => mkMA false true f ups end in
  let o := mkObs (match_policies a ps) m m in
  first_ok a ps o = true /\ reject_ok a ps m = true /\ chosen_ok a ps eps m = true /\ age_ok o = true.
Proof.
  assert (SM : forall l, same_members l l = true).
  { intros l. unfold same_members.
    assert (forallb (fun s => str_mem s l) l = true) as ->; [|reflexivity].
    apply forallb_forall. intros x Hx. now apply str_mem_In. }
  assert (ME : forall m, ma_eqb m m = true).
  { intros m. unfold ma_eqb. now rewrite !Bool.eqb_reflx, String.eqb_refl, SM. }
  cbv zeta. repeat split.
  - unfold first_ok. simpl. rewrite route_is_first_match.
    destruct (first_match a ps); simpl; [apply Nat.eqb_refl|reflexivity].
  - unfold reject_ok. destruct (first_match a ps) as [i|] eqn:H.
    + destruct (chosen_policy a ps eps i H) as (p & _ & ->). reflexivity.
    + destruct (no_match_rejected a ps eps H) as [_ ->]. reflexivity.
  - unfold chosen_ok. destruct (first_match a ps) as [i|] eqn:H; [|reflexivity].
    destruct (chosen_policy a ps eps i H) as (p & -> & ->). simpl.
    now rewrite String.eqb_refl, SM.
  - unfold age_ok. apply ME.
Qed.

(* ------------------------------------------------------------------ documented clauses *)
Lemma in_star_exists rules : In "*" rules -> existsb is_star (map classify rules) = true.
Proof.
  intros H. apply existsb_exists. exists Star. split; [|reflexivity].
  apply in_map_iff. exists "*". split; [reflexivity|exact H].
Qed.

Lemma field_sem_star d f rules : In "*" rules -> field_sem d f rules = true.
Proof. intros H. unfold field_sem. now rewrite in_star_exists. Qed.

(* "*" wins at any position, in every field *)
Lemma star_wins a r :
  (In "*" (r_verbs r) -> verb_matches (r_verbs r) (a_verb a) = true) /\
  (In "*" (r_groups r) -> apigroup_matches (r_groups r) (a_group a) = true) /\
  (In "*" (r_resources r) -> resource_matches (r_resources r) (combined_resource a) (a_subresource a) = true) /\
  (In "*" (r_names r) -> resourcename_matches (r_names r) (a_name a) = true) /\
  (In "*" (r_users r) -> user_or_sa_matches (r_users r) (r_sas r) (a_user a) = true) /\
  (In "*" (r_ugroups r) -> usergroup_matches (r_ugroups r) (a_groups a) = true) /\
  (In "*" (r_urls r) -> nonresource_url_matches (r_urls r) (a_path a) = true).
Proof.
  rewrite verb_ok, group_ok, resource_ok, name_ok, user_ok, ugroup_ok, url_ok.
  unfold verbs_sem, groups_sem, resources_sem, names_sem, ugroups_sem.
  repeat split; intros H; try now apply field_sem_star.
  - unfold users_sem. rewrite field_sem_star by exact H.
    destruct (r_users r) as [|u us]; [destruct H|]. destruct (r_sas r); reflexivity.
  - unfold urls_sem. now rewrite in_star_exists.
Qed.

Definition plain (s : string) : bool := match classify s with Pos _ => true | _ => false end.
Definition keep_plain (rules : list string) : list string := filter plain rules.

Lemma classify_pos_self s t : classify s = Pos t -> t = s.
Proof.
  unfold classify. destruct (String.eqb s "*"); [discriminate|].
  destruct s as [|c s']; [congruence|]. destruct (Ascii.eqb c "-"%char); congruence.
Qed.

Lemma positives_keep rules : positives (map classify (keep_plain rules)) = positives (map classify rules).
Proof.
  induction rules as [|r rest IH]; simpl; [reflexivity|].
  unfold plain. destruct (classify r) eqn:E; simpl; try exact IH.
  rewrite E. simpl. now rewrite IH.
Qed.

Lemma negatives_keep rules : negatives (map classify (keep_plain rules)) = [].
Proof.
  induction rules as [|r rest IH]; simpl; [reflexivity|].
  unfold plain. destruct (classify r) eqn:E; simpl; try exact IH.
  rewrite E. simpl. exact IH.
Qed.

Lemma star_keep rules :
  existsb is_star (map classify rules) = false -> existsb is_star (map classify (keep_plain rules)) = false.
Proof.
  induction rules as [|r rest IH]; simpl; [reflexivity|].
  unfold plain. destruct (classify r) eqn:E; simpl; try discriminate; auto.
  rewrite E. simpl. exact IH.
Qed.

(* once a positive entry is present the '-' entries are ignored *)
Lemma field_sem_positives_silence d f rules :
  ~ In "*" rules -> (exists p, In p rules /\ plain p = true) ->
  field_sem d f rules = field_sem d f (keep_plain rules).
Proof.
  intros Hns (p & Hp & Hpl). unfold field_sem.
  destruct (existsb is_star (map classify rules)) eqn:Hs.
  - exfalso. apply Hns. apply existsb_exists in Hs as (e & He & Hst).
    apply in_map_iff in He as (s & Hc & Hin). destruct e; try discriminate.
    destruct (classify_cases s) as [[Hs' _]|[(_ & _ & Hc')|(_ & _ & Hc')]];
      try (rewrite Hc' in Hc; discriminate).
    apply String.eqb_eq in Hs'. subst s. exact Hin.
  - rewrite (star_keep _ Hs), positives_keep, negatives_keep.
    destruct (positives (map classify rules)) as [|q qs] eqn:Hq; [|reflexivity].
    exfalso. unfold plain in Hpl. destruct (classify p) eqn:Hc; try discriminate.
    assert (In s (positives (map classify rules))) as Hin.
    { unfold positives. apply in_flat_map. exists (Pos s). split; [|now left].
      apply in_map_iff. exists p. split; assumption. }
    rewrite Hq in Hin. destruct Hin.
Qed.

(* a list made only of '-x' entries (x itself a plain entry) is the complement of [x...] *)
Definition all_inverted (rules : list string) : Prop :=
  rules <> [] /\ forall r, In r rules -> is_neg r = true /\ plain (tail1 r) = true.

Lemma classify_neg r : is_neg r = true -> classify r = Neg (tail1 r).
Proof.
  destruct r as [|c t]; simpl; [discriminate|]. intros H. unfold classify.
  destruct (String.eqb_spec (String c t) "*") as [E|_].
  - injection E as -> _. discriminate.
  - now rewrite H.
Qed.

Lemma plain_classify s : plain s = true -> classify s = Pos s.
Proof.
  unfold plain. destruct (classify s) eqn:E; try discriminate. intros _. now rewrite (classify_pos_self _ _ E).
Qed.

Lemma inverted_entries rules :
  (forall r, In r rules -> is_neg r = true /\ plain (tail1 r) = true) ->
  map classify rules = map Neg (map tail1 rules) /\
  map classify (map tail1 rules) = map Pos (map tail1 rules).
Proof.
  induction rules as [|r rest IH]; intros H; simpl; [split; reflexivity|].
  destruct (H r (or_introl eq_refl)) as [Hn Hp].
  destruct IH as [IH1 IH2]; [intros x Hx; apply H; now right|].
  rewrite (classify_neg _ Hn), (plain_classify _ Hp), IH1, IH2. split; reflexivity.
Qed.

Lemma positives_pos l : positives (map Pos l) = l.
Proof. induction l; simpl; [reflexivity|now f_equal]. Qed.
Lemma negatives_pos l : negatives (map Pos l) = [].
Proof. induction l; simpl; [reflexivity|assumption]. Qed.
Lemma positives_neg l : positives (map Neg l) = [].
Proof. induction l; simpl; [reflexivity|assumption]. Qed.
Lemma negatives_neg l : negatives (map Neg l) = l.
Proof. induction l; simpl; [reflexivity|now f_equal]. Qed.
Lemma star_pos l : existsb is_star (map Pos l) = false.
Proof. induction l; simpl; [reflexivity|assumption]. Qed.
Lemma star_neg l : existsb is_star (map Neg l) = false.
Proof. induction l; simpl; [reflexivity|assumption]. Qed.

Lemma field_sem_inverted d1 d2 f rules :
  all_inverted rules -> field_sem d1 f rules = negb (field_sem d2 f (map tail1 rules)).
Proof.
  intros [Hne Hall]. destruct (inverted_entries rules Hall) as [E1 E2].
  unfold field_sem. rewrite E1, E2.
  rewrite star_neg, star_pos, positives_neg, negatives_neg, positives_pos, negatives_pos.
  destruct rules as [|r rest]; [congruence|]. simpl map.
  cbv iota beta. rewrite forallb_negb. reflexivity.
Qed.

(* trailing-'*' glob entries *)
Lemma pos_entry_matches d f rules p :
  In p rules -> plain p = true -> f p = true -> field_sem d f rules = true.
Proof.
  intros Hin Hpl Hf. unfold field_sem.
  destruct (existsb is_star (map classify rules)); [reflexivity|].
  assert (In p (positives (map classify rules))) as Hp.
  { unfold positives. apply in_flat_map. exists (Pos p). split; [|now left].
    apply in_map_iff. exists p. split; [now apply plain_classify|exact Hin]. }
  destruct (positives (map classify rules)) as [|q qs] eqn:E; [destruct Hp|].
  apply existsb_exists. exists p. split; assumption.
Qed.

(* ------------------------------------------------------------------ the clauses on the model's matchers *)
Lemma keep_plain_nonempty rules : (exists p, In p rules /\ plain p = true) -> keep_plain rules <> [].
Proof.
  intros (p & Hp & Hpl) E. assert (In p (keep_plain rules)) as H by (apply filter_In; split; assumption).
  rewrite E in H. destruct H.
Qed.

Lemma simple_silence rules reqs extra :
  ~ In "*" rules -> (exists p, In p rules /\ plain p = true) ->
  simple_matches rules reqs extra = simple_matches (keep_plain rules) reqs extra.
Proof. intros H1 H2. rewrite !simple_matches_sem. now apply field_sem_positives_silence. Qed.

Lemma positives_silence_negatives rules :
  ~ In "*" rules -> (exists p, In p rules /\ plain p = true) ->
  (forall v, verb_matches rules v = verb_matches (keep_plain rules) v) /\
  (forall g, apigroup_matches rules g = apigroup_matches (keep_plain rules) g) /\
  (forall c s, resource_matches rules c s = resource_matches (keep_plain rules) c s) /\
  (forall n, resourcename_matches rules n = resourcename_matches (keep_plain rules) n) /\
  (forall sas u, user_or_sa_matches rules sas u = user_or_sa_matches (keep_plain rules) sas u) /\
  (forall gs, usergroup_matches rules gs = usergroup_matches (keep_plain rules) gs).
Proof.
  intros H1 H2. pose proof (keep_plain_nonempty rules H2) as Hk.
  assert (Hr : rules <> []) by (destruct H2 as (p & Hp & _); intros ->; destruct Hp).
  unfold verb_matches, apigroup_matches, resource_matches, resourcename_matches, user_or_sa_matches,
    usergroup_matches.
  repeat split; intros; try now apply simple_silence.
  - rewrite (simple_silence rules _ _ H1 H2).
    destruct rules; [congruence|]. destruct (keep_plain (s :: rules)); [congruence|]. reflexivity.
  - rewrite (simple_silence rules _ _ H1 H2).
    destruct rules; [congruence|]. destruct (keep_plain (s :: rules)); [congruence|]. reflexivity.
  - rewrite (simple_silence rules _ _ H1 H2).
    destruct rules; [congruence|]. destruct (keep_plain (s :: rules)); [congruence|]. reflexivity.
Qed.

Lemma url_ignores_inverted rules u :
  ~ In "*" rules -> nonresource_url_matches rules u = nonresource_url_matches (keep_plain rules) u.
Proof.
  intros Hns.
  pose (a := mkAttrs "" "" "" "" "" u "" [] false).
  pose (r1 := mkRule [] [] [] [] [] [] [] rules). pose (r2 := mkRule [] [] [] [] [] [] [] (keep_plain rules)).
  change (nonresource_url_matches (r_urls r1) (a_path a) = nonresource_url_matches (r_urls r2) (a_path a)).
  rewrite !url_ok. unfold urls_sem. simpl r_urls.
  destruct (existsb is_star (map classify rules)) eqn:Hs.
  - exfalso. apply Hns. apply existsb_exists in Hs as (e & He & Hst).
    apply in_map_iff in He as (s & Hc & Hin). destruct e; try discriminate.
    destruct (classify_cases s) as [[Hs' _]|[(_ & _ & Hc')|(_ & _ & Hc')]];
      try (rewrite Hc' in Hc; discriminate).
    apply String.eqb_eq in Hs'. subst s. exact Hin.
  - now rewrite (star_keep _ Hs), positives_keep.
Qed.

Lemma simple_inverted rules reqs extra :
  all_inverted rules ->
  simple_matches rules reqs extra = negb (simple_matches (map tail1 rules) reqs extra).
Proof. intros H. rewrite !simple_matches_sem. now apply field_sem_inverted. Qed.

Lemma inverted_is_complement rules :
  all_inverted rules ->
  (forall v, verb_matches rules v = negb (verb_matches (map tail1 rules) v)) /\
  (forall g, apigroup_matches rules g = negb (apigroup_matches (map tail1 rules) g)) /\
  (forall c s, resource_matches rules c s = negb (resource_matches (map tail1 rules) c s)) /\
  (forall n, resourcename_matches rules n = negb (resourcename_matches (map tail1 rules) n)) /\
  (forall u, user_or_sa_matches rules [] u = negb (user_or_sa_matches (map tail1 rules) [] u)) /\
  (forall gs, usergroup_matches rules gs = negb (usergroup_matches (map tail1 rules) gs)).
Proof.
  intros H. pose proof H as [Hne _].
  unfold verb_matches, apigroup_matches, resource_matches, resourcename_matches, user_or_sa_matches,
    usergroup_matches.
  destruct rules as [|r0 rest]; [congruence|]. cbn [map list_len0 andb sa_loop].
  change (tail1 r0 :: map tail1 rest) with (map tail1 (r0 :: rest)).
  repeat split; intros; try now apply simple_inverted.
  rewrite (simple_inverted _ _ _ H).
  destruct (simple_matches (map tail1 (r0 :: rest)) [u] (user_extra u)); reflexivity.
Qed.

Lemma empty_fields :
  (forall n, resourcename_matches [] n = true) /\
  (forall gs, usergroup_matches [] gs = true) /\
  (forall u, user_or_sa_matches [] [] u = true) /\
  (forall v, verb_matches [] v = false) /\
  (forall g, apigroup_matches [] g = false) /\
  (forall c s, resource_matches [] c s = false) /\
  (forall p, nonresource_url_matches [] p = false) /\
  (forall u sa sas, user_or_sa_matches [] (sa :: sas) u = sa_loop (sa :: sas) u).
Proof. repeat split. Qed.

Lemma plain_sub sub : plain ("*/" ++ sub) = true.
Proof. reflexivity. Qed.

Lemma simple_pos_entry rules reqs extra p :
  In p rules -> plain p = true -> (existsb (String.eqb p) reqs || extra (mkM false p)) = true ->
  simple_matches rules reqs extra = true.
Proof.
  intros H1 H2 H3. rewrite simple_matches_sem.
  exact (pos_entry_matches false _ rules p H1 H2 H3).
Qed.

Lemma subresource_wildcard rules res sub :
  In ("*/" ++ sub) rules -> sub <> "" ->
  resource_matches rules (res ++ "/" ++ sub) sub = true.
Proof.
  intros Hin Hne. unfold resource_matches.
  apply (simple_pos_entry _ _ _ ("*/" ++ sub) Hin (plain_sub sub)).
  rewrite resource_extra_ok. destruct sub; [congruence|]. rewrite String.eqb_refl. apply orb_true_r.
Qed.

Lemma inverted_subresource_wildcard res sub :
  sub <> "" -> resource_matches ["-*/" ++ sub] (res ++ "/" ++ sub) sub = false.
Proof.
  intros Hne.
  assert (all_inverted ["-*/" ++ sub]) as H.
  { split; [discriminate|]. intros r [<-|[]]. split; reflexivity. }
  destruct (inverted_is_complement _ H) as (_ & _ & Hr & _). rewrite Hr.
  change (map tail1 ["-*/" ++ sub]) with ["*/" ++ sub].
  rewrite (subresource_wildcard ["*/" ++ sub] res sub); [reflexivity|now left|exact Hne].
Qed.

Lemma user_glob rules sas p k u :
  In (p ++ stars (S k)) rules -> plain (p ++ stars (S k)) = true -> has_prefix u p = true ->
  user_or_sa_matches rules sas u = true.
Proof.
  intros Hin Hpl Hpre. unfold user_or_sa_matches.
  destruct rules as [|r0 rest]; [destruct Hin|]. cbn [list_len0 andb].
  rewrite (simple_pos_entry _ _ _ _ Hin Hpl); [reflexivity|].
  unfold user_extra. cbn [m_value]. rewrite go_glob_is_glob, (glob_prefix p k u Hpre). apply orb_true_r.
Qed.

Lemma url_glob rules p k path :
  In (p ++ stars (S k)) rules -> plain (p ++ stars (S k)) = true -> has_prefix path p = true ->
  nonresource_url_matches rules path = true.
Proof.
  intros Hin Hpl Hpre.
  pose (a := mkAttrs "" "" "" "" "" path "" [] false).
  pose (r1 := mkRule [] [] [] [] [] [] [] rules).
  change (nonresource_url_matches (r_urls r1) (a_path a) = true).
  rewrite url_ok. unfold urls_sem. simpl r_urls.
  destruct (existsb is_star (map classify rules)); [reflexivity|]. simpl.
  apply existsb_exists. exists (p ++ stars (S k)). split.
  - unfold positives. apply in_flat_map. exists (Pos (p ++ stars (S k))). split; [|now left].
    apply in_map_iff. exists (p ++ stars (S k)). split; [now apply plain_classify|exact Hin].
  - unfold url_pos. simpl a_path. rewrite (glob_prefix p k path Hpre). apply orb_true_r.
Qed.

(* ------------------------------------------------------------------ a match overlapping a Sync *)
Lemma cs_sync_keeps s new arr l :
  nth_error (cs_heap s) arr = Some l -> nth_error (cs_heap (cs_sync s new)) arr = Some l.
Proof.
  intros H. unfold cs_sync; simpl. rewrite nth_error_app1; [exact H|].
  apply nth_error_Some. congruence.
Qed.

Lemma skipn_nth {A} (l : list A) : forall i, (i < List.length l)%nat ->
  exists p, nth_error l i = Some p /\ skipn i l = p :: skipn (S i) l.
Proof.
  induction l as [|x l IH]; intros i H; simpl in H; [lia|].
  destruct i as [|i]; simpl; [eauto|]. apply IH. lia.
Qed.

Lemma scan_spec a new arr l : forall n i s fire s' r fire',
  nth_error (cs_heap s) arr = Some l -> (i + n = List.length l)%nat ->
  scan a s new arr i n fire = (s', r, fire') ->
  nth_error (cs_heap s') arr = Some l /\
  r = option_map (fun j => (i + j)%nat) (find_index (policy_matches a) (skipn i l)).
Proof.
  induction n as [|n IH]; intros i s fire s' r fire' Hh Hlen E; simpl in E.
  - injection E as <- <- <-. split; [exact Hh|].
    assert (i = List.length l) as -> by lia. now rewrite skipn_all.
  - set (s1 := match fire with Some O => cs_sync s new | _ => s end) in E.
    assert (H1 : nth_error (cs_heap s1) arr = Some l).
    { subst s1. destruct fire as [[|j]|]; auto using cs_sync_keeps. }
    destruct (skipn_nth l i ltac:(lia)) as (p & Hp & Hs).
    unfold cs_read in E. rewrite H1, Hp in E. rewrite Hs.
    remember (skipn (S i) l) as rest eqn:Hrest. simpl.
    destruct (policy_matches a p).
    + injection E as <- <- <-. split; [exact H1|]. simpl. now rewrite Nat.add_0_r.
    + destruct (IH (S i) s1 _ s' r fire' H1 ltac:(lia) E) as [Hh' ->]. split; [exact Hh'|].
      rewrite <- Hrest.
      destruct (find_index (policy_matches a) rest); simpl; [|reflexivity].
      f_equal. lia.
Qed.

Lemma match_from_is a sl new eps fire l :
  nth_error (cs_heap sl) (cs_cur sl) = Some l ->
  match_from a sl new eps fire = match_attributes a l eps.
Proof.
  intros Hl. unfold match_from, cs_len. rewrite Hl.
  destruct (scan a sl new (cs_cur sl) 0 (List.length l) fire) as [[s1 r] fire1] eqn:E.
  destruct (scan_spec a new (cs_cur sl) l (List.length l) O sl fire s1 r fire1 Hl (Nat.add_0_l _) E) as [H1 Hr].
  simpl in Hr.
  assert (H2 : nth_error (cs_heap (match fire1 with Some _ => cs_sync s1 new | None => s1 end)) (cs_cur sl) = Some l).
  { destruct fire1; auto using cs_sync_keeps. }
  unfold match_attributes, match_policies, cs_read. rewrite H2, Hr.
  destruct (find_index (policy_matches a) l); reflexivity.
Qed.

(* whatever the interruption point, the overlapped match is the decision under the old list
   (Sync after the load) or under the new list (Sync before the load) *)
Lemma overlapped_is a old new eps k :
  overlapped_match a old new eps k = match_attributes a (match k with O => new | S _ => old end) eps.
Proof.
  destruct k as [|j]; unfold overlapped_match; apply match_from_is; reflexivity.
Qed.

Lemma overlapping_sync_old_or_new a old new eps k :
  (overlapped_match a old new eps k = match_attributes a old eps \/
   overlapped_match a old new eps k = match_attributes a new eps) /\
  (forall f ups, overlapped_match a old new eps k = Some (f, ups) ->
     exists ps i p, (ps = old \/ ps = new) /\ first_match a ps = Some i /\ nth_error ps i = Some p /\
                    (exists r, In r (p_rules p) /\ rule_sem a r = true) /\
                    f = flow_name p /\ ups = (if list_len0 (p_subset p) then eps else p_subset p)).
Proof.
  rewrite overlapped_is. split; [destruct k; auto|].
  intros f ups H. set (ps := match k with O => new | S _ => old end) in *.
  exists ps. unfold match_attributes in H. rewrite route_is_first_match in H.
  destruct (first_match a ps) as [i|] eqn:Hf; [|discriminate].
  destruct (nth_error ps i) as [p|] eqn:Hn; [|discriminate]. injection H as <- <-.
  exists i, p. split; [subst ps; destruct k; auto|]. split; [reflexivity|]. split; [exact Hn|].
  split; [|split; reflexivity].
  apply first_match_least in Hf as (p' & Hn' & Hr & _). rewrite Hn in Hn'. injection Hn' as <-. exact Hr.
Qed.

Lemma decision_is_model a ps eps :
  decision a ps eps = match match_attributes a ps eps with
                      | None => mkMA true false "" []
                      | Some (f, ups) => mkMA false true f ups end.
Proof.
  unfold decision, match_attributes. rewrite route_is_first_match.
  destruct (first_match a ps) as [i|]; [|reflexivity].
  destruct (nth_error ps i) as [p|]; [|reflexivity]. unfold flow_name.
  destruct (p_flow p); destruct (p_subset p); reflexivity.
Qed.
