(* C17 — proofs: admission normalisation preserves matching for every rule and request, and is idempotent. *)
From KG Require Import Prelude C01_Model C01_Spec C01_Proofs C17_Model C17_Spec.
Open Scope string_scope.
Open Scope bool_scope.

Definition pos_entry (r : string) : Prop := String.eqb r "*" = false /\ is_neg r = false.
Definition neg_entry (r : string) : Prop := String.eqb r "*" = false /\ is_neg r = true.
Definition neg_matcher (r : string) : matcher := mkM true (tail1 r).

(* the two filterRules functions split a list the same way *)
Lemma split_adm_char rules :
  let '(fa, rva, all) := split_adm rules in
  split_rules rules = (map (mkM false) fa, map neg_matcher rva, all)
  /\ Forall pos_entry fa /\ Forall neg_entry rva.
Proof.
  induction rules as [|r rest IH]; simpl.
  - repeat split; constructor.
  - destruct (String.eqb r "*") eqn:Hs.
    + repeat split; constructor.
    + destruct (split_adm rest) as [[fa rva] all]. destruct IH as (E & Hf & Hr). rewrite E.
      destruct (is_neg r) eqn:Hn.
      * repeat split; [exact Hf|]. constructor; [split; assumption|exact Hr].
      * repeat split; [|exact Hr]. constructor; [split; assumption|exact Hf].
Qed.

Lemma split_pos fa :
  Forall pos_entry fa ->
  split_rules fa = (map (mkM false) fa, [], false) /\ split_adm fa = (fa, [], false).
Proof.
  induction 1 as [|r rest [Hs Hn] _ [IH1 IH2]]; simpl; [split; reflexivity|].
  rewrite Hs, Hn, IH1, IH2. split; reflexivity.
Qed.

Lemma split_neg rva :
  Forall neg_entry rva ->
  split_rules rva = ([], map neg_matcher rva, false) /\ split_adm rva = ([], rva, false).
Proof.
  induction 1 as [|r rest [Hs Hn] _ [IH1 IH2]]; simpl; [split; reflexivity|].
  rewrite Hs, Hn, IH1, IH2. split; reflexivity.
Qed.

(* key lemma: filtering the normalised list gives what filtering the submitted list gives *)
Lemma filter_after_adm rules :
  snd (filter_rules (filter_rules_adm rules)) = snd (filter_rules rules) /\
  (snd (filter_rules rules) = false ->
   fst (filter_rules (filter_rules_adm rules)) = fst (filter_rules rules)).
Proof.
  unfold filter_rules_adm, filter_rules at 2 3 5.
  pose proof (split_adm_char rules) as H.
  destruct (split_adm rules) as [[fa rva] all]. destruct H as (E & Hf & Hr). rewrite E.
  destruct all.
  - split.
    + destruct (map (mkM false) fa); reflexivity.
    + destruct (map (mkM false) fa); simpl; discriminate.
  - destruct fa as [|p fa'].
    + destruct (split_neg rva Hr) as [E2 _]. unfold filter_rules. rewrite E2. split; reflexivity.
    + destruct (split_pos (p :: fa') Hf) as [E2 _]. unfold filter_rules. rewrite E2. split; reflexivity.
Qed.

Lemma simple_matches_adm rules reqs extra :
  simple_matches (filter_rules_adm rules) reqs extra = simple_matches rules reqs extra.
Proof.
  unfold simple_matches. destruct (filter_after_adm rules) as [Hall Hfst].
  destruct (filter_rules (filter_rules_adm rules)) as [f1 a1].
  destruct (filter_rules rules) as [f2 a2]. simpl in *. subst a1.
  destruct a2; [reflexivity|]. now rewrite (Hfst eq_refl).
Qed.

Lemma url_matches_adm rules req :
  nonresource_url_matches (filter_rules_adm rules) req = nonresource_url_matches rules req.
Proof.
  unfold nonresource_url_matches. destruct (filter_after_adm rules) as [Hall Hfst].
  destruct (filter_rules (filter_rules_adm rules)) as [f1 a1].
  destruct (filter_rules rules) as [f2 a2]. simpl in *. subst a1.
  destruct a2; [reflexivity|]. now rewrite (Hfst eq_refl).
Qed.

(* emptiness (which decides the optional fields) is preserved *)
Lemma len0_adm rules : list_len0 (filter_rules_adm rules) = list_len0 rules.
Proof.
  destruct rules as [|r rest]; [reflexivity|]. unfold filter_rules_adm. simpl.
  destruct (String.eqb r "*"); [reflexivity|].
  destruct (split_adm rest) as [[fa rva] all].
  destruct (is_neg r); destruct all; try reflexivity.
  destruct fa; reflexivity.
Qed.

Lemma same_matching r a : rule_matches a (normalize_rule r) = rule_matches a r.
Proof.
  unfold rule_matches, normalize_rule; simpl.
  unfold verb_matches, apigroup_matches, resource_matches, resourcename_matches, user_or_sa_matches,
    usergroup_matches.
  now rewrite !simple_matches_adm, !len0_adm, url_matches_adm.
Qed.

Lemma adm_idempotent rules : filter_rules_adm (filter_rules_adm rules) = filter_rules_adm rules.
Proof.
  unfold filter_rules_adm at 2 3.
  pose proof (split_adm_char rules) as H.
  destruct (split_adm rules) as [[fa rva] all]. destruct H as (_ & Hf & Hr).
  destruct all; [reflexivity|].
  destruct fa as [|p fa'].
  - destruct (split_neg rva Hr) as [_ E2]. unfold filter_rules_adm. now rewrite E2.
  - destruct (split_pos (p :: fa') Hf) as [_ E2]. unfold filter_rules_adm. now rewrite E2.
Qed.

Lemma idempotent r : normalize_rule (normalize_rule r) = normalize_rule r.
Proof. unfold normalize_rule; simpl. now rewrite !adm_idempotent. Qed.

Lemma existsb_map {A B} (f : B -> bool) (g : A -> B) l : existsb f (map g l) = existsb (fun x => f (g x)) l.
Proof. induction l as [|x l IH]; simpl; [reflexivity|now rewrite IH]. Qed.

Lemma policy_same a p : policy_matches a (normalize_policy p) = policy_matches a p.
Proof.
  unfold policy_matches, normalize_policy; simpl. rewrite existsb_map.
  apply existsb_ext'. intros r. apply same_matching.
Qed.

Lemma find_index_map {A B} (f : B -> bool) (g : A -> B) l :
  find_index f (map g l) = find_index (fun x => f (g x)) l.
Proof. induction l as [|x l IH]; simpl; [reflexivity|now rewrite IH]. Qed.

Lemma find_index_ext {A} (f g : A -> bool) l : (forall x, f x = g x) -> find_index f l = find_index g l.
Proof. intros H. induction l as [|x l IH]; simpl; [reflexivity|now rewrite H, IH]. Qed.

(* routing of an admitted object is the routing of the submitted object *)
Lemma routing_unchanged a ps : match_policies a (map normalize_policy ps) = match_policies a ps.
Proof.
  unfold match_policies. rewrite find_index_map. apply find_index_ext. intros p. apply policy_same.
Qed.

Lemma nth_error_map_norm ps i :
  nth_error (map normalize_policy ps) i = option_map normalize_policy (nth_error ps i).
Proof. revert i. induction ps as [|p ps IH]; intros [|i]; simpl; auto. Qed.

Lemma attributes_unchanged a ps eps :
  match_attributes a (map normalize_policy ps) eps = match_attributes a ps eps.
Proof.
  unfold match_attributes. rewrite routing_unchanged.
  destruct (match_policies a ps) as [i|]; [|reflexivity].
  rewrite nth_error_map_norm. destruct (nth_error ps i) as [p|]; reflexivity.
Qed.

(* the stored rule means the same under the documented semantics *)
Lemma same_semantics r a : rule_sem a (normalize_rule r) = rule_sem a r.
Proof. rewrite <- !rule_ok. apply same_matching. Qed.

(* shape of a normalised field *)
Lemma normal_form rules :
  filter_rules_adm rules = ["*"] \/ Forall pos_entry (filter_rules_adm rules) \/
  Forall neg_entry (filter_rules_adm rules).
Proof.
  unfold filter_rules_adm. pose proof (split_adm_char rules) as H.
  destruct (split_adm rules) as [[fa rva] all]. destruct H as (_ & Hf & Hr).
  destruct all; [now left|right]. destruct fa; [now right|now left].
Qed.

(* the executable spec clauses hold of the model's own outputs *)
Lemma list_eqb_refl {A} (e : A -> A -> bool) : (forall x, e x x = true) -> forall l, list_eqb e l l = true.
Proof. intros H l. induction l as [|x l IH]; simpl; [reflexivity|now rewrite H, IH]. Qed.

Lemma policies_of_norm rs : policies_of (map normalize_rule rs) = map normalize_policy (policies_of rs).
Proof. unfold policies_of. rewrite !map_map. reflexivity. Qed.

Lemma rule_eqb_refl r : rule_eqb r r = true.
Proof.
  unfold rule_eqb, strs_eqb.
  rewrite !(list_eqb_refl String.eqb String.eqb_refl).
  rewrite (list_eqb_refl sa_eqb); [reflexivity|].
  intros x. unfold sa_eqb. now rewrite !String.eqb_refl.
Qed.

Lemma model_meets_spec rs reqs :
  let ns := map normalize_rule rs in
  let o := C17_Spec.mkObs ns (map normalize_rule ns) ns (map normalize_rule ns)
             (map (fun r => map (fun a => rule_matches a r) reqs) rs)
             (map (fun r => map (fun a => rule_matches a r) reqs) ns)
             (map (fun a => match_policies a (policies_of rs)) reqs)
             (map (fun a => match_policies a (policies_of ns)) reqs) in
  same_matching_ok o = true /\ idempotent_ok o = true.
Proof.
  cbv zeta. split.
  - unfold same_matching_ok. simpl.
    assert (E1 : map (fun r => map (fun a => rule_matches a r) reqs) (map normalize_rule rs) =
                 map (fun r => map (fun a => rule_matches a r) reqs) rs).
    { rewrite map_map. apply map_ext. intros r. apply map_ext. intros a. apply same_matching. }
    assert (E2 : map (fun a => match_policies a (policies_of (map normalize_rule rs))) reqs =
                 map (fun a => match_policies a (policies_of rs)) reqs).
    { apply map_ext. intros a. rewrite policies_of_norm. apply routing_unchanged. }
    rewrite E1, E2.
    rewrite (list_eqb_refl (list_eqb Bool.eqb)) by (apply list_eqb_refl; apply Bool.eqb_reflx).
    apply list_eqb_refl. intros [n|]; simpl; [apply Nat.eqb_refl|reflexivity].
  - unfold idempotent_ok, rules_eqb. simpl.
    assert (E : map normalize_rule (map normalize_rule rs) = map normalize_rule rs).
    { rewrite map_map. apply map_ext. intros r. apply idempotent. }
    rewrite E. rewrite (list_eqb_refl rule_eqb rule_eqb_refl). reflexivity.
Qed.
