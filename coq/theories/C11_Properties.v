(* C11 — property theorems (statements only; proofs live in C11_Proofs.v / C10_Proofs.v).

   Histories are lists of API-level ops (C10_Model.op): create/update through admission, delete, and
   re-delivery of ANY earlier event at any later time (this covers requeues of failed attempts and
   deliveries of superseded versions); [legal] only excludes ops that bypass admission.
   [view_of P g name] is what the public accessors listed in the property show for the ClusterInfo the
   manager returns for [name] (C11_Model.view); client connection settings are not part of it. *)
From KG Require Import Prelude C10_Model C10_Spec C10_Proofs C11_Model C11_Proofs.
From Coq Require Import Permutation.
Open Scope string_scope.
Open Scope Z_scope.

(* Section by section, a successful ClusterInfo.Sync ends in a state that depends on the applied object
   only: two ClusterInfos with arbitrary (well-formed) previous states show the same view afterwards. *)
Theorem C11_sync_canonical : forall i1 i2 o,
  field_valid o = true ->
  wf i1 -> i_badclient i1 = false -> i_cluster i1 = lowname o ->
  wf i2 -> i_badclient i2 = false -> i_cluster i2 = lowname o -> i_stopped i1 = i_stopped i2 ->
  fst (info_sync i1 o) = true /\ fst (info_sync i2 o) = true /\
  forall P keys, view_info P (snd (info_sync i1 o)) keys = view_info P (snd (info_sync i2 o)) keys.
Proof. exact sync_canonical. Qed.
Print Assumptions C11_sync_canonical.

(* After ANY legal history the view of every cluster name equals the view on a freshly started gateway
   that was given only the latest objects, in any order. *)
Theorem C11_converges : forall ops l,
  Forall legal ops -> Permutation l (w_api (run empty_world ops)) ->
  forall P name, view_of P (w_gw (run empty_world ops)) name = view_of P (fresh l) name.
Proof. exact converges. Qed.
Print Assumptions C11_converges.

(* ... and it is the view of a ClusterInfo created from the cluster's latest object alone, reachable
   under exactly that object's names. *)
Theorem C11_latest_object : forall ops o,
  Forall legal ops -> In o (w_api (run empty_world ops)) ->
  exists i0, create_info o = Some i0 /\
    forall P, view_of P (w_gw (run empty_world ops)) (o_name o) = view_info P i0 (keys_of o (pb_hosts P)).
Proof. exact latest_object. Qed.
Print Assumptions C11_latest_object.

(* The fresh gateway of the model (lister filled first, then one event per object) is the gateway reached
   by creating the objects one after the other. *)
Theorem C11_fresh_is_a_run : forall l, api_ok l ->
  fresh l = w_gw (run empty_world (map (OApply false) l)) /\ w_api (run empty_world (map (OApply false) l)) = l.
Proof. exact fresh_is_run. Qed.
Print Assumptions C11_fresh_is_a_run.

(* ---------------------------------------------------------------- non-vacuity *)
Definition pol (verbs : list string) (fc : string) (sub : list Z) (lg : Z) : policy :=
  {| p_verbs := verbs; p_fc := fc; p_subset := sub; p_log := lg |}.
Definition v1 : obj :=
  {| o_name := "a"; o_gates := [(1, true); (3, true)]; o_fc := [{| s_name := "s1"; s_kind := FMax 5 |}];
     o_sn := ["x"]; o_cert := 1; o_key := 1; o_ca := 1; o_eps := [(0, 0); (1, 2)];
     o_pol := [pol ["get"] "s1" [1] 1; pol ["*"] "" [] 0]; o_log := 0; o_client := 0 |}.
Definition v2 : obj :=
  {| o_name := "a"; o_gates := [(3, true)]; o_fc := [{| s_name := "s2"; s_kind := FTB 5 10 |}];
     o_sn := ["y"]; o_cert := 1; o_key := 0; o_ca := 0; o_eps := [(1, 0); (2, 1)];
     o_pol := [pol ["*"] "s2" [] 2]; o_log := 1; o_client := 0 |}.
Definition other_b : obj :=
  {| o_name := "b"; o_gates := []; o_fc := []; o_sn := ["x"]; o_cert := 0; o_key := 0; o_ca := 0;
     o_eps := [(3, 0)]; o_pol := [pol ["*"] "" [] 0]; o_log := 0; o_client := 0 |}.
Definition demo_probes : probes :=
  {| pb_eps := [0; 1; 2; 3]; pb_schemas := ["s1"; "s2"; ""]; pb_verbs := ["get"; "create"];
     pb_hosts := ["a"; "X"; "y"; "b"] |}.

(* create, a refused take-over of alias x, an update touching every section, the take-over, a re-delivery
   of the first event and a delete + re-create: the hot gateway shows v2's configuration and nothing of v1's *)
Definition demo11 : list op :=
  [OApply false v1; OApply false other_b; OApply false v2; OApply false other_b; ORetry 0;
   ODelete "a"; OApply false v2].

Example C11_converges_nonvacuous :
  Forall legal demo11
  /\ map o_name (w_api (run empty_world demo11)) = ["b"; "a"]
  /\ view_of demo_probes (w_gw (run empty_world demo11)) "a"
     = {| v_present := true; v_stopped := false;
          v_eps := [None; Some (false, false); Some (false, false); None];
          v_fcs := [("system-default", FExempt); ("s2", FTB 5 10); ("system-default", FExempt)];
          v_enf := [FExempt; FTB 5 10; FExempt];
          v_gates := [false; false; false; true];
          v_probes := [Some {| pr_fcname := "s2"; pr_fc := ("s2", FTB 5 10);
                               pr_ups := [false; true; true; false]; pr_log := false |};
                       Some {| pr_fcname := "s2"; pr_fc := ("s2", FTB 5 10);
                               pr_ups := [false; true; true; false]; pr_log := false |}];
          v_names := ["a"; "y"]; v_tls := (false, 0, 0); v_verify := (false, 0);
          v_keys := [true; false; true; false] |}
  /\ view_of demo_probes (w_gw (run empty_world demo11)) "a" = view_of demo_probes (fresh [v2; other_b]) "a"
  /\ view_of demo_probes (w_gw (run empty_world demo11)) "x" = view_of demo_probes (fresh [v2; other_b]) "b".
Proof. split; [repeat constructor|]. vm_compute. repeat split; reflexivity. Qed.

(* a hot reload that changes ONLY the burst of a token-bucket schema (then only the rate, then both): the limiter
   enforces the latest limits, exactly like a fresh gateway *)
Definition tb (q b : Z) : obj :=
  {| o_name := "a"; o_gates := []; o_fc := [{| s_name := "s1"; s_kind := FTB q b |}]; o_sn := []; o_cert := 0;
     o_key := 0; o_ca := 0; o_eps := [(0, 0)]; o_pol := [pol ["*"] "s1" [] 0]; o_log := 0; o_client := 0 |}.
Example C11_burst_only_nonvacuous :
  let P := {| pb_eps := [0]; pb_schemas := ["s1"]; pb_verbs := ["get"]; pb_hosts := ["a"] |} in
  let h := [OApply false (tb 5 10); OApply false (tb 5 50)] in
  Forall legal (h ++ [OApply false (tb 5 7); OApply false (tb 9 9)])
  /\ v_enf (view_of P (w_gw (run empty_world [OApply false (tb 5 10)])) "a") = [FTB 5 10]
  /\ v_enf (view_of P (w_gw (run empty_world h)) "a") = [FTB 5 50]
  /\ view_of P (w_gw (run empty_world h)) "a" = view_of P (fresh [tb 5 50]) "a"
  /\ v_enf (view_of P (w_gw (run empty_world (h ++ [OApply false (tb 5 7)]))) "a") = [FTB 5 7]
  /\ view_of P (w_gw (run empty_world (h ++ [OApply false (tb 5 7); OApply false (tb 9 9)]))) "a"
     = view_of P (fresh [tb 9 9]) "a".
Proof. split; [repeat constructor|]. vm_compute. repeat split; reflexivity. Qed.

(* ---------------------------------------------------------------- failed attempts (recorded)
   ClusterInfo.Sync applies an object section by section and stops at the first error.  An object that
   validation would refuse (here: a key that does not match the certificate, admission bypassed) leaves the
   gates and flow-control sections of the new version next to the secure-serving, endpoint and policy
   sections of the old one; the next admitted version brings every section to that version's state. *)
Definition v_bad : obj :=
  {| o_name := "a"; o_gates := [(0, true)]; o_fc := []; o_sn := ["z"]; o_cert := 1; o_key := 2; o_ca := 0;
     o_eps := [(3, 0)]; o_pol := [pol ["*"] "" [] 0]; o_log := 2; o_client := 0 |}.

Theorem C11_partial_sync_keeps_sections_witness :
  let w1 := run empty_world [OApply false v1; OApply true v_bad] in
  let w2 := run empty_world [OApply false v1; OApply true v_bad; OApply false v2] in
  (* after the failed attempt: gates and schemas of v_bad, names / certificate / endpoints of v1 *)
  v_gates (view_of demo_probes (w_gw w1) "a") = [true; false; false; false]
  /\ v_fcs (view_of demo_probes (w_gw w1) "a") = [default_fc; default_fc; default_fc]
  /\ v_names (view_of demo_probes (w_gw w1) "a") = ["a"; "x"]
  /\ v_tls (view_of demo_probes (w_gw w1) "a") = (true, 1, 1)
  (* after the next admitted version: exactly the fresh gateway's view *)
  /\ view_of demo_probes (w_gw w2) "a" = view_of demo_probes (fresh [v2]) "a".
Proof. vm_compute. repeat split; reflexivity. Qed.
Print Assumptions C11_partial_sync_keeps_sections_witness.
