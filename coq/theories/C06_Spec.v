(* C06 — the property as an executable checker over OBSERVATIONS only:
   a configuration (qps, burst), and the list of events (clock reading in ns, tokens asked,
   granted?) of one bucket between two reconfigurations.  Nothing here mentions model state.

   Units: NS = 10^9; "tokens" on the left-hand sides are multiplied by NS, times are integer ns,
   so  burst + qps*T[s]  reads  cap c + qps c * T[ns].

   Reading of time (stated once, used everywhere): the clock has a 1 ns quantum.  Two readings
   t <= t' delimit a real interval of length < (t' - t) + 1 ns, so
     - the closed window [t_i, t_j] is bounded by burst + qps*(t_j - t_i + 1ns)        (closed_ok)
     - the half-open window (t_i, t_j] is bounded by burst + qps*(t_j - t_i) exactly   (open_ok)
     - "admitted immediately" after an idle period means: admitted by the next clock tick, i.e.
       the last of the min(burst, floor(qps*t)) guaranteed requests may need a reading >= 1 ns
       after the first one                                                             (lower_ok) *)
From KG Require Import Prelude C06_Model.
Open Scope Z_scope.

Definition granted (e : ev) : Z := if eok e then easked e else 0.
Definition gsum (l : list ev) : Z := sumZ (map granted l).

(* forward movement of the clock readings along l, starting from reading prev.  For
   non-decreasing readings this is (last reading - prev); when callers read the clock before
   taking the limiter's lock the readings can step back, and every backward step delta is
   followed by a forward movement that counts again: fwd = (last - prev) + sum of backward steps *)
Fixpoint fwd (prev : Z) (l : list ev) : Z :=
  match l with
  | [] => 0
  | e :: r => Z.max 0 (etime e - prev) + fwd (etime e) r
  end.

(* ---- clause "closed": every window of consecutive calls i..j (both ends included) ---- *)
Definition closed_bound (c : cfg) (w : list ev) : bool :=
  match w with
  | [] => true
  | e :: r => NS * gsum w <=? cap c + qps c * (fwd (etime e) r + 1)
  end.

(* the same, for all windows, in O(n^2): scan extends a window to the right *)
Fixpoint scan (c : cfg) (g f prev : Z) (l : list ev) : bool :=
  match l with
  | [] => true
  | e :: r =>
      let g' := g + granted e in
      let f' := f + Z.max 0 (etime e - prev) in
      (NS * g' <=? cap c + qps c * (f' + 1)) && scan c g' f' (etime e) r
  end.
Fixpoint closed_ok (c : cfg) (l : list ev) : bool :=
  match l with
  | [] => true
  | e :: r => scan c 0 0 (etime e) (e :: r) && closed_ok c r
  end.

(* ---- clause "open": windows (t_i, t_j]: the calls after call i up to call j ---- *)
Fixpoint sorted_from (prev : Z) (l : list ev) : bool :=
  match l with
  | [] => true
  | e :: r => (prev <=? etime e) && sorted_from (etime e) r
  end.

Fixpoint scan_open (c : cfg) (g t0 : Z) (l : list ev) : bool :=
  match l with
  | [] => true
  | e :: r =>
      let g' := g + granted e in
      (NS * g' <=? cap c + qps c * (etime e - t0)) && scan_open c g' t0 r
  end.
Fixpoint open_all (c : cfg) (l : list ev) : bool :=
  match l with
  | [] => true
  | e :: r => scan_open c 0 (etime e) r && open_all c r
  end.
(* stated for non-decreasing clock readings and single-token requests (TryAcquire) *)
Definition open_ok (c : cfg) (l : list ev) : bool :=
  match l with
  | [] => true
  | e :: r =>
      if (sorted_from (etime e) r && forallb (fun x => easked x =? 1) l)%bool then open_all c l else true
  end.

(* ---- clause "lower": never stricter than configured ---- *)
(* k requests are owed from reading t0 on: of the first j requests offered, min(k, j) must have
   been granted — one less while the clock still reads t0 (1 ns quantum).  Scanning stops when
   the debt is paid, at the end, or when a clock reading steps back. *)
Fixpoint owed (k : Z) (t0 prev : Z) (offered cnt : Z) (l : list ev) : bool :=
  match l with
  | [] => true
  | e :: r =>
      if etime e <? prev then true else
      let offered' := offered + 1 in
      let cnt' := cnt + (if eok e then 1 else 0) in
      let excuse := if etime e <? t0 + 1 then 1 else 0 in
      if Z.min k offered' - excuse <=? cnt'
      then (if (k <=? cnt') then true else owed k t0 (etime e) offered' cnt' r)
      else false
  end.

(* idle for (t_i - t_{i-1}) before call i  =>  min(burst, floor(qps * idle)) requests owed *)
Fixpoint lower_from (c : cfg) (prev : Z) (l : list ev) : bool :=
  match l with
  | [] => true
  | e :: r =>
      (if etime e <? prev then true
       else owed (Z.min (burst c) (qps c * (etime e - prev) / NS)) (etime e) (etime e) 0 0 l)
      && lower_from c (etime e) r
  end.

(* a segment starts with a NEW bucket (creation or an effective Resize): it owes [burst] at once *)
Definition lower_ok (c : cfg) (l : list ev) : bool :=
  match l with
  | [] => true
  | e :: r =>
      if forallb (fun x => easked x =? 1) l
      then owed (burst c) (etime e) (etime e) 0 0 l && lower_from c (etime e) r
      else true
  end.

(* ---- clause "conc": overlapping calls (many concurrent callers) ----
   A call is known by its invocation time, its completion time (same clock, 1 ns quantum) and whether
   it was admitted.  Whatever was admitted entirely inside [a, b] counts against burst + qps*(b - a + 1ns);
   the tightest windows start at an invocation and end at a completion. *)
Record cev := { cinv : Z; cresp : Z; cadm : bool }.
Definition inside (a b : Z) (x : cev) : bool := (cadm x && (a <=? cinv x) && (cresp x <=? b))%bool.
Definition conc_count (a b : Z) (l : list cev) : Z := Z.of_nat (List.length (filter (inside a b) l)).
Definition conc_ok (c : cfg) (l : list cev) : bool :=
  forallb (fun x => forallb (fun y =>
     let a := cinv x in let b := cresp y in
     if a <=? b then NS * conc_count a b l <=? cap c + qps c * (b - a + 1) else true) l) l.

(* ---- clause "status": what is not admitted is answered 429, what is admitted is not ---- *)
Definition status_ok (admitted : bool) (status : Z) : bool :=
  if admitted then negb (status =? 429) else status =? 429.

(* ---- real-time clauses (no virtual clock): a fresh bucket hit by [calls] back-to-back requests
   that took [elapsed] ns in total ---- *)
Definition rt_upper (c : cfg) (admitted elapsed : Z) : bool :=
  NS * admitted <=? cap c + qps c * (elapsed + 1).
Definition rt_lower (c : cfg) (calls admitted : Z) : bool :=
  Z.min (burst c) calls <=? admitted.
