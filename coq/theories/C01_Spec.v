(* C01 — specification: the documented rule semantics (docs/en/design.md, "Rule", "Matching All",
   "Anti-selection") written declaratively, independent of the structure of the code, and the
   property as an executable checker over observations of the real code.
   Only the data types (rule, policy, attrs) are taken from C01_Model; none of its functions. *)
From KG Require Import Prelude C01_Model.
Open Scope string_scope.
Open Scope bool_scope.

(* ---------- entries of a rule field ---------- *)
Inductive entry := Star | Neg (s : string) | Pos (s : string).

Definition classify (r : string) : entry :=
  if String.eqb r "*" then Star
  else match r with
       | String c t => if Ascii.eqb c "-"%char then Neg t else Pos r
       | EmptyString => Pos r
       end.

Definition is_star (e : entry) : bool := match e with Star => true | _ => false end.
Definition positives (es : list entry) : list string :=
  flat_map (fun e => match e with Pos s => [s] | _ => [] end) es.
Definition negatives (es : list entry) : list string :=
  flat_map (fun e => match e with Neg s => [s] | _ => [] end) es.

(* One field of a rule against a request.
   - any "*"                      -> matches everything;
   - else some positive entries   -> matches iff one of them matches (the '-' entries are ignored);
   - else only '-' entries        -> the complement of the corresponding positive list;
   - else (empty)                 -> the field's documented default. *)
Definition field_sem (dflt : bool) (pos_match : string -> bool) (rules : list string) : bool :=
  let es := map classify rules in
  if existsb is_star es then true
  else match positives es, negatives es with
       | _ :: _, _ => existsb pos_match (positives es)
       | [], _ :: _ => forallb (fun n => negb (pos_match n)) (negatives es)
       | [], [] => dflt
       end.

(* trailing-'*' glob: pat = prefix ++ one or more '*', and the request starts with prefix *)
Fixpoint all_stars (s : string) : bool :=
  match s with
  | EmptyString => true
  | String c r => Ascii.eqb c "*"%char && all_stars r
  end.
Fixpoint glob (pat req : string) : bool :=
  match pat with
  | EmptyString => false
  | String c p' =>
      if all_stars pat then true
      else match req with
           | EmptyString => false
           | String d r' => Ascii.eqb c d && glob p' r'
           end
  end.

(* ---------- per-field positive match ---------- *)
Definition combined (a : attrs) : string :=
  match a_subresource a with
  | EmptyString => a_resource a
  | sub => a_resource a ++ "/" ++ sub
  end.

Definition verb_pos (a : attrs) (p : string) : bool := String.eqb p (a_verb a).
Definition group_pos (a : attrs) (p : string) : bool := String.eqb p (a_group a).
(* "{resource}", "{resource}/{subresource}", or "*/{subresource}" when the request has that subresource *)
Definition resource_pos (a : attrs) (p : string) : bool :=
  String.eqb p (combined a)
  || match a_subresource a with
     | EmptyString => false
     | sub => String.eqb p ("*/" ++ sub)
     end.
Definition name_pos (a : attrs) (p : string) : bool := String.eqb p (a_name a).
Definition user_pos (a : attrs) (p : string) : bool := String.eqb p (a_user a) || glob p (a_user a).
Definition ugroup_pos (a : attrs) (p : string) : bool := str_mem p (a_groups a).
Definition url_pos (a : attrs) (p : string) : bool := String.eqb p (a_path a) || glob p (a_path a).

(* required fields: empty matches nothing; optional fields: empty matches everything *)
Definition verbs_sem (a : attrs) (r : rule) : bool := field_sem false (verb_pos a) (r_verbs r).
Definition groups_sem (a : attrs) (r : rule) : bool := field_sem false (group_pos a) (r_groups r).
Definition resources_sem (a : attrs) (r : rule) : bool := field_sem false (resource_pos a) (r_resources r).
Definition names_sem (a : attrs) (r : rule) : bool := field_sem true (name_pos a) (r_names r).
Definition ugroups_sem (a : attrs) (r : rule) : bool := field_sem true (ugroup_pos a) (r_ugroups r).

(* nonResourceURLs "can not use invert matching": '-' entries are ignored *)
Definition urls_sem (a : attrs) (r : rule) : bool :=
  let es := map classify (r_urls r) in
  existsb is_star es || existsb (url_pos a) (positives es).

(* users / serviceAccounts (docs table): both empty -> every user; otherwise the user matches the
   users list (an empty users list matching nobody) or is one of the listed service accounts
   (entries need both namespace and name) *)
Definition sa_valid (sa : sa_ref) : bool :=
  match sa_ns sa, sa_name sa with
  | EmptyString, _ | _, EmptyString => false
  | _, _ => true
  end.
Definition sa_is (a : attrs) (sa : sa_ref) : bool :=
  sa_valid sa && String.eqb (a_user a) ("system:serviceaccount:" ++ sa_ns sa ++ ":" ++ sa_name sa).
Definition users_sem (a : attrs) (r : rule) : bool :=
  match r_users r, r_sas r with
  | [], [] => true
  | _, _ => field_sem false (user_pos a) (r_users r) || existsb (sa_is a) (r_sas r)
  end.

(* fields are and-ed; resource requests look at apiGroups/resources/resourceNames,
   non-resource requests at nonResourceURLs *)
Definition rule_sem (a : attrs) (r : rule) : bool :=
  verbs_sem a r && users_sem a r && ugroups_sem a r
  && (if a_is_resource a then groups_sem a r && resources_sem a r && names_sem a r
      else urls_sem a r).

(* rules of a policy are or-ed *)
Definition policy_sem (a : attrs) (p : policy) : bool := existsb (rule_sem a) (p_rules p).

(* least index of a policy with a matching rule (see C01_first_match_least for the relational form) *)
Fixpoint first_from (a : attrs) (i : nat) (ps : list policy) : option nat :=
  match ps with
  | [] => None
  | p :: rest => if policy_sem a p then Some i else first_from a (S i) rest
  end.
Definition first_match (a : attrs) (ps : list policy) : option nat := first_from a O ps.

(* ---------- the property over observations ---------- *)
(* what one ClusterInfo answered to MatchAttributes *)
Record ma_obs := mkMA {
  ma_nomatch : bool;             (* err == ErrNoRouterRuleMatches *)
  ma_picker : bool;              (* a non-nil EndpointPicker was returned *)
  ma_flow : string;              (* picker.FlowControlName() *)
  ma_upstreams : list string;    (* endpoints the picker chooses from *)
}.

Record obs := mkObs {
  o_idx : option nat;            (* position of the policy returned by clusters.MatchPolicies, None = nil *)
  o_fresh : ma_obs;              (* MatchAttributes of a ClusterInfo created for this case *)
  o_aged : ma_obs;               (* same question to a ClusterInfo that went through unrelated syncs/matches before *)
}.

Definition opt_nat_eqb := opt_eqb Nat.eqb.
Definition same_members (x y : list string) : bool :=
  forallb (fun s => str_mem s y) x && forallb (fun s => str_mem s x) y.
Definition ma_eqb (x y : ma_obs) : bool :=
  Bool.eqb (ma_nomatch x) (ma_nomatch y) && Bool.eqb (ma_picker x) (ma_picker y)
  && String.eqb (ma_flow x) (ma_flow y) && same_members (ma_upstreams x) (ma_upstreams y).

(* (1) the request is handled under the first policy, in list order, with a matching rule *)
Definition first_ok (a : attrs) (ps : list policy) (o : obs) : bool :=
  opt_nat_eqb (o_idx o) (first_match a ps).

(* (2) no policy matches  <->  rejected (ErrNoRouterRuleMatches), and then nothing to forward to *)
Definition reject_ok (a : attrs) (ps : list policy) (m : ma_obs) : bool :=
  match first_match a ps with
  | None => ma_nomatch m && negb (ma_picker m)
  | Some _ => negb (ma_nomatch m) && ma_picker m
  end.

(* (3) flow control and upstream set are those of the first matching policy *)
Definition chosen_ok (a : attrs) (ps : list policy) (eps : list string) (m : ma_obs) : bool :=
  match first_match a ps with
  | None => true
  | Some i =>
      match nth_error ps i with
      | None => false
      | Some p =>
          String.eqb (ma_flow m) (match p_flow p with EmptyString => "system-default" | f => f end)
          && same_members (ma_upstreams m) (match p_subset p with [] => eps | s => s end)
      end
  end.

(* (4) the decision depends only on the attributes and the current policy list *)
Definition age_ok (o : obs) : bool := ma_eqb (o_fresh o) (o_aged o).

(* ---------- a match that overlaps a Sync ---------- *)
(* the decision under one policy list, as MatchAttributes reports it *)
Definition decision (a : attrs) (ps : list policy) (eps : list string) : ma_obs :=
  match first_match a ps with
  | None => mkMA true false "" []
  | Some i =>
      match nth_error ps i with
      | None => mkMA true false "" []
      | Some p => mkMA false true (match p_flow p with EmptyString => "system-default" | f => f end)
                       (match p_subset p with [] => eps | s => s end)
      end
  end.

Record ov_obs := mkOv {
  ov_fired : bool;               (* Sync(new list) did run inside the overlapped MatchAttributes call *)
  ov_during : ma_obs;            (* what that call answered *)
  ov_after : ma_obs;             (* a plain MatchAttributes right afterwards *)
}.

(* (5) the answer of a match overlapping a Sync is the decision under the old list or the decision
   under the new list (so the policy it names has a rule matching the request in the list it came
   from), never a third thing; afterwards the list in force is the one last synced *)
Definition atomic_list_ok (a : attrs) (old new : list policy) (eps : list string) (o : ov_obs) : bool :=
  (ma_eqb (ov_during o) (decision a old eps) || ma_eqb (ov_during o) (decision a new eps))
  && ma_eqb (ov_after o) (decision a (if ov_fired o then new else old) eps).
