(* C18 — implementation model of the limiter server's bookkeeping per gateway instance
   (pkg/ratelimiter/limiter/ratelimter.go: Heartbeat, UpdateRateLimitConditionStatus, DoAcquire,
    cleanupTimeoutClient, cleanupUnknownCondition, deleteCondition, deleteGlobalFlowControl;
    clientcache.go; store/local/local.go List / DeleteInstanceState;
    store/flowcontrol/maxinflight.go SetState).

   now   : virtual time in milliseconds
   hb    : ClientCache.clientHeartbeats        instance -> last heartbeat time
   conds : stored RateLimitConditions          (upstream, instance) -> (allocated quota, instance label)
   sums  : upstream state condition status     upstream -> allocated sum recorded at the last report
   cnts  : global max-in-flight flow control   upstream -> (instance -> counted in-flight, total)
   lister: the UpstreamClusters the informer knows; an upstream has server-side state (state
           condition, flow controls) iff it has an entry in [cnts] / [sums]

   The quota allocated by a report (calculateNextQuota, property C07) is not recomputed here: the
   Report operation carries the allocated value [q] (observed in the correspondence run,
   universally quantified in the theorems).

   [lf] = "the instance label of a stored condition is the condition's own Spec.Instance" (candidate
   repair).  The pinned code takes it from the PREVIOUS stored condition, so after an instance's
   first report the label is "" (lf = false).
   [ah] = "DoAcquire records the acquiring instance in the client cache" (second candidate repair);
   the pinned code does not (ah = false), so what is counted for an instance that is not in the
   cache is never dropped. *)
From KG Require Import Prelude C13_Model C19_Model.
Open Scope Z_scope.

Definition timeout_ms : Z := 3000.        (* ClientHeartBeatTimeout *)

Definition cnd : Type := Z * string.      (* allocated quota, value of the instance label *)
Definition fcst : Type := list (string * Z) * Z.   (* instanceStates (instance -> count), count (running total) *)

Record st := mkSt {
  now : Z;
  hb : list (string * Z);
  conds : list (key * cnd);               (* key = (upstream, instance) *)
  sums : list (string * Z);
  cnts : list (string * fcst);
  lister : list string;                   (* UpstreamClusters known to the informer's lister *)
}.

Inductive op :=
| Heartbeat (i : string)
| Report (u i : string) (q : Z)           (* UpdateRateLimitConditionStatus; q = quota the server allocated *)
| Acquire (u i : string) (n : Z)          (* DoAcquire on the global-count max-in-flight schema: SetState(i, id, n) *)
| TickTimeout                             (* one cleanupTimeoutClient pass (every 1 s) *)
| TickUnknown                             (* one cleanupUnknownCondition pass (every 30 s) *)
| Advance (dt : Z)
| ClusterGone (u : string)                (* the UpstreamCluster disappears from the lister; the handler did not run *)
| ClusterSet (u : string).                (* the UpstreamCluster is (again) in the lister and UpstreamConditionHandler ran *)

Inductive res := RNil | ROk | RNotFound | RAcc (b : bool) | RNotLeader.
Definition res_eqb (a b : res) : bool :=
  match a, b with
  | RNil, RNil | ROk, ROk | RNotFound, RNotFound | RNotLeader, RNotLeader => true
  | RAcc x, RAcc y => Bool.eqb x y
  | _, _ => false
  end.

(* static configuration of a run: the upstream clusters known to the informer (each with a
   global-allocate schema and a global-count schema of limit cmax) *)
Record cfg := mkCfg { ups : list string; cmax : Z }.

Definition sum_quota (u : string) (l : list (key * cnd)) : Z :=
  sumZ (map (fun p : key * cnd => fst (snd p)) (filter (fun p : key * cnd => String.eqb (fst (fst p)) u) l)).

(* globalMaxInflight.SetState(i, fresh request id, n), n >= 0 *)
Definition set_state (max : Z) (f : fcst) (i : string) (n : Z) : fcst * bool :=
  let '(entries, total) := f in
  let old := match alookup String.eqb i entries with Some c => c | None => 0 end in
  let delta := n - old in
  let total1 := total + delta in
  let over := total1 - max in
  if (0 <? over) && (0 <? delta) then ((aset String.eqb i old entries, total), false)
  else if (0 <=? over) && (0 <? n) then ((aset String.eqb i n entries, total1), false)
  else ((aset String.eqb i n entries, total1), true).

(* localStore.DeleteInstanceState for a set of instances: SetState(i, -1, -1) on every flow control *)
Definition drop_insts (dead : list string) (f : fcst) : fcst :=
  let '(entries, total) := f in
  (filter (fun p : string * Z => negb (str_mem (fst p) dead)) entries,
   total - sumZ (map snd (filter (fun p : string * Z => str_mem (fst p) dead) entries))).

Definition drop_all (dead : list string) (c : list (string * fcst)) : list (string * fcst) :=
  map (fun p : string * fcst => (fst p, drop_insts dead (snd p))) c.

(* deleteCondition skips a condition whose Spec.Instance is empty *)
Definition deletable (p : key * cnd) : bool := negb (String.eqb (snd (fst p)) EmptyString).

(* upstreamsToDelete of the unknown-condition pass: an upstream that is not in the lister and has a
   condition (the state condition, whose Spec.Instance is "", included) of an instance that is not
   in the cache *)
Definition orphan (s : st) (u : string) : bool :=
  let known := map fst (hb s) in
  (negb (str_mem u (lister s))
   && (negb (str_mem EmptyString known)
       || existsb (fun p : key * cnd => (String.eqb (fst (fst p)) u && negb (str_mem (snd (fst p)) known))%bool) (conds s)))%bool.

Definition step (c : cfg) (lf ah : bool) (s : st) (o : op) : st * res :=
  match o with
  | Heartbeat i => (mkSt (now s) (aset String.eqb i (now s) (hb s)) (conds s) (sums s) (cnts s) (lister s), RNil)
  | Advance dt => (mkSt (now s + dt) (hb s) (conds s) (sums s) (cnts s) (lister s), RNil)
  | Report u i q =>
      (* limitStore.Get(u, u.state): the upstream state condition must exist *)
      match alookup String.eqb u (sums s) with None => (s, RNotFound) | Some _ =>
      (* an instance called "state" has the name of the upstream state condition: its condition is
         saved under that name and at once overwritten by the recomputed state condition *)
      if String.eqb i "state" then
        (mkSt (now s) (hb s) (conds s) (aset String.eqb u (sum_quota u (conds s)) (sums s)) (cnts s) (lister s), ROk)
      else
      let lab := if lf then i
                 else match alookup key_eqb (u, i) (conds s) with
                      | Some _ => i            (* oldCondition.Spec.Instance *)
                      | None => EmptyString    (* first report: the synthesised old condition has no instance *)
                      end in
      let cs := aset key_eqb (u, i) (q, lab) (conds s) in
      (mkSt (now s) (hb s) cs (aset String.eqb u (sum_quota u cs) (sums s)) (cnts s) (lister s), ROk)
      end
  | Acquire u i n =>
      let h := if ah then aset String.eqb i (now s) (hb s) else hb s in
      match alookup String.eqb u (cnts s) with
      | None => (mkSt (now s) h (conds s) (sums s) (cnts s) (lister s), RAcc false)
      | Some f =>
          if n <? 0 then (mkSt (now s) h (conds s) (sums s) (cnts s) (lister s), RAcc false) else
          let '(f', acc) := set_state (cmax c) f i n in
          (mkSt (now s) h (conds s) (sums s) (aset String.eqb u f' (cnts s)) (lister s), RAcc acc)
      end
  | TickTimeout =>
      let dead := map fst (filter (fun p : string * Z => now s >? snd p + timeout_ms) (hb s)) in
      (mkSt (now s)
            (filter (fun p : string * Z => negb (now s >? snd p + timeout_ms)) (hb s))
            (filter (fun p : key * cnd => negb (str_mem (snd (snd p)) dead && deletable p)) (conds s))
            (sums s)
            (drop_all dead (cnts s)) (lister s), RNil)
  | TickUnknown =>
      let known := map fst (hb s) in
      let victim := fun p : key * cnd => (negb (str_mem (snd (fst p)) known) && deletable p)%bool in
      let gone := map (fun p : key * cnd => snd (fst p)) (filter victim (conds s)) in
      (mkSt (now s) (hb s)
            (filter (fun p => (negb (victim p) && negb (orphan s (fst (fst p))))%bool) (conds s))
            (filter (fun p : string * Z => negb (orphan s (fst p))) (sums s))
            (filter (fun p : string * fcst => negb (orphan s (fst p))) (drop_all gone (cnts s)))
            (lister s), RNil)
  | ClusterGone u =>
      (mkSt (now s) (hb s) (conds s) (sums s) (cnts s) (filter (fun x => negb (String.eqb x u)) (lister s)), RNil)
  | ClusterSet u =>
      let l := if str_mem u (lister s) then lister s else u :: lister s in
      match alookup String.eqb u (sums s) with
      | Some _ => (mkSt (now s) (hb s) (conds s) (sums s)
                      (match alookup String.eqb u (cnts s) with Some _ => cnts s | None => aset String.eqb u ([], 0) (cnts s) end) l, RNil)
      | None => (mkSt (now s) (hb s) (conds s) (aset String.eqb u 0 (sums s))
                      (match alookup String.eqb u (cnts s) with Some _ => cnts s | None => aset String.eqb u ([], 0) (cnts s) end) l, RNil)
      end
  end.

(* ---- leadership: the replica with its API-backed (write-through) store ----
   [core] holds the client cache (kept whether or not the replica leads a shard), the persisted
   conditions and recorded sums (what the API holds; while the replica leads they are also the
   contents of its store) and, while it leads, the in-memory counts.  [step] above is the behaviour
   while leading; a standby records heartbeats, ages its client cache, follows the lister, and
   refuses reports and acquires. *)
Record srv := mkSrv { core : st; lead : bool }.

Inductive sop :=
| Op (o : op)
| StopLeading                             (* OnStoppedLeading: the store is flushed and dropped, in-memory counts are lost *)
| StartLeading.                           (* OnStartedLeading: new store, Load of the persisted conditions, handler for every listed upstream *)

(* startLeading: Load + syncUpstreamClustersForShard (state condition and fresh flow controls for
   every upstream in the lister) *)
Definition takeover (s : st) : st :=
  mkSt (now s) (hb s) (conds s)
       (fold_left (fun acc u => match alookup String.eqb u acc with Some _ => acc | None => aset String.eqb u 0 acc end)
                  (lister s) (sums s))
       (map (fun u => (u, ([], 0))) (lister s))
       (lister s).

Definition standby_step (s : st) (o : op) : st * res :=
  match o with
  | Heartbeat i => (mkSt (now s) (aset String.eqb i (now s) (hb s)) (conds s) (sums s) (cnts s) (lister s), RNil)
  | Advance dt => (mkSt (now s + dt) (hb s) (conds s) (sums s) (cnts s) (lister s), RNil)
  | Report _ _ _ => (s, RNotLeader)
  | Acquire _ _ _ => (s, RNotLeader)
  | TickTimeout =>
      (* the cache is aged also on a standby; there is no store to clean *)
      (mkSt (now s) (filter (fun p : string * Z => negb (now s >? snd p + timeout_ms)) (hb s))
            (conds s) (sums s) (cnts s) (lister s), RNil)
  | TickUnknown => (s, RNil)
  | ClusterGone u =>
      (mkSt (now s) (hb s) (conds s) (sums s) (cnts s) (filter (fun x => negb (String.eqb x u)) (lister s)), RNil)
  | ClusterSet u =>
      (mkSt (now s) (hb s) (conds s) (sums s) (cnts s) (if str_mem u (lister s) then lister s else u :: lister s), RNil)
  end.

Definition sstep (c : cfg) (lf ah : bool) (x : srv) (o : sop) : srv * res :=
  match o with
  | Op o => if lead x then let '(s', r) := step c lf ah (core x) o in (mkSrv s' true, r)
            else let '(s', r) := standby_step (core x) o in (mkSrv s' false, r)
  | StopLeading =>
      if lead x then
        (mkSrv (mkSt (now (core x)) (hb (core x)) (conds (core x)) (sums (core x)) [] (lister (core x))) false, RNil)
      else (x, RNil)
  | StartLeading => if lead x then (x, RNil) else (mkSrv (takeover (core x)) true, RNil)
  end.

Fixpoint srun_state (c : cfg) (lf ah : bool) (x : srv) (ops : list sop) : srv :=
  match ops with
  | [] => x
  | o :: r => srun_state c lf ah (fst (sstep c lf ah x o)) r
  end.

Fixpoint srun (c : cfg) (lf ah : bool) (x : srv) (ops : list sop) : list (res * srv) :=
  match ops with
  | [] => []
  | o :: r => let '(x', q) := sstep c lf ah x o in (q, x') :: srun c lf ah x' r
  end.

Definition init (c : cfg) : st :=
  mkSt 0 [] [] (map (fun u => (u, 0)) (ups c)) (map (fun u => (u, ([], 0))) (ups c)) (ups c).

Fixpoint run_state (c : cfg) (lf ah : bool) (s : st) (ops : list op) : st :=
  match ops with
  | [] => s
  | o :: r => run_state c lf ah (fst (step c lf ah s o)) r
  end.

Fixpoint run (c : cfg) (lf ah : bool) (s : st) (ops : list op) : list (res * st) :=
  match ops with
  | [] => []
  | o :: r => let '(s', x) := step c lf ah s o in (x, s') :: run c lf ah s' r
  end.

Definition sinit (c : cfg) : srv := mkSrv (init c) true.

(* which behaviour the tree under test has (false = pinned code) *)
Definition impl_label_fix : bool := true.
Definition impl_acquire_hb : bool := true.
