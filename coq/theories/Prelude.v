(* Prelude: byte strings, machine-integer wraps, small list utilities shared by
   all property models.  Executable definitions only + their basic lemmas. *)
From Coq Require Export List Arith ZArith NArith Lia Bool String Ascii.
From Coq Require Import ZifyBool ZifyNat ZifyN.
Export ListNotations.
Ltac Zify.zify_post_hook ::= Z.div_mod_to_equations.

Open Scope Z_scope.

(* ---------- byte strings ---------- *)
(* A Go string is a byte sequence; we use Coq [string] (list of 8-bit ascii).
   [bs] builds a string from byte codes so that the case files can carry
   arbitrary bytes. *)
Fixpoint bs (l : list N) : string :=
  match l with
  | [] => EmptyString
  | b :: r => String (ascii_of_N b) (bs r)
  end.

Fixpoint bytes_of (s : string) : list N :=
  match s with
  | EmptyString => []
  | String a r => N_of_ascii a :: bytes_of r
  end.

Definition str_eqb := String.eqb.

Fixpoint has_prefix (s p : string) : bool :=
  match p, s with
  | EmptyString, _ => true
  | String a p', String b s' => if Ascii.eqb a b then has_prefix s' p' else false
  | String _ _, EmptyString => false
  end.

Fixpoint str_rev_aux (s acc : string) : string :=
  match s with
  | EmptyString => acc
  | String a r => str_rev_aux r (String a acc)
  end.
Definition str_rev (s : string) : string := str_rev_aux s EmptyString.

Definition has_suffix (s p : string) : bool := has_prefix (str_rev s) (str_rev p).

(* strings.TrimRight(s, "c") for a single character cutset *)
Fixpoint drop_leading (c : ascii) (s : string) : string :=
  match s with
  | String a r => if Ascii.eqb a c then drop_leading c r else s
  | EmptyString => EmptyString
  end.
Definition trim_right_char (c : ascii) (s : string) : string :=
  str_rev (drop_leading c (str_rev s)).

Definition lower_ascii (a : ascii) : ascii :=
  let n := N_of_ascii a in
  if (N.leb 65 n && N.leb n 90)%bool then ascii_of_N (n + 32) else a.
Fixpoint to_lower (s : string) : string :=
  match s with
  | EmptyString => EmptyString
  | String a r => String (lower_ascii a) (to_lower r)
  end.

Fixpoint str_mem (x : string) (l : list string) : bool :=
  match l with
  | [] => false
  | y :: r => if String.eqb x y then true else str_mem x r
  end.

Lemma str_mem_In x l : str_mem x l = true <-> In x l.
Proof.
  induction l as [|y r IH]; simpl; [split; [discriminate|tauto]|].
  destruct (String.eqb_spec x y) as [->|Hne]; [tauto|].
  rewrite IH; split; [tauto|]. intros [H|H]; [congruence|exact H].
Qed.

(* ---------- machine integers ---------- *)
Definition two32 : Z := 4294967296.
Definition two31 : Z := 2147483648.
Definition two64 : Z := 18446744073709551616.
Definition wrapu32 (z : Z) : Z := z mod two32.
Definition wrap32 (z : Z) : Z := (z + two31) mod two32 - two31.
Definition wrapu64 (z : Z) : Z := z mod two64.
Definition in_int32 (z : Z) : Prop := - two31 <= z < two31.
Definition in_int32b (z : Z) : bool := (Z.leb (- two31) z && Z.ltb z two31)%bool.

Lemma wrap32_id z : in_int32 z -> wrap32 z = z.
Proof. unfold in_int32, wrap32, two31, two32; intros H. rewrite Z.mod_small; lia. Qed.
Lemma wrap32_range z : in_int32 (wrap32 z).
Proof. unfold in_int32, wrap32, two31, two32. pose proof (Z.mod_pos_bound (z + 2147483648) 4294967296). lia. Qed.
Lemma wrapu32_range z : 0 <= wrapu32 z < two32.
Proof. unfold wrapu32, two32. apply Z.mod_pos_bound; lia. Qed.

(* ---------- lists ---------- *)
Fixpoint sumZ (l : list Z) : Z :=
  match l with [] => 0 | x :: r => x + sumZ r end.

Lemma sumZ_app a b : sumZ (a ++ b) = sumZ a + sumZ b.
Proof. induction a as [|x a IH]; simpl; lia. Qed.

Fixpoint find_index {A} (f : A -> bool) (l : list A) : option nat :=
  match l with
  | [] => None
  | x :: r => if f x then Some O else option_map S (find_index f r)
  end.

Fixpoint list_eqb {A} (eqb : A -> A -> bool) (a b : list A) : bool :=
  match a, b with
  | [], [] => true
  | x :: a', y :: b' => (eqb x y && list_eqb eqb a' b')%bool
  | _, _ => false
  end.

Definition opt_eqb {A} (eqb : A -> A -> bool) (a b : option A) : bool :=
  match a, b with
  | None, None => true
  | Some x, Some y => eqb x y
  | _, _ => false
  end.

Lemma list_eqb_eq {A} (eqb : A -> A -> bool) :
  (forall x y, eqb x y = true <-> x = y) ->
  forall a b, list_eqb eqb a b = true <-> a = b.
Proof.
  intros H a; induction a as [|x a IH]; intros [|y b]; simpl; try (split; [discriminate|congruence]).
  - tauto.
  - rewrite Bool.andb_true_iff, H, IH. split; [intros [-> ->]; reflexivity|intros E; inversion E; tauto].
Qed.

Fixpoint forall2b {A B} (f : A -> B -> bool) (a : list A) (b : list B) : bool :=
  match a, b with
  | [], [] => true
  | x :: a', y :: b' => (f x y && forall2b f a' b')%bool
  | _, _ => false
  end.
