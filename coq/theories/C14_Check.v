(* C14 — case format of the correspondence run and its evaluator. *)
From KG Require Import Prelude C14_Model C14_Spec.
Open Scope Z_scope.

Inductive case :=
(* stable phase: ready endpoints, "explicit subset?", forced cursor (key, value) if any, the upstream
   list of every pick, observed results (-1 = error) *)
| CRr (ready : eplist) (explicit : bool) (force : option (eplist * Z)) (orders : list eplist) (obs : list Z)
(* history with readiness / server changes: initial servers, ops, observed results
   (-1 error, -2 nothing to observe, else endpoint) *)
| CHist (srv : eplist) (ops : list cop) (obs : list Z)
(* concurrent pickers on an explicit subset of k ready endpoints (numbered 0..k-1 = positions):
   picks per goroutine, schedule; observed trace of goroutine ids and per-goroutine results *)
| CConc (k : Z) (picks : list nat) (sched : list nat) (tr : list Z) (res : list (list Z)).

Definition pres_code (p : pres) : Z := match p with PErr => -1 | POk e => e end.

Definition agree_rr ready force orders obs : bool :=
  let cur := match force with Some (k, v) => [(k, v)] | None => [] end in
  list_eqb Z.eqb (map pres_code (snd (pops cur orders (fun e => zin e ready)))) obs.

Definition agree_hist srv ops obs : bool :=
  list_eqb Z.eqb
    (map (fun po => match fst po with OPick _ => pres_code (snd po) | _ => -2 end)
         (combine ops (crun {| servers := srv; readyset := []; curs := [] |} ops)))
    obs.

Definition seq0 (k : Z) : list Z := map Z.of_nat (seq 0 (Z.to_nat k)).

(* clause layout: agree, only_ready, strict, unordered, wrap, conc_strict *)
Definition eval (c : case) : list bool :=
  match c with
  | CRr ready explicit force orders obs =>
      let eps := match orders with [] => ready | o :: _ => filter (fun e => zin e ready) o end in
      [ agree_rr ready force orders obs;
        only_ready_ok eps obs;
        match force with None => if explicit then strict_ok eps obs else true | Some _ => true end;
        match force with None => unordered_ok eps orders obs | Some _ => true end;
        (if explicit then wrap_ok eps obs else true);
        true ]
  | CHist srv ops obs => [ agree_hist srv ops obs; true; true; true; true; true ]
  | CConc k picks sched tr res =>
      let '(mtr, mres, mglob) := model_conc k 0 picks sched in
      [ list_eqb Z.eqb mtr tr && list_eqb (list_eqb Z.eqb) mres res && list_eqb Z.eqb mglob (global_seq tr res);
        only_ready_ok (seq0 k) (global_seq tr res); true; true; true;
        strict_ok (seq0 k) (global_seq tr res) ]
  end.
