(* C14 — case format of the correspondence run and its evaluator. *)
From KG Require Import Prelude C14_Model C14_Spec.
Open Scope Z_scope.

Inductive case :=
(* stable phase: ready endpoints, "explicit subset?", forced cursor (key, value) if any, the upstream
   list of every pick, observed results (-1 = error) *)
| CRr (ready : eplist) (explicit : bool) (force : option (eplist * Z)) (orders : list eplist) (obs : list Z)
(* history with readiness / server changes / re-Syncs: initial servers, initially disabled ones, ops, observed results
   (-1 error, -2 nothing to observe, else endpoint) *)
| CHist (srv dis : eplist) (ops : list cop) (obs : list Z)
(* concurrent pickers on an explicit subset, in phases: before each phase the readiness of the subset's
   endpoints is set (a new ready list = a new, not yet existing counter); per phase: ready endpoints, picks
   per goroutine, schedule; observed: trace (goroutine, pick completed?) and per-goroutine results *)
| CConc (subset : eplist)
        (phases : list (eplist * list nat * list nat * list (Z * Z) * list (list Z)))
(* requests of one policy through the real dispatcher: ready endpoints, the policy's subset, ops, and per op
   what happened: -3 = refused (429), -2 = nothing to observe (a Sync), -1 = 503, else the endpoint that
   received the forwarded request *)
| CReq (ready subset : eplist) (ops : list qop) (obs : list Z).

Definition pres_code (p : pres) : Z := match p with PErr => -1 | POk e => e end.

Definition agree_rr ready force orders obs : bool :=
  let cur := match force with Some (k, v) => [(k, v)] | None => [] end in
  list_eqb Z.eqb (map pres_code (snd (pops cur orders (fun e => zin e ready)))) obs.

Definition agree_hist srv dis ops obs : bool :=
  list_eqb Z.eqb
    (map (fun po => match fst po with OPick _ => pres_code (snd po) | _ => -2 end)
         (combine ops (crun {| servers := srv; readyset := []; disabled := dis; curs := [] |} ops)))
    obs.

Definition ze_eqb (a b : Z * Z) : bool := (fst a =? fst b) && (snd a =? snd b).

(* observed global order of picks of a phase: the steps that completed a pick, in trace order *)
Definition obs_global (tr : list (Z * Z)) (res : list (list Z)) : list Z :=
  global_seq (map fst (filter (fun e => snd e =? 1) tr)) res.

Fixpoint conc_walk (subset : eplist) (cur : cursors)
         (ps : list (eplist * list nat * list nat * list (Z * Z) * list (list Z))) : bool * bool * bool :=
  match ps with
  | [] => (true, true, true)
  | (ready, picks, sched, tr, res) :: r =>
      let rd := filter (fun e => zin e ready) subset in
      let k := Z.of_nat (List.length rd) in
      let c0 := get cur rd in
      let '(mtr, mres, mglob, c1) := model_conc k c0 picks sched in
      let ep (z : Z) := nth (Z.to_nat z) rd (-1) in
      let glob := obs_global tr res in
      let agree := list_eqb ze_eqb mtr tr && list_eqb (list_eqb Z.eqb) (map (map ep) mres) res &&
                   list_eqb Z.eqb (map ep mglob) glob in
      let '(a2, o2, s2) := conc_walk subset (set cur rd c1) r in
      (agree && a2, only_ready_ok rd glob && o2, strict_ok rd glob && s2)
  end.

Definition qres_code (x : qres) : Z := match x with QRefused => -3 | QNone => -2 | QOut p => pres_code p end.

(* clause layout: agree, only_ready, strict, unordered, wrap, conc_strict, req_strict *)
Definition eval (c : case) : list bool :=
  match c with
  | CRr ready explicit force orders obs =>
      let eps := match orders with [] => ready | o :: _ => filter (fun e => zin e ready) o end in
      [ agree_rr ready force orders obs;
        only_ready_ok eps obs;
        match force with None => if explicit then strict_ok eps obs else true | Some _ => true end;
        match force with None => unordered_ok eps orders obs | Some _ => true end;
        (if explicit then wrap_ok eps obs else true);
        true; true ]
  | CHist srv dis ops obs => [ agree_hist srv dis ops obs; true; true; true; true; true; true ]
  | CConc subset phases =>
      let '(a, o, s) := conc_walk subset [] phases in [ a; o; true; true; true; s; true ]
  | CReq ready subset ops obs =>
      let ok := fun e => zin e ready in
      let eps := filter ok subset in
      (* the endpoints of the forwarded requests, as observed (refusals and Syncs are not picks) *)
      let fwd := filter (fun x => -1 <=? x) obs in
      [ list_eqb Z.eqb (map qres_code (qrun subset ok {| qcur := []; qzero := false |} ops)) obs;
        only_ready_ok eps fwd; true; true; true; true;
        strict_ok eps fwd ]
  end.
