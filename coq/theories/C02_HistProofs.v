(* C02 — histories: for every history of cluster creations, deletions, re-creations, policy changes,
   server names moving between live clusters, time steps and requests, every request of the model is
   decided by the incarnation that owns its host at that moment. *)
From KG Require Import Prelude C02_Model C02_HistModel C02_HistSpec.
Open Scope Z_scope.
Open Scope string_scope.
Open Scope list_scope.

(* ---- association lists *)
Lemma aget_filter_keep {A} (f : string * A -> bool) k v l :
  aget k l = Some v -> f (k, v) = true -> aget k (filter f l) = Some v.
Proof.
  induction l as [|[x y] r IH]; [discriminate|]. cbn [aget filter].
  destruct (String.eqb_spec x k) as [->|Hne].
  - intros H Hf. inversion H; subst y. rewrite Hf. cbn [aget]. rewrite String.eqb_refl. reflexivity.
  - intros H Hf. destruct (f (x, y)); [cbn [aget]; destruct (String.eqb_spec x k); [contradiction|]|]; apply IH; assumption.
Qed.

Lemma aget_adel_other {A} k c (l : list (string * A)) : k <> c -> aget k (adel c l) = aget k l.
Proof.
  intros Hne. unfold adel. induction l as [|[x y] r IH]; [reflexivity|]. cbn [filter fst aget].
  destruct (String.eqb_spec x c) as [->|Hx]; cbn [negb].
  - destruct (String.eqb_spec c k); [congruence|exact IH].
  - cbn [aget]. rewrite IH. reflexivity.
Qed.

Lemma aget_In {A} k v (l : list (string * A)) : aget k l = Some v -> In (k, v) l.
Proof.
  induction l as [|[x y] r IH]; [discriminate|]. cbn [aget].
  destruct (String.eqb_spec x k) as [->|]; intros H; [inversion H; left; reflexivity|right; auto].
Qed.

Lemma in_aset {A} k (v : A) l k' v' : In (k', v') (aset k v l) -> (k' = k /\ v' = v) \/ In (k', v') l.
Proof.
  unfold aset, adel. intros [H|H]; [inversion H; auto|]. apply filter_In in H. tauto.
Qed.

Lemma q_eqb_eq a b : q_eqb a b = true -> a = b.
Proof.
  destruct a, b. unfold q_eqb. cbn. intros H. apply Bool.andb_true_iff in H. destruct H as [H1 H2].
  apply String.eqb_eq in H1. apply String.eqb_eq in H2. congruence.
Qed.
Lemma q_eqb_refl a : q_eqb a a = true.
Proof. destruct a. unfold q_eqb. cbn. rewrite !String.eqb_refl. reflexivity. Qed.

Lemma eget_In q v e : eget q e = Some v -> In (q, v) e.
Proof.
  induction e as [|[x y] r IH]; [discriminate|]. cbn [eget].
  destruct (q_eqb x q) eqn:E; intros H; [inversion H; subst; left; rewrite (q_eqb_eq _ _ E); reflexivity|right; auto].
Qed.
Lemma in_eset q v e q' v' : In (q', v') (eset q v e) -> (q' = q /\ v' = v) \/ In (q', v') e.
Proof. unfold eset, edel. intros [H|H]; [inversion H; auto|]. apply filter_In in H. tauto. Qed.
Lemma in_edel q e x : In x (edel q e) -> In x e.
Proof. unfold edel. intros H. apply filter_In in H. tauto. Qed.

Lemma cget_In k v l : cget k l = Some v -> exists k', In (k', v) l /\ ckey_eqb k' k = true.
Proof.
  induction l as [|[x y] r IH]; [discriminate|]. cbn [cget].
  destruct (ckey_eqb x k) eqn:E; intros H.
  - inversion H; subst y. exists x. split; [left; reflexivity|exact E].
  - destruct (IH H) as [k' [A B]]. exists k'. split; [right; exact A|exact B].
Qed.
Lemma ckey_eqb_eq a b : ckey_eqb a b = true -> a = b.
Proof.
  destruct a, b. unfold ckey_eqb. cbn. intros H. apply Bool.andb_true_iff in H. destruct H as [H1 H2].
  apply String.eqb_eq in H1. apply Z.eqb_eq in H2. congruence.
Qed.
Lemma in_cset k v l k' v' : In (k', v') (cset k v l) -> (k' = k /\ v' = v) \/ In (k', v') l.
Proof. unfold cset. intros [H|H]; [inversion H; auto|]. apply filter_In in H. tauto. Qed.

(* ---- the invariant: every cached "allow" of the cache of (host, incarnation) is an answer that
        incarnation gave, and it expires attl after it was given *)
Definition inv (attl : Z) (s : hstate) (gs : list grant) : Prop :=
  forall h wid e, In ((h, wid), e) (s_caches s) ->
    forall q exp, In (q, (true, exp)) e -> exists t0, In (wid, q, t0) gs /\ exp = t0 + attl.

Lemma inv_more attl s gs extra : inv attl s gs -> inv attl s (extra ++ gs).
Proof.
  intros H h wid e Hin q exp Hq. destruct (H h wid e Hin q exp Hq) as [t0 [Hg He]].
  exists t0. split; [apply in_or_app; right; exact Hg|exact He].
Qed.

(* ---- one step *)
Lemma step_world attl dttl s o : s_world (fst (hstep attl dttl s o)) = fst (wstep (s_world s) o).
Proof.
  destruct o; cbn [hstep]; try (destruct (wstep (s_world s) _); reflexivity).
  unfold do_request. cbn [wstep fst].
  destruct (owner (s_world s) host) as [[id p]|]; [|reflexivity].
  destruct (String.eqb imp ""); [reflexivity|].
  destruct (match eget (requestor, imp) _ with Some (allowed, exp) => _ | None => None end); reflexivity.
Qed.

Lemma entries_of attl s gs host id :
  inv attl s gs ->
  forall q exp, In (q, (true, exp)) (match cget (host, id) (s_caches s) with Some e => e | None => [] end) ->
  exists t0, In (id, q, t0) gs /\ exp = t0 + attl.
Proof.
  intros Hinv q exp Hq. destruct (cget (host, id) (s_caches s)) as [e|] eqn:C; [|destruct Hq].
  destruct (cget_In _ _ _ C) as [[h' w'] [Hin Hk]]. apply ckey_eqb_eq in Hk. inversion Hk; subst h' w'.
  apply (Hinv host id e Hin q exp Hq).
Qed.

Lemma step_inv attl dttl s gs o :
  inv attl s gs ->
  inv attl (fst (hstep attl dttl s o)) (new_grants (w_now (s_world s)) (snd (hstep attl dttl s o)) ++ gs).
Proof.
  intros Hinv.
  assert (Hsame : forall w' done, inv attl (mkHState w' (s_caches s)) (new_grants (w_now (s_world s)) (mkHObs done 0 [] []) ++ gs))
    by (intros w' done h wid e Hin; apply (Hinv h wid e Hin)).
  destruct o as [c al p|c|c p|a f t|dt|host requestor imp]; cbn [hstep];
    try (destruct (wstep (s_world s) _) as [w' done]; apply Hsame).
  - (* delete: the caches of the stopped incarnation are dropped *)
    destruct (wstep (s_world s) (HDelete c)) as [w' done]. cbn [fst snd].
    intros h wid e Hin. cbn [s_caches] in Hin.
    destruct (aget c (w_live (s_world s))) as [[id pc]|]; [apply filter_In in Hin; destruct Hin as [Hin _]|];
      apply (Hinv h wid e Hin).
  - (* request *)
    unfold do_request. destruct (owner (s_world s) host) as [[id p]|] eqn:O; [|cbn; exact Hinv].
    destruct (String.eqb imp ""); [cbn; exact Hinv|].
    set (q := (requestor, imp)).
    pose proof (entries_of attl s gs host id Hinv) as Hent.
    set (e0 := match cget (host, id) (s_caches s) with Some e => e | None => [] end) in *.
    assert (Hstep : forall e' b, (forall q' exp, In (q', (true, exp)) e' ->
                       exists t0, In (id, q', t0) (new_grants (w_now (s_world s)) b ++ gs) /\ exp = t0 + attl) ->
              inv attl (mkHState (s_world s) (cset (host, id) e' (s_caches s))) (new_grants (w_now (s_world s)) b ++ gs)).
    { intros e' b He' h wid e Hin. cbn [s_caches] in Hin. apply in_cset in Hin. destruct Hin as [[Hk ->]|Hin].
      - inversion Hk; subst h wid. exact He'.
      - apply (inv_more attl s gs _ Hinv h wid e Hin). }
    assert (Hold : forall b q' exp, In (q', (true, exp)) e0 ->
              exists t0, In (id, q', t0) (new_grants (w_now (s_world s)) b ++ gs) /\ exp = t0 + attl).
    { intros b q' exp Hq. destruct (Hent q' exp Hq) as [t0 [Hg He]]. exists t0. split; [apply in_or_app; right; exact Hg|exact He]. }
    destruct (match eget q e0 with Some (allowed, exp) => if Z.leb (w_now (s_world s)) exp then Some allowed else None | None => None end)
      as [allowed|] eqn:Hit; cbn [fst snd].
    + apply Hstep. apply Hold.
    + destruct (answer_of p q) eqn:Ea; apply Hstep.
      * intros q' exp Hq. apply in_eset in Hq. destruct Hq as [[-> Hv]|Hq]; [|apply Hold; exact Hq].
        inversion Hv; subst exp. exists (w_now (s_world s)). split; [|reflexivity].
        cbn [new_grants h_sar flat_map app fst snd]. left. reflexivity.
      * intros q' exp Hq. apply in_eset in Hq. destruct Hq as [[_ Hv]|Hq]; [discriminate|apply Hold; exact Hq].
      * intros q' exp Hq. apply in_edel in Hq. apply Hold. exact Hq.
Qed.

Lemma step_req_ok attl dttl s gs host requestor imp :
  inv attl s gs ->
  req_ok attl (s_world s) gs host requestor imp (snd (hstep attl dttl s (HReq host requestor imp))) = (true, true).
Proof.
  intros Hinv. cbn [hstep]. unfold do_request, req_ok.
  destruct (owner (s_world s) host) as [[id p]|] eqn:O; [|reflexivity].
  destruct (String.eqb imp "") eqn:Ei.
  { cbn [snd]. unfold fwd_is, fwd_none. cbn [h_fwd]. rewrite Z.eqb_refl, String.eqb_refl. reflexivity. }
  set (q := (requestor, imp)).
  pose proof (entries_of attl s gs host id Hinv) as Hent.
  set (e0 := match cget (host, id) (s_caches s) with Some e => e | None => [] end) in *.
  assert (Hfwd : forall sar, fwd_is (mkHObs true 200 [(id, [imp])] sar) id imp = true)
    by (intros; unfold fwd_is; cbn [h_fwd]; rewrite Z.eqb_refl, String.eqb_refl; reflexivity).
  destruct (eget q e0) as [[allowed exp]|] eqn:G.
  - destruct (Z.leb (w_now (s_world s)) exp) eqn:T.
    + destruct allowed; cbn [snd].
      * (* a cached allow: justified by a grant of the current owner *)
        destruct (Hent q exp (eget_In _ _ _ G)) as [t0 [Hg He]].
        assert (J : permitted attl gs id p q (w_now (s_world s)) = true).
        { unfold permitted. apply Bool.orb_true_iff. right. unfold justified. apply existsb_exists.
          exists (id, q, t0). split; [exact Hg|]. cbn [fst snd]. rewrite Z.eqb_refl, q_eqb_refl. cbn [andb].
          rewrite <- He. exact T. }
        rewrite J, Hfwd. rewrite Bool.orb_true_r. reflexivity.
      * unfold fwd_none. cbn [h_fwd h_status]. destruct (permitted attl gs id p q (w_now (s_world s))); reflexivity.
    + (* expired: the owner is asked *)
      destruct (answer_of p q) eqn:Ea; cbn [snd].
      * unfold permitted. rewrite Ea. cbn [answer_eqb orb]. rewrite Hfwd. rewrite Bool.orb_true_r. reflexivity.
      * unfold fwd_none. cbn [h_fwd h_status]. destruct (permitted attl gs id p q (w_now (s_world s))); reflexivity.
      * unfold fwd_none. cbn [h_fwd h_status]. destruct (permitted attl gs id p q (w_now (s_world s))); reflexivity.
  - destruct (answer_of p q) eqn:Ea; cbn [snd].
    + unfold permitted. rewrite Ea. cbn [answer_eqb orb]. rewrite Hfwd. rewrite Bool.orb_true_r. reflexivity.
    + unfold fwd_none. cbn [h_fwd h_status]. destruct (permitted attl gs id p q (w_now (s_world s))); reflexivity.
    + unfold fwd_none. cbn [h_fwd h_status]. destruct (permitted attl gs id p q (w_now (s_world s))); reflexivity.
Qed.

Lemma hcheck_run attl dttl ops :
  forall s gs, inv attl s gs ->
  hcheck attl (s_world s) gs (combine ops (hrun attl dttl s ops)) = (true, true).
Proof.
  induction ops as [|o r IH]; intros s gs Hinv; [reflexivity|].
  cbn [hrun]. destruct (hstep attl dttl s o) as [s' b] eqn:S. cbn [combine hcheck].
  pose proof (step_world attl dttl s o) as Hw. pose proof (step_inv attl dttl s gs o Hinv) as Hi.
  rewrite S in Hw, Hi. cbn [fst snd] in Hw, Hi. rewrite <- Hw. rewrite (IH s' _ Hi).
  destruct o; try reflexivity.
  pose proof (step_req_ok attl dttl s gs host requestor imp Hinv) as Hq. rewrite S in Hq. cbn [snd] in Hq. rewrite Hq. reflexivity.
Qed.

Lemma inv0 attl : inv attl hstate0 [].
Proof. intros h wid e []. Qed.

(* every request of every history is decided by the incarnation that owns its host now *)
Theorem decision_of_current_cluster attl dttl ops :
  hcheck attl world0 [] (combine ops (hrun attl dttl hstate0 ops)) = (true, true).
Proof. apply (hcheck_run attl dttl ops hstate0 [] (inv0 attl)). Qed.
