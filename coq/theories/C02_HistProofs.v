(* C02 — histories: for every history of cluster creations, deletions, re-creations, policy changes,
   time steps and requests (without a server name moving between two live clusters), every request of
   the model is decided by the incarnation that owns its host at that moment. *)
From KG Require Import Prelude C02_Model C02_HistModel C02_HistSpec.
Open Scope Z_scope.
Open Scope string_scope.
Open Scope list_scope.

(* ---- association lists *)
Lemma aget_filter_keep {A} (f : string * A -> bool) k v l :
  aget k l = Some v -> f (k, v) = true -> aget k (filter f l) = Some v.
Proof.
  induction l as [|[x y] r IH]; [discriminate|]. cbn [aget filter].
  destruct (String.eqb_spec x k) as [->|Hne].
  - intros H Hf. inversion H; subst y. rewrite Hf. cbn [aget]. rewrite String.eqb_refl. reflexivity.
  - intros H Hf. destruct (f (x, y)); [cbn [aget]; destruct (String.eqb_spec x k); [contradiction|]|]; apply IH; assumption.
Qed.

Lemma aget_adel_other {A} k c (l : list (string * A)) : k <> c -> aget k (adel c l) = aget k l.
Proof.
  intros Hne. unfold adel. induction l as [|[x y] r IH]; [reflexivity|]. cbn [filter fst aget].
  destruct (String.eqb_spec x c) as [->|Hx]; cbn [negb].
  - destruct (String.eqb_spec c k); [congruence|exact IH].
  - cbn [aget]. rewrite IH. reflexivity.
Qed.

Lemma aget_In {A} k v (l : list (string * A)) : aget k l = Some v -> In (k, v) l.
Proof.
  induction l as [|[x y] r IH]; [discriminate|]. cbn [aget].
  destruct (String.eqb_spec x k) as [->|]; intros H; [inversion H; left; reflexivity|right; auto].
Qed.

Lemma in_aset {A} k (v : A) l k' v' : In (k', v') (aset k v l) -> (k' = k /\ v' = v) \/ In (k', v') l.
Proof.
  unfold aset, adel. intros [H|H]; [inversion H; auto|]. apply filter_In in H. tauto.
Qed.

Lemma q_eqb_eq a b : q_eqb a b = true -> a = b.
Proof.
  destruct a, b. unfold q_eqb. cbn. intros H. apply Bool.andb_true_iff in H. destruct H as [H1 H2].
  apply String.eqb_eq in H1. apply String.eqb_eq in H2. congruence.
Qed.
Lemma q_eqb_refl a : q_eqb a a = true.
Proof. destruct a. unfold q_eqb. cbn. rewrite !String.eqb_refl. reflexivity. Qed.

Lemma eget_In q v e : eget q e = Some v -> In (q, v) e.
Proof.
  induction e as [|[x y] r IH]; [discriminate|]. cbn [eget].
  destruct (q_eqb x q) eqn:E; intros H; [inversion H; subst; left; rewrite (q_eqb_eq _ _ E); reflexivity|right; auto].
Qed.
Lemma in_eset q v e q' v' : In (q', v') (eset q v e) -> (q' = q /\ v' = v) \/ In (q', v') e.
Proof. unfold eset, edel. intros [H|H]; [inversion H; auto|]. apply filter_In in H. tauto. Qed.
Lemma in_edel q e x : In x (edel q e) -> In x e.
Proof. unfold edel. intros H. apply filter_In in H. tauto. Qed.

(* ---- the invariant: every cache belongs to the incarnation that owns its host now, and every cached
        "allow" is an answer that incarnation gave *)
Definition inv (attl : Z) (s : hstate) (gs : list grant) : Prop :=
  forall h wid e, In (h, (wid, e)) (s_caches s) ->
    (exists c p, aget h (w_keys (s_world s)) = Some c /\ aget c (w_live (s_world s)) = Some (wid, p)) /\
    (forall q exp, In (q, (true, exp)) e -> exists t0, In (wid, q, t0) gs /\ exp = t0 + attl).

Lemma inv_more attl s gs extra : inv attl s gs -> inv attl s (extra ++ gs).
Proof.
  intros H h wid e Hin. destruct (H h wid e Hin) as [A B]. split; [exact A|].
  intros q exp Hq. destruct (B q exp Hq) as [t0 [Hg He]]. exists t0. split; [apply in_or_app; right; exact Hg|exact He].
Qed.

Definition not_move (o : hop) : bool := match o with HMove _ _ _ => false | _ => true end.

Lemma add_alias_keeps c ks a h v : aget h ks = Some v -> aget h (add_alias c ks a) = Some v.
Proof.
  intros H. unfold add_alias. destruct (aget a ks) eqn:E; [exact H|].
  cbn [aget]. destruct (String.eqb_spec a h) as [->|_]; [congruence|exact H].
Qed.
Lemma fold_alias_keeps c al ks h v : aget h ks = Some v -> aget h (fold_left (add_alias c) al ks) = Some v.
Proof. revert ks. induction al as [|a al IH]; intros ks H; [exact H|]. cbn [fold_left]. apply IH. apply add_alias_keeps. exact H. Qed.

Lemma aget_policy_map c p' k (l : list (string * (Z * policy))) id p :
  aget k l = Some (id, p) ->
  exists p2, aget k (map (fun kv => if String.eqb (fst kv) c then (fst kv, (fst (snd kv), p')) else kv) l) = Some (id, p2).
Proof.
  induction l as [|[x [i q]] r IH]; [discriminate|]. cbn [aget map fst snd].
  destruct (String.eqb_spec x k) as [->|Hne]; intros H.
  - inversion H; subst i q. destruct (String.eqb k c); cbn [aget]; rewrite String.eqb_refl; eauto.
  - destruct (String.eqb x c); cbn [aget]; destruct (String.eqb_spec x k); try contradiction; apply IH; exact H.
Qed.

(* ---- one step *)
Lemma step_world attl dttl s o : s_world (fst (hstep attl dttl s o)) = fst (wstep (s_world s) o).
Proof.
  destruct o; cbn [hstep]; try (destruct (wstep (s_world s) _); reflexivity).
  unfold do_request. cbn [wstep fst].
  destruct (owner (s_world s) host) as [[id p]|]; [|reflexivity].
  destruct (String.eqb imp ""); [reflexivity|].
  destruct (match eget (requestor, imp) _ with Some (allowed, exp) => _ | None => None end); reflexivity.
Qed.

Lemma step_inv attl dttl s gs o :
  not_move o = true -> inv attl s gs ->
  inv attl (fst (hstep attl dttl s o)) (new_grants (w_now (s_world s)) (snd (hstep attl dttl s o)) ++ gs).
Proof.
  intros Hm Hinv. destruct o as [c al p|c|c p|a f t|dt|host requestor imp]; try discriminate.
  - (* create *)
    cbn [hstep wstep]. destruct (aget c (w_live (s_world s))) eqn:L; [cbn; exact Hinv|].
    destruct (aget c (w_keys (s_world s))) eqn:K; [cbn; exact Hinv|]. cbn [fst snd new_grants h_sar flat_map app s_caches s_world w_keys w_live].
    intros h wid e Hin. cbn [s_world s_caches w_live w_keys w_now] in *. destruct (Hinv h wid e Hin) as [[c' [p' [Hk Hl]]] B]. split; [|exact B].
    exists c', p'. split.
    + apply fold_alias_keeps. cbn [aget]. destruct (String.eqb_spec c h) as [->|_]; [congruence|exact Hk].
    + cbn [aget]. destruct (String.eqb_spec c c') as [->|_]; [congruence|exact Hl].
  - (* delete *)
    cbn [hstep wstep]. destruct (aget c (w_live (s_world s))) as [[id pc]|] eqn:L; [|cbn; exact Hinv].
    cbn [fst snd new_grants h_sar flat_map app s_caches s_world w_keys w_live].
    intros h wid e Hin. cbn [s_world s_caches w_live w_keys w_now] in *. apply filter_In in Hin. destruct Hin as [Hin Hw]. cbn [fst snd] in Hw.
    apply Bool.negb_true_iff in Hw. apply Z.eqb_neq in Hw.
    destruct (Hinv h wid e Hin) as [[c' [p' [Hk Hl]]] B]. split; [|exact B].
    assert (Hcc : c' <> c) by (intros ->; rewrite L in Hl; inversion Hl; congruence).
    exists c', p'. split.
    + apply aget_filter_keep; [exact Hk|]. cbn [snd]. apply Bool.negb_true_iff. apply String.eqb_neq. exact Hcc.
    + rewrite aget_adel_other by exact Hcc. exact Hl.
  - (* policy *)
    cbn [hstep wstep]. destruct (aget c (w_live (s_world s))) as [[id pc]|] eqn:L; [|cbn; exact Hinv].
    cbn [fst snd new_grants h_sar flat_map app s_caches s_world w_keys w_live].
    intros h wid e Hin. cbn [s_world s_caches w_live w_keys w_now] in *. destruct (Hinv h wid e Hin) as [[c' [p' [Hk Hl]]] B]. split; [|exact B].
    destruct (aget_policy_map c p _ _ _ _ Hl) as [p2 H2]. exists c', p2. split; [exact Hk|exact H2].
  - (* advance *)
    cbn [hstep wstep fst snd new_grants h_sar flat_map app]. exact Hinv.
  - (* request *)
    cbn [hstep]. unfold do_request.
    destruct (owner (s_world s) host) as [[id p]|] eqn:O; [|cbn; exact Hinv].
    destruct (String.eqb imp ""); [cbn; exact Hinv|].
    set (q := (requestor, imp)).
    set (ce := match aget host (s_caches s) with Some ce => ce | None => (id, []) end).
    assert (Hce : (exists c' p', aget host (w_keys (s_world s)) = Some c' /\ aget c' (w_live (s_world s)) = Some (fst ce, p')) /\
                  (forall q' exp, In (q', (true, exp)) (snd ce) -> exists t0, In (fst ce, q', t0) gs /\ exp = t0 + attl)).
    { unfold ce. destruct (aget host (s_caches s)) as [[wid e]|] eqn:C.
      - apply (Hinv host wid e (aget_In _ _ _ C)).
      - cbn [fst snd]. split; [|intros ? ? []]. unfold owner in O.
        destruct (aget host (w_keys (s_world s))) as [c'|]; [|discriminate]. exists c', p. auto. }
    destruct Hce as [Hown Hent].
    destruct (match eget q (snd ce) with Some (allowed, exp) => if Z.leb (w_now (s_world s)) exp then Some allowed else None | None => None end)
      as [allowed|] eqn:Hit.
    + (* served from the cache *)
      assert (G : new_grants (w_now (s_world s)) (if allowed then mkHObs true 200 [(id, [imp])] [] else mkHObs true 403 [] []) = [])
        by (destruct allowed; reflexivity).
      cbn [fst snd]. rewrite G. cbn [app].
      intros h wid e Hin. cbn [s_caches s_world] in *. apply in_aset in Hin. destruct Hin as [[-> Hv]|Hin]; [|apply (Hinv h wid e Hin)].
      destruct ce as [w0 e0]. inversion Hv; subst wid e. cbn [fst snd] in *. split; [exact Hown|exact Hent].
    + set (a := answer_of p q).
      assert (Hstep : forall e' b, (forall q' exp, In (q', (true, exp)) e' ->
                         exists t0, In (fst ce, q', t0) (new_grants (w_now (s_world s)) b ++ gs) /\ exp = t0 + attl) ->
                inv attl (mkHState (s_world s) (aset host (fst ce, e') (s_caches s))) (new_grants (w_now (s_world s)) b ++ gs)).
      { intros e' b He' h wid e Hin. cbn [s_caches s_world] in *. apply in_aset in Hin. destruct Hin as [[-> Hv]|Hin].
        - inversion Hv; subst wid e. split; [exact Hown|exact He'].
        - apply (inv_more attl s gs _ Hinv h wid e Hin). }
      assert (Hid : fst ce = id).
      { destruct Hown as [c' [p' [Hk Hl]]]. unfold owner in O. rewrite Hk, Hl in O. inversion O. reflexivity. }
      destruct a eqn:Ea; cbn [fst snd]; apply Hstep.
      * intros q' exp Hq. apply in_eset in Hq. destruct Hq as [[-> Hv]|Hq].
        -- inversion Hv; subst exp. exists (w_now (s_world s)). split; [|reflexivity].
           cbn [new_grants h_sar flat_map app fst snd]. left. rewrite Hid. reflexivity.
        -- destruct (Hent q' exp Hq) as [t0 [Hg He]]. exists t0. split; [apply in_or_app; right; exact Hg|exact He].
      * intros q' exp Hq. apply in_eset in Hq. destruct Hq as [[_ Hv]|Hq]; [discriminate|].
        destruct (Hent q' exp Hq) as [t0 [Hg He]]. exists t0. split; [apply in_or_app; right; exact Hg|exact He].
      * intros q' exp Hq. apply in_edel in Hq.
        destruct (Hent q' exp Hq) as [t0 [Hg He]]. exists t0. split; [apply in_or_app; right; exact Hg|exact He].
Qed.

Lemma step_req_ok attl dttl s gs host requestor imp :
  inv attl s gs ->
  req_ok attl (s_world s) gs host requestor imp (snd (hstep attl dttl s (HReq host requestor imp))) = (true, true).
Proof.
  intros Hinv. cbn [hstep]. unfold do_request, req_ok.
  destruct (owner (s_world s) host) as [[id p]|] eqn:O; [|reflexivity].
  destruct (String.eqb imp "") eqn:Ei.
  { cbn [snd]. unfold fwd_is, fwd_none. cbn [h_fwd]. rewrite Z.eqb_refl, String.eqb_refl. reflexivity. }
  set (q := (requestor, imp)).
  set (ce := match aget host (s_caches s) with Some ce => ce | None => (id, []) end).
  assert (Hent : forall exp, In (q, (true, exp)) (snd ce) -> exists t0, In (id, q, t0) gs /\ exp = t0 + attl).
  { unfold ce. destruct (aget host (s_caches s)) as [[wid e]|] eqn:C; [|intros ? []].
    destruct (Hinv host wid e (aget_In _ _ _ C)) as [[c' [p' [Hk Hl]]] B]. cbn [snd].
    unfold owner in O. rewrite Hk, Hl in O. inversion O; subst wid p'. intros exp Hq. apply (B q exp Hq). }
  assert (Hfwd : forall sar, fwd_is (mkHObs true 200 [(id, [imp])] sar) id imp = true)
    by (intros; unfold fwd_is; cbn [h_fwd]; rewrite Z.eqb_refl, String.eqb_refl; reflexivity).
  destruct (eget q (snd ce)) as [[allowed exp]|] eqn:G.
  - destruct (Z.leb (w_now (s_world s)) exp) eqn:T.
    + destruct allowed; cbn [snd].
      * (* a cached allow: justified by a grant of the current owner *)
        destruct (Hent exp (eget_In _ _ _ G)) as [t0 [Hg He]].
        assert (J : permitted attl gs id p q (w_now (s_world s)) = true).
        { unfold permitted. apply Bool.orb_true_iff. right. unfold justified. apply existsb_exists.
          exists (id, q, t0). split; [exact Hg|]. cbn [fst snd]. rewrite Z.eqb_refl, q_eqb_refl. cbn [andb].
          rewrite <- He. exact T. }
        rewrite J, Hfwd. rewrite Bool.orb_true_r. reflexivity.
      * unfold fwd_none. cbn [h_fwd h_status]. destruct (permitted attl gs id p q (w_now (s_world s))); reflexivity.
    + (* expired: the owner is asked *)
      destruct (answer_of p q) eqn:Ea; cbn [snd].
      * unfold permitted. rewrite Ea. cbn [answer_eqb orb]. rewrite Hfwd. rewrite Bool.orb_true_r. reflexivity.
      * unfold fwd_none. cbn [h_fwd h_status]. destruct (permitted attl gs id p q (w_now (s_world s))); reflexivity.
      * unfold fwd_none. cbn [h_fwd h_status]. destruct (permitted attl gs id p q (w_now (s_world s))); reflexivity.
  - destruct (answer_of p q) eqn:Ea; cbn [snd].
    + unfold permitted. rewrite Ea. cbn [answer_eqb orb]. rewrite Hfwd. rewrite Bool.orb_true_r. reflexivity.
    + unfold fwd_none. cbn [h_fwd h_status]. destruct (permitted attl gs id p q (w_now (s_world s))); reflexivity.
    + unfold fwd_none. cbn [h_fwd h_status]. destruct (permitted attl gs id p q (w_now (s_world s))); reflexivity.
Qed.

Lemma hcheck_run attl dttl ops :
  forallb not_move ops = true ->
  forall s gs, inv attl s gs ->
  hcheck attl (s_world s) gs (combine ops (hrun attl dttl s ops)) = (true, true).
Proof.
  induction ops as [|o r IH]; intros Hm s gs Hinv; [reflexivity|].
  cbn [forallb] in Hm. apply Bool.andb_true_iff in Hm. destruct Hm as [Ho Hr].
  cbn [hrun]. destruct (hstep attl dttl s o) as [s' b] eqn:S. cbn [combine hcheck].
  pose proof (step_world attl dttl s o) as Hw. pose proof (step_inv attl dttl s gs o Ho Hinv) as Hi.
  rewrite S in Hw, Hi. cbn [fst snd] in Hw, Hi. rewrite <- Hw. rewrite (IH Hr s' _ Hi).
  destruct o; try reflexivity.
  pose proof (step_req_ok attl dttl s gs host requestor imp Hinv) as Hq. rewrite S in Hq. cbn [snd] in Hq. rewrite Hq. reflexivity.
Qed.

Lemma inv0 attl : inv attl hstate0 [].
Proof. intros h wid e []. Qed.

(* every request of a history without live moves is decided by the incarnation that owns its host now *)
Theorem decision_of_current_cluster attl dttl ops :
  forallb not_move ops = true ->
  hcheck attl world0 [] (combine ops (hrun attl dttl hstate0 ops)) = (true, true).
Proof. intros H. apply (hcheck_run attl dttl ops H hstate0 [] (inv0 attl)). Qed.
