(* C08 — case format of the correspondence run and its evaluator. *)
From KG Require Import Prelude C06_Model C06_Spec C06_Check C08_Model C08_Spec.
Open Scope Z_scope.

(* operations of a DoAcquire history against a real rateLimiter whose upstream has the schemas
   "mi" (global max-in-flight) and "tb" (global token bucket) *)
Inductive aop :=
| AAcqM (instance : string) (rid n : Z)          (* DoAcquire, request for "mi" *)
| AAcqT (now : Z) (instance : string) (n : Z)    (* DoAcquire, request for "tb", server clock reading now *)
| ARemove (instance : string)                    (* the instance is dropped (DeleteInstanceState) *)
| AResizeM (n : Z)                               (* the upstream's max-in-flight limit is changed *)
| AResizeT (q b : Z).                            (* the upstream's token bucket is changed *)

(* observed: the request's result (for the Acq ops) and "mi"'s DebugInfo() after the op *)
Record aobs := { ao_res : ares; ao_dbg : gobs }.

Inductive case :=
| CMif (max0 : Z) (tr : list (gop * gobs))                     (* ops on one real globalMaxInflight *)
| CStress (max0 : Z) (reported : list (string * list Z))       (* concurrent goroutines, at quiescence: *)
          (count total : Z) (insts : list (string * Z))        (*   DebugInfo() *)
| CAcq (max0 q b : Z) (tr : list (aop * aobs))
| CTbConc (q b : Z) (calls : list (Z * Z * Z * Z * bool))      (* scripted concurrent TryAcquireN on one real
                                                                  globalTokenBucket, in order of completion:
                                                                  invocation, clock reading, completion, n, ok *)
| CBad.

Definition sres_eqb (a b : sres) : bool :=
  (Bool.eqb (s_accept a) (s_accept b) && (s_latest a =? s_latest b) && Bool.eqb (s_err a) (s_err b))%bool.

Definition insts_agree (m : mif) (obs : list (string * Z)) : bool :=
  ((Nat.eqb (List.length obs) (List.length (minsts m))) &&
   forallb (fun p => match lookup (fst p) (minsts m) with Some s => icount s =? snd p | None => false end) obs)%bool.

Definition dbg_agree (m : mif) (b : gobs) : bool :=
  ((mcount m =? o_count b) && (wrap32 (inst_total m) =? o_total b) && (mmax m =? o_max b) && insts_agree m (o_insts b))%bool.

Fixpoint agree_mif (m : mif) (tr : list (gop * gobs)) : bool :=
  match tr with
  | [] => true
  | (o, b) :: r =>
      let '(m', a) := gstep m o in
      (match o with
       | GSet _ _ _ => sres_eqb a (o_res b)
       | GResize _ => Bool.eqb (s_accept a) (s_accept (o_res b))
       end && dbg_agree m' b && agree_mif m' r)%bool
  end.

Definition ares_eqb (a b : ares) : bool :=
  (Bool.eqb (a_accept a) (a_accept b) && (a_limit a =? a_limit b) && Bool.eqb (a_err a) (a_err b))%bool.

(* the token bucket decisions are compared like in C06: inside the float tolerance band around the
   threshold the model adopts the observed answer *)
Definition tb_follow (c : cfg) (s : st) (now n : Z) (obs : ares) : st * bool :=
  let '(s', r) := acquire_tb c s now n in
  if ares_eqb r obs then (s', true)
  else if n <? 0 then (s', false)
  else
    (* adopt: replay the halving sequence, forcing the observed outcome on the try that grants a_limit *)
    let fix go (fuel : nat) (s : st) (tok : Z) : st * bool :=
      match fuel with
      | O => (s, negb (a_accept obs))
      | S f =>
          let '(last0, t) := advance c s now in
          let t2 := t - tok * NS in
          let near := ((Z.abs (t2 + qps c) <=? tol c) && (tok <=? burst c))%bool in
          let '(sm, okm) := allow_n c s now tok in
          let want := (a_accept obs && (a_limit obs =? tok))%bool in
          let s2 := if want then {| tok := t2; last := now |} else {| tok := C06_Model.tok s; last := last0 |} in
          if Bool.eqb okm want then
            (if want then (sm, true)
             else let tok' := Z.quot tok 2 in if tok' <=? 0 then (sm, negb (a_accept obs)) else go f sm tok')
          else if near then
            (if want then (s2, true)
             else let tok' := Z.quot tok 2 in if tok' <=? 0 then (s2, negb (a_accept obs)) else go f s2 tok')
          else (sm, false)
      end in
    go 4%nat s n.

Record astate := { a_mif : mif; a_cfg : cfg; a_tb : st }.

Fixpoint agree_acq (s : astate) (tr : list (aop * aobs)) : bool :=
  match tr with
  | [] => true
  | (o, b) :: r =>
      match o with
      | AAcqM i rid n =>
          let '(m', a) := acquire_mif (a_mif s) i rid n in
          (ares_eqb a (ao_res b) && dbg_agree m' (ao_dbg b)
           && agree_acq {| a_mif := m'; a_cfg := a_cfg s; a_tb := a_tb s |} r)%bool
      | AAcqT now i n =>
          let '(t', ok) := tb_follow (a_cfg s) (a_tb s) now n (ao_res b) in
          (ok && dbg_agree (a_mif s) (ao_dbg b)
           && agree_acq {| a_mif := a_mif s; a_cfg := a_cfg s; a_tb := t' |} r)%bool
      | ARemove i =>
          let '(m', _) := set_state (a_mif s) i (-1) (-1) in
          (dbg_agree m' (ao_dbg b) && agree_acq {| a_mif := m'; a_cfg := a_cfg s; a_tb := a_tb s |} r)%bool
      | AResizeM n =>
          let '(m', _) := mif_resize (a_mif s) n in
          (dbg_agree m' (ao_dbg b) && agree_acq {| a_mif := m'; a_cfg := a_cfg s; a_tb := a_tb s |} r)%bool
      | AResizeT q b' =>
          let same := ((qps (a_cfg s) =? q) && (burst (a_cfg s) =? b'))%bool in
          (dbg_agree (a_mif s) (ao_dbg b)
           && agree_acq {| a_mif := a_mif s; a_cfg := {| qps := q; burst := b' |};
                           a_tb := if same then a_tb s else init_st |} r)%bool
      end
  end.

(* max-in-flight view of a DoAcquire history: SetState's answer is rebuilt from the request's result *)
Definition sres_of (n : Z) (a : ares) : sres :=
  {| s_accept := a_accept a; s_latest := if a_accept a then n else a_limit a; s_err := a_err a |}.

Fixpoint mif_view (tr : list (aop * aobs)) : list (gop * gobs) :=
  match tr with
  | [] => []
  | (o, b) :: r =>
      let d := ao_dbg b in
      let mk (res : sres) := {| o_res := res; o_count := o_count d; o_total := o_total d; o_max := o_max d;
                               o_insts := o_insts d |} in
      match o with
      | AAcqM i rid n =>
          if n <? 0 then mif_view r      (* refused before it reaches the flow control *)
          else (GSet i rid n, mk (sres_of n (ao_res b))) :: mif_view r
      | ARemove i => (GSet i (-1) (-1), mk {| s_accept := false; s_latest := -1; s_err := false |}) :: mif_view r
      | AResizeM n => (GResize n, mk {| s_accept := true; s_latest := 0; s_err := false |}) :: mif_view r
      | _ => mif_view r
      end
  end.

(* token-bucket view: segments of grant events between effective reconfigurations *)
Fixpoint tb_view (c : cfg) (acc : list ev) (tr : list (aop * aobs)) : list (cfg * list ev) :=
  match tr with
  | [] => [(c, rev acc)]
  | (AAcqT now _ n, b) :: r =>
      if n <? 0 then tb_view c acc r else tb_view c (grant_event now (ao_res b) :: acc) r
  | (AResizeT q b', _) :: r =>
      if ((qps c =? q) && (burst c =? b'))%bool then tb_view c acc r
      else (c, rev acc) :: tb_view {| qps := q; burst := b' |} [] r
  | _ :: r => tb_view c acc r
  end.

Definition acq_asks (tr : list (aop * aobs)) : list (Z * ares) :=
  flat_map (fun p => match fst p with
                     | AAcqM _ _ n => [(n, ao_res (snd p))]
                     | AAcqT _ _ n => [(n, ao_res (snd p))]
                     | _ => [] end) tr.
Definition tb_asks (tr : list (aop * aobs)) : list (Z * ares) :=
  flat_map (fun p => match fst p with AAcqT _ _ n => [(n, ao_res (snd p))] | _ => [] end) tr.

(* clause layout: agree, total, bound, decrease, stale, range, negative, rate *)
Definition eval (c : case) : list bool :=
  match c with
  | CMif max0 tr =>
      agree_mif (mif_new max0) tr :: mif_ok max0 tr ++ [true; true; true]
  | CStress max0 reported count total insts =>
      (* no schedule is imposed: the model cannot predict the outcome; the lock-atomicity assumption is
         what is being validated: total exact, within the (unchanged) limit, every instance ends with one
         of the counts it reported or is gone *)
      [ forallb (fun p => match find (fun q => String.eqb (fst q) (fst p)) reported with
                          | Some q => existsb (Z.eqb (snd p)) (0 :: snd q) | None => false end) insts;
        quiescent_ok count total insts; count <=? max0; true; true; true; true; true ]
  | CAcq max0 q b tr =>
      let c0 := {| qps := q; burst := b |} in
      agree_acq {| a_mif := mif_new max0; a_cfg := c0; a_tb := init_st |} tr
      :: mif_ok max0 (mif_view tr)
      ++ [ forallb (fun p => range_ok (fst p) (snd p)) (tb_asks tr);
           forallb (fun p => negative_ok (fst p) (snd p)) (acq_asks tr);
           all_segments closed_ok (tb_view c0 [] tr) ]
  | CTbConc q b calls =>
      let c0 := {| qps := q; burst := b |} in
      let n_of (x : Z * Z * Z * Z * bool) := snd (fst x) in
      let rd_of (x : Z * Z * Z * Z * bool) := snd (fst (fst (fst x))) in
      let inv_of (x : Z * Z * Z * Z * bool) := fst (fst (fst (fst x))) in
      let resp_of (x : Z * Z * Z * Z * bool) := snd (fst (fst x)) in
      let evs := map (fun x => {| etime := rd_of x; easked := n_of x; eok := snd x |}) calls in
      (* model: the sequential limiter on the readings in order of completion; the readings are taken
         under the object's lock: between invocation and completion, never stepping back *)
      let agree :=
        (fix go (s : st) (l : list (Z * Z * Z * Z * bool)) : bool :=
           match l with
           | [] => true
           | x :: r =>
               let '(last0, t) := advance c0 s (rd_of x) in
               let t2 := t - n_of x * NS in
               let '(s', ok) := allow_n c0 s (rd_of x) (n_of x) in
               if Bool.eqb ok (snd x) then go s' r
               else if ((Z.abs (t2 + qps c0) <=? tol c0) && (n_of x <=? burst c0))%bool
                    then go (if snd x then {| tok := t2; last := rd_of x |}
                             else {| tok := tok s; last := last0 |}) r
                    else false
           end) init_st calls in
      [ (agree && forallb (fun x => (inv_of x <=? rd_of x) && (rd_of x <=? resp_of x)) calls
         && match evs with [] => true | e :: r => sorted_from (etime e) r end)%bool;
        true; true; true; true; true; true;
        (closed_ok c0 evs &&
         conc_rate_ok c0 (map (fun x => {| winv := inv_of x; wresp := resp_of x; wn := n_of x; wadm := snd x |}) calls))%bool ]
  | CBad => [false; false; false; false; false; false; false; false]
  end.
