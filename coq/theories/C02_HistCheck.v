(* C02 — case format of the correspondence run (single requests and histories) and its evaluator. *)
From KG Require Import Prelude C02_Model C02_Spec C02_Check C02_HistModel C02_HistSpec.
Open Scope Z_scope.
Open Scope string_scope.
Open Scope list_scope.

Record hcase := mkHCase {
  hc_attl : Z; hc_dttl : Z;            (* TTLs of allowed / denied decisions, virtual seconds *)
  hc_ops : list hop;
  hc_obs : list hobs;                  (* one observation per op, from the real chain + real SAR authorizer *)
}.

Definition strs_eqb (a b : list string) : bool := list_eqb String.eqb a b.
Definition fwd_eqb (a b : Z * list string) : bool := (Z.eqb (fst a) (fst b) && strs_eqb (snd a) (snd b))%bool.
Definition sar_eqb (a b : Z * question * answer) : bool :=
  (Z.eqb (fst (fst a)) (fst (fst b)) && q_eqb (snd (fst a)) (snd (fst b)) && answer_eqb (snd a) (snd b))%bool.
Definition hobs_eqb (a b : hobs) : bool :=
  (Bool.eqb (h_done a) (h_done b) && Z.eqb (h_status a) (h_status b) &&
   list_eqb fwd_eqb (h_fwd a) (h_fwd b) && list_eqb sar_eqb (h_sar a) (h_sar b))%bool.

(* clause layout: agree, identity, denied, malformed, no_client_header, hist_forward_justified, hist_denied_not_forwarded *)
Definition eval_hist (h : hcase) : list bool :=
  let same_len := Nat.eqb (List.length (hc_ops h)) (List.length (hc_obs h)) in
  let chk := hcheck (hc_attl h) world0 [] (combine (hc_ops h) (hc_obs h)) in
  [ (same_len && list_eqb hobs_eqb (hrun (hc_attl h) (hc_dttl h) hstate0 (hc_ops h)) (hc_obs h))%bool;
    true; true; true; true;
    (same_len && fst chk)%bool; (same_len && snd chk)%bool ].

Inductive anycase :=
| Single (c : case)
| Hist (h : hcase).

Definition eval_any (a : anycase) : list bool :=
  match a with
  | Single c => eval c ++ [true; true]
  | Hist h => eval_hist h
  end.
